package cluster

import (
	"bytes"
	"context"
	"io"
	"net/http"
	"testing"

	"github.com/chrislusf/seaweedfs/weed/pb/filer_pb"
)

// Self-test of filer.go: PUT through the real filer HTTP handler, read back
// through HTTP and look the entry up over gRPC.
func TestFilerRoundTrip(t *testing.T) {
	c := MustNew(Options{VolumeServers: 1})
	defer c.Close()
	c.MustAddVolume(1, "", "000", "")
	f := c.MustStartFiler(FilerOptions{MaxMB: 1, NoDeletionLoop: true})
	body := bytes.Repeat([]byte("0123456789abcdef"), 100000) // 1.6 MB: two chunks at maxMB=1
	req, _ := http.NewRequest("PUT", f.Url("/dir/x.bin"), bytes.NewReader(body))
	resp, err := http.DefaultClient.Do(req)
	if err != nil {
		t.Fatal(err)
	}
	io.Copy(io.Discard, resp.Body)
	resp.Body.Close()
	if resp.StatusCode != 201 {
		t.Fatalf("PUT status %d", resp.StatusCode)
	}
	resp, err = http.Get(f.Url("/dir/x.bin"))
	if err != nil {
		t.Fatal(err)
	}
	got, _ := io.ReadAll(resp.Body)
	resp.Body.Close()
	if !bytes.Equal(got, body) {
		t.Fatalf("read back %d bytes, want %d", len(got), len(body))
	}
	err = f.WithClient(func(cl filer_pb.SeaweedFilerClient) error {
		r, err := cl.LookupDirectoryEntry(context.Background(), &filer_pb.LookupDirectoryEntryRequest{Directory: "/dir", Name: "x.bin"})
		if err != nil {
			return err
		}
		if len(r.Entry.Chunks) != 2 {
			t.Fatalf("chunks %d, want 2", len(r.Entry.Chunks))
		}
		return nil
	})
	if err != nil {
		t.Fatal(err)
	}
	if q := f.DrainDeletionQueue(); len(q) != 0 {
		t.Fatalf("unexpected deletions %v", q)
	}
}
