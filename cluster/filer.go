// filer.go (owned by group filersrv): a REAL filer on top of a Cluster — the
// real weed/server FilerServer (HTTP handlers + gRPC service) around a real
// filer.Filer with a leveldb2 store in a scratch dir, pointed at the fake
// master.  HTTP on 127.0.0.1:p, gRPC on p+10000.  See README.md ("Filer").
package cluster

import (
	"context"
	"fmt"
	"net"
	"net/http"
	"strconv"
	"time"

	"google.golang.org/grpc"

	"verif/mc"

	"github.com/chrislusf/seaweedfs/weed/filer"
	leveldb2 "github.com/chrislusf/seaweedfs/weed/filer/leveldb2"
	"github.com/chrislusf/seaweedfs/weed/pb"
	"github.com/chrislusf/seaweedfs/weed/pb/filer_pb"
	weed_server "github.com/chrislusf/seaweedfs/weed/server"
)

// FilerOptions configures StartFiler.  The zero value is what `weed filer`
// does with default flags (maxMB 4, no inline content, /buckets, leveldb2).
type FilerOptions struct {
	MaxMB                 int    // auto-chunk size in MiB (default 4)
	SaveToFilerLimit      int64  // files up to this size are stored inline in the entry (0 = never)
	Collection            string // default collection
	DefaultReplication    string // default replication ("" = ask the master: "000")
	Cipher                bool
	DirListingLimit       int // default 100000
	DisableDirListing     bool
	RecursiveDelete       bool   // filer.options.recursive_delete
	ConcurrentUploadLimit int64  // bytes in flight (0 = off)
	DirBucketsPath        string // default "/buckets"
	DataCenter, Rack      string

	// NoDeletionLoop leaves the chunk deletion queue alone (drain it yourself
	// with DrainDeletionQueue); by default the real loopProcessingDeletion
	// goroutine runs and deletes chunks on the volume servers about once a second.
	NoDeletionLoop bool
	// PersistMetaLog flushes the metadata log to /topics/.system/log/ through the
	// real logFlushFunc (once a minute / when 4 MiB fill up).  Default off.
	PersistMetaLog bool
	// NoAggregate skips filer.AggregateFromPeers: SubscribeMetadata (used by the
	// S3 gateway, mount, filer.sync) then has no aggregated log to read and
	// panics; only for harnesses that never subscribe.
	NoAggregate bool
	// WaitVolumes: StartFiler returns only after the filer's master client
	// knows a location for each of these volume ids (it learns them
	// asynchronously over KeepConnected).  Default: every volume the master
	// knows at the time of the call.
	WaitVolumes []uint32
}

// Filer is one running real filer.
type Filer struct {
	Port     int
	Addr     string // "127.0.0.1:port" (HTTP; what -filer flags and S3 options want)
	GrpcAddr string // "127.0.0.1:port+10000"
	Filer    *filer.Filer
	Server   *weed_server.FilerServer
	Store    *leveldb2.LevelDB2Store
	Option   *weed_server.FilerOption

	c     *Cluster
	httpS *http.Server
	grpcS *grpc.Server
}

// Url returns "http://127.0.0.1:port" + path.
func (f *Filer) Url(path string) string { return "http://" + f.Addr + path }

// Handler is the read-write HTTP handler (drive ServeHTTP without TCP).
func (f *Filer) Handler() http.Handler { return f.Server.HandlerV() }

// ReadonlyHandler is the handler `weed filer -port.readonly` serves.
func (f *Filer) ReadonlyHandler() http.Handler { return f.Server.ReadonlyHandlerV() }

// WithClient runs fn with a gRPC client of this filer (over loopback TCP).
func (f *Filer) WithClient(fn func(filer_pb.SeaweedFilerClient) error) error {
	return pb.WithGrpcFilerClient(f.GrpcAddr, f.c.GrpcDialOption, fn)
}

// DrainDeletionQueue removes and returns the file ids queued for asynchronous
// deletion (only meaningful with NoDeletionLoop).
func (f *Filer) DrainDeletionQueue() []string { return f.Filer.DrainDeletionQueueV() }

// KnowsVolume reports whether the filer's master client has a location for vid.
func (f *Filer) KnowsVolume(vid uint32) bool {
	_, ok := f.Filer.MasterClient.GetLocations(vid)
	return ok
}

// WaitForVolumes blocks until the filer's master client knows every vid (5 s limit).
func (f *Filer) WaitForVolumes(vids ...uint32) error {
	deadline := time.Now().Add(5 * time.Second)
	for _, vid := range vids {
		for !f.KnowsVolume(vid) {
			if time.Now().After(deadline) {
				return fmt.Errorf("filer does not learn the location of volume %d", vid)
			}
			time.Sleep(2 * time.Millisecond)
		}
	}
	return nil
}

// Stop stops the listeners and closes the store.  Idempotent; also run by Cluster.Close.
func (f *Filer) Stop() {
	if f.httpS == nil {
		return
	}
	f.httpS.Close()
	f.grpcS.Stop()
	f.Filer.Shutdown()
	f.httpS = nil
}

var filerSeq int

// StartFiler starts a real filer against this cluster.  Several filers may be
// started (each gets its own store directory and ports).
func (c *Cluster) StartFiler(opt FilerOptions) (*Filer, error) {
	if opt.MaxMB == 0 {
		opt.MaxMB = 4
	}
	if opt.DirListingLimit == 0 {
		opt.DirListingLimit = 100000
	}
	if opt.DirBucketsPath == "" {
		opt.DirBucketsPath = "/buckets"
	}
	if opt.DefaultReplication == "" {
		opt.DefaultReplication = c.Opt.DefaultReplication
		if opt.DefaultReplication == "" {
			opt.DefaultReplication = "000"
		}
	}
	httpL, grpcL, port, err := AllocPortPair()
	if err != nil {
		return nil, err
	}
	c.mu.Lock()
	filerSeq++
	seq := filerSeq
	c.mu.Unlock()
	store, err := leveldb2.NewLevelDB2StoreV(c.SubDir("filer" + strconv.Itoa(seq)))
	if err != nil {
		httpL.Close()
		grpcL.Close()
		return nil, err
	}
	f := &Filer{Port: port, Addr: Host + ":" + strconv.Itoa(port), GrpcAddr: Host + ":" + strconv.Itoa(port+10000), Store: store, c: c}
	var fs *weed_server.FilerServer
	f.Filer = filer.NewFilerV(store, filer.FilerOptionsV{
		Masters:           []string{c.MasterAddr()},
		GrpcDialOption:    c.GrpcDialOption,
		Host:              Host,
		GrpcPort:          uint32(port + 10000),
		Collection:        opt.Collection,
		Replication:       opt.DefaultReplication,
		DataCenter:        opt.DataCenter,
		DirBucketsPath:    opt.DirBucketsPath,
		Cipher:            opt.Cipher,
		PersistMetaLog:    opt.PersistMetaLog,
		StartDeletionLoop: !opt.NoDeletionLoop,
		NotifyFn: func() {
			if fs != nil {
				fs.NotifyListenersV()
			}
		},
	})
	f.Option = &weed_server.FilerOption{
		Masters:               []string{c.MasterAddr()},
		Collection:            opt.Collection,
		DefaultReplication:    opt.DefaultReplication,
		DisableDirListing:     opt.DisableDirListing,
		MaxMB:                 opt.MaxMB,
		DirListingLimit:       opt.DirListingLimit,
		DataCenter:            opt.DataCenter,
		Rack:                  opt.Rack,
		Host:                  Host,
		Port:                  uint32(port),
		Cipher:                opt.Cipher,
		SaveToFilerLimit:      opt.SaveToFilerLimit,
		ConcurrentUploadLimit: opt.ConcurrentUploadLimit,
	}
	fs = weed_server.NewFilerServerV(f.Filer, f.Option, c.GrpcDialOption, opt.RecursiveDelete)
	f.Server = fs
	go f.Filer.KeepConnectedToMaster() // as NewFilerServer does; retries for ever, harmless after Close

	f.grpcS = pb.NewGrpcServer()
	filer_pb.RegisterSeaweedFilerServer(f.grpcS, fs)
	go f.grpcS.Serve(grpcL)
	f.httpS = &http.Server{Handler: fs.HandlerV()}
	go func(l net.Listener) { f.httpS.Serve(l) }(httpL)

	if !opt.NoAggregate {
		f.Filer.AggregateFromPeers(f.Addr, nil)
	}
	f.Filer.LoadFilerConf()
	c.OnClose(f.Stop)

	// wait until the master client is connected and knows the volumes
	wait := opt.WaitVolumes
	if wait == nil {
		for _, vl := range c.Master.TopologyInfo().GetDataCenterInfos() {
			for _, rk := range vl.RackInfos {
				for _, dn := range rk.DataNodeInfos {
					for _, di := range dn.DiskInfos {
						for _, vi := range di.VolumeInfos {
							wait = append(wait, vi.Id)
						}
					}
				}
			}
		}
	}
	connected := make(chan struct{})
	go func() { f.Filer.MasterClient.WaitUntilConnected(); close(connected) }()
	select {
	case <-connected:
	case <-time.After(5 * time.Second):
		f.Stop()
		return nil, fmt.Errorf("filer does not connect to the master %s", c.MasterAddr())
	}
	if err := f.WaitForVolumes(wait...); err != nil {
		f.Stop()
		return nil, err
	}
	return f, nil
}

// MustStartFiler is StartFiler that treats failure as an infrastructure error.
func (c *Cluster) MustStartFiler(opt FilerOptions) *Filer {
	f, err := c.StartFiler(opt)
	if err != nil {
		mc.Fatal("cluster: start filer: %v", err)
	}
	return f
}

var _ = context.Background
