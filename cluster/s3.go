// s3.go (owned by group s3): the REAL S3 gateway (weed/s3api S3ApiServer with
// its real mux router, built exactly as `weed s3` does) in front of a Filer of
// this cluster.  Requests are driven through ServeHTTP (no TCP needed on the S3
// side); the gateway talks to the filer over loopback HTTP + gRPC as in
// production.  StartS3TCP additionally serves the same router on a loopback
// port for raw request lines.
package cluster

import (
	"bufio"
	"bytes"
	"fmt"
	"io"
	"net"
	"net/http"
	"net/http/httptest"
	"os"
	"path/filepath"
	"time"

	"github.com/gorilla/mux"

	"verif/mc"

	"github.com/chrislusf/seaweedfs/weed/s3api"
)

// S3Options configures StartS3.
type S3Options struct {
	// IdentitiesJSON is the content of the -config file (iam_pb.S3ApiConfiguration
	// as JSON).  Empty: no identities, authentication disabled.
	IdentitiesJSON   string
	DomainName       string
	Port             int // only used in virtual-host matching (default 8333)
	AllowEmptyFolder bool
	// FilerAddr / FilerGrpcAddr override the addresses the gateway uses for the
	// filer (default: f.Addr / f.GrpcAddr), e.g. to put a recording front before it.
	FilerAddr     string
	FilerGrpcAddr string
}

// S3 is one real gateway.
type S3 struct {
	Router *mux.Router
	Server *s3api.S3ApiServer
	Filer  *Filer
	Option *s3api.S3ApiServerOption

	c    *Cluster
	tcp  *http.Server
	Addr string // set by ServeTCP
}

var s3Seq int

// StartS3 builds the gateway against filer f.
func (c *Cluster) StartS3(f *Filer, opt S3Options) (*S3, error) {
	if opt.Port == 0 {
		opt.Port = 8333
	}
	o := &s3api.S3ApiServerOption{
		Filer:            f.Addr,
		Port:             opt.Port,
		FilerGrpcAddress: f.GrpcAddr,
		DomainName:       opt.DomainName,
		BucketsPath:      f.Filer.DirBucketsPath,
		GrpcDialOption:   c.GrpcDialOption,
		AllowEmptyFolder: opt.AllowEmptyFolder,
	}
	if opt.FilerAddr != "" {
		o.Filer = opt.FilerAddr
	}
	if opt.FilerGrpcAddr != "" {
		o.FilerGrpcAddress = opt.FilerGrpcAddr
	}
	if opt.IdentitiesJSON != "" {
		c.mu.Lock()
		s3Seq++
		seq := s3Seq
		c.mu.Unlock()
		p := filepath.Join(c.SubDir("s3conf"), fmt.Sprintf("identities-%d.json", seq))
		if err := os.WriteFile(p, []byte(opt.IdentitiesJSON), 0644); err != nil {
			return nil, err
		}
		o.Config = p
	}
	router := mux.NewRouter().SkipClean(true) // as weed/command/s3.go
	srv, err := s3api.NewS3ApiServer(router, o)
	if err != nil {
		return nil, err
	}
	s := &S3{Router: router, Server: srv, Filer: f, Option: o, c: c}
	c.OnClose(s.Stop)
	return s, nil
}

// MustStartS3 is StartS3 that treats failure as an infrastructure error.
func (c *Cluster) MustStartS3(f *Filer, opt S3Options) *S3 {
	s, err := c.StartS3(f, opt)
	if err != nil {
		mc.Fatal("cluster: start s3: %v", err)
	}
	return s
}

// ServeHTTP hands a request to the real router.
func (s *S3) ServeHTTP(w http.ResponseWriter, r *http.Request) { s.Router.ServeHTTP(w, r) }

// Do runs one request through the router and returns the recorded response.
func (s *S3) Do(r *http.Request) *httptest.ResponseRecorder {
	rec := httptest.NewRecorder()
	if r.RemoteAddr == "" {
		r.RemoteAddr = "127.0.0.1:1"
	}
	s.Router.ServeHTTP(rec, r)
	return rec
}

// DoRaw parses wire bytes the way net/http's server does (http.ReadRequest: the
// request target is kept as sent, RequestURI/URL.RawPath are set) and runs the request.
func (s *S3) DoRaw(wire []byte) (*httptest.ResponseRecorder, error) {
	req, err := http.ReadRequest(bufio.NewReader(bytes.NewReader(wire)))
	if err != nil {
		return nil, err
	}
	return s.Do(req), nil
}

// ServeTCP serves the router on a loopback port with a plain net/http server
// (what `weed s3` does); returns "127.0.0.1:port".
func (s *S3) ServeTCP() (string, error) {
	if s.tcp != nil {
		return s.Addr, nil
	}
	l, err := net.Listen("tcp", Host+":0")
	if err != nil {
		return "", err
	}
	s.tcp = &http.Server{Handler: s.Router}
	s.Addr = l.Addr().String()
	go s.tcp.Serve(l)
	return s.Addr, nil
}

// RawTCP writes wire bytes to the TCP listener (ServeTCP must have been called)
// and returns the parsed response.  The request must carry "Connection: close"
// or a Content-Length so that the response ends.
func (s *S3) RawTCP(wire []byte, method string) (*http.Response, []byte, error) {
	conn, err := net.DialTimeout("tcp", s.Addr, 5*time.Second)
	if err != nil {
		return nil, nil, err
	}
	defer conn.Close()
	conn.SetDeadline(time.Now().Add(30 * time.Second))
	if _, err := conn.Write(wire); err != nil {
		return nil, nil, err
	}
	resp, err := http.ReadResponse(bufio.NewReader(conn), &http.Request{Method: method})
	if err != nil {
		return nil, nil, err
	}
	body, _ := io.ReadAll(resp.Body)
	resp.Body.Close()
	return resp, body, nil
}

// Stop closes the TCP listener if any (the router itself holds no resources;
// the gateway's metadata subscription goroutine ends with the process).
func (s *S3) Stop() {
	if s.tcp != nil {
		s.tcp.Close()
		s.tcp = nil
	}
}
