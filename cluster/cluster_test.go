//go:build verif

package cluster

import (
	"bytes"
	"context"
	"io"
	"net/http"
	"strings"
	"testing"
	"time"

	"github.com/chrislusf/seaweedfs/weed/operation"
	"github.com/chrislusf/seaweedfs/weed/pb/volume_server_pb"
	"github.com/chrislusf/seaweedfs/weed/wdclient"
)

// run: cd /verif && go test -tags verif ./cluster/
func TestClusterRoundTrip(t *testing.T) {
	c, err := New(Options{VolumeServers: 2, WriteKey: "wkey"})
	if err != nil {
		t.Fatal(err)
	}
	defer c.Close()
	for vid := uint32(1); vid <= 5; vid++ { // > 3: the new-volume channel must be drained
		if err := c.AddVolume(vid, "", "000", "", int(vid)%2); err != nil {
			t.Fatal(err)
		}
	}
	if err := c.AddVolume(7, "col", "001", "", 0, 1); err != nil {
		t.Fatal(err)
	}

	// assign over gRPC (operation.Assign) and over HTTP
	ar, err := operation.Assign(c.MasterFn(), c.GrpcDialOption, &operation.VolumeAssignRequest{Count: 1})
	if err != nil {
		t.Fatal(err)
	}
	if ar.Fid == "" || ar.Url == "" || ar.Auth == "" {
		t.Fatalf("assign: %+v", ar)
	}
	resp, err := http.Get("http://" + c.MasterAddr() + "/dir/assign?collection=col&replication=001")
	if err != nil {
		t.Fatal(err)
	}
	b, _ := io.ReadAll(resp.Body)
	resp.Body.Close()
	if resp.StatusCode != 200 || !strings.Contains(string(b), `"fid":"7,`) || resp.Header.Get("Authorization") == "" {
		t.Fatalf("http assign: %d %s", resp.StatusCode, b)
	}

	// upload through the client path, read through plain HTTP
	data := bytes.Repeat([]byte("hello seaweed "), 100)
	ur, err := operation.UploadData("http://"+ar.Url+"/"+ar.Fid, "a.txt", false, data, false, "text/plain", nil, ar.Auth)
	if err != nil || ur.Error != "" {
		t.Fatalf("upload: %v %+v", err, ur)
	}
	got, err := http.Get("http://" + ar.Url + "/" + ar.Fid)
	if err != nil {
		t.Fatal(err)
	}
	gb, _ := io.ReadAll(got.Body)
	got.Body.Close()
	if got.StatusCode != 200 || !bytes.Equal(gb, data) {
		t.Fatalf("read back: %d len %d", got.StatusCode, len(gb))
	}
	// a write without token is refused
	if ur, err := operation.UploadData("http://"+ar.Url+"/"+ar.Fid, "a.txt", false, data, false, "text/plain", nil, ""); err == nil {
		t.Fatalf("unsigned write accepted: %+v", ur)
	}

	// lookup (HTTP via operation.Lookup) sees both replicas
	lr, err := operation.Lookup(c.MasterFn(), "7")
	if err != nil || len(lr.Locations) != 2 {
		t.Fatalf("lookup: %v %+v", err, lr)
	}

	// replicated write reaches both servers
	fid := Fid(7, 100, 0xabcd)
	if _, err := operation.UploadData(c.Servers[0].HttpUrl(fid), "", false, []byte("replicated"), false, "", nil, c.WriteJwt(fid)); err != nil {
		t.Fatal(err)
	}
	for _, s := range c.Servers {
		r, err := http.Get(s.HttpUrl(fid))
		if err != nil {
			t.Fatal(err)
		}
		rb, _ := io.ReadAll(r.Body)
		r.Body.Close()
		if string(rb) != "replicated" {
			t.Fatalf("server %d: %d %q", s.Index, r.StatusCode, rb)
		}
	}

	// volume server gRPC
	err = c.Servers[0].WithClient(func(cl volume_server_pb.VolumeServerClient) error {
		st, err := cl.VolumeSyncStatus(context.Background(), &volume_server_pb.VolumeSyncStatusRequest{VolumeId: 7})
		if err != nil {
			return err
		}
		if st.Collection != "col" || st.Replication != "001" {
			t.Fatalf("sync status %+v", st)
		}
		return nil
	})
	if err != nil {
		t.Fatal(err)
	}

	// KeepConnected through the real master client
	mcl := wdclient.NewMasterClient(c.GrpcDialOption, "test", Host, 0, "", []string{c.MasterAddr()})
	go mcl.KeepConnectedToMaster()
	mcl.WaitUntilConnected()
	deadline := time.Now().Add(5 * time.Second)
	for {
		if locs, ok := mcl.GetLocations(7); ok && len(locs) == 2 {
			break
		}
		if time.Now().After(deadline) {
			t.Fatal("master client never learned volume 7")
		}
		time.Sleep(10 * time.Millisecond)
	}
	// updates are pushed
	if err := c.AddVolume(9, "", "000", "", 1); err != nil {
		t.Fatal(err)
	}
	for {
		if locs, ok := mcl.GetLocations(9); ok && len(locs) == 1 && locs[0].Url == c.Servers[1].Url() {
			break
		}
		if time.Now().After(deadline) {
			t.Fatal("master client never learned volume 9")
		}
		time.Sleep(10 * time.Millisecond)
	}

	// refused connections and restart
	c.Servers[1].StopHTTP()
	if _, err := http.Get(c.Servers[1].HttpUrl(fid)); err == nil {
		t.Fatal("stopped server still answers")
	}
	if err := c.Servers[1].StartHTTP(); err != nil {
		t.Fatal(err)
	}
	if r, err := http.Get(c.Servers[1].HttpUrl(fid)); err != nil || r.StatusCode != 200 {
		t.Fatalf("restarted server: %v", err)
	}
}
