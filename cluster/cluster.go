// Package cluster is the E7 engine: an in-process SeaweedFS mini cluster on
// loopback.  A FAKE master (deterministic file ids, a volume-location table the
// harness controls; gRPC + HTTP) and N REAL volume servers (real storage.Store
// in a scratch dir, the real HTTP handlers and the real gRPC VolumeServer
// service, built by the verif hook weed_server.NewVolumeServerV without the
// heartbeat loop).  See README.md in this directory.
//
// This file (cluster.go) is owned by the volhttp group; filer.go / s3.go are
// added next to it by others.
package cluster

import (
	"context"
	"encoding/json"
	"fmt"
	"net"
	"net/http"
	"os"
	"path/filepath"
	"sort"
	"strconv"
	"strings"
	"sync"
	"time"

	"google.golang.org/grpc"

	"verif/mc"

	"github.com/chrislusf/seaweedfs/weed/glog"
	"github.com/chrislusf/seaweedfs/weed/operation"
	"github.com/chrislusf/seaweedfs/weed/pb"
	"github.com/chrislusf/seaweedfs/weed/pb/master_pb"
	"github.com/chrislusf/seaweedfs/weed/pb/volume_server_pb"
	"github.com/chrislusf/seaweedfs/weed/security"
	weed_server "github.com/chrislusf/seaweedfs/weed/server"
	"github.com/chrislusf/seaweedfs/weed/storage"
	"github.com/chrislusf/seaweedfs/weed/storage/needle"
	"github.com/chrislusf/seaweedfs/weed/storage/super_block"
	"github.com/chrislusf/seaweedfs/weed/storage/types"
	"github.com/chrislusf/seaweedfs/weed/util"
)

// Host is the only address anything listens on.
const Host = "127.0.0.1"

// ---------------------------------------------------------------------------
// Options

// Options configures New.  The zero value gives one volume server, no JWT keys,
// no white list, 256 MiB file size limit, in-memory needle maps, quiet logs.
type Options struct {
	VolumeServers int // number of real volume servers (default 1)

	// security (the same values are used by the fake master to sign tokens and
	// by every volume server's Guard to verify them)
	WriteKey        string // jwt.signing.key ("" = writes need no token)
	ReadKey         string // jwt.signing.read.key ("" = reads need no token)
	WriteExpiresSec int    // default 10
	ReadExpiresSec  int    // default 60
	WhiteList       []string

	// volume server knobs
	FileSizeLimitBytes    int64  // default 256 MiB (the -fileSizeLimitMB default)
	ConcurrentUploadLimit int64  // default 0 = unlimited
	ReadMode              string // "proxy" (default) | "redirect" | "local"
	FixJpgOrientation     bool
	NeedleMapKind         storage.NeedleMapKind // default in-memory
	MaxVolumesPerServer   int                   // default 100
	// DataCenters[i] / Racks[i] name the placement of server i (defaults "dc1"/"rack1").
	DataCenters []string
	Racks       []string

	// fake master knobs
	DefaultReplication string // default "000"
	VolumeSizeLimitMB  uint64 // reported by VolumeList / used by Statistics; default 30000

	// KeepLogs leaves glog alone.  By default INFO/WARNING/ERROR lines are
	// discarded (FATAL still reaches stderr and exits).
	KeepLogs bool
}

// ---------------------------------------------------------------------------
// Cluster

// Cluster is a fake master plus real volume servers.
type Cluster struct {
	Opt     Options
	Dir     string // scratch root (removed by Close)
	Master  *Master
	Servers []*VolumeServer

	// GrpcDialOption is what every client of this cluster passes where the
	// SeaweedFS API wants a grpc.DialOption (plaintext).
	GrpcDialOption grpc.DialOption

	mu      sync.Mutex
	closers []func()
	closed  bool
}

// New starts a cluster.
func New(opt Options) (*Cluster, error) {
	if opt.VolumeServers <= 0 {
		opt.VolumeServers = 1
	}
	if opt.WriteExpiresSec == 0 {
		opt.WriteExpiresSec = 10
	}
	if opt.ReadExpiresSec == 0 {
		opt.ReadExpiresSec = 60
	}
	if opt.FileSizeLimitBytes == 0 {
		opt.FileSizeLimitBytes = 256 << 20
	}
	if opt.ReadMode == "" {
		opt.ReadMode = "proxy"
	}
	if opt.MaxVolumesPerServer <= 0 {
		opt.MaxVolumesPerServer = 100
	}
	if opt.DefaultReplication == "" {
		opt.DefaultReplication = "000"
	}
	if opt.VolumeSizeLimitMB == 0 {
		opt.VolumeSizeLimitMB = 30000
	}
	if !opt.KeepLogs {
		QuietLogs()
	}
	// the volume-location cache behind operation.Lookup is process global
	operation.ResetVidCacheV()

	c := &Cluster{Opt: opt, Dir: mc.TempDir("cluster"), GrpcDialOption: grpc.WithInsecure()}
	m, err := newMaster(c)
	if err != nil {
		c.Close()
		return nil, err
	}
	c.Master = m
	for i := 0; i < opt.VolumeServers; i++ {
		if _, err := c.AddVolumeServer(); err != nil {
			c.Close()
			return nil, err
		}
	}
	return c, nil
}

// MustNew is New that treats failure as an infrastructure error (exit 2).
func MustNew(opt Options) *Cluster {
	c, err := New(opt)
	if err != nil {
		mc.Fatal("cluster: %v", err)
	}
	return c
}

var quietOnce sync.Once

// QuietLogs discards glog output below FATAL for the rest of the process.
func QuietLogs() { quietOnce.Do(glog.DiscardLogsV) }

// MasterAddr is the fake master's HTTP address "127.0.0.1:port" (gRPC = port+10000).
func (c *Cluster) MasterAddr() string { return c.Master.Addr }

// MasterFn is an operation.GetMasterFn for this cluster.
func (c *Cluster) MasterFn() operation.GetMasterFn { return func() string { return c.Master.Addr } }

// SubDir creates (once) and returns a scratch sub directory, removed by Close.
func (c *Cluster) SubDir(name string) string {
	d := filepath.Join(c.Dir, name)
	if err := os.MkdirAll(d, 0755); err != nil {
		mc.Fatal("cluster: mkdir %s: %v", d, err)
	}
	return d
}

// OnClose registers a function run by Close (in reverse order) before the
// volume servers and the master stop; for components layered on top (filer …).
func (c *Cluster) OnClose(f func()) {
	c.mu.Lock()
	c.closers = append(c.closers, f)
	c.mu.Unlock()
}

// Close stops everything and removes the scratch directories.  Idempotent.
func (c *Cluster) Close() {
	c.mu.Lock()
	if c.closed {
		c.mu.Unlock()
		return
	}
	c.closed = true
	cl := c.closers
	c.closers = nil
	c.mu.Unlock()
	for i := len(cl) - 1; i >= 0; i-- {
		cl[i]()
	}
	for _, v := range c.Servers {
		v.stop()
	}
	if c.Master != nil {
		c.Master.stop()
	}
	os.RemoveAll(c.Dir)
}

// AddVolume creates volume vid (real Store.AddVolume) on the given servers
// (indexes into c.Servers; none = server 0) and registers the locations with
// the fake master.  replication is the three-digit string ("" = "000"), ttl a
// TTL string ("" = none).
func (c *Cluster) AddVolume(vid uint32, collection, replication, ttl string, servers ...int) error {
	if len(servers) == 0 {
		servers = []int{0}
	}
	if replication == "" {
		replication = "000"
	}
	for _, i := range servers {
		if i < 0 || i >= len(c.Servers) {
			return fmt.Errorf("no volume server %d", i)
		}
		s := c.Servers[i]
		if err := s.Store.AddVolume(needle.VolumeId(vid), collection, c.Opt.NeedleMapKind, replication, ttl, 0, 0, types.HardDriveType); err != nil {
			return fmt.Errorf("server %d add volume %d: %v", i, vid, err)
		}
	}
	c.SyncVolumes()
	return nil
}

// MustAddVolume is AddVolume that treats failure as an infrastructure error.
func (c *Cluster) MustAddVolume(vid uint32, collection, replication, ttl string, servers ...int) {
	if err := c.AddVolume(vid, collection, replication, ttl, servers...); err != nil {
		mc.Fatal("cluster: %v", err)
	}
}

// SyncVolumes rebuilds the fake master's tables from what the volume servers'
// stores really hold (volumes and EC shards), e.g. after volumes were created,
// deleted, moved or EC-encoded through the volume servers' gRPC API.  Location
// overrides set with Master.SetLocations are kept.
func (c *Cluster) SyncVolumes() { c.Master.sync() }

// ---------------------------------------------------------------------------
// ports

var (
	portMu   sync.Mutex
	portNext = -1
)

const (
	portLo = 12000 // HTTP ports 12000..21999, gRPC = +10000 -> 22000..31999; both
	portN  = 10000 // below the ephemeral range (32768+), so outgoing connections never collide
)

// AllocPortPair listens on a free loopback port p and on p+10000 (the SeaweedFS
// convention for a server's gRPC port) and returns both listeners.  Ports are
// never reused inside a process; other processes are avoided by bind failure.
func AllocPortPair() (httpL, grpcL net.Listener, port int, err error) {
	portMu.Lock()
	defer portMu.Unlock()
	if portNext < 0 {
		portNext = (os.Getpid() * 613) % portN
	}
	for tries := 0; tries < portN; tries++ {
		p := portLo + portNext
		portNext = (portNext + 1) % portN
		l1, e1 := net.Listen("tcp", Host+":"+strconv.Itoa(p))
		if e1 != nil {
			continue
		}
		l2, e2 := net.Listen("tcp", Host+":"+strconv.Itoa(p+10000))
		if e2 != nil {
			l1.Close()
			continue
		}
		return l1, l2, p, nil
	}
	return nil, nil, 0, fmt.Errorf("no free loopback port pair")
}

// ---------------------------------------------------------------------------
// volume servers

// VolumeServer is one real volume server.
type VolumeServer struct {
	Index      int
	Port       int    // HTTP port; gRPC is Port+10000
	Dir        string // data directory
	DataCenter string
	Rack       string
	Store      *storage.Store
	Guard      *security.Guard
	Server     *weed_server.VolumeServer // real handlers (HTTP) and gRPC service

	c       *Cluster
	httpSrv *http.Server
	grpcSrv *grpc.Server
	stopped chan struct{}
	mu      sync.Mutex
	httpUp  bool
}

// Url is "127.0.0.1:port", the form used in lookups and as operation.Location.Url.
func (v *VolumeServer) Url() string { return Host + ":" + strconv.Itoa(v.Port) }

// HttpUrl is "http://127.0.0.1:port/<path>".
func (v *VolumeServer) HttpUrl(path string) string {
	return "http://" + v.Url() + "/" + strings.TrimPrefix(path, "/")
}

// GrpcAddress is "127.0.0.1:port+10000".
func (v *VolumeServer) GrpcAddress() string { return Host + ":" + strconv.Itoa(v.Port+10000) }

// Handler is the admin-port HTTP handler (GET/HEAD/POST/PUT/DELETE, /status),
// for driving the server through ServeHTTP without TCP.
func (v *VolumeServer) Handler() http.Handler { return v.Server.PrivateHandlerV() }

// PublicHandler is the read-only public-port handler (not served on any port).
func (v *VolumeServer) PublicHandler() http.Handler { return v.Server.PublicHandlerV() }

// WithClient runs fn with a gRPC client of this volume server.
func (v *VolumeServer) WithClient(fn func(volume_server_pb.VolumeServerClient) error) error {
	return operation.WithVolumeServerClient(v.Url(), v.c.GrpcDialOption, fn)
}

// AddVolumeServer starts one more real volume server.
func (c *Cluster) AddVolumeServer() (*VolumeServer, error) {
	i := len(c.Servers)
	httpL, grpcL, port, err := AllocPortPair()
	if err != nil {
		return nil, err
	}
	v := &VolumeServer{Index: i, Port: port, c: c, DataCenter: "dc1", Rack: "rack1", stopped: make(chan struct{})}
	if i < len(c.Opt.DataCenters) && c.Opt.DataCenters[i] != "" {
		v.DataCenter = c.Opt.DataCenters[i]
	}
	if i < len(c.Opt.Racks) && c.Opt.Racks[i] != "" {
		v.Rack = c.Opt.Racks[i]
	}
	v.Dir = c.SubDir(fmt.Sprintf("vol%d", i))
	v.Store = storage.NewStore(c.GrpcDialOption, port, Host, v.Url(), []string{v.Dir}, []int{c.Opt.MaxVolumesPerServer},
		[]util.MinFreeSpace{{Type: util.AsPercent, Percent: 0, Raw: "0"}}, "", c.Opt.NeedleMapKind, []types.DiskType{types.HardDriveType})
	v.Store.SetVolumeSizeLimit(c.Opt.VolumeSizeLimitMB * 1024 * 1024)
	v.Guard = security.NewGuard(c.Opt.WhiteList, c.Opt.WriteKey, c.Opt.WriteExpiresSec, c.Opt.ReadKey, c.Opt.ReadExpiresSec)
	v.Server = weed_server.NewVolumeServerV(v.Store, v.Guard, weed_server.VolumeServerOptionsV{
		Master:                c.Master.Addr,
		GrpcDialOption:        c.GrpcDialOption,
		DataCenter:            v.DataCenter,
		Rack:                  v.Rack,
		NeedleMapKind:         c.Opt.NeedleMapKind,
		FixJpgOrientation:     c.Opt.FixJpgOrientation,
		ReadMode:              c.Opt.ReadMode,
		FileSizeLimitBytes:    c.Opt.FileSizeLimitBytes,
		ConcurrentUploadLimit: c.Opt.ConcurrentUploadLimit,
	})
	// The heartbeat loop normally drains these (capacity 3); without a drain the
	// 4th AddVolume would block for ever.
	go func() {
		for {
			select {
			case <-v.Store.NewVolumesChan:
			case <-v.Store.DeletedVolumesChan:
			case <-v.Store.NewEcShardsChan:
			case <-v.Store.DeletedEcShardsChan:
			case <-v.stopped:
				return
			}
		}
	}()
	v.grpcSrv = pb.NewGrpcServer()
	volume_server_pb.RegisterVolumeServerServer(v.grpcSrv, v.Server)
	go v.grpcSrv.Serve(grpcL)
	v.serveHTTP(httpL)
	c.Servers = append(c.Servers, v)
	c.Master.sync()
	return v, nil
}

func (v *VolumeServer) serveHTTP(l net.Listener) {
	v.mu.Lock()
	defer v.mu.Unlock()
	v.httpSrv = &http.Server{Handler: v.Server.PrivateHandlerV()}
	v.httpUp = true
	go v.httpSrv.Serve(l)
}

// StopHTTP closes the HTTP listener and all its connections: further requests
// to Url() are refused.  The store and the gRPC service stay up.
func (v *VolumeServer) StopHTTP() {
	v.mu.Lock()
	defer v.mu.Unlock()
	if v.httpUp {
		v.httpSrv.Close()
		v.httpUp = false
	}
}

// StartHTTP listens again on the same port after StopHTTP.
func (v *VolumeServer) StartHTTP() error {
	v.mu.Lock()
	up := v.httpUp
	v.mu.Unlock()
	if up {
		return nil
	}
	var l net.Listener
	var err error
	for i := 0; i < 50; i++ {
		if l, err = net.Listen("tcp", v.Url()); err == nil {
			break
		}
		time.Sleep(10 * time.Millisecond)
	}
	if err != nil {
		return err
	}
	v.serveHTTP(l)
	return nil
}

func (v *VolumeServer) stop() {
	v.StopHTTP()
	v.grpcSrv.Stop()
	close(v.stopped)
	v.Store.Close()
}

// ---------------------------------------------------------------------------
// fake master

// Location is one entry of the master's location table.
type Location struct {
	Url        string
	PublicUrl  string
	DataCenter string
}

type volEntry struct {
	vid         uint32
	collection  string
	replication string // 3 digits
	ttl         string // canonical TTL string, "" = none
	diskType    string
	readOnly    bool
	locs        []Location // from the stores
	override    []Location // from SetLocations (nil = none)
}

func (e *volEntry) locations() []Location {
	if e.override != nil {
		return e.override
	}
	return e.locs
}

// Master is the fake master: deterministic file ids and a location table.
type Master struct {
	Addr     string // "127.0.0.1:port" (HTTP); gRPC is port+10000
	Port     int
	GrpcAddr string

	// RoundRobin makes Assign rotate over the matching writable volumes instead
	// of always taking the lowest volume id.
	RoundRobin bool
	// CookieFn computes the cookie of a newly assigned key (default: a fixed
	// non-zero hash of the key).
	CookieFn func(key uint64) uint32

	master_pb.UnimplementedSeaweedServer

	c       *Cluster
	mu      sync.Mutex
	vols    map[uint32]*volEntry
	ec      map[uint32]map[uint32][]Location // vid -> shard id -> locations
	nextKey uint64
	rr      int
	subs    map[chan *master_pb.VolumeLocation]struct{}
	sent    map[string]map[uint32]bool // url -> vids announced to subscribers
	nAssign int64
	nLookup int64

	httpSrv *http.Server
	grpcSrv *grpc.Server
	done    chan struct{}
}

func defaultCookie(key uint64) uint32 {
	c := uint32(key*0x9E3779B1) ^ 0x5bd1e995
	if c == 0 {
		c = 1
	}
	return c
}

func newMaster(c *Cluster) (*Master, error) {
	httpL, grpcL, port, err := AllocPortPair()
	if err != nil {
		return nil, err
	}
	m := &Master{c: c, Port: port, Addr: Host + ":" + strconv.Itoa(port), GrpcAddr: Host + ":" + strconv.Itoa(port+10000),
		vols: map[uint32]*volEntry{}, ec: map[uint32]map[uint32][]Location{}, nextKey: 1,
		subs: map[chan *master_pb.VolumeLocation]struct{}{}, sent: map[string]map[uint32]bool{}, done: make(chan struct{}),
		CookieFn: defaultCookie}
	mux := http.NewServeMux()
	mux.HandleFunc("/dir/assign", m.httpAssign)
	mux.HandleFunc("/dir/lookup", m.httpLookup)
	mux.HandleFunc("/cluster/status", m.httpClusterStatus)
	mux.HandleFunc("/dir/status", m.httpDirStatus)
	m.httpSrv = &http.Server{Handler: mux}
	go m.httpSrv.Serve(httpL)
	m.grpcSrv = pb.NewGrpcServer()
	master_pb.RegisterSeaweedServer(m.grpcSrv, m)
	go m.grpcSrv.Serve(grpcL)
	return m, nil
}

func (m *Master) stop() {
	close(m.done)
	m.httpSrv.Close()
	m.grpcSrv.Stop()
}

// SetNextKey sets the needle key the next Assign hands out (keys then increase).
func (m *Master) SetNextKey(k uint64) {
	m.mu.Lock()
	m.nextKey = k
	m.mu.Unlock()
}

// Counts reports how many assign and lookup requests (HTTP + gRPC) were served.
func (m *Master) Counts() (assigns, lookups int64) {
	m.mu.Lock()
	defer m.mu.Unlock()
	return m.nAssign, m.nLookup
}

// SetLocations overrides the locations the master reports for vid (e.g. to
// route replica traffic through a fault-injecting proxy).  No urls = remove the
// override.  Also empties the process-global lookup cache of operation.Lookup.
func (m *Master) SetLocations(vid uint32, urls ...string) {
	m.mu.Lock()
	e := m.vols[vid]
	if e == nil {
		e = &volEntry{vid: vid, replication: "000"}
		m.vols[vid] = e
	}
	if len(urls) == 0 {
		e.override = nil
	} else {
		e.override = []Location{}
		for _, u := range urls {
			e.override = append(e.override, Location{Url: u, PublicUrl: u, DataCenter: m.dcOf(u)})
		}
	}
	m.mu.Unlock()
	operation.ResetVidCacheV()
	m.publish()
}

// SetReadOnly makes Assign skip (or use again) volume vid.
func (m *Master) SetReadOnly(vid uint32, ro bool) {
	m.mu.Lock()
	if e := m.vols[vid]; e != nil {
		e.readOnly = ro
	}
	m.mu.Unlock()
}

// Locations returns what a lookup of vid answers.
func (m *Master) Locations(vid uint32) []Location {
	m.mu.Lock()
	defer m.mu.Unlock()
	if e := m.vols[vid]; e != nil {
		return append([]Location{}, e.locations()...)
	}
	return nil
}

func (m *Master) dcOf(url string) string {
	for _, s := range m.c.Servers {
		if s.Url() == url {
			return s.DataCenter
		}
	}
	return ""
}

// sync rebuilds vols/ec from the stores, keeping overrides.
func (m *Master) sync() {
	m.mu.Lock()
	old := m.vols
	m.vols = map[uint32]*volEntry{}
	m.ec = map[uint32]map[uint32][]Location{}
	for _, s := range m.c.Servers {
		loc := Location{Url: s.Url(), PublicUrl: s.Url(), DataCenter: s.DataCenter}
		for _, vi := range s.Store.VolumeInfos() { // side-effect free, sorted by id
			id := uint32(vi.Id)
			e := m.vols[id]
			if e == nil {
				rps := "000"
				if vi.ReplicaPlacement != nil {
					rps = vi.ReplicaPlacement.String()
				}
				e = &volEntry{vid: id, collection: vi.Collection, replication: rps, ttl: vi.Ttl.String(), diskType: vi.DiskType}
				m.vols[id] = e
			}
			if vi.ReadOnly {
				e.readOnly = true
			}
			e.locs = append(e.locs, loc)
		}
		for _, es := range s.Store.CollectErasureCodingHeartbeat().EcShards {
			sh := m.ec[es.Id]
			if sh == nil {
				sh = map[uint32][]Location{}
				m.ec[es.Id] = sh
			}
			for b := uint32(0); b < 32; b++ {
				if es.EcIndexBits&(1<<b) != 0 {
					sh[b] = append(sh[b], loc)
				}
			}
		}
	}
	for vid, o := range old {
		if e := m.vols[vid]; e != nil {
			e.override = o.override
			if o.readOnly {
				e.readOnly = true
			}
		} else if o.override != nil {
			m.vols[vid] = &volEntry{vid: vid, collection: o.collection, replication: o.replication, ttl: o.ttl, override: o.override}
		}
	}
	m.mu.Unlock()
	operation.ResetVidCacheV()
	m.publish()
}

// current url -> (loc, vid set), for KeepConnected
func (m *Master) snapshotLocked() (map[string]Location, map[string]map[uint32]bool) {
	locs := map[string]Location{}
	vids := map[string]map[uint32]bool{}
	add := func(l Location, vid uint32) {
		locs[l.Url] = l
		if vids[l.Url] == nil {
			vids[l.Url] = map[uint32]bool{}
		}
		vids[l.Url][vid] = true
	}
	for vid, e := range m.vols {
		for _, l := range e.locations() {
			add(l, vid)
		}
	}
	for vid, sh := range m.ec {
		for _, ls := range sh {
			for _, l := range ls {
				add(l, vid)
			}
		}
	}
	return locs, vids
}

func sortedVids(s map[uint32]bool) []uint32 {
	var out []uint32
	for v := range s {
		out = append(out, v)
	}
	sort.Slice(out, func(i, j int) bool { return out[i] < out[j] })
	return out
}

// publish sends the difference between what subscribers were told and the
// current table to every KeepConnected stream.
func (m *Master) publish() {
	m.mu.Lock()
	defer m.mu.Unlock()
	locs, vids := m.snapshotLocked()
	urls := map[string]bool{}
	for u := range vids {
		urls[u] = true
	}
	for u := range m.sent {
		urls[u] = true
	}
	var us []string
	for u := range urls {
		us = append(us, u)
	}
	sort.Strings(us)
	for _, u := range us {
		msg := &master_pb.VolumeLocation{Url: u, PublicUrl: u}
		if l, ok := locs[u]; ok {
			msg.PublicUrl, msg.DataCenter = l.PublicUrl, l.DataCenter
		}
		for _, v := range sortedVids(vids[u]) {
			if !m.sent[u][v] {
				msg.NewVids = append(msg.NewVids, v)
			}
		}
		for _, v := range sortedVids(m.sent[u]) {
			if !vids[u][v] {
				msg.DeletedVids = append(msg.DeletedVids, v)
			}
		}
		if len(msg.NewVids) == 0 && len(msg.DeletedVids) == 0 {
			continue
		}
		for ch := range m.subs {
			select {
			case ch <- msg:
			default: // a subscriber that does not drain 1024 messages is dropped from updates
			}
		}
	}
	m.sent = vids
}

// ---- gRPC ------------------------------------------------------------------

func (m *Master) KeepConnected(stream master_pb.Seaweed_KeepConnectedServer) error {
	if _, err := stream.Recv(); err != nil {
		return err
	}
	ch := make(chan *master_pb.VolumeLocation, 1024)
	m.mu.Lock()
	locs, vids := m.snapshotLocked()
	var us []string
	for u := range vids {
		us = append(us, u)
	}
	sort.Strings(us)
	var initial []*master_pb.VolumeLocation
	for _, u := range us {
		initial = append(initial, &master_pb.VolumeLocation{Url: u, PublicUrl: locs[u].PublicUrl, DataCenter: locs[u].DataCenter, NewVids: sortedVids(vids[u])})
	}
	m.subs[ch] = struct{}{}
	m.mu.Unlock()
	defer func() {
		m.mu.Lock()
		delete(m.subs, ch)
		m.mu.Unlock()
	}()
	for _, msg := range initial {
		if err := stream.Send(msg); err != nil {
			return err
		}
	}
	gone := make(chan struct{})
	go func() {
		for {
			if _, err := stream.Recv(); err != nil {
				close(gone)
				return
			}
		}
	}()
	for {
		select {
		case msg := <-ch:
			if err := stream.Send(msg); err != nil {
				return err
			}
		case <-gone:
			return nil
		case <-m.done:
			return nil
		}
	}
}

func (m *Master) SendHeartbeat(stream master_pb.Seaweed_SendHeartbeatServer) error {
	// volume servers of this cluster do not heartbeat; accept and ignore.
	for {
		if _, err := stream.Recv(); err != nil {
			return nil
		}
		if err := stream.Send(&master_pb.HeartbeatResponse{VolumeSizeLimit: m.c.Opt.VolumeSizeLimitMB * 1024 * 1024, Leader: m.Addr}); err != nil {
			return err
		}
	}
}

func (m *Master) GetMasterConfiguration(ctx context.Context, req *master_pb.GetMasterConfigurationRequest) (*master_pb.GetMasterConfigurationResponse, error) {
	return &master_pb.GetMasterConfigurationResponse{DefaultReplication: m.c.Opt.DefaultReplication, Leader: m.Addr}, nil
}

type assignReq struct {
	count                      uint64
	replication, collection    string
	ttl, diskType              string
	dataCenter, rack, dataNode string
}

func (m *Master) assign(a assignReq) (fid string, loc Location, count uint64, err error) {
	if a.count == 0 {
		a.count = 1
	}
	if a.replication == "" {
		a.replication = m.c.Opt.DefaultReplication
	}
	rp, e := super_block.NewReplicaPlacementFromString(a.replication)
	if e != nil {
		return "", Location{}, 0, e
	}
	t, e := needle.ReadTTL(a.ttl)
	if e != nil {
		return "", Location{}, 0, e
	}
	dt := string(types.ToDiskType(a.diskType))
	m.mu.Lock()
	defer m.mu.Unlock()
	m.nAssign++
	var cands []*volEntry
	for _, e := range m.vols {
		if e.readOnly || len(e.locations()) == 0 || e.collection != a.collection || e.replication != rp.String() || e.ttl != t.String() || e.diskType != dt {
			continue
		}
		if a.dataCenter != "" || a.rack != "" || a.dataNode != "" {
			if m.pickLoc(e, a) < 0 {
				continue
			}
		}
		cands = append(cands, e)
	}
	if len(cands) == 0 {
		return "", Location{}, 0, fmt.Errorf("No writable volumes for collection:%q replication:%s ttl:%s (fake master: create it with Cluster.AddVolume)", a.collection, rp.String(), t.String())
	}
	sort.Slice(cands, func(i, j int) bool { return cands[i].vid < cands[j].vid })
	e0 := cands[0]
	if m.RoundRobin {
		e0 = cands[m.rr%len(cands)]
		m.rr++
	}
	key := m.nextKey
	m.nextKey += a.count
	li := 0
	if a.dataCenter != "" || a.rack != "" || a.dataNode != "" {
		li = m.pickLoc(e0, a)
	}
	fid = needle.NewFileId(needle.VolumeId(e0.vid), key, m.CookieFn(key)).String()
	return fid, e0.locations()[li], a.count, nil
}

func (m *Master) pickLoc(e *volEntry, a assignReq) int {
	for i, l := range e.locations() {
		if a.dataCenter != "" && l.DataCenter != a.dataCenter {
			continue
		}
		if a.dataNode != "" && l.Url != a.dataNode {
			continue
		}
		if a.rack != "" {
			ok := false
			for _, s := range m.c.Servers {
				if s.Url() == l.Url && s.Rack == a.rack {
					ok = true
				}
			}
			if !ok {
				continue
			}
		}
		return i
	}
	return -1
}

func (m *Master) Assign(ctx context.Context, req *master_pb.AssignRequest) (*master_pb.AssignResponse, error) {
	fid, loc, count, err := m.assign(assignReq{count: req.Count, replication: req.Replication, collection: req.Collection, ttl: req.Ttl,
		diskType: req.DiskType, dataCenter: req.DataCenter, rack: req.Rack, dataNode: req.DataNode})
	if err != nil {
		return nil, err
	}
	return &master_pb.AssignResponse{Fid: fid, Url: loc.Url, PublicUrl: loc.PublicUrl, Count: count,
		Auth: string(security.GenJwt(security.SigningKey(m.c.Opt.WriteKey), m.c.Opt.WriteExpiresSec, fid))}, nil
}

func (m *Master) lookup(vidOrFid string) operation.LookupResult {
	vid := vidOrFid
	if i := strings.Index(vid, ","); i > 0 {
		vid = vid[:i]
	}
	res := operation.LookupResult{VolumeId: vid}
	id, err := needle.NewVolumeId(vid)
	if err != nil {
		res.Error = fmt.Sprintf("Unknown volume id %s", vid)
		return res
	}
	m.mu.Lock()
	m.nLookup++
	if e := m.vols[uint32(id)]; e != nil {
		for _, l := range e.locations() {
			res.Locations = append(res.Locations, operation.Location{Url: l.Url, PublicUrl: l.PublicUrl})
		}
	}
	if len(res.Locations) == 0 {
		// EC volumes are looked up like normal ones
		seen := map[string]bool{}
		var shardIds []int
		for s := range m.ec[uint32(id)] {
			shardIds = append(shardIds, int(s))
		}
		sort.Ints(shardIds)
		for _, s := range shardIds {
			for _, l := range m.ec[uint32(id)][uint32(s)] {
				if !seen[l.Url] {
					seen[l.Url] = true
					res.Locations = append(res.Locations, operation.Location{Url: l.Url, PublicUrl: l.PublicUrl})
				}
			}
		}
	}
	m.mu.Unlock()
	if len(res.Locations) == 0 {
		res.Error = fmt.Sprintf("volume id %s not found", vid)
	}
	return res
}

func (m *Master) LookupVolume(ctx context.Context, req *master_pb.LookupVolumeRequest) (*master_pb.LookupVolumeResponse, error) {
	resp := &master_pb.LookupVolumeResponse{}
	seen := map[string]bool{}
	for _, v := range req.VolumeIds {
		r := m.lookup(v)
		if seen[r.VolumeId] {
			continue
		}
		seen[r.VolumeId] = true
		var locs []*master_pb.Location
		for _, l := range r.Locations {
			locs = append(locs, &master_pb.Location{Url: l.Url, PublicUrl: l.PublicUrl})
		}
		resp.VolumeIdLocations = append(resp.VolumeIdLocations, &master_pb.LookupVolumeResponse_VolumeIdLocation{VolumeId: r.VolumeId, Locations: locs, Error: r.Error})
	}
	return resp, nil
}

func (m *Master) LookupEcVolume(ctx context.Context, req *master_pb.LookupEcVolumeRequest) (*master_pb.LookupEcVolumeResponse, error) {
	m.mu.Lock()
	defer m.mu.Unlock()
	sh, ok := m.ec[req.VolumeId]
	if !ok {
		return &master_pb.LookupEcVolumeResponse{}, fmt.Errorf("ec volume %d not found", req.VolumeId)
	}
	resp := &master_pb.LookupEcVolumeResponse{VolumeId: req.VolumeId}
	var ids []int
	for s := range sh {
		ids = append(ids, int(s))
	}
	sort.Ints(ids)
	for _, s := range ids {
		var locs []*master_pb.Location
		for _, l := range sh[uint32(s)] {
			locs = append(locs, &master_pb.Location{Url: l.Url, PublicUrl: l.PublicUrl})
		}
		resp.ShardIdLocations = append(resp.ShardIdLocations, &master_pb.LookupEcVolumeResponse_EcShardIdLocation{ShardId: uint32(s), Locations: locs})
	}
	return resp, nil
}

func (m *Master) Statistics(ctx context.Context, req *master_pb.StatisticsRequest) (*master_pb.StatisticsResponse, error) {
	if req.Replication == "" {
		req.Replication = m.c.Opt.DefaultReplication
	}
	rp, err := super_block.NewReplicaPlacementFromString(req.Replication)
	if err != nil {
		return nil, err
	}
	t, err := needle.ReadTTL(req.Ttl)
	if err != nil {
		return nil, err
	}
	resp := &master_pb.StatisticsResponse{}
	for _, s := range m.c.Servers {
		for _, vi := range s.Store.VolumeInfos() {
			if vi.Collection != req.Collection || vi.ReplicaPlacement == nil || vi.ReplicaPlacement.String() != rp.String() || vi.Ttl.String() != t.String() {
				continue
			}
			resp.TotalSize += m.c.Opt.VolumeSizeLimitMB * 1024 * 1024
			resp.UsedSize += vi.Size
			resp.FileCount += uint64(vi.FileCount - vi.DeleteCount)
		}
	}
	return resp, nil
}

func (m *Master) CollectionList(ctx context.Context, req *master_pb.CollectionListRequest) (*master_pb.CollectionListResponse, error) {
	m.mu.Lock()
	defer m.mu.Unlock()
	set := map[string]bool{}
	for _, e := range m.vols {
		if len(e.locs) > 0 {
			set[e.collection] = true
		}
	}
	var names []string
	for n := range set {
		names = append(names, n)
	}
	sort.Strings(names)
	resp := &master_pb.CollectionListResponse{}
	for _, n := range names {
		resp.Collections = append(resp.Collections, &master_pb.Collection{Name: n})
	}
	return resp, nil
}

func (m *Master) CollectionDelete(ctx context.Context, req *master_pb.CollectionDeleteRequest) (*master_pb.CollectionDeleteResponse, error) {
	for _, s := range m.c.Servers {
		if err := s.Store.DeleteCollection(req.Name); err != nil {
			return nil, err
		}
	}
	m.sync()
	return &master_pb.CollectionDeleteResponse{}, nil
}

func (m *Master) VolumeList(ctx context.Context, req *master_pb.VolumeListRequest) (*master_pb.VolumeListResponse, error) {
	return &master_pb.VolumeListResponse{TopologyInfo: m.TopologyInfo(), VolumeSizeLimitMb: m.c.Opt.VolumeSizeLimitMB}, nil
}

// TopologyInfo builds the topology (dc -> rack -> node -> disk) from the stores.
func (m *Master) TopologyInfo() *master_pb.TopologyInfo {
	topo := &master_pb.TopologyInfo{Id: "topo"}
	dcs := map[string]*master_pb.DataCenterInfo{}
	racks := map[string]*master_pb.RackInfo{}
	for _, s := range m.c.Servers {
		dc := dcs[s.DataCenter]
		if dc == nil {
			dc = &master_pb.DataCenterInfo{Id: s.DataCenter}
			dcs[s.DataCenter] = dc
			topo.DataCenterInfos = append(topo.DataCenterInfos, dc)
		}
		rk := racks[s.DataCenter+"/"+s.Rack]
		if rk == nil {
			rk = &master_pb.RackInfo{Id: s.Rack}
			racks[s.DataCenter+"/"+s.Rack] = rk
			dc.RackInfos = append(dc.RackInfos, rk)
		}
		di := &master_pb.DiskInfo{Type: ""}
		for _, l := range s.Store.Locations {
			di.MaxVolumeCount += uint64(l.MaxVolumeCount)
		}
		for _, vi := range s.Store.VolumeInfos() {
			di.VolumeInfos = append(di.VolumeInfos, vi.ToVolumeInformationMessage())
			di.VolumeCount++
			if !vi.ReadOnly {
				di.ActiveVolumeCount++
			}
		}
		di.EcShardInfos = append(di.EcShardInfos, s.Store.CollectErasureCodingHeartbeat().EcShards...)
		sort.Slice(di.EcShardInfos, func(i, j int) bool { return di.EcShardInfos[i].Id < di.EcShardInfos[j].Id })
		if di.MaxVolumeCount >= di.VolumeCount {
			di.FreeVolumeCount = di.MaxVolumeCount - di.VolumeCount
		}
		rk.DataNodeInfos = append(rk.DataNodeInfos, &master_pb.DataNodeInfo{Id: s.Url(), DiskInfos: map[string]*master_pb.DiskInfo{"": di}})
	}
	return topo
}

// ---- HTTP ------------------------------------------------------------------

func writeJSON(w http.ResponseWriter, status int, v interface{}) {
	b, _ := json.Marshal(v)
	w.Header().Set("Content-Type", "application/json")
	w.WriteHeader(status)
	w.Write(b)
}

func (m *Master) httpAssign(w http.ResponseWriter, r *http.Request) {
	count, _ := strconv.ParseUint(r.FormValue("count"), 10, 64)
	fid, loc, n, err := m.assign(assignReq{count: count, replication: r.FormValue("replication"), collection: r.FormValue("collection"),
		ttl: r.FormValue("ttl"), diskType: r.FormValue("disk"), dataCenter: r.FormValue("dataCenter"), rack: r.FormValue("rack"), dataNode: r.FormValue("dataNode")})
	if err != nil {
		writeJSON(w, http.StatusNotAcceptable, operation.AssignResult{Error: err.Error()})
		return
	}
	if jwt := security.GenJwt(security.SigningKey(m.c.Opt.WriteKey), m.c.Opt.WriteExpiresSec, fid); jwt != "" {
		w.Header().Set("Authorization", "BEARER "+string(jwt))
	}
	writeJSON(w, http.StatusOK, operation.AssignResult{Fid: fid, Url: loc.Url, PublicUrl: loc.PublicUrl, Count: n})
}

func (m *Master) httpLookup(w http.ResponseWriter, r *http.Request) {
	vid := r.FormValue("volumeId")
	fileId := r.FormValue("fileId")
	if fileId != "" {
		vid = fileId
	}
	res := m.lookup(vid)
	if res.Error != "" {
		writeJSON(w, http.StatusNotFound, res)
		return
	}
	if fileId != "" {
		var jwt security.EncodedJwt
		if r.FormValue("read") == "yes" {
			jwt = security.GenJwt(security.SigningKey(m.c.Opt.ReadKey), m.c.Opt.ReadExpiresSec, fileId)
		} else {
			jwt = security.GenJwt(security.SigningKey(m.c.Opt.WriteKey), m.c.Opt.WriteExpiresSec, fileId)
		}
		if jwt != "" {
			w.Header().Set("Authorization", "BEARER "+string(jwt))
		}
	}
	writeJSON(w, http.StatusOK, res)
}

func (m *Master) httpClusterStatus(w http.ResponseWriter, r *http.Request) {
	m.mu.Lock()
	var max uint32
	for v := range m.vols {
		if v > max {
			max = v
		}
	}
	m.mu.Unlock()
	writeJSON(w, http.StatusOK, map[string]interface{}{"IsLeader": true, "Leader": m.Addr, "MaxVolumeId": max})
}

func (m *Master) httpDirStatus(w http.ResponseWriter, r *http.Request) {
	writeJSON(w, http.StatusOK, map[string]interface{}{"Version": util.Version(), "Topology": m.TopologyInfo()})
}

// ---------------------------------------------------------------------------
// small client helpers shared by checks

// Fid formats a file id "vid,keyhex+cookiehex".
func Fid(vid uint32, key uint64, cookie uint32) string {
	return needle.NewFileId(needle.VolumeId(vid), key, cookie).String()
}

// WriteJwt / ReadJwt sign a token for fid with this cluster's keys ("" if the key is not configured).
func (c *Cluster) WriteJwt(fid string) security.EncodedJwt {
	return security.GenJwt(security.SigningKey(c.Opt.WriteKey), c.Opt.WriteExpiresSec, fid)
}
func (c *Cluster) ReadJwt(fid string) security.EncodedJwt {
	return security.GenJwt(security.SigningKey(c.Opt.ReadKey), c.Opt.ReadExpiresSec, fid)
}
