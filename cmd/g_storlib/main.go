package main

import (
	"fmt"
	"os"

	"verif/checks/c02"
	"verif/checks/c05"
	"verif/checks/c06"
	"verif/checks/c07"
)

var checks = map[string]func(){
	"C02": c02.Main,
	"C05": c05.Main,
	"C06": c06.Main,
	"C07": c07.Main,
}

func main() {
	if len(os.Args) < 2 || checks[os.Args[1]] == nil {
		fmt.Println("INFRA-ERROR unknown check")
		os.Exit(2)
	}
	checks[os.Args[1]]()
}
