package main

import (
	"fmt"
	"os"

	"verif/checks/c04"
	"verif/checks/c10"
	"verif/checks/c13"
	"verif/checks/c14"
	"verif/checks/c22"
	"verif/checks/c35"
	"verif/checks/c38"
)

var checks = map[string]func(){
	"C04": c04.Main,
	"C04S": c04.SchedOnlyMain,
	"C04R": c04.SchedReplayMain,
	"C10": c10.Main,
	"C13": c13.Main,
	"C14": c14.Main,
	"C22": c22.Main,
	"C35": c35.Main,
	"C35S": c35.SchedOnlyMain,
	"C38": c38.Main,
}

func main() {
	if len(os.Args) < 2 || checks[os.Args[1]] == nil {
		fmt.Println("INFRA-ERROR unknown check")
		os.Exit(2)
	}
	checks[os.Args[1]]()
}
