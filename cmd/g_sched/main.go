package main

import (
	"fmt"
	"os"

	"verif/checks/c13"
)

var checks = map[string]func(){
	"C13": c13.Main,
}

func main() {
	if len(os.Args) < 2 || checks[os.Args[1]] == nil {
		fmt.Println("INFRA-ERROR unknown check")
		os.Exit(2)
	}
	checks[os.Args[1]]()
}
