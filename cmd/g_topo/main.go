package main

import (
	"fmt"
	"os"

	"verif/checks/c11"
	"verif/checks/c12"
	"verif/checks/c15"
	"verif/checks/c16"
)

var checks = map[string]func(){
	"C11": c11.Main,
	"C12": c12.Main,
	"C15": c15.Main,
	"C16": c16.Main,
}

func main() {
	if len(os.Args) < 2 || checks[os.Args[1]] == nil {
		fmt.Println("INFRA-ERROR unknown check")
		os.Exit(2)
	}
	checks[os.Args[1]]()
}
