package main

import (
	"fmt"
	"os"
	"runtime/pprof"
	"time"

	"verif/checks/volkit"

	"github.com/chrislusf/seaweedfs/weed/storage"
)

func main() {
	f, _ := os.Create("/tmp/zzbench.prof")
	pprof.StartCPUProfile(f)
	defer pprof.StopCPUProfile()
	volkit.PaceGC(256)
	e := volkit.NewEnv("bench", storage.NeedleMapInMemory)
	defer e.Close()
	t0 := time.Now()
	N := 300
	for i := 0; i < N; i++ {
		vid := e.NewVolume("1h")
		e.Write(vid, 1, 1, volkit.Blob{Data: []byte("x"), LastModified: uint64(time.Now().Unix()), HTTPLike: true})
		v := e.Store.GetVolume(vid)
		if i%2 == 0 {
			v.Compact(0, 0)
		} else {
			v.Compact2(0, 0)
		}
		v.CommitCompact()
		e.Store.CollectHeartbeat()
		e.Read(vid, 1, 1)
		e.Drop(vid)
	}
	fmt.Println("per case", time.Since(t0)/time.Duration(N))
}
