// g_race: free-running harness bodies built with -race and WITHOUT the overlay.
// The cooperative scheduler's hand-offs are happens-before edges, so the race
// detector sees nothing under E2; this separate pass runs the same kind of
// scenario with real goroutines.  It is a dynamic detector (not enumeration)
// and decides only the literal "no data races" clauses.
package main

import (
	"fmt"
	"os"
	"strconv"
	"sync"
	"time"

	"github.com/chrislusf/seaweedfs/weed/pb/filer_pb"
	"github.com/chrislusf/seaweedfs/weed/sequence"
	"github.com/chrislusf/seaweedfs/weed/storage"
	"github.com/chrislusf/seaweedfs/weed/storage/needle"
	"github.com/chrislusf/seaweedfs/weed/storage/super_block"
	"github.com/chrislusf/seaweedfs/weed/storage/types"
	"github.com/chrislusf/seaweedfs/weed/util/log_buffer"
	"github.com/chrislusf/seaweedfs/weed/wdclient"
)

func main() {
	if len(os.Args) < 3 {
		fmt.Println("usage: g_race <logbuffer|vidmap> <rounds>")
		os.Exit(2)
	}
	rounds, _ := strconv.Atoi(os.Args[2])
	switch os.Args[1] {
	case "logbuffer":
		for i := 0; i < rounds; i++ {
			logBuffer()
		}
	case "vidmap":
		for i := 0; i < rounds; i++ {
			vidMap()
		}
	case "volume":
		for i := 0; i < rounds; i++ {
			volume(i%2 == 1)
		}
	case "sequencer":
		for i := 0; i < rounds; i++ {
			sequencer()
		}
	default:
		os.Exit(2)
	}
	fmt.Println("race pass done")
}

// appender + flush loops + two subscribers on one LogBuffer (real BufferSize)
func logBuffer() {
	var mu sync.Mutex
	cond := sync.NewCond(&mu)
	var diskMu sync.Mutex
	flushed := 0
	lb := log_buffer.NewLogBuffer("race", 2*time.Millisecond, func(startTime, stopTime time.Time, buf []byte) {
		diskMu.Lock()
		flushed += len(buf)
		diskMu.Unlock()
	}, func() {
		mu.Lock()
		cond.Broadcast()
		mu.Unlock()
	})
	var wg sync.WaitGroup
	stop := make(chan struct{})
	for s := 0; s < 2; s++ {
		wg.Add(1)
		go func() {
			defer wg.Done()
			last := time.Unix(0, 0)
			for {
				select {
				case <-stop:
					return
				default:
				}
				var err error
				last, err = lb.LoopProcessLogData("race", last, func() bool {
					select {
					case <-stop:
						return false
					default:
					}
					time.Sleep(200 * time.Microsecond)
					return true
				}, func(e *filer_pb.LogEntry) error { return nil })
				if err == log_buffer.ResumeFromDiskError {
					last = time.Now()
				}
			}
		}()
	}
	payload := make([]byte, 200)
	for i := 0; i < 400; i++ {
		lb.AddToBuffer([]byte("k"), payload, 0)
		if i%50 == 0 {
			time.Sleep(3 * time.Millisecond)
		}
	}
	time.Sleep(5 * time.Millisecond)
	close(stop)
	wg.Wait()
	lb.Shutdown()
}

// writers, deleters and readers on two keys of one real Volume (immediate or batched write path)
func volume(batched bool) {
	dir, err := os.MkdirTemp("/dev/shm", "verif-race-vol-")
	if err != nil {
		panic(err)
	}
	defer os.RemoveAll(dir)
	v, err := storage.NewVolume(dir, dir, "", 1, storage.NeedleMapInMemory, &super_block.ReplicaPlacement{}, needle.EMPTY_TTL, 0, 0)
	if err != nil {
		panic(err)
	}
	var wg sync.WaitGroup
	for g := 0; g < 4; g++ {
		wg.Add(1)
		go func(g int) {
			defer wg.Done()
			for i := 0; i < 60; i++ {
				key := types.NeedleId(1 + (g+i)%2)
				switch (g + i) % 3 {
				case 0:
					n := &needle.Needle{Id: key, Cookie: 7, Data: []byte(fmt.Sprintf("d%d-%d", g, i))}
					n.Checksum = needle.NewCRC(n.Data)
					v.SchedWriteV(n, batched)
				case 1:
					v.SchedDeleteV(&needle.Needle{Id: key, Cookie: 7})
				default:
					v.SchedReadV(&needle.Needle{Id: key, Cookie: 7}, nil)
				}
			}
		}(g)
	}
	wg.Wait()
	v.Destroy()
}

// concurrent NextFileId / SetMax on the memory sequencer
func sequencer() {
	s := sequence.NewMemorySequencer()
	var wg sync.WaitGroup
	for g := 0; g < 4; g++ {
		wg.Add(1)
		go func(g int) {
			defer wg.Done()
			for i := 0; i < 500; i++ {
				if (g+i)%5 == 0 {
					s.SetMax(uint64(i))
				} else {
					s.NextFileId(uint64(1 + i%3))
				}
			}
		}(g)
	}
	wg.Wait()
}

// one writer adding/deleting locations against readers looking them up
func vidMap() {
	vm := wdclient.NewVidMapV("dc1")
	loc := func(i int) wdclient.Location {
		return wdclient.Location{Url: fmt.Sprintf("10.0.0.%d:8080", i), DataCenter: "dc1"}
	}
	var wg sync.WaitGroup
	stop := make(chan struct{})
	for r := 0; r < 3; r++ {
		wg.Add(1)
		go func() {
			defer wg.Done()
			for {
				select {
				case <-stop:
					return
				default:
				}
				vm.LookupVolumeServerUrl("1")
				vm.LookupFileId("1,0100000001")
			}
		}()
	}
	for i := 0; i < 2000; i++ {
		vm.AddLocationV(1, loc(i%3))
		vm.AddLocationV(1, loc((i+1)%3))
		vm.DeleteLocationV(1, loc(i%3))
	}
	close(stop)
	wg.Wait()
}
