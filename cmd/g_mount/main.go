package main

import (
	"fmt"
	"os"

	"verif/checks/c30"
	"verif/checks/c31"
	"verif/checks/c35"
	"verif/checks/c39"
)

var checks = map[string]func(){
	"C30": c30.Main,
	"C31": c31.Main,
	"C35": c35.Main,
	"C39": c39.Main,
}

func main() {
	if len(os.Args) < 2 || checks[os.Args[1]] == nil {
		fmt.Println("INFRA-ERROR unknown check")
		os.Exit(2)
	}
	checks[os.Args[1]]()
}
