package main

import (
	"fmt"
	"os"

	"verif/checks/c08"
)

var checks = map[string]func(){
	"C08": c08.Main,
}

func main() {
	if len(os.Args) < 2 || checks[os.Args[1]] == nil {
		fmt.Println("INFRA-ERROR unknown check")
		os.Exit(2)
	}
	checks[os.Args[1]]()
}
