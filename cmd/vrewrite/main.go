// vrewrite generates a `go build -overlay` from the CURRENT source tree:
// purely syntactic rewrites that put the repository's synchronisation, time,
// randomness and channel operations under the control of verif/shim/vsched.
// Exit status 2 = the rewrite cannot be done faithfully (infrastructure error).
package main

import (
	"bytes"
	"encoding/json"
	"flag"
	"fmt"
	"go/ast"
	"go/format"
	"go/parser"
	"go/token"
	"os"
	"path/filepath"
	"sort"
	"strconv"
	"strings"
)

type Rule struct {
	Files   []string          `json:"files"`   // globs relative to the repo root (or absolute)
	Exclude []string          `json:"exclude"` // base-name globs
	Imports map[string]string `json:"imports"` // import path -> shim import path
	Go      bool              `json:"go"`      // go f(x) -> vsched.Go
	Chan    bool              `json:"chan"`    // channel points, close, select
	Yield   []string          `json:"yield"`   // function names that get statement-level yield points
	Consts  map[string]string `json:"consts"`  // const/var name -> new value expression
	// RangeChan lists channel expressions (as printed, e.g. "m.flushChan") whose
	// `for x := range ch` loops are rewritten into receive loops with a point.
	RangeChan []string `json:"range_chan"`
	// SortedRange lists map expressions (as printed) whose `for k, v := range m`
	// loops are rewritten to iterate in sorted key order (keys must have a string
	// underlying type; KeyType is the key's type name as written in that package).
	SortedRange []SortedRange `json:"sorted_range"`
}

type SortedRange struct {
	Expr    string `json:"expr"`
	KeyType string `json:"key_type"`
}

type Spec struct {
	Rules []Rule `json:"rules"`
}

var (
	repo    = flag.String("repo", "/repo", "repository root")
	specF   = flag.String("spec", "", "spec json")
	outDir  = flag.String("out", "", "output dir")
	shimDir = flag.String("shims", "", "dir containing shim packages (default <verif>/shim)")
)

func die(format string, a ...interface{}) {
	fmt.Fprintf(os.Stderr, "vrewrite: "+format+"\n", a...)
	os.Exit(2)
}

func main() {
	flag.Parse()
	b, err := os.ReadFile(*specF)
	if err != nil {
		die("%v", err)
	}
	var spec Spec
	if err := json.Unmarshal(b, &spec); err != nil {
		die("spec: %v", err)
	}
	if *shimDir == "" {
		wd, _ := os.Getwd()
		*shimDir = filepath.Join(wd, "shim")
	}
	os.RemoveAll(filepath.Join(*outDir, "src"))
	replace := map[string]string{}
	for ri, rule := range spec.Rules {
		var files []string
		for _, g := range rule.Files {
			pat := g
			if !filepath.IsAbs(pat) {
				pat = filepath.Join(*repo, g)
			}
			m, err := filepath.Glob(pat)
			if err != nil {
				die("glob %s: %v", g, err)
			}
			if len(m) == 0 {
				die("rule %d: glob %s matches nothing", ri, g)
			}
			files = append(files, m...)
		}
		sort.Strings(files)
		constsSeen := map[string]bool{}
		yieldSeen := map[string]bool{}
		for _, f := range files {
			base := filepath.Base(f)
			if strings.HasSuffix(base, "_test.go") {
				continue
			}
			skip := false
			for _, ex := range rule.Exclude {
				if ok, _ := filepath.Match(ex, base); ok {
					skip = true
				}
			}
			if skip {
				continue
			}
			src, changed := rewriteFile(f, rule, constsSeen, yieldSeen)
			if !changed {
				continue
			}
			rel := strings.TrimPrefix(f, "/")
			dst := filepath.Join(*outDir, "src", rel)
			os.MkdirAll(filepath.Dir(dst), 0755)
			if err := os.WriteFile(dst, src, 0644); err != nil {
				die("%v", err)
			}
			if prev, dup := replace[f]; dup {
				die("file %s rewritten by two rules (%s)", f, prev)
			}
			replace[f] = dst
		}
		for name := range rule.Consts {
			if !constsSeen[name] {
				die("rule %d: constant %s not found", ri, name)
			}
		}
		for _, sr := range rule.SortedRange {
			if !sortedRangeSeen[sr.Expr] {
				die("rule %d: range over map %s not found", ri, sr.Expr)
			}
		}
		for _, c := range rule.RangeChan {
			if !rangeChanSeen[c] {
				die("rule %d: range over %s not found", ri, c)
			}
		}
		for _, name := range rule.Yield {
			if !yieldSeen[name] {
				die("rule %d: function %s (yield) not found", ri, name)
			}
		}
	}
	ov, _ := json.MarshalIndent(map[string]interface{}{"Replace": replace}, "", " ")
	// only rewrite overlay.json when its content changed (keeps go's build cache hot)
	ovPath := filepath.Join(*outDir, "overlay.json")
	os.MkdirAll(*outDir, 0755)
	if old, err := os.ReadFile(ovPath); err != nil || !bytes.Equal(old, ov) {
		if err := os.WriteFile(ovPath, ov, 0644); err != nil {
			die("%v", err)
		}
	}
}

var shimExports = map[string]map[string]bool{}

func exportsOf(shimPath string) map[string]bool {
	if m, ok := shimExports[shimPath]; ok {
		return m
	}
	dir := filepath.Join(*shimDir, filepath.Base(shimPath))
	fset := token.NewFileSet()
	pkgs, err := parser.ParseDir(fset, dir, nil, 0)
	if err != nil {
		die("shim %s: %v", shimPath, err)
	}
	m := map[string]bool{}
	for _, p := range pkgs {
		for _, f := range p.Files {
			for _, d := range f.Decls {
				switch d := d.(type) {
				case *ast.FuncDecl:
					if d.Recv == nil {
						m[d.Name.Name] = true
					}
				case *ast.GenDecl:
					for _, s := range d.Specs {
						switch s := s.(type) {
						case *ast.TypeSpec:
							m[s.Name.Name] = true
						case *ast.ValueSpec:
							for _, n := range s.Names {
								m[n.Name] = true
							}
						}
					}
				}
			}
		}
	}
	shimExports[shimPath] = m
	return m
}

type rw struct {
	fset      *token.FileSet
	file      *ast.File
	path      string
	usedSched bool
	tmp       int
	rule      Rule
	noPoint   map[ast.Stmt]bool
}

func rewriteFile(path string, rule Rule, constsSeen, yieldSeen map[string]bool) ([]byte, bool) {
	fset := token.NewFileSet()
	srcBytes, err := os.ReadFile(path)
	if err != nil {
		die("%v", err)
	}
	file, err := parser.ParseFile(fset, path, srcBytes, parser.ParseComments)
	if err != nil {
		die("parse %s: %v", path, err)
	}
	r := &rw{fset: fset, file: file, path: path, rule: rule}
	changed := false

	// 1. imports
	local := map[string]string{} // local package name -> shim path
	for _, is := range file.Imports {
		p, _ := strconv.Unquote(is.Path.Value)
		shim, ok := rule.Imports[p]
		if !ok {
			continue
		}
		name := filepath.Base(p)
		if is.Name != nil {
			name = is.Name.Name
		}
		if name == "_" || name == "." {
			die("%s: cannot substitute import %s with name %s", path, p, name)
		}
		is.Name = ast.NewIdent(name)
		is.Path.Value = strconv.Quote(shim)
		local[name] = shim
		changed = true
	}
	if len(local) > 0 {
		ast.Inspect(file, func(n ast.Node) bool {
			se, ok := n.(*ast.SelectorExpr)
			if !ok {
				return true
			}
			id, ok := se.X.(*ast.Ident)
			if !ok || id.Obj != nil {
				return true
			}
			if shim, ok := local[id.Name]; ok {
				if !exportsOf(shim)[se.Sel.Name] {
					die("%s: %s.%s is not provided by %s", fset.Position(se.Pos()), id.Name, se.Sel.Name, shim)
				}
			}
			return true
		})
	}

	// 2. constants
	if len(rule.Consts) > 0 {
		for _, d := range file.Decls {
			gd, ok := d.(*ast.GenDecl)
			if !ok || (gd.Tok != token.CONST && gd.Tok != token.VAR) {
				continue
			}
			for _, s := range gd.Specs {
				vs := s.(*ast.ValueSpec)
				for i, n := range vs.Names {
					if nv, ok := rule.Consts[n.Name]; ok && i < len(vs.Values) {
						e, err := parser.ParseExpr(nv)
						if err != nil {
							die("const %s: %v", n.Name, err)
						}
						vs.Values[i] = e
						constsSeen[n.Name] = true
						changed = true
					}
				}
			}
		}
	}

	// 3. yield points
	yield := map[string]bool{}
	for _, y := range rule.Yield {
		yield[y] = true
	}
	if len(yield) > 0 {
		for _, d := range file.Decls {
			fd, ok := d.(*ast.FuncDecl)
			if !ok || fd.Body == nil || !yield[fd.Name.Name] {
				continue
			}
			yieldSeen[fd.Name.Name] = true
			r.addYields(fd.Name.Name, fd.Body)
			changed = true
		}
	}

	// 4. go / channel / select / close
	if rule.Go || rule.Chan || len(rule.SortedRange) > 0 {
		ast.Inspect(file, func(n ast.Node) bool {
			switch n := n.(type) {
			case *ast.BlockStmt:
				n.List = r.stmts(n.List)
			case *ast.CaseClause:
				n.Body = r.stmts(n.Body)
			case *ast.CommClause:
				n.Body = r.stmts(n.Body)
			case *ast.CallExpr:
				if rule.Chan {
					if id, ok := n.Fun.(*ast.Ident); ok && id.Name == "close" && id.Obj == nil && len(n.Args) == 1 {
						n.Fun = r.sched("Close")
					}
				}
			case *ast.RangeStmt:
				// ranging over a channel cannot be recognised syntactically; refuse obvious cases
			}
			return true
		})
	}
	if r.usedSched {
		changed = true
		r.addImport("vsched", "verif/shim/vsched")
	}
	if !changed {
		return nil, false
	}

	// print without comments (inserted nodes have no positions; stray comments could break code),
	// but keep build constraints
	var header []string
	for _, line := range strings.Split(string(srcBytes), "\n") {
		t := strings.TrimSpace(line)
		if strings.HasPrefix(t, "package ") {
			break
		}
		if strings.HasPrefix(t, "//go:build") || strings.HasPrefix(t, "// +build") {
			header = append(header, t)
		}
	}
	for _, cg := range file.Comments {
		for _, c := range cg.List {
			if strings.HasPrefix(c.Text, "//go:") && !strings.HasPrefix(c.Text, "//go:build") {
				die("%s: directive comment %q would be lost", path, c.Text)
			}
		}
	}
	for _, is := range file.Imports {
		if is.Path.Value == `"C"` {
			die("%s: cgo file", path)
		}
	}
	file.Comments = nil
	ast.Inspect(file, func(n ast.Node) bool {
		switch n := n.(type) {
		case *ast.FuncDecl:
			n.Doc = nil
		case *ast.GenDecl:
			n.Doc = nil
		case *ast.Field:
			n.Doc, n.Comment = nil, nil
		case *ast.ValueSpec:
			n.Doc, n.Comment = nil, nil
		case *ast.TypeSpec:
			n.Doc, n.Comment = nil, nil
		case *ast.ImportSpec:
			n.Doc, n.Comment = nil, nil
		}
		return true
	})
	file.Doc = nil
	var buf bytes.Buffer
	for _, h := range header {
		buf.WriteString(h + "\n")
	}
	if len(header) > 0 {
		buf.WriteString("\n")
	}
	fmt.Fprintf(&buf, "// Code generated by vrewrite from %s; DO NOT EDIT.\n\n", path)
	if err := format.Node(&buf, token.NewFileSet(), file); err != nil {
		die("print %s: %v", path, err)
	}
	// the result must parse
	if _, err := parser.ParseFile(token.NewFileSet(), path, buf.Bytes(), 0); err != nil {
		die("rewritten %s does not parse: %v", path, err)
	}
	return buf.Bytes(), true
}

func (r *rw) sched(name string) ast.Expr {
	r.usedSched = true
	return &ast.SelectorExpr{X: ast.NewIdent("vsched"), Sel: ast.NewIdent(name)}
}

func (r *rw) call(name string, args ...ast.Expr) *ast.ExprStmt {
	return &ast.ExprStmt{X: &ast.CallExpr{Fun: r.sched(name), Args: args}}
}

func (r *rw) addImport(name, path string) {
	for _, is := range r.file.Imports {
		if is.Path.Value == strconv.Quote(path) {
			return
		}
	}
	spec := &ast.ImportSpec{Name: ast.NewIdent(name), Path: &ast.BasicLit{Kind: token.STRING, Value: strconv.Quote(path)}}
	for _, d := range r.file.Decls {
		if gd, ok := d.(*ast.GenDecl); ok && gd.Tok == token.IMPORT {
			gd.Specs = append(gd.Specs, spec)
			if len(gd.Specs) > 1 && !gd.Lparen.IsValid() {
				gd.Lparen = gd.Pos()
				gd.Rparen = gd.End()
			}
			r.file.Imports = append(r.file.Imports, spec)
			return
		}
	}
	gd := &ast.GenDecl{Tok: token.IMPORT, Specs: []ast.Spec{spec}}
	r.file.Decls = append([]ast.Decl{gd}, r.file.Decls...)
	r.file.Imports = append(r.file.Imports, spec)
}

func (r *rw) addYields(fn string, body *ast.BlockStmt) {
	ast.Inspect(body, func(n ast.Node) bool {
		var list *[]ast.Stmt
		switch n := n.(type) {
		case *ast.BlockStmt:
			list = &n.List
		case *ast.CaseClause:
			list = &n.Body
		case *ast.CommClause:
			list = &n.Body
		}
		if list == nil {
			return true
		}
		var out []ast.Stmt
		for _, s := range *list {
			if _, isY := isYield(s); !isY {
				line := r.fset.Position(s.Pos()).Line
				out = append(out, r.call("Yield", &ast.BasicLit{Kind: token.STRING, Value: strconv.Quote(fmt.Sprintf("%s:%d", fn, line))}))
			}
			out = append(out, s)
		}
		*list = out
		return true
	})
}

func isYield(s ast.Stmt) (string, bool) {
	es, ok := s.(*ast.ExprStmt)
	if !ok {
		return "", false
	}
	ce, ok := es.X.(*ast.CallExpr)
	if !ok {
		return "", false
	}
	se, ok := ce.Fun.(*ast.SelectorExpr)
	if !ok {
		return "", false
	}
	if id, ok := se.X.(*ast.Ident); ok && id.Name == "vsched" {
		return se.Sel.Name, true
	}
	return "", false
}

// shallowChanOps finds receives evaluated when the statement starts (not inside
// nested blocks or function literals).
func (r *rw) shallowRecvs(s ast.Stmt) []ast.Expr {
	var out []ast.Expr
	var visit func(n ast.Node) bool
	visit = func(n ast.Node) bool {
		switch n := n.(type) {
		case *ast.FuncLit, *ast.BlockStmt, *ast.CaseClause, *ast.CommClause, *ast.SelectStmt:
			return false
		case *ast.UnaryExpr:
			if n.Op == token.ARROW {
				out = append(out, n.X)
			}
		}
		return true
	}
	switch s := s.(type) {
	case *ast.IfStmt:
		if s.Init != nil {
			ast.Inspect(s.Init, visit)
		}
		ast.Inspect(s.Cond, visit)
	case *ast.ForStmt:
		var in []ast.Expr
		for _, n := range []ast.Node{s.Cond, s.Post} {
			if n != nil && !isNilNode(n) {
				save := out
				out = nil
				ast.Inspect(n, visit)
				in = append(in, out...)
				out = save
			}
		}
		if len(in) > 0 {
			die("%s: receive in a for condition/post statement is not supported", r.fset.Position(s.Pos()))
		}
		if s.Init != nil {
			ast.Inspect(s.Init, visit)
		}
	case *ast.SwitchStmt:
		if s.Init != nil {
			ast.Inspect(s.Init, visit)
		}
		if s.Tag != nil {
			ast.Inspect(s.Tag, visit)
		}
	case *ast.TypeSwitchStmt, *ast.SelectStmt, *ast.BlockStmt, *ast.LabeledStmt:
	case *ast.RangeStmt:
		ast.Inspect(s.X, visit)
	default:
		ast.Inspect(s, visit)
	}
	return out
}

func isNilNode(n ast.Node) bool {
	switch v := n.(type) {
	case ast.Expr:
		return v == nil
	case ast.Stmt:
		return v == nil
	}
	return false
}

func (r *rw) stmts(list []ast.Stmt) []ast.Stmt {
	var out []ast.Stmt
	for _, s := range list {
		if ls, ok := s.(*ast.LabeledStmt); ok {
			// rewrite the labelled statement in place when it is a select / go
			inner := r.stmts([]ast.Stmt{ls.Stmt})
			if len(inner) == 1 {
				ls.Stmt = inner[0]
				out = append(out, ls)
			} else {
				// points first, then the labelled statement
				out = append(out, inner[:len(inner)-1]...)
				ls.Stmt = inner[len(inner)-1]
				out = append(out, ls)
			}
			continue
		}
		if _, ok := isYield(s); ok {
			out = append(out, s)
			continue
		}
		if r.noPoint[s] {
			out = append(out, s)
			continue
		}
		if r.rule.Chan {
			for _, c := range r.shallowRecvs(s) {
				out = append(out, r.call("RecvPoint", c))
			}
			if ss, ok := s.(*ast.SendStmt); ok {
				out = append(out, r.call("SendPoint", ss.Chan))
			}
			if sel, ok := s.(*ast.SelectStmt); ok {
				out = append(out, r.selectToSwitch(sel))
				continue
			}
		}
		if rs, ok := s.(*ast.RangeStmt); ok {
			if sr := r.sortedRangeFor(rs); sr != nil {
				out = append(out, r.sortedRange(rs, sr))
				continue
			}
		}
		if rs, ok := s.(*ast.RangeStmt); ok && r.rule.Chan && r.isRangeChan(rs) {
			out = append(out, r.rangeChan(rs))
			continue
		}
		if gs, ok := s.(*ast.GoStmt); ok && r.rule.Go {
			out = append(out, r.goStmt(gs))
			continue
		}
		out = append(out, s)
	}
	return out
}

func exprString(e ast.Expr) string {
	var buf bytes.Buffer
	format.Node(&buf, token.NewFileSet(), e)
	return buf.String()
}

func (r *rw) isRangeChan(rs *ast.RangeStmt) bool {
	x := exprString(rs.X)
	for _, c := range r.rule.RangeChan {
		if c == x {
			rangeChanSeen[c] = true
			return true
		}
	}
	return false
}

var rangeChanSeen = map[string]bool{}
var sortedRangeSeen = map[string]bool{}

func (r *rw) sortedRangeFor(rs *ast.RangeStmt) *SortedRange {
	x := exprString(rs.X)
	for i := range r.rule.SortedRange {
		if r.rule.SortedRange[i].Expr == x {
			sortedRangeSeen[x] = true
			return &r.rule.SortedRange[i]
		}
	}
	return nil
}

// for k, v := range m { body } -> for _, vk := range vsched.SortedStringKeys(m) { k := K(vk); v := m[k]; body }
func (r *rw) sortedRange(rs *ast.RangeStmt, sr *SortedRange) ast.Stmt {
	if rs.Tok != token.DEFINE {
		die("%s: unsupported sorted-range form", r.fset.Position(rs.Pos()))
	}
	r.tmp++
	vk := fmt.Sprintf("vsortedKey%d", r.tmp)
	kname := fmt.Sprintf("vsortedK%d", r.tmp)
	if id, ok := rs.Key.(*ast.Ident); ok && id.Name != "_" {
		kname = id.Name
	}
	var pre []ast.Stmt
	pre = append(pre, &ast.AssignStmt{Lhs: []ast.Expr{ast.NewIdent(kname)}, Tok: token.DEFINE,
		Rhs: []ast.Expr{&ast.CallExpr{Fun: ast.NewIdent(sr.KeyType), Args: []ast.Expr{ast.NewIdent(vk)}}}})
	pre = append(pre, &ast.AssignStmt{Lhs: []ast.Expr{ast.NewIdent("_")}, Tok: token.ASSIGN, Rhs: []ast.Expr{ast.NewIdent(kname)}})
	if rs.Value != nil {
		if id, ok := rs.Value.(*ast.Ident); !ok || id.Name != "_" {
			pre = append(pre, &ast.AssignStmt{Lhs: []ast.Expr{rs.Value}, Tok: token.DEFINE,
				Rhs: []ast.Expr{&ast.IndexExpr{X: rs.X, Index: ast.NewIdent(kname)}}})
		}
	}
	body := &ast.BlockStmt{List: append(pre, rs.Body.List...)}
	return &ast.RangeStmt{Key: ast.NewIdent("_"), Value: ast.NewIdent(vk), Tok: token.DEFINE,
		X: &ast.CallExpr{Fun: r.sched("SortedStringKeys"), Args: []ast.Expr{rs.X}}, Body: body}
}

// for k := range ch { body }  ->  for { RecvPoint(ch); k, ok := <-ch; if !ok { break }; body }
func (r *rw) rangeChan(rs *ast.RangeStmt) ast.Stmt {
	if rs.Value != nil || (rs.Key != nil && rs.Tok != token.DEFINE) {
		die("%s: unsupported range-over-channel form", r.fset.Position(rs.Pos()))
	}
	r.tmp++
	ok := ast.NewIdent(fmt.Sprintf("vrangeOk%d", r.tmp))
	var key ast.Expr = ast.NewIdent("_")
	if rs.Key != nil {
		key = rs.Key
	}
	recv := &ast.AssignStmt{Lhs: []ast.Expr{key, ok}, Tok: token.DEFINE, Rhs: []ast.Expr{&ast.UnaryExpr{Op: token.ARROW, X: rs.X}}}
	if r.noPoint == nil {
		r.noPoint = map[ast.Stmt]bool{}
	}
	r.noPoint[recv] = true
	brk := &ast.IfStmt{Cond: &ast.UnaryExpr{Op: token.NOT, X: ast.NewIdent(ok.Name)}, Body: &ast.BlockStmt{List: []ast.Stmt{&ast.BranchStmt{Tok: token.BREAK}}}}
	body := append([]ast.Stmt{r.call("RecvPoint", rs.X), recv, brk}, rs.Body.List...)
	return &ast.ForStmt{Body: &ast.BlockStmt{List: body}}
}

func (r *rw) goStmt(gs *ast.GoStmt) ast.Stmt {
	call := gs.Call
	var pre []ast.Stmt
	var lhs, rhs []ast.Expr
	newArgs := make([]ast.Expr, len(call.Args))
	for i, a := range call.Args {
		r.tmp++
		id := ast.NewIdent(fmt.Sprintf("vgoArg%d", r.tmp))
		lhs = append(lhs, id)
		rhs = append(rhs, a)
		newArgs[i] = ast.NewIdent(id.Name)
	}
	if len(lhs) > 0 {
		pre = append(pre, &ast.AssignStmt{Lhs: lhs, Tok: token.DEFINE, Rhs: rhs})
	}
	// a variadic call f(xs...) keeps its ellipsis
	nc := &ast.CallExpr{Fun: call.Fun, Args: newArgs, Ellipsis: call.Ellipsis}
	if call.Ellipsis.IsValid() {
		nc.Ellipsis = 1
	}
	fl := &ast.FuncLit{Type: &ast.FuncType{Params: &ast.FieldList{}}, Body: &ast.BlockStmt{List: []ast.Stmt{&ast.ExprStmt{X: nc}}}}
	pre = append(pre, r.call("Go", fl))
	return &ast.BlockStmt{List: pre}
}

func (r *rw) selectToSwitch(sel *ast.SelectStmt) ast.Stmt {
	var cases []ast.Expr
	hasDefault := false
	sw := &ast.SwitchStmt{Body: &ast.BlockStmt{}}
	idx := 0
	for _, c := range sel.Body.List {
		cc := c.(*ast.CommClause)
		if cc.Comm == nil {
			hasDefault = true
			sw.Body.List = append(sw.Body.List, &ast.CaseClause{List: []ast.Expr{&ast.UnaryExpr{Op: token.SUB, X: &ast.BasicLit{Kind: token.INT, Value: "1"}}}, Body: cc.Body})
			continue
		}
		var ch ast.Expr
		send := false
		switch cm := cc.Comm.(type) {
		case *ast.SendStmt:
			ch, send = cm.Chan, true
		case *ast.ExprStmt:
			ue, ok := cm.X.(*ast.UnaryExpr)
			if !ok || ue.Op != token.ARROW {
				die("%s: unsupported select case", r.fset.Position(cm.Pos()))
			}
			ch = ue.X
		case *ast.AssignStmt:
			if len(cm.Rhs) != 1 {
				die("%s: unsupported select case", r.fset.Position(cm.Pos()))
			}
			ue, ok := cm.Rhs[0].(*ast.UnaryExpr)
			if !ok || ue.Op != token.ARROW {
				die("%s: unsupported select case", r.fset.Position(cm.Pos()))
			}
			ch = ue.X
		default:
			die("%s: unsupported select case", r.fset.Position(cc.Pos()))
		}
		if send {
			cases = append(cases, &ast.CallExpr{Fun: r.sched("SendCase"), Args: []ast.Expr{ch}})
		} else {
			cases = append(cases, &ast.CallExpr{Fun: r.sched("RecvCase"), Args: []ast.Expr{ch}})
		}
		if r.noPoint == nil {
			r.noPoint = map[ast.Stmt]bool{}
		}
		r.noPoint[cc.Comm] = true
		body := append([]ast.Stmt{cc.Comm}, cc.Body...)
		sw.Body.List = append(sw.Body.List, &ast.CaseClause{List: []ast.Expr{&ast.BasicLit{Kind: token.INT, Value: strconv.Itoa(idx)}}, Body: body})
		idx++
	}
	hd := "false"
	if hasDefault {
		hd = "true"
	}
	args := append([]ast.Expr{ast.NewIdent(hd)}, cases...)
	sw.Tag = &ast.CallExpr{Fun: r.sched("Select"), Args: args}
	return sw
}
