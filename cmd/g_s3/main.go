package main

import (
	"fmt"
	"os"

	"verif/checks/c26"
	"verif/checks/c27"
	"verif/checks/c28"
	"verif/checks/c29"
)

var checks = map[string]func(){
	"C26": c26.Main,
	"C27": c27.Main,
	"C28": c28.Main,
	"C29": c29.Main,
}

func main() {
	if len(os.Args) < 2 || checks[os.Args[1]] == nil {
		fmt.Println("INFRA-ERROR unknown check")
		os.Exit(2)
	}
	checks[os.Args[1]]()
}
