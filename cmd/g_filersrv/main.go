package main

import (
	"fmt"
	"os"

	"verif/checks/c18"
	"verif/checks/c20"
	"verif/checks/c21"
	"verif/checks/c25"
	"verif/checks/fsys"
)

var checks = map[string]func(){
	"C18":   c18.Main,
	"C20":   c20.Main,
	"C21":   c21.Main,
	"C25":   c25.Main,
	"debug": fsys.Debug,
}

func main() {
	if len(os.Args) < 2 || checks[os.Args[1]] == nil {
		fmt.Println("INFRA-ERROR unknown check")
		os.Exit(2)
	}
	checks[os.Args[1]]()
}
