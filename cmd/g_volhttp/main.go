package main

import (
	"fmt"
	"os"

	"verif/checks/c32"
	"verif/checks/c33"
	"verif/checks/c34"
	"verif/checks/c40"
)

var checks = map[string]func(){
	"C32": c32.Main,
	"C33": c33.Main,
	"C34": c34.Main,
	"C40": c40.Main,
}

func main() {
	if len(os.Args) < 2 || checks[os.Args[1]] == nil {
		fmt.Println("INFRA-ERROR unknown check")
		os.Exit(2)
	}
	checks[os.Args[1]]()
}
