package main

import (
	"fmt"
	"os"

	"verif/checks/c01http"
	"verif/checks/c32"
	"verif/checks/c33"
	"verif/checks/c34"
	"verif/checks/c37"
	"verif/checks/c40"
	"verif/mc"
)

// C01H is a self-test entry for the c01http helper (not a property id, not in
// groups.d): VERIF_OUT=/tmp/x .build/bin/volhttp C01H quick
func c01h() {
	mc.Main("C01H", "exploration", "self-test of checks/c01http", func(r *mc.Run) {
		if r.Replay != "" {
			c01http.Replay(r)
			return
		}
		c01http.Run(r)
	})
}

var checks = map[string]func(){
	"C01H": c01h,
	"C32":  c32.Main,
	"C33":  c33.Main,
	"C34":  c34.Main,
	"C37":  c37.Main,
	"C40":  c40.Main,
}

func main() {
	if len(os.Args) < 2 || checks[os.Args[1]] == nil {
		fmt.Println("INFRA-ERROR unknown check")
		os.Exit(2)
	}
	checks[os.Args[1]]()
}
