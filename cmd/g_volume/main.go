package main

import (
	"fmt"
	"os"

	"verif/checks/c01"
	"verif/checks/c03"
	"verif/checks/c04"
	"verif/checks/c09"
)

var checks = map[string]func(){
	"C01": c01.Main,
	"C03": c03.Main,
	"C04": c04.Main,
	"C09": c09.Main,
}

func main() {
	if len(os.Args) < 2 || checks[os.Args[1]] == nil {
		fmt.Println("INFRA-ERROR unknown check")
		os.Exit(2)
	}
	checks[os.Args[1]]()
}
