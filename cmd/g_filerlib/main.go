package main

import (
	"fmt"
	"os"

	"verif/checks/c17"
	"verif/checks/c19"
	"verif/checks/c23"
	"verif/checks/c24"
	"verif/checks/c36"
)

var checks = map[string]func(){
	"C17": c17.Main,
	"C19": c19.Main,
	"C23": c23.Main,
	"C24": c24.Main,
	"C36": c36.Main,
}

func main() {
	if len(os.Args) < 2 || checks[os.Args[1]] == nil {
		fmt.Println("INFRA-ERROR unknown check")
		os.Exit(2)
	}
	checks[os.Args[1]]()
}
