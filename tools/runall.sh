#!/bin/bash
# tools/runall.sh [tier]: run every claimed check once, print id / exit / wall; evidence is rewritten by each run.
cd /verif
tier="${1:-quick}"
for id in $(python3 -c "import json;print(' '.join(c['property_id'] for c in json.load(open('MANIFEST.json'))['checks']))"); do
  s=$(date +%s)
  out=$(./v $id $tier 2>&1); rc=$?
  e=$(date +%s)
  echo "$id exit=$rc wall=$((e-s))s $(echo "$out" | grep -c '^KNOWN-FINDING') known | $(echo "$out" | grep -v '^KNOWN' | tail -1 | cut -c1-160)"
done
