#!/usr/bin/env python3
"""Prints the prompt given to a fresh seeding agent for one property (only the property text; nothing from /verif)."""
import json, sys
pid = sys.argv[1]
tag = sys.argv[2] if len(sys.argv) > 2 else "a"
p = {json.loads(l)['id']: json.loads(l) for l in open('/verif/properties.jsonl')}[pid]
wt = f"/tmp/seed-{pid}{tag}"
print(f"""You are helping to evaluate a verification framework by planting ONE realistic defect in SeaweedFS 2.59 (Go). You know nothing about the framework and must not look at it: do NOT read, list or touch anything under /verif, and do NOT modify /repo itself.

Setup (run first):
  export GOFLAGS=-mod=mod GOPROXY=off GOSUMDB=off GOTOOLCHAIN=local   (every shell call; there is no network)
  git -C /repo worktree add --detach {wt}
Work ONLY inside {wt} (your private checkout) and write your deliverables to {wt}-out/ .

The property that your change must break:
  Title: {p['title']}
  Statement: {p['statement']}
  Code it is anchored in (starting points, not a limit): {', '.join(p['anchors']['files'])}

Task: change the SeaweedFS source (non-test .go files) in {wt} so that the property above no longer holds, while
  (1) everything still compiles: (cd {wt} && go build ./... ),
  (2) the existing test suite still passes: (cd {wt} && go test -mod=mod -vet=off -count=1 ./weed/... 2>&1 | grep -v 'no test files' | tail -40). One test, TestPositioning in weed/storage/erasure_coding, already fails before any change and may keep failing; everything else that passed before must still pass. Do not edit or delete existing tests.
  (3) the defect needs something SPECIFIC to manifest — a particular interleaving of goroutines, a fault or crash at a particular point, a multi-step sequence of operations, an unusual input, or two cooperating code sites that each look fine alone. It must NOT be something ordinary use or a smoke test would expose at once.
  (4) it looks like a plausible developer mistake, refactoring slip or 'optimisation' (a dropped adjustment, a lock released too early, a check moved, an off-by-one at a boundary, an update published before the data it guards …), small (a few lines, one or two sites).
Files named zz_verif*.go (build tag `verif`) are instrumentation: leave them alone and do not rely on them.

Then write a DEMONSTRATION: a new Go test file (package-internal _test.go placed in the worktree) or a small program that deterministically (or, for a race, with very high probability, e.g. by forcing the interleaving with sleeps/hooks local to the test) FAILS with your change and PASSES without it. Verify both directions yourself with `git diff -- <files> > /tmp/mine.diff; git apply -R /tmp/mine.diff; <run>; git apply /tmp/mine.diff; <run>`. NEVER use `git stash`: the stash is shared by every worktree of /repo and other people are working in sibling worktrees.

Deliverables in {wt}-out/ :
  patch.diff   — `git -C {wt} diff -- <the non-test source files you changed>` (source change only, applies with `git apply` to a clean checkout of the same commit)
  demo/        — the demonstration file(s) with their path relative to the repository root preserved (e.g. demo/weed/storage/zz_seed_test.go), plus run.sh with the exact command that runs it
  README.md    — what the change is, why it breaks the property, exactly what is needed for it to manifest, and the commands you ran with their outcomes (build, test suite, demo with and without the change)
Leave the worktree in place (with your change applied) when you finish. Do not commit anything anywhere. Work autonomously; do not ask questions. Your final message: a short summary (files changed, how it manifests, demo command, test-suite result).""")
