#!/bin/bash
# tools/mkwt.sh <dir>: (re)create a scratch worktree of /repo at <dir> with the current HEAD
# plus every hook file (zz_verif*.go, tracked or not) so that checks build against it:
#   VERIF_REPO=<dir> ./v CNN quick
set -e
d="$1"
if [ ! -d "$d/.git" ] && [ ! -f "$d/.git" ]; then
  git -C /repo worktree add --detach "$d" >/dev/null 2>&1
fi
git -C "$d" checkout -q -- . 2>/dev/null || true
git -C "$d" clean -fdq
git -C "$d" checkout -q --detach "$(git -C /repo rev-parse HEAD)"
(cd /repo && find . -name 'zz_verif*.go' -not -path './.git/*') | while read f; do
  mkdir -p "$d/$(dirname "$f")"; cp "/repo/$f" "$d/$f"
done
echo "worktree $d at $(git -C "$d" rev-parse --short HEAD)"
