#!/usr/bin/env python3
"""Rewrites the region between the SEEDS markers of DESIGN.md from seeded/*/meta.json and mutants/*.patch."""
import subprocess
p = '/verif/DESIGN.md'
s = open(p).read()
a = s.index('<!-- SEEDS-BEGIN -->') + len('<!-- SEEDS-BEGIN -->')
b = s.index('<!-- SEEDS-END -->')
tab = subprocess.run(['python3', '/verif/tools/seedtable.py'], capture_output=True, text=True).stdout
open(p, 'w').write(s[:a] + '\n' + tab + s[b:])

# fixed defects
s = open(p).read()
a = s.index('<!-- FIXED-BEGIN -->') + len('<!-- FIXED-BEGIN -->')
b = s.index('<!-- FIXED-END -->')
lines = []
for l in open('/verif/known_findings.txt'):
    if l.startswith('fixed:'):
        parts = l.split(None, 3)
        lines.append('* %s `%s` — %s' % (parts[1].replace('property=', ''), parts[2], parts[3].strip()))
lines.sort()
open(p, 'w').write(s[:a] + '\n' + '\n'.join(lines) + '\n' + s[b:])
