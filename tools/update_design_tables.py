#!/usr/bin/env python3
"""Rewrites the region between the SEEDS markers of DESIGN.md from seeded/*/meta.json and mutants/*.patch."""
import subprocess
p = '/verif/DESIGN.md'
s = open(p).read()
a = s.index('<!-- SEEDS-BEGIN -->') + len('<!-- SEEDS-BEGIN -->')
b = s.index('<!-- SEEDS-END -->')
tab = subprocess.run(['python3', '/verif/tools/seedtable.py'], capture_output=True, text=True).stdout
open(p, 'w').write(s[:a] + '\n' + tab + s[b:])
