#!/bin/bash
# tools/seedrun.sh <patch> <check id> [tier]: apply a seeded change in a scratch worktree and run one check on it.
set -e
patch="$1"; id="$2"; tier="${3:-quick}"
wt=/tmp/wt-seedrun-$$
/verif/tools/mkwt.sh $wt >/dev/null
git -C $wt apply "$patch"
cd /verif
set +e
VERIF_REPO=$wt ./v $id $tier 2>&1 | grep -v "^KNOWN-FINDING" | tail -${TAILN:-6} | cut -c1-${CUTN:-700}
rc=${PIPESTATUS[0]}
set -e
echo "exit=$rc"
git -C /repo worktree remove --force $wt
rm -rf /verif/.build/alt-$(python3 -c "import hashlib;print(hashlib.md5('$wt'.encode()).hexdigest()[:8])")
