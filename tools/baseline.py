#!/usr/bin/env python3
"""Runs the repository's pinned test suite with the verif guard OFF and compares with /root/.vp/BASELINE.json."""
import json, subprocess, sys
base = json.load(open('/root/.vp/BASELINE.json'))
want = set(base['stable_pass'])
repo = sys.argv[1] if len(sys.argv) > 1 else '/repo'
p = subprocess.run("go test -mod=mod -json -vet=off -count=1 -timeout 25m ./...", shell=True, cwd=repo, capture_output=True, text=True,
                   env={**__import__('os').environ, 'GOFLAGS': '-mod=mod', 'GOPROXY': 'off', 'GOSUMDB': 'off'})
passed, failed = set(), set()
for ln in p.stdout.splitlines():
    try:
        e = json.loads(ln)
    except Exception:
        continue
    if e.get('Test') and e.get('Action') in ('pass', 'fail'):
        name = e['Package'] + '::' + e['Test']
        (passed if e['Action'] == 'pass' else failed).add(name)
missing = sorted(want - passed)
# weed/storage::TestFastLoadingNeedleMapMetrics draws rand.Int63n(0) with probability 0.2 at its first
# iteration and then panics, taking the package's other tests with it (a flake of the pinned suite itself):
# re-run packages with missing tests up to 4 more times
for attempt in range(4):
    if not missing:
        break
    pkgs = sorted({m.split('::')[0] for m in missing})
    rel = ['./' + pk.split('github.com/chrislusf/seaweedfs/')[1] for pk in pkgs]
    p2 = subprocess.run("go test -mod=mod -json -vet=off -count=1 -timeout 25m " + " ".join(rel), shell=True, cwd=repo, capture_output=True, text=True,
                        env={**__import__('os').environ, 'GOFLAGS': '-mod=mod', 'GOPROXY': 'off', 'GOSUMDB': 'off'})
    for ln in p2.stdout.splitlines():
        try:
            e = json.loads(ln)
        except Exception:
            continue
        if e.get('Test') and e.get('Action') == 'pass':
            passed.add(e['Package'] + '::' + e['Test'])
            failed.discard(e['Package'] + '::' + e['Test'])
    missing = sorted(want - passed)
print("passed %d, failed %d, baseline %d, baseline tests not passing: %d" % (len(passed), len(failed), len(want), len(missing)))
for m in missing:
    print("  MISSING", m)
for f in sorted(failed):
    print("  FAILED ", f)
sys.exit(1 if missing else 0)
