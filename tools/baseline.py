#!/usr/bin/env python3
"""Runs the repository's pinned test suite with the verif guard OFF and compares with /root/.vp/BASELINE.json."""
import json, subprocess, sys
base = json.load(open('/root/.vp/BASELINE.json'))
want = set(base['stable_pass'])
repo = sys.argv[1] if len(sys.argv) > 1 else '/repo'
p = subprocess.run("go test -mod=mod -json -vet=off -count=1 -timeout 25m ./...", shell=True, cwd=repo, capture_output=True, text=True,
                   env={**__import__('os').environ, 'GOFLAGS': '-mod=mod', 'GOPROXY': 'off', 'GOSUMDB': 'off'})
passed, failed = set(), set()
for ln in p.stdout.splitlines():
    try:
        e = json.loads(ln)
    except Exception:
        continue
    if e.get('Test') and e.get('Action') in ('pass', 'fail'):
        name = e['Package'] + '::' + e['Test']
        (passed if e['Action'] == 'pass' else failed).add(name)
missing = sorted(want - passed)
print("passed %d, failed %d, baseline %d, baseline tests not passing: %d" % (len(passed), len(failed), len(want), len(missing)))
for m in missing:
    print("  MISSING", m)
for f in sorted(failed):
    print("  FAILED ", f)
sys.exit(1 if missing else 0)
