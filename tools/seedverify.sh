#!/bin/bash
# tools/seedverify.sh <seed-out-dir> <seed id, e.g. C14a>
# Confirms a seeded change independently in a scratch worktree: the patch applies to a clean checkout,
# everything builds, the existing test suite passes (TestPositioning excepted, as at baseline), the
# demonstration fails with the change and passes without it.  On success it is filed under /verif/seeded/<id>/.
export GOFLAGS=-mod=mod GOPROXY=off GOSUMDB=off GOTOOLCHAIN=local
out="$1"; id="$2"
wt=/tmp/wt-sv-$id
log=/tmp/sv-$id.log
: > $log
git -C /repo worktree remove --force $wt >/dev/null 2>&1
git -C /repo worktree add --detach $wt >/dev/null 2>&1 || { echo "worktree failed"; exit 2; }
cd $wt
git apply "$out/patch.diff" || { echo "patch does not apply"; exit 1; }
echo "== build" >> $log
go build ./... >> $log 2>&1 || { echo "BUILD FAILS"; exit 1; }
echo "== suite with change" >> $log
python3 /verif/tools/baseline.py $wt >> $log 2>&1
suite=$?
(cd "$out/demo" && find . -name '*.go') | while read f; do mkdir -p "$wt/$(dirname $f)"; cp "$out/demo/$f" "$wt/$f"; done
# run the demonstration tests ourselves: every Test function of every _test.go file in demo/, in its package
rundemo() {
  rc=0
  for f in $(cd "$out/demo" && find . -name '*_test.go'); do
    pkg=$(dirname "$f")
    names=$(grep -ho '^func Test[A-Za-z0-9_]*' "$out/demo/$f" | sed 's/^func //' | paste -sd'|')
    echo "-- go test -run ^($names)\$ ./$pkg/" >> $log
    (cd $wt && go test -mod=mod -vet=off -count=1 ${SEEDTAGS:+-tags $SEEDTAGS} -run "^($names)\$" ./$pkg/) >> $log 2>&1 || rc=1
  done
  return $rc
}
echo "== demo with change" >> $log
rundemo; with=$?
git apply -R "$out/patch.diff"
echo "== demo without change" >> $log
rundemo; without=$?
echo "$id: suite_rc=$suite demo_with_change_rc=$with demo_without_change_rc=$without"
cd /verif
git -C /repo worktree remove --force $wt
if [ $suite -eq 0 ] && [ $with -ne 0 ] && [ $without -eq 0 ]; then
  mkdir -p /verif/seeded/$id
  cp "$out/patch.diff" /verif/seeded/$id/
  rm -rf /verif/seeded/$id/demo; cp -r "$out/demo" /verif/seeded/$id/demo
  cp "$out/README.md" /verif/seeded/$id/README.md 2>/dev/null
  grep -v '^[IWE][0-9][0-9][0-9][0-9] ' $log | tail -c 4000 > /verif/seeded/$id/verify.log
  echo "$id CONFIRMED"
else
  echo "$id NOT-CONFIRMED"; tail -30 $log
fi
