#!/usr/bin/env python3
"""Build-and-run wrapper for the checks.  See ./v."""
import fcntl
import json
import os
import subprocess
import sys

ROOT = os.path.dirname(os.path.dirname(os.path.abspath(__file__)))
CFG = json.load(open(os.path.join(ROOT, "tools", "groups.json")))
CFG.setdefault("groups", {})
CFG.setdefault("checks", {})
import glob
for _f in sorted(glob.glob(os.path.join(ROOT, "tools", "groups.d", "*.json"))):
    _c = json.load(open(_f))
    CFG["groups"].update(_c.get("groups", {}))
    CFG["checks"].update(_c.get("checks", {}))
REPO = os.environ.get("VERIF_REPO", "/repo")


def sh(cmd, **kw):
    return subprocess.run(cmd, cwd=ROOT, **kw)


def build_dir():
    if REPO == "/repo":
        return os.path.join(ROOT, ".build")
    import hashlib
    return os.path.join(ROOT, ".build", "alt-" + hashlib.md5(REPO.encode()).hexdigest()[:8])


def modfile_args(bd):
    """When checking a tree other than /repo (seeded changes in a scratch worktree) use an alternate go.mod."""
    if REPO == "/repo":
        return []
    os.makedirs(bd, exist_ok=True)
    src = open(os.path.join(ROOT, "go.mod")).read()
    src = src.replace("=> /repo", "=> " + REPO)
    mf = os.path.join(bd, "go.mod")
    if not os.path.exists(mf) or open(mf).read() != src:
        open(mf, "w").write(src)
        sumsrc = open(os.path.join(ROOT, "go.sum")).read()
        open(os.path.join(bd, "go.sum"), "w").write(sumsrc)
    return ["-modfile=" + mf]


def build_tool(name, bd):
    out = os.path.join(ROOT, ".build", "tools", name)
    r = sh(["go", "build", "-o", out, "./cmd/" + name])
    if r.returncode != 0:
        print("INFRA-ERROR cannot build tool", name)
        sys.exit(2)
    return out


def build_group(gname):
    g = CFG["groups"][gname]
    bd = build_dir()
    os.makedirs(os.path.join(bd, "bin"), exist_ok=True)
    lock = open(os.path.join(bd, gname + ".lock"), "w")
    fcntl.flock(lock, fcntl.LOCK_EX)
    try:
        args = ["go", "build"] + modfile_args(bd)
        tags = g.get("tags", "verif")
        args += ["-tags", tags]
        if g.get("race"):
            args += ["-race"]
        if g.get("overlay"):
            vr = build_tool("vrewrite", bd)
            odir = os.path.join(bd, "overlay-" + gname)
            spec = os.path.join(ROOT, "tools", g["overlay"])
            r = sh([vr, "-repo", REPO, "-spec", spec, "-out", odir])
            if r.returncode != 0:
                print("INFRA-ERROR vrewrite failed for group", gname)
                sys.exit(2)
            args += ["-overlay", os.path.join(odir, "overlay.json")]
        out = os.path.join(bd, "bin", gname)
        args += ["-o", out, g["pkg"]]
        env = dict(os.environ)
        if g.get("overlay"):
            # overlays on module-cache files are ignored by the module index; read sources directly
            env["GODEBUG"] = "goindex=0"
        r = sh(args, env=env)
        if r.returncode != 0:
            # The harness could not be compiled against the current tree.  That is
            # neither "held" nor "violated".
            print("INFRA-ERROR build of group %s failed against %s" % (gname, REPO))
            sys.exit(2)
        return out
    finally:
        fcntl.flock(lock, fcntl.LOCK_UN)


def main():
    a = sys.argv[1:]
    if not a:
        print(__doc__)
        sys.exit(2)
    if a[0] == "--setup":
        os.makedirs(os.path.join(ROOT, ".build", "tools"), exist_ok=True)
        claimed = [l.strip() for l in open(os.path.join(ROOT, "tools", "claimed.txt")) if l.strip() and not l.startswith("#")]
        todo = []
        for f in claimed:
            c = json.load(open(os.path.join(ROOT, "tools", "groups.d", f + ".json")))
            for chk in c.get("checks", {}).values():
                for g in [chk["group"]] + chk.get("extra_groups", []):
                    if g not in todo:
                        todo.append(g)
        for gname in todo:
            build_group(gname)
        print("setup ok")
        return
    cid = a[0]
    if cid not in CFG["checks"]:
        print("INFRA-ERROR unknown check", cid)
        sys.exit(2)
    os.makedirs(os.path.join(ROOT, ".build", "tools"), exist_ok=True)
    gname = CFG["checks"][cid]["group"]
    exe = build_group(gname)
    for g2 in CFG["checks"][cid].get("extra_groups", []):
        os.environ["VERIF_BIN_" + g2] = build_group(g2)
    os.makedirs(os.path.join(ROOT, "evidence"), exist_ok=True)
    if REPO != "/repo":
        os.environ["VERIF_OUT"] = os.path.join(build_dir(), "out")
        os.makedirs(os.environ["VERIF_OUT"], exist_ok=True)
    os.execv(exe, [exe, cid] + a[1:])


if __name__ == "__main__":
    main()
