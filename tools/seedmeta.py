#!/usr/bin/env python3
"""tools/seedmeta.py <id> <property> <breaks> <needs> <detected_by> [note]: writes /verif/seeded/<id>/meta.json"""
import json, sys
i, prop, breaks, needs, det = sys.argv[1:6]
note = sys.argv[6] if len(sys.argv) > 6 else ""
m = {"id": i, "property": prop, "breaks": breaks, "needs": needs, "detected_by": det,
     "source": "fresh sub-agent given only the property text and its own worktree (prompt: tools/seed_prompt.py)",
     "confirmed": {"how": "tools/seedverify.sh: patch applied to a clean scratch worktree of /repo HEAD, go build ./..., pinned suite via tools/baseline.py (all 137 stable tests pass; TestPositioning fails as at baseline), demonstration tests fail with the change and pass after git apply -R; tools/seedrun.sh <patch> <check> then runs the registered quick check against a worktree with the change; worktrees removed afterwards", "log": "verify.log"}}
if note:
    m["note"] = note
json.dump(m, open(f"/verif/seeded/{i}/meta.json", "w"), indent=1)
