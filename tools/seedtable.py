#!/usr/bin/env python3
"""Prints the markdown tables of seeded changes (seeded/*/meta.json) and of the builders' own mutants (mutants/*.patch)."""
import json, glob, os, re
print("| seed | property | what it breaks (needs) | verdict of the registered check |")
print("|---|---|---|---|")
for f in sorted(glob.glob('/verif/seeded/*/meta.json')):
    m = json.load(open(f))
    note = (" — " + m["note"]) if m.get("note") else ""
    print("| %s | %s | %s (%s) | %s%s |" % (m["id"], m["property"], m["breaks"].replace("|", "/"), m["needs"].replace("|", "/"), m["detected_by"].replace("|", "/"), note.replace("|", "/")))
print()
by = {}
for f in sorted(glob.glob('/verif/mutants/*.patch')):
    b = os.path.basename(f)[:-6]
    pid, name = b.split('-', 1)
    by.setdefault(pid, []).append(name)
print("| property | builders' own mutants (all caught by `./v <id> quick`) |")
print("|---|---|")
for pid in sorted(by):
    print("| %s | %s |" % (pid, ", ".join(by[pid])))
