module verif

go 1.20

require (
	github.com/anishathalye/porcupine v1.3.0
	github.com/chrislusf/seaweedfs v0.0.0
)

require (
	github.com/beorn7/perks v1.0.1 // indirect
	github.com/cespare/xxhash/v2 v2.1.1 // indirect
	github.com/disintegration/imaging v1.6.2 // indirect
	github.com/fsnotify/fsnotify v1.4.9 // indirect
	github.com/golang/protobuf v1.4.3 // indirect
	github.com/golang/snappy v0.0.1 // indirect
	github.com/google/btree v1.0.0 // indirect
	github.com/hashicorp/hcl v1.0.0 // indirect
	github.com/klauspost/crc32 v1.2.0 // indirect
	github.com/magiconair/properties v1.8.1 // indirect
	github.com/matttproud/golang_protobuf_extensions v1.0.1 // indirect
	github.com/mitchellh/mapstructure v1.1.2 // indirect
	github.com/pelletier/go-toml v1.7.0 // indirect
	github.com/prometheus/client_golang v1.11.0 // indirect
	github.com/prometheus/client_model v0.2.0 // indirect
	github.com/prometheus/common v0.26.0 // indirect
	github.com/prometheus/procfs v0.6.0 // indirect
	github.com/seaweedfs/goexif v1.0.2 // indirect
	github.com/spf13/afero v1.3.1 // indirect
	github.com/spf13/cast v1.3.0 // indirect
	github.com/spf13/jwalterweatherman v1.1.0 // indirect
	github.com/spf13/pflag v1.0.3 // indirect
	github.com/spf13/viper v1.4.0 // indirect
	github.com/syndtr/goleveldb v1.0.0 // indirect
	golang.org/x/image v0.0.0-20200119044424-58c23975cae1 // indirect
	golang.org/x/net v0.0.0-20201202161906-c7110b5ffcbb // indirect
	golang.org/x/sys v0.0.0-20210603081109-ebe580a85c40 // indirect
	golang.org/x/text v0.3.5 // indirect
	google.golang.org/genproto v0.0.0-20200608115520-7c474a2e3482 // indirect
	google.golang.org/grpc v1.29.1 // indirect
	google.golang.org/protobuf v1.26.0-rc.1 // indirect
	gopkg.in/yaml.v2 v2.3.0 // indirect
)

replace github.com/chrislusf/seaweedfs => /repo

replace go.etcd.io/etcd => go.etcd.io/etcd v0.5.0-alpha.5.0.20200425165423-262c93980547
