module verif

go 1.20

require (
	github.com/anishathalye/porcupine v1.3.0
	github.com/chrislusf/raft v1.0.7
	github.com/chrislusf/seaweedfs v0.0.0
	github.com/golang/protobuf v1.4.3
	github.com/gorilla/mux v1.7.4
	github.com/seaweedfs/fuse v1.1.8
	github.com/syndtr/goleveldb v1.0.0
	go.etcd.io/etcd v3.3.15+incompatible
	golang.org/x/net v0.0.0-20201202161906-c7110b5ffcbb
	google.golang.org/grpc v1.29.1
)

require (
	cloud.google.com/go v0.58.0 // indirect
	cloud.google.com/go/pubsub v1.3.1 // indirect
	cloud.google.com/go/storage v1.9.0 // indirect
	github.com/Azure/azure-pipeline-go v0.2.2 // indirect
	github.com/Azure/azure-storage-blob-go v0.9.0 // indirect
	github.com/DataDog/zstd v1.3.6-0.20190409195224-796139022798 // indirect
	github.com/Shopify/sarama v1.23.1 // indirect
	github.com/aws/aws-sdk-go v1.34.30 // indirect
	github.com/beorn7/perks v1.0.1 // indirect
	github.com/buraksezer/consistent v0.0.0-20191006190839-693edf70fd72 // indirect
	github.com/bwmarrin/snowflake v0.3.0 // indirect
	github.com/cespare/xxhash v1.1.0 // indirect
	github.com/cespare/xxhash/v2 v2.1.1 // indirect
	github.com/coreos/go-semver v0.3.0 // indirect
	github.com/coreos/go-systemd/v22 v22.0.0 // indirect
	github.com/davecgh/go-spew v1.1.1 // indirect
	github.com/dgryski/go-rendezvous v0.0.0-20200823014737-9f7001d12a5f // indirect
	github.com/disintegration/imaging v1.6.2 // indirect
	github.com/dustin/go-humanize v1.0.0 // indirect
	github.com/eapache/go-resiliency v1.2.0 // indirect
	github.com/eapache/go-xerial-snappy v0.0.0-20180814174437-776d5712da21 // indirect
	github.com/eapache/queue v1.1.0 // indirect
	github.com/facebookgo/clock v0.0.0-20150410010913-600d898af40a // indirect
	github.com/facebookgo/stats v0.0.0-20151006221625-1b76add642e4 // indirect
	github.com/fsnotify/fsnotify v1.4.9 // indirect
	github.com/go-errors/errors v1.1.1 // indirect
	github.com/go-redis/redis/v8 v8.4.4 // indirect
	github.com/go-sql-driver/mysql v1.5.0 // indirect
	github.com/go-stack/stack v1.8.0 // indirect
	github.com/go-zookeeper/zk v1.0.2 // indirect
	github.com/gocql/gocql v0.0.0-20190829130954-e163eff7a8c6 // indirect
	github.com/gogo/protobuf v1.2.2-0.20190730201129-28a6bbf47e48 // indirect
	github.com/golang-jwt/jwt v3.2.1+incompatible // indirect
	github.com/golang/groupcache v0.0.0-20200121045136-8c9f03a8e57e // indirect
	github.com/golang/snappy v0.0.1 // indirect
	github.com/google/btree v1.0.0 // indirect
	github.com/google/go-cmp v0.5.5 // indirect
	github.com/google/uuid v1.1.1 // indirect
	github.com/google/wire v0.4.0 // indirect
	github.com/googleapis/gax-go v2.0.2+incompatible // indirect
	github.com/googleapis/gax-go/v2 v2.0.5 // indirect
	github.com/grpc-ecosystem/go-grpc-middleware v1.0.1-0.20190118093823-f849b5445de4 // indirect
	github.com/hailocab/go-hostpool v0.0.0-20160125115350-e80d13ce29ed // indirect
	github.com/hashicorp/go-uuid v1.0.1 // indirect
	github.com/hashicorp/hcl v1.0.0 // indirect
	github.com/jcmturner/gofork v1.0.0 // indirect
	github.com/jmespath/go-jmespath v0.4.0 // indirect
	github.com/json-iterator/go v1.1.11 // indirect
	github.com/karlseguin/ccache/v2 v2.0.7 // indirect
	github.com/klauspost/compress v1.10.9 // indirect
	github.com/klauspost/cpuid v1.2.1 // indirect
	github.com/klauspost/crc32 v1.2.0 // indirect
	github.com/klauspost/reedsolomon v1.9.2 // indirect
	github.com/kurin/blazer v0.5.3 // indirect
	github.com/lib/pq v1.10.0 // indirect
	github.com/magiconair/properties v1.8.1 // indirect
	github.com/mailru/easyjson v0.7.1 // indirect
	github.com/mattn/go-ieproxy v0.0.1 // indirect
	github.com/mattn/go-isatty v0.0.12 // indirect
	github.com/mattn/go-runewidth v0.0.4 // indirect
	github.com/matttproud/golang_protobuf_extensions v1.0.1 // indirect
	github.com/mitchellh/mapstructure v1.1.2 // indirect
	github.com/modern-go/concurrent v0.0.0-20180306012644-bacd9c7ef1dd // indirect
	github.com/modern-go/reflect2 v1.0.1 // indirect
	github.com/nats-io/jwt v1.0.1 // indirect
	github.com/nats-io/nats.go v1.10.0 // indirect
	github.com/nats-io/nkeys v0.2.0 // indirect
	github.com/nats-io/nuid v1.0.1 // indirect
	github.com/olivere/elastic/v7 v7.0.19 // indirect
	github.com/pelletier/go-toml v1.7.0 // indirect
	github.com/peterh/liner v1.1.0 // indirect
	github.com/pierrec/lz4 v2.2.7+incompatible // indirect
	github.com/pkg/errors v0.9.1 // indirect
	github.com/pquerna/cachecontrol v0.1.0 // indirect
	github.com/prometheus/client_golang v1.11.0 // indirect
	github.com/prometheus/client_model v0.2.0 // indirect
	github.com/prometheus/common v0.26.0 // indirect
	github.com/prometheus/procfs v0.6.0 // indirect
	github.com/rcrowley/go-metrics v0.0.0-20190826022208-cac0b30c2563 // indirect
	github.com/remyoudompheng/bigfft v0.0.0-20200410134404-eec4a21b6bb0 // indirect
	github.com/seaweedfs/goexif v1.0.2 // indirect
	github.com/sirupsen/logrus v1.6.0 // indirect
	github.com/skip2/go-qrcode v0.0.0-20200617195104-da1b6568686e // indirect
	github.com/spaolacci/murmur3 v1.1.0 // indirect
	github.com/spf13/afero v1.3.1 // indirect
	github.com/spf13/cast v1.3.0 // indirect
	github.com/spf13/jwalterweatherman v1.1.0 // indirect
	github.com/spf13/pflag v1.0.3 // indirect
	github.com/spf13/viper v1.4.0 // indirect
	github.com/streadway/amqp v0.0.0-20200108173154-1c71cc93ed71 // indirect
	github.com/tidwall/gjson v1.8.1 // indirect
	github.com/tidwall/match v1.0.3 // indirect
	github.com/tidwall/pretty v1.1.0 // indirect
	github.com/tsuna/gohbase v0.0.0-20201125011725-348991136365 // indirect
	github.com/valyala/bytebufferpool v1.0.0 // indirect
	github.com/viant/ptrie v0.3.0 // indirect
	github.com/viant/toolbox v0.33.2 // indirect
	github.com/willf/bitset v1.1.10 // indirect
	github.com/willf/bloom v2.0.3+incompatible // indirect
	github.com/xdg-go/pbkdf2 v1.0.0 // indirect
	github.com/xdg-go/scram v1.0.2 // indirect
	github.com/xdg-go/stringprep v1.0.2 // indirect
	github.com/youmark/pkcs8 v0.0.0-20181117223130-1be2e3e5546d // indirect
	go.mongodb.org/mongo-driver v1.7.0 // indirect
	go.opencensus.io v0.22.4 // indirect
	go.opentelemetry.io/otel v0.15.0 // indirect
	go.uber.org/atomic v1.6.0 // indirect
	go.uber.org/multierr v1.5.0 // indirect
	go.uber.org/zap v1.14.1 // indirect
	gocloud.dev v0.20.0 // indirect
	gocloud.dev/pubsub/natspubsub v0.20.0 // indirect
	gocloud.dev/pubsub/rabbitpubsub v0.20.0 // indirect
	golang.org/x/crypto v0.0.0-20200622213623-75b288015ac9 // indirect
	golang.org/x/image v0.0.0-20200119044424-58c23975cae1 // indirect
	golang.org/x/oauth2 v0.0.0-20200107190931-bf48bf16ab8d // indirect
	golang.org/x/sync v0.0.0-20201207232520-09787c993a3a // indirect
	golang.org/x/sys v0.0.0-20210603081109-ebe580a85c40 // indirect
	golang.org/x/text v0.3.5 // indirect
	golang.org/x/xerrors v0.0.0-20200804184101-5ec99f83aff1 // indirect
	google.golang.org/api v0.26.0 // indirect
	google.golang.org/genproto v0.0.0-20200608115520-7c474a2e3482 // indirect
	google.golang.org/protobuf v1.26.0-rc.1 // indirect
	gopkg.in/inf.v0 v0.9.1 // indirect
	gopkg.in/jcmturner/aescts.v1 v1.0.1 // indirect
	gopkg.in/jcmturner/dnsutils.v1 v1.0.1 // indirect
	gopkg.in/jcmturner/gokrb5.v7 v7.3.0 // indirect
	gopkg.in/jcmturner/rpc.v1 v1.1.0 // indirect
	gopkg.in/yaml.v2 v2.3.0 // indirect
	modernc.org/b v1.0.0 // indirect
	modernc.org/libc v1.9.5 // indirect
	modernc.org/mathutil v1.2.2 // indirect
	modernc.org/memory v1.0.4 // indirect
	modernc.org/sqlite v1.10.7 // indirect
)

replace github.com/chrislusf/seaweedfs => /repo

replace go.etcd.io/etcd => go.etcd.io/etcd v0.5.0-alpha.5.0.20200425165423-262c93980547
