#!/bin/bash
# ./v <id> <quick|thorough>            run one check
# ./v <id> --replay <path>             re-execute one recorded case
# ./v --setup                          pre-build every group binary
# Exit codes: 0 held, 1 violation, 2 infrastructure error.
set -u
cd "$(dirname "$0")"
export GOFLAGS=-mod=mod GOPROXY=off GOSUMDB=off GOTOOLCHAIN=local
export VERIF_REPO="${VERIF_REPO:-/repo}"
exec python3 tools/v.py "$@"
