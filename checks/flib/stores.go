package flib

import (
	"context"
	"errors"
	"fmt"
	"sort"
	"sync"

	"github.com/chrislusf/seaweedfs/weed/filer"
	leveldb1 "github.com/chrislusf/seaweedfs/weed/filer/leveldb"
	leveldb2 "github.com/chrislusf/seaweedfs/weed/filer/leveldb2"
	leveldb3 "github.com/chrislusf/seaweedfs/weed/filer/leveldb3"
	"github.com/chrislusf/seaweedfs/weed/pb/filer_pb"
	"github.com/chrislusf/seaweedfs/weed/util"
)

// Conf is a util.Configuration backed by a map.
type Conf map[string]interface{}

func (c Conf) GetString(key string) string {
	s, _ := c[key].(string)
	return s
}
func (c Conf) GetBool(key string) bool {
	b, _ := c[key].(bool)
	return b
}
func (c Conf) GetInt(key string) int {
	i, _ := c[key].(int)
	return i
}
func (c Conf) GetStringSlice(key string) []string {
	s, _ := c[key].([]string)
	return s
}
func (c Conf) SetDefault(key string, value interface{}) {
	if _, ok := c[key]; !ok {
		c[key] = value
	}
}

// StoreKinds are the embedded stores plus the in-harness store without native prefix listing.
var StoreKinds = []string{"leveldb", "leveldb2", "leveldb3", "memstore-noprefix"}

// OpenStore opens a real embedded store in dir (through its public Initialize), or the in-harness MemStore.
func OpenStore(kind, dir string) (filer.FilerStore, error) {
	var s filer.FilerStore
	switch kind {
	case "leveldb":
		s = &leveldb1.LevelDBStore{}
	case "leveldb2":
		s = &leveldb2.LevelDB2Store{}
	case "leveldb3":
		s = &leveldb3.LevelDB3Store{}
	case "memstore-noprefix":
		return NewMemStore(), nil
	default:
		return nil, fmt.Errorf("unknown store kind %q", kind)
	}
	if err := s.Initialize(Conf{"x.dir": dir}, "x."); err != nil {
		return nil, err
	}
	return s, nil
}

// ErrCallBudget is returned by MemStore when one request makes more store calls than
// CallBudget allows: a deterministic stand-in for "the caller never terminates".
var ErrCallBudget = errors.New("memstore: call budget of the request exceeded")

// MemStore is a boring, correct FilerStore: a sorted map per directory.  It does not
// implement prefixed listing (returns filer.ErrUnsupportedListDirectoryPrefixed), so the
// wrapper's generic prefixFilterEntries path is used.
type MemStore struct {
	mu         sync.Mutex
	dirs       map[string]map[string][]byte // dir -> name -> encoded entry
	kv         map[string][]byte
	Calls      int64 // listing calls since ResetCalls
	CallBudget int64 // 0 = unlimited
}

func NewMemStore() *MemStore {
	return &MemStore{dirs: map[string]map[string][]byte{}, kv: map[string][]byte{}}
}

func (m *MemStore) ResetCalls() {
	m.mu.Lock()
	m.Calls = 0
	m.mu.Unlock()
}

func (m *MemStore) GetName() string                                  { return "memstore" }
func (m *MemStore) Initialize(c util.Configuration, p string) error { return nil }

func (m *MemStore) InsertEntry(ctx context.Context, e *filer.Entry) error {
	b, err := e.EncodeAttributesAndChunks()
	if err != nil {
		return err
	}
	dir, name := e.FullPath.DirAndName()
	m.mu.Lock()
	defer m.mu.Unlock()
	if m.dirs[dir] == nil {
		m.dirs[dir] = map[string][]byte{}
	}
	m.dirs[dir][name] = b
	return nil
}

func (m *MemStore) UpdateEntry(ctx context.Context, e *filer.Entry) error { return m.InsertEntry(ctx, e) }

func (m *MemStore) FindEntry(ctx context.Context, p util.FullPath) (*filer.Entry, error) {
	dir, name := p.DirAndName()
	m.mu.Lock()
	b, ok := m.dirs[dir][name]
	m.mu.Unlock()
	if !ok {
		return nil, filer_pb.ErrNotFound
	}
	e := &filer.Entry{FullPath: p}
	if err := e.DecodeAttributesAndChunks(b); err != nil {
		return nil, err
	}
	return e, nil
}

func (m *MemStore) DeleteEntry(ctx context.Context, p util.FullPath) error {
	dir, name := p.DirAndName()
	m.mu.Lock()
	delete(m.dirs[dir], name)
	m.mu.Unlock()
	return nil
}

func (m *MemStore) DeleteFolderChildren(ctx context.Context, p util.FullPath) error {
	m.mu.Lock()
	delete(m.dirs, string(p))
	m.mu.Unlock()
	return nil
}

func (m *MemStore) ListDirectoryEntries(ctx context.Context, dirPath util.FullPath, startFileName string, includeStartFile bool, limit int64, eachEntryFunc filer.ListEachEntryFunc) (lastFileName string, err error) {
	m.mu.Lock()
	m.Calls++
	over := m.CallBudget > 0 && m.Calls > m.CallBudget
	var names []string
	for n := range m.dirs[string(dirPath)] {
		names = append(names, n)
	}
	sort.Strings(names)
	blobs := make([][]byte, len(names))
	for i, n := range names {
		blobs[i] = m.dirs[string(dirPath)][n]
	}
	m.mu.Unlock()
	if over {
		return "", ErrCallBudget
	}
	for i, n := range names {
		if n < startFileName || (n == startFileName && !includeStartFile) {
			continue
		}
		limit--
		if limit < 0 {
			break
		}
		lastFileName = n
		e := &filer.Entry{FullPath: util.NewFullPath(string(dirPath), n)}
		if err := e.DecodeAttributesAndChunks(blobs[i]); err != nil {
			return lastFileName, err
		}
		if !eachEntryFunc(e) {
			break
		}
	}
	return lastFileName, nil
}

func (m *MemStore) ListDirectoryPrefixedEntries(ctx context.Context, dirPath util.FullPath, startFileName string, includeStartFile bool, limit int64, prefix string, eachEntryFunc filer.ListEachEntryFunc) (string, error) {
	return "", filer.ErrUnsupportedListDirectoryPrefixed
}

func (m *MemStore) BeginTransaction(ctx context.Context) (context.Context, error) { return ctx, nil }
func (m *MemStore) CommitTransaction(ctx context.Context) error                   { return nil }
func (m *MemStore) RollbackTransaction(ctx context.Context) error                 { return nil }

func (m *MemStore) KvPut(ctx context.Context, key []byte, value []byte) error {
	m.mu.Lock()
	m.kv[string(key)] = append([]byte(nil), value...)
	m.mu.Unlock()
	return nil
}
func (m *MemStore) KvGet(ctx context.Context, key []byte) ([]byte, error) {
	m.mu.Lock()
	v, ok := m.kv[string(key)]
	m.mu.Unlock()
	if !ok {
		return nil, filer.ErrKvNotFound
	}
	return v, nil
}
func (m *MemStore) KvDelete(ctx context.Context, key []byte) error {
	m.mu.Lock()
	delete(m.kv, string(key))
	m.mu.Unlock()
	return nil
}
func (m *MemStore) Shutdown() {}
