// Package flib holds small helpers shared by the checks of group filerlib.
package flib

import (
	"context"
	"flag"
	"fmt"
	"io"
	"net"
	"net/http"
	"net/http/httptest"
	"os"
	"sort"
	"strconv"
	"strings"
	"sync"

	"github.com/chrislusf/seaweedfs/weed/util"
)

// QuietGlog sends glog output (which goes through os.Stderr) to /dev/null.  Panics
// and runtime crashes still reach the real fd 2.
func QuietGlog() {
	flag.Set("logtostderr", "true")
	if f, err := os.OpenFile(os.DevNull, os.O_WRONLY, 0); err == nil {
		os.Stderr = f
	}
}

// BlobServer is an in-process blob source (httptest) that serves byte strings by
// file id: GET /<fid> with optional "Range: bytes=a-b".  It stands in for a
// volume server for the chunk fetch path (util.ReadUrlAsStream).
type BlobServer struct {
	mu    sync.RWMutex
	blobs map[string][]byte
	srv   *httptest.Server
	url   string
}

// NewBlobServer starts a blob server on a loopback TCP port (httptest).
func NewBlobServer() *BlobServer {
	b := &BlobServer{blobs: map[string][]byte{}}
	b.srv = httptest.NewServer(http.HandlerFunc(b.serve))
	b.url = b.srv.URL
	return b
}

// NewPipeBlobServer starts a blob server reached through in-memory connections:
// the repository's HTTP client (weed/util.Transport) is told to dial net.Pipe
// pairs whose other end is served by a real net/http server.  Everything above
// the socket (request, Range handling, response parsing in util.ReadUrlAsStream)
// is the real code; only the kernel's loopback is cut out, because a loopback
// round trip costs ~1 ms in this sandbox.  At most one per process.
func NewPipeBlobServer() *BlobServer {
	b := &BlobServer{blobs: map[string][]byte{}, url: "http://blob.verif:80"}
	pl := &pipeListener{ch: make(chan net.Conn, 64), done: make(chan struct{})}
	go http.Serve(pl, http.HandlerFunc(b.serve))
	util.Transport.DialContext = func(ctx context.Context, network, addr string) (net.Conn, error) {
		c1, c2 := net.Pipe()
		select {
		case pl.ch <- c2:
			return c1, nil
		case <-pl.done:
			return nil, fmt.Errorf("blob server closed")
		}
	}
	return b
}

type pipeListener struct {
	ch   chan net.Conn
	done chan struct{}
}

func (p *pipeListener) Accept() (net.Conn, error) {
	select {
	case c := <-p.ch:
		return c, nil
	case <-p.done:
		return nil, fmt.Errorf("closed")
	}
}
func (p *pipeListener) Close() error   { return nil }
func (p *pipeListener) Addr() net.Addr { return &net.TCPAddr{IP: net.IPv4(127, 0, 0, 1), Port: 80} }

func (b *BlobServer) Close() {
	if b.srv != nil {
		b.srv.Close()
	}
}

func (b *BlobServer) Put(fid string, data []byte) {
	b.mu.Lock()
	b.blobs[fid] = append([]byte(nil), data...)
	b.mu.Unlock()
}

func (b *BlobServer) Get(fid string) ([]byte, bool) {
	b.mu.RLock()
	d, ok := b.blobs[fid]
	b.mu.RUnlock()
	return d, ok
}

func (b *BlobServer) Delete(fid string) {
	b.mu.Lock()
	delete(b.blobs, fid)
	b.mu.Unlock()
}

// Lookup is a wdclient.LookupFileIdFunctionType.
func (b *BlobServer) Lookup(fileId string) ([]string, error) {
	return []string{b.url + "/" + fileId}, nil
}

// Addr is host:port of the server.
func (b *BlobServer) Addr() string { return strings.TrimPrefix(b.url, "http://") }

func (b *BlobServer) serve(w http.ResponseWriter, r *http.Request) {
	fid := strings.TrimPrefix(r.URL.Path, "/")
	if fid == "" {
		fid = r.URL.Query().Get("proxyChunkId")
	}
	d, ok := b.Get(fid)
	if !ok {
		http.Error(w, "no such blob "+fid, http.StatusNotFound)
		return
	}
	if rg := r.Header.Get("Range"); rg != "" {
		// bytes=a-b (inclusive)
		rg = strings.TrimPrefix(rg, "bytes=")
		i := strings.IndexByte(rg, '-')
		if i < 0 {
			http.Error(w, "bad range", http.StatusBadRequest)
			return
		}
		a, e1 := strconv.Atoi(rg[:i])
		z, e2 := strconv.Atoi(rg[i+1:])
		if e1 != nil || e2 != nil || a < 0 || z < a || a >= len(d) {
			http.Error(w, "bad range", http.StatusRequestedRangeNotSatisfiable)
			return
		}
		if z >= len(d) {
			z = len(d) - 1
		}
		w.Header().Set("Content-Range", fmt.Sprintf("bytes %d-%d/%d", a, z, len(d)))
		w.Header().Set("Content-Length", strconv.Itoa(z-a+1))
		w.WriteHeader(http.StatusPartialContent)
		w.Write(d[a : z+1])
		return
	}
	w.Header().Set("Content-Length", strconv.Itoa(len(d)))
	w.Write(d)
}

// ReadAllString reads r to the end.
func ReadAllString(r io.Reader) string {
	b, _ := io.ReadAll(r)
	return string(b)
}

// Tally is a goroutine-local class counter flushed into the run in one go.
type Tally map[string]int64

func (t Tally) Add(class string) { t[class]++ }

// SortedKeys returns the classes in order (deterministic flush).
func (t Tally) SortedKeys() []string {
	ks := make([]string, 0, len(t))
	for k := range t {
		ks = append(ks, k)
	}
	sort.Strings(ks)
	return ks
}
