package c15

import (
	"bytes"
	"fmt"
	"os"
	"regexp"
	"runtime/debug"
	"sort"
	"strconv"
	"strings"
	"syscall"

	"github.com/chrislusf/seaweedfs/weed/shell"

	"verif/mc"
)

const rule = "complete product: cluster shapes (<=2 data centers x <=2 racks x <=2 servers, one rack with 3) x per-server max volume counts x {hdd, hdd+ssd} x multisets of volumes (replication 000/001/010/100/011, writable/read-only, placed in every way that satisfies the placement, misses one replica, or has one extra) within capacity; every snapshot through volume.balance (ALL_COLLECTIONS and EACH_COLLECTION), volume.server.evacuate of every server, volume.fix.replication -n; every planned step applied to a reference cluster and checked; distinct = (planner, plan length class, outcome)"

func Main() { mc.Main("C15", "exploration", rule, run) }

// ---------------------------------------------------------------------------
// stdout capture: moveVolume prints the planned moves to os.Stdout

type capture struct {
	r, w *os.File
	rfd  int
	buf  []byte
}

func newCapture() *capture {
	r, w, err := os.Pipe()
	if err != nil {
		mc.Fatal("pipe: %v", err)
	}
	rfd := int(r.Fd()) // Fd() switches the descriptor to blocking mode: call it once, then make it non-blocking
	if err := syscall.SetNonblock(rfd, true); err != nil {
		mc.Fatal("nonblock: %v", err)
	}
	return &capture{r: r, w: w, rfd: rfd, buf: make([]byte, 1<<16)}
}

// do runs f with os.Stdout pointing into the pipe and returns what f printed
// (plans are far below the 64 KiB pipe capacity, so f never blocks on the pipe).
func (c *capture) do(f func()) string {
	saved := os.Stdout
	os.Stdout = c.w
	f()
	os.Stdout = saved
	var out []byte
	for {
		n, err := syscall.Read(c.rfd, c.buf)
		if n > 0 {
			out = append(out, c.buf[:n]...)
		}
		if err == syscall.EAGAIN || err == syscall.EWOULDBLOCK {
			break
		}
		if err != nil {
			mc.Fatal("capture read: %v", err)
		}
		if n == 0 {
			break
		}
	}
	return string(out)
}

// ---------------------------------------------------------------------------
// planners

type Case struct {
	Snap    Snapshot `json:"snapshot"`
	Planner string   `json:"planner"` // balance-all | balance-each | evacuate | fix
	Arg     string   `json:"arg,omitempty"`
	// repair domain (fixdomain.go): which kind of replica was lost and the free-slot pattern
	Domain  string `json:"domain,omitempty"`
	Lost    string `json:"lost,omitempty"`
	Pattern string `json:"pattern,omitempty"`

	fixedSteps []step // a plan already recovered for this case (evaluate then does not re-plan)
}

var moveRe = regexp.MustCompile(`^  moving (\S*) volume (?:([A-Za-z]+)_)?(\d+) (\S+) => (\S+)$`)
var replRe = regexp.MustCompile(`^replicating volume (\d+) (\d\d\d) from (\S+) to dataNode (\S+) \.\.\.$`)
var delRe = regexp.MustCompile(`^deleting volume (\d+) from (\S+) \.\.\.$`)
var overRe = regexp.MustCompile(`^volume (\d+) replication (\d\d\d), but over replicated \+\d+$`)
var failRe = regexp.MustCompile(`^failed to place volume (\d+) replica as (\d\d\d), existing:\d+$`)
var skipRe = regexp.MustCompile(`^skipping non moveable volume (\d+) replication:(\d\d\d)$`)

// plan runs one planner on the snapshot and recovers the planned steps.
func plan(cp *capture, c *Case) (steps []step, final map[uint32][]shell.ReplicaLocTopoV, notes []string, err error) {
	topo := c.Snap.TopologyInfo()
	var w bytes.Buffer
	var stdout string
	switch c.Planner {
	case "balance-all":
		stdout = cp.do(func() { final, err = shell.BalanceVolumesTopoV(topo, sizeLimitMB, "ALL_COLLECTIONS", nil, "") })
	case "balance-each":
		cols := map[string]bool{}
		for _, v := range c.Snap.Vols {
			cols[v.Col] = true
		}
		var cl []string
		for k := range cols {
			cl = append(cl, k)
		}
		sort.Strings(cl)
		stdout = cp.do(func() { final, err = shell.BalanceVolumesTopoV(topo, sizeLimitMB, "EACH_COLLECTION", cl, "") })
	case "evacuate":
		stdout = cp.do(func() { err = shell.EvacuateNormalVolumesTopoV(topo, c.Arg, true, &w) })
	case "fix":
		stdout = cp.do(func() { err = shell.FixReplicationTopoV(topo, &w) })
	default:
		mc.Fatal("unknown planner %q", c.Planner)
	}
	for _, ln := range strings.Split(stdout, "\n") {
		if ln == "" {
			continue
		}
		m := moveRe.FindStringSubmatch(ln)
		if m == nil {
			mc.Fatal("C15: unparseable planner stdout line %q (planner %s)", ln, c.Planner)
		}
		vid, _ := strconv.Atoi(m[3])
		steps = append(steps, step{Kind: "move", Vid: uint32(vid), Src: m[4], Dst: m[5]})
	}
	for _, ln := range strings.Split(w.String(), "\n") {
		if ln == "" {
			continue
		}
		if m := replRe.FindStringSubmatch(ln); m != nil {
			vid, _ := strconv.Atoi(m[1])
			steps = append(steps, step{Kind: "copy", Vid: uint32(vid), Src: m[3], Dst: m[4]})
		} else if m := delRe.FindStringSubmatch(ln); m != nil {
			vid, _ := strconv.Atoi(m[1])
			steps = append(steps, step{Kind: "delete", Vid: uint32(vid), Src: m[2]})
		} else if overRe.MatchString(ln) {
			notes = append(notes, "over-replicated-reported")
		} else if failRe.MatchString(ln) {
			notes = append(notes, "no-place-found")
		} else if skipRe.MatchString(ln) {
			notes = append(notes, "non-moveable-skipped")
		} else {
			mc.Fatal("C15: unparseable planner output line %q (planner %s)", ln, c.Planner)
		}
	}
	return
}

// evaluate runs one case; returns the violated clause (or ""), message, outcome note.
func evaluate(cp *capture, c *Case) (clause, msg, note string) {
	var steps []step
	var final map[uint32][]shell.ReplicaLocTopoV
	var notes []string
	var err error
	if c.fixedSteps != nil {
		steps = c.fixedSteps
	} else {
		steps, final, notes, err = plan(cp, c)
	}
	if err != nil {
		notes = append(notes, "planner-error")
	}
	cl := newCluster(&c.Snap)
	for i, st := range steps {
		cls, m, infra := cl.apply(st)
		if infra {
			mc.Fatal("C15: plan recovery failed: %s (case %s)", m, mc.JS(c))
		}
		if cls != "" && clause == "" {
			clause = cls + features(c, cl, steps, i, cls)
			msg = fmt.Sprintf("step %d of %d: %s | plan: %v", i+1, len(steps), m, steps)
		}
	}
	// cross-check the recovered plan with the planner's own final bookkeeping
	// (only for plans without a violation: after a move onto a server that already holds the
	// volume the bookkeeping is a multiset and the reference cluster is not)
	if final != nil && clause == "" {
		for vid, locs := range final {
			// compared as sets: when the planner moves a volume onto a server that already holds
			// a replica (reported above as a violation) its bookkeeping lists that server twice
			var got []string
			for _, l := range locs {
				got = append(got, l.Node)
			}
			sort.Strings(got)
			got = uniqS(got)
			var want []string
			for n := range cl.on[vid] {
				want = append(want, c.Snap.Nodes[n].Id)
			}
			sort.Strings(want)
			if strings.Join(got, ",") != strings.Join(want, ",") {
				mc.Fatal("C15: printed plan and adjustAfterMove bookkeeping disagree for volume %d: bookkeeping %v, replayed plan %v (case %s)", vid, got, want, mc.JS(c))
			}
		}
	}
	n := "0"
	if len(steps) == 1 {
		n = "1"
	} else if len(steps) > 1 {
		n = "2+"
	}
	sort.Strings(notes)
	note = fmt.Sprintf("steps=%s|%s", n, strings.Join(uniqS(notes), "+"))
	return
}

func uniqS(a []string) []string {
	var o []string
	for i, x := range a {
		if i == 0 || a[i-1] != x {
			o = append(o, x)
		}
	}
	return o
}

// features narrows a violated clause by features of the failing step (computed on
// the reference cluster AFTER the step was applied).
func features(c *Case, cl *cluster, steps []step, i int, clause string) string {
	st := steps[i]
	if clause == "two-replicas-on-one-server" {
		// replication 000 skips isGoodMove altogether (known finding); for replicated volumes the
		// "never move to existing nodes" guard of isGoodMove should have refused
		if cl.vol(st.Vid).Rp == 0 {
			return ":replication-000"
		}
		return ":replicated-volume"
	}
	if clause == "repair-copy-violates-placement" {
		// replication, what the new copy is relative to the copies that were there (a data center
		// without a copy / a rack without a copy / a rack that has one), and - in the repair domain -
		// which kind of copy had been lost
		v := cl.vol(st.Vid)
		dst := cl.s.locOf(cl.byId[st.Dst])
		lvl := "new-datacenter"
		for _, l := range cl.locs(st.Vid) {
			if l.node == dst.node {
				continue
			}
			if l.rack == dst.rack {
				lvl = "rack-with-copy"
				break
			}
			if l.dc == dst.dc {
				lvl = "new-rack-in-datacenter-with-copy"
			}
		}
		f := fmt.Sprintf(":rp=%03d:dst=%s", v.Rp, lvl)
		if c.Lost != "" {
			f += ":lost=" + c.Lost
		}
		return f
	}
	if clause != "target-without-free-slot" {
		return ""
	}
	v := cl.vol(st.Vid)
	dst := cl.byId[st.Dst]
	switch c.Planner {
	case "balance-all", "balance-each":
		// volumes on the target that the planner counts in the pass that moved this volume:
		// same disk type, same writable/read-only class, and (EACH_COLLECTION) same collection
		same := 0
		for vid, m := range cl.on {
			o := cl.vol(vid)
			if vid == st.Vid || !m[dst] || o.Disk != v.Disk {
				continue
			}
			if cl.s.roOn(o, dst) != cl.s.roOn(v, cl.byId[st.Src]) {
				continue
			}
			if c.Planner == "balance-each" && o.Col != v.Col {
				continue
			}
			same++
		}
		if same < cl.s.Nodes[dst].Max[v.Disk] {
			return ":target-full-of-volumes-outside-the-balanced-pass"
		}
		return ":target-full-within-the-balanced-pass"
	case "evacuate":
		for _, e := range steps[:i] {
			if e.Dst == st.Dst && cl.vol(e.Vid).Disk == v.Disk {
				return ":filled-by-earlier-move-of-this-plan"
			}
		}
		return ":target-full-before-the-plan"
	case "fix":
		for _, e := range steps[:i] {
			if e.Dst == st.Dst {
				return ":after-earlier-copy-to-same-server-in-this-run"
			}
		}
		return ":first-copy"
	}
	return ""
}

func classOf(c *Case, clause string) string {
	p := c.Planner
	if strings.HasPrefix(p, "balance") {
		p = "balance"
	}
	return p + ":" + clause
}

// ---------------------------------------------------------------------------
// enumeration

type shapeT struct {
	Name string
	DCs  [][]int // dc -> rack -> number of servers
}

func (sh shapeT) nodes() []Node {
	var out []Node
	k := 0
	for d, racks := range sh.DCs {
		for r, cnt := range racks {
			for i := 0; i < cnt; i++ {
				k++
				out = append(out, Node{DC: fmt.Sprintf("dc%d", d+1), Rack: fmt.Sprintf("r%d", r+1), Id: fmt.Sprintf("s%d", k)})
			}
		}
	}
	return out
}

type volChoice struct {
	Rp   int
	RO   bool
	Disk string
	On   []int
	Kind string // ok | under | over
	Col  string
	// Mixed: the replica on the first server is writable, the others are read-only
	Mixed bool
}

func popcount(m int) int {
	c := 0
	for ; m > 0; m &= m - 1 {
		c++
	}
	return c
}

func maskNodes(m int) []int {
	var o []int
	for i := 0; m>>uint(i) > 0; i++ {
		if m>>uint(i)&1 == 1 {
			o = append(o, i)
		}
	}
	return o
}

// volumeChoices lists what one volume can look like on these nodes, simplest first.
func volumeChoices(s *Snapshot, rps []int, disks []string, ssdNodes map[int]bool, cols []string, kinds []string, mixed bool) []volChoice {
	if len(cols) == 0 {
		cols = []string{""}
	}
	if len(kinds) == 0 {
		kinds = []string{"ok", "under", "over"}
	}
	var out []volChoice
	n := len(s.Nodes)
	for _, disk := range disks {
		for _, rp := range rps {
			k := copyCount(rp)
			for _, kind := range kinds {
				for m := 1; m < 1<<uint(n); m++ {
					ns := maskNodes(m)
					if disk == "ssd" {
						all := true
						for _, x := range ns {
							all = all && ssdNodes[x]
						}
						if !all {
							continue
						}
					}
					var ls []loc
					for _, x := range ns {
						ls = append(ls, s.locOf(x))
					}
					good := false
					switch kind {
					case "ok":
						good = len(ns) == k && satisfies(rp, ls)
					case "under":
						good = len(ns) == k-1 && fits(rp, ls)
					case "over":
						if len(ns) == k+1 {
							for drop := range ns {
								var sub []loc
								sub = append(sub, ls[:drop]...)
								sub = append(sub, ls[drop+1:]...)
								if satisfies(rp, sub) {
									good = true
								}
							}
						}
					}
					if !good {
						continue
					}
					for _, col := range cols {
						for _, ro := range []bool{false, true} {
							out = append(out, volChoice{Rp: rp, RO: ro, Disk: disk, On: ns, Kind: kind, Col: col})
						}
						if mixed && len(ns) > 1 {
							out = append(out, volChoice{Rp: rp, Mixed: true, Disk: disk, On: ns, Kind: kind, Col: col})
						}
					}
				}
			}
		}
	}
	return out
}

type bounds struct {
	shapes  []shapeT
	maxMenu []int
	nVols   int
	rps     []int
	ssd     bool     // additionally: servers s1,s2 carry an ssd disk (max 1..2) and volumes may be ssd
	cols    []string // collections a volume may belong to (default: only "")
	kinds   []string // placement kinds (default ok, under, over)
	mixedRO bool     // additionally: multi-replica volumes whose first replica is writable and the others read-only
}

// enumerate calls f with every snapshot of the bounds (within capacity), each with
// every planner invocation.
func enumerate(b bounds, shard, nShards int, f func(c *Case)) {
	outer := 0
	for _, sh := range b.shapes {
		base := sh.nodes()
		n := len(base)
		diskCfgs := []bool{false}
		if b.ssd && n >= 2 {
			diskCfgs = append(diskCfgs, true)
		}
		for _, withSsd := range diskCfgs {
			ssdNodes := map[int]bool{}
			disks := []string{""}
			if withSsd {
				ssdNodes[0], ssdNodes[1] = true, true
				disks = append(disks, "ssd")
			}
			probe := Snapshot{Nodes: base}
			choices := volumeChoices(&probe, b.rps, disks, ssdNodes, b.cols, b.kinds, b.mixedRO)
			// max counts: hdd for every server; with ssd, s1 and s2 get an ssd max from {1,2}
			sizes := make([]int, n)
			for i := range sizes {
				sizes[i] = len(b.maxMenu)
			}
			if withSsd {
				sizes = append(sizes, 2, 2)
			}
			mc.Product(sizes, func(mx []int) bool {
				outer++
				if outer%nShards != shard {
					return true
				}
				nodes := make([]Node, n)
				for i := range nodes {
					nodes[i] = base[i]
					nodes[i].Max = map[string]int{"": b.maxMenu[mx[i]]}
				}
				if withSsd {
					nodes[0].Max["ssd"] = 1 + mx[n]
					nodes[1].Max["ssd"] = 1 + mx[n+1]
				}
				// multisets of 1..nVols volumes (non-decreasing choice index)
				var rec func(start int, picked []int)
				rec = func(start int, picked []int) {
					if len(picked) > 0 {
						s := Snapshot{Nodes: nodes}
						var used [16][2]int
						ok := true
						for i, ci := range picked {
							ch := &choices[ci]
							s.Vols = append(s.Vols, Vol{Id: uint32(i + 1), Rp: ch.Rp, Disk: ch.Disk, RO: ch.RO, Mixed: ch.Mixed, On: ch.On, Col: ch.Col})
							d := 0
							if ch.Disk != "" {
								d = 1
							}
							for _, x := range ch.On {
								used[x][d]++
								if used[x][d] > nodes[x].Max[ch.Disk] {
									ok = false
								}
							}
						}
						if ok {
							f(&Case{Snap: s, Planner: "balance-all"})
							f(&Case{Snap: s, Planner: "balance-each"})
							for i := range nodes {
								f(&Case{Snap: s, Planner: "evacuate", Arg: nodes[i].Id})
							}
							f(&Case{Snap: s, Planner: "fix"})
						}
						if !ok {
							return // adding volumes cannot repair an overfull server
						}
					}
					if len(picked) == b.nVols {
						return
					}
					for ci := start; ci < len(choices); ci++ {
						rec(ci, append(picked, ci))
					}
				}
				rec(0, nil)
				return true
			})
		}
	}
}

func run(r *mc.Run) {
	r.Assume("a snapshot is what the master's VolumeList would return for a cluster in which no server holds more volumes of a disk type than its max count; volume sizes are distinct per volume (the planners' size sort is then a total order)")
	r.Assume("free capacity of a server for a disk type = max volume count - volumes of that type on it (no EC shards, no remote volumes in these snapshots)")
	r.Assume("a replica set satisfies placement xyz iff it has x+y+z+1 distinct servers, one main data center with y+z+1 of them, x other data centers with one each, and inside the main data center one main rack with z+1 and y other racks with one each")
	r.Assume("Go map iteration order inside the planners is not enumerated; a reported plan must reproduce within 200 re-plans of the same snapshot")
	cp := newCapture()
	debug.SetGCPercent(400)
	if r.Replay != "" {
		var c Case
		if err := r.ReplayCase(&c); err != nil {
			mc.Fatal("replay: %v", err)
		}
		if c.Domain == "repair" {
			oneFix(r, cp, &c, map[string]int{})
			return
		}
		one(r, cp, &c)
		return
	}
	small := []shapeT{
		{"1dc-1rack-2", [][]int{{2}}},
		{"1dc-1rack-3", [][]int{{3}}},
		{"1dc-2racks-2+1", [][]int{{2, 1}}},
		{"2dc-1+1", [][]int{{1}, {1}}},
		{"2dc-2+1", [][]int{{2}, {1}}},
	}
	mid := []shapeT{
		{"1dc-2racks-2+2", [][]int{{2, 2}}},
		{"2dc-(1+1)+1", [][]int{{1, 1}, {1}}},
		{"2dc-(2+1)+1", [][]int{{2, 1}, {1}}},
	}
	big := []shapeT{
		{"2dc-(2+2)+(1)", [][]int{{2, 2}, {1}}},
		{"2dc-(3+1)+(1+1)", [][]int{{3, 1}, {1, 1}}},
	}
	// three racks in one data center: a replica can cross a rack boundary and its sibling can
	// then be moved again in the same run (the planners' bookkeeping of the first move decides)
	threeRacks := []shapeT{
		{"1dc-3racks-1+1+1", [][]int{{1, 1, 1}}},
		{"1dc-3racks-1+1+2", [][]int{{1, 1, 2}}},
	}
	allRp := []int{0, 1, 10, 100, 11}
	tiny := []shapeT{{"1dc-1rack-2", [][]int{{2}}}}
	ssdShapes := []shapeT{{"1dc-1rack-2", [][]int{{2}}}, {"2dc-2+1", [][]int{{2}, {1}}}}
	var passes []bounds
	if r.Quick() {
		passes = []bounds{
			{shapes: small, maxMenu: []int{1, 2}, nVols: 2, rps: allRp, mixedRO: true},
			{shapes: tiny, maxMenu: []int{1, 2, 3}, nVols: 4, rps: []int{0, 1}, cols: []string{"", "c"}},
			{shapes: tiny, maxMenu: []int{1, 2}, nVols: 2, rps: []int{0, 1}, ssd: true},
			{shapes: mid, maxMenu: []int{1, 2}, nVols: 2, rps: []int{0, 1, 10, 100}, kinds: []string{"ok", "under"}},
			{shapes: threeRacks, maxMenu: []int{1, 2}, nVols: 2, rps: []int{0, 10}, kinds: []string{"ok"}, mixedRO: true},
			{shapes: threeRacks[:1], maxMenu: []int{2, 4}, nVols: 3, rps: []int{0, 10}, kinds: []string{"ok"}, mixedRO: true},
		}
	} else {
		passes = []bounds{
			{shapes: small, maxMenu: []int{1, 2, 3}, nVols: 2, rps: allRp, ssd: true, mixedRO: true},
			{shapes: tiny, maxMenu: []int{1, 2, 3}, nVols: 4, rps: []int{0, 1}, cols: []string{"", "c"}, mixedRO: true},
			{shapes: small, maxMenu: []int{1, 2}, nVols: 3, rps: allRp},
			{shapes: mid, maxMenu: []int{1, 2, 3}, nVols: 2, rps: allRp, mixedRO: true},
			{shapes: ssdShapes, maxMenu: []int{1, 2}, nVols: 2, rps: allRp, ssd: true},
			{shapes: big, maxMenu: []int{1, 2}, nVols: 2, rps: allRp, kinds: []string{"ok", "under"}},
			{shapes: threeRacks, maxMenu: []int{1, 2, 3}, nVols: 2, rps: allRp, mixedRO: true},
			{shapes: threeRacks, maxMenu: []int{2, 4}, nVols: 3, rps: []int{0, 10}, kinds: []string{"ok"}, mixedRO: true},
		}
	}
	r.Parallel("repair", 16, func(shard, n int) {
		seen := map[string]int{}
		var cnt int64
		enumerateFix(r.Thorough(), shard, n, func(c *Case) {
			if !r.Begin(c) {
				return
			}
			cnt++
			oneFix(r, cp, c, seen)
		})
		r.Add("cases:repair-domain", cnt)
	})
	for pi, b := range passes {
		b := b
		r.Parallel(fmt.Sprintf("pass%d", pi), 16, func(shard, n int) {
			seen := map[string]int{}
			var cnt int64
			enumerate(b, shard, n, func(c *Case) {
				if !r.Begin(c) {
					return
				}
				cnt++
				oneCounted(r, cp, c, seen)
			})
			r.Add(fmt.Sprintf("cases:pass%d", pi), cnt)
		})
	}
}

func one(r *mc.Run, cp *capture, c *Case) { oneCounted(r, cp, c, map[string]int{}) }

func oneCounted(r *mc.Run, cp *capture, c *Case, seen map[string]int) {
	clause, msg, note := evaluate(cp, c)
	if clause == "" {
		r.Case(c.Planner + "|" + note)
		if strings.HasPrefix(note, "steps=1") || strings.HasPrefix(note, "steps=2") {
			r.Sample(c.Planner+"|"+note, c)
		}
		return
	}
	class := classOf(c, clause)
	r.Case(c.Planner + "|VIOLATION:" + clause)
	seen[class]++
	if seen[class] > 2 {
		r.Add("violating_cases", 1)
		return
	}
	r.Add("violating_cases", 1)
	cc := *c
	// Every observed plan is a real behaviour of the planner, whatever order the runtime picked
	// for its map walks, so the verdict stands on its own.  Reproduction is attempted and recorded.
	again := -1
	for i := 1; i <= 200; i++ {
		if c2, _, _ := evaluate(cp, &cc); c2 == clause {
			again = i
			break
		}
	}
	if again > 0 {
		msg += fmt.Sprintf(" | reproduced after %d re-plan(s)", again)
	} else {
		msg += " | not reproduced in 200 re-plans (depends on Go map iteration order inside the planner)"
		r.Add("violations_not_reproduced_in_200_replans", 1)
	}
	r.Violate(class, msg, cc, nil)
}
