package c15

import (
	"fmt"
	"strings"

	"verif/mc"
)

// Focused, exhaustive domain for volume.fix.replication on replications that need
// three data centers and/or four copies: ONE volume, placed in every way that
// satisfies its placement, then one replica removed in every way; for each such
// under-replicated volume every free-slot pattern that decides which candidate the
// planner tries first:
//   - "uniform": every server that does not hold the volume has 1 free slot
//   - "first=<server>": that server has 3 free slots, every other server 1
//     (destinations are tried in order of descending free volume count)
//   - "only=<server>": that server has 1 free slot, every other server is full
// Oracle: the statement's repair clause (the planned copy must leave a replica set
// that satisfies the placement); whether a copy was planned at all when a legal
// destination with room exists is recorded as an outcome class only.

var fixRps = []int{110, 200, 20, 2, 101, 111, 210, 120, 201, 102}

func fixShapes(thorough bool) []shapeT {
	s := []shapeT{
		{"3dc-(2+1)+(1+1)+(1+1)", [][]int{{2, 1}, {1, 1}, {1, 1}}},
		{"3dc-(3+1)+(1+1)+(1)", [][]int{{3, 1}, {1, 1}, {1}}},
	}
	if thorough {
		s = append(s,
			shapeT{"3dc-(2+2)+(2+2)+(1+1)", [][]int{{2, 2}, {2, 2}, {1, 1}}},
			shapeT{"3dc-(3+1)+(2+1)+(1+1)", [][]int{{3, 1}, {2, 1}, {1, 1}}},
			shapeT{"3dc-(1+1+1)+(1+1)+(1)", [][]int{{1, 1, 1}, {1, 1}, {1}}},
		)
	}
	return s
}

// lostLevel names what the removed replica was: the only copy in its data center,
// the only copy in its rack, or one of several in its rack.
func lostLevel(all []loc, removed int) string {
	dc, rack := 0, 0
	for i, l := range all {
		if i == removed {
			continue
		}
		if l.dc == all[removed].dc {
			dc++
		}
		if l.rack == all[removed].rack {
			rack++
		}
	}
	switch {
	case dc == 0:
		return "datacenter-copy"
	case rack == 0:
		return "rack-copy"
	}
	return "same-rack-copy"
}

func enumerateFix(thorough bool, shard, nShards int, f func(c *Case)) {
	outer := 0
	for _, sh := range fixShapes(thorough) {
		base := sh.nodes()
		n := len(base)
		probe := Snapshot{Nodes: base}
		for _, rp := range fixRps {
			k := copyCount(rp)
			for m := 1; m < 1<<uint(n); m++ {
				if popcount(m) != k {
					continue
				}
				ns := maskNodes(m)
				var ls []loc
				for _, x := range ns {
					ls = append(ls, probe.locOf(x))
				}
				if !satisfies(rp, ls) {
					continue
				}
				for drop := range ns {
					outer++
					if outer%nShards != shard {
						continue
					}
					var on []int
					on = append(on, ns[:drop]...)
					on = append(on, ns[drop+1:]...)
					holds := map[int]bool{}
					for _, x := range on {
						holds[x] = true
					}
					lost := lostLevel(ls, drop)
					emit := func(pattern string, free func(i int) int) {
						nodes := make([]Node, n)
						for i := range nodes {
							nodes[i] = base[i]
							mx := free(i)
							if holds[i] {
								mx++
							}
							nodes[i].Max = map[string]int{"": mx}
						}
						f(&Case{Snap: Snapshot{Nodes: nodes, Vols: []Vol{{Id: 1, Rp: rp, On: on}}}, Planner: "fix",
							Domain: "repair", Lost: lost, Pattern: pattern})
					}
					emit("uniform", func(int) int { return 1 })
					for c := 0; c < n; c++ {
						if holds[c] {
							continue
						}
						c := c
						emit("first", func(i int) int {
							if i == c {
								return 3
							}
							return 1
						})
						emit("only", func(i int) int {
							if i == c {
								return 1
							}
							return 0
						})
					}
				}
			}
		}
	}
}

// oneFix evaluates one case of the repair domain and classifies its outcome.
func oneFix(r *mc.Run, cp *capture, c *Case, seen map[string]int) {
	// is there a legal destination with room?
	cl := newCluster(&c.Snap)
	v := &c.Snap.Vols[0]
	legal := false
	for i := range c.Snap.Nodes {
		if cl.on[v.Id][i] || cl.free(i, "") < 1 {
			continue
		}
		after := append(cl.locs(v.Id), c.Snap.locOf(i))
		if satisfies(v.Rp, after) {
			legal = true
		}
	}
	steps, _, _, _ := plan(cp, c)
	outcome := "copy-planned"
	switch {
	case len(steps) == 0 && legal:
		outcome = "no-copy-although-a-legal-server-has-room" // incompleteness: not demanded by the statement
	case len(steps) == 0:
		outcome = "no-copy-and-no-legal-server-with-room"
	}
	key := fmt.Sprintf("repair|rp=%03d|lost=%s|%s|%s", v.Rp, c.Lost, c.Pattern, outcome)
	if len(steps) == 0 {
		r.Case(key)
		return
	}
	// the planned copy is judged by the common path (reference cluster + placement oracle)
	c2 := *c
	c2.fixedSteps = steps
	clause, msg, _ := evaluate(cp, &c2)
	if clause == "" {
		r.Case(key)
		r.Sample("repair|"+c.Lost, c)
		return
	}
	r.Case(key + "|VIOLATION")
	r.Add("violating_cases", 1)
	class := classOf(c, clause)
	seen[class]++
	if seen[class] > 2 {
		return
	}
	if !strings.Contains(msg, "legal") {
		msg += fmt.Sprintf(" | a legal destination with room exists: %v", legal)
	}
	r.Violate(class, msg, *c, nil)
}
