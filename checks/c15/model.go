// Package c15: volume.balance / volume.server.evacuate / volume.fix.replication
// plans never break placement.  Exhaustive over bounded cluster snapshots; every
// planned step is applied to a reference cluster model and checked.
package c15

import (
	"fmt"
	"sort"
	"strings"

	"github.com/chrislusf/seaweedfs/weed/pb/master_pb"
)

// ---------------------------------------------------------------------------
// snapshot

type Node struct {
	DC   string         `json:"dc"`
	Rack string         `json:"rack"`
	Id   string         `json:"id"`
	Max  map[string]int `json:"max"` // disk type ("" = hdd) -> max volume count
}

type Vol struct {
	Id   uint32 `json:"id"`
	Rp   int    `json:"rp"` // replica placement as the decimal xyz, e.g. 10 = 010
	Disk string `json:"disk"`
	RO   bool   `json:"ro"`
	Col  string `json:"col"`
	On   []int  `json:"on"` // indices into Nodes
	// Mixed: the replica on On[0] is writable and every other replica is read-only
	// (e.g. their disks ran low on space)
	Mixed bool `json:"mixedRO,omitempty"`
}

// roOn says whether the replica of v on server ni is read-only in the snapshot.
func (s *Snapshot) roOn(v *Vol, ni int) bool {
	if v.Mixed {
		return len(v.On) > 0 && ni != v.On[0]
	}
	return v.RO
}

type Snapshot struct {
	Nodes []Node `json:"nodes"`
	Vols  []Vol  `json:"vols"`
}

const sizeLimitMB = 1

// volume sizes are distinct per volume id so that the planners' size sort is a total order
func volSize(v *Vol) uint64 {
	if v.RO {
		return 100 + uint64(v.Id)
	}
	return 1000 + 10*uint64(v.Id)
}

func (s *Snapshot) volumesOn(ni int, disk string) (out []*Vol) {
	for i := range s.Vols {
		v := &s.Vols[i]
		if v.Disk != disk {
			continue
		}
		for _, n := range v.On {
			if n == ni {
				out = append(out, v)
			}
		}
	}
	return
}

// TopologyInfo renders the snapshot the way the master's VolumeList does.
func (s *Snapshot) TopologyInfo() *master_pb.TopologyInfo {
	t := &master_pb.TopologyInfo{Id: "topo"}
	dcs := map[string]*master_pb.DataCenterInfo{}
	racks := map[string]*master_pb.RackInfo{}
	for ni := range s.Nodes {
		n := &s.Nodes[ni]
		dc := dcs[n.DC]
		if dc == nil {
			dc = &master_pb.DataCenterInfo{Id: n.DC}
			dcs[n.DC] = dc
			t.DataCenterInfos = append(t.DataCenterInfos, dc)
		}
		rk := racks[n.DC+"/"+n.Rack]
		if rk == nil {
			rk = &master_pb.RackInfo{Id: n.Rack}
			racks[n.DC+"/"+n.Rack] = rk
			dc.RackInfos = append(dc.RackInfos, rk)
		}
		dn := &master_pb.DataNodeInfo{Id: n.Id, DiskInfos: map[string]*master_pb.DiskInfo{}}
		var dts []string
		for dt := range n.Max {
			dts = append(dts, dt)
		}
		sort.Strings(dts)
		for _, dt := range dts {
			di := &master_pb.DiskInfo{Type: dt, MaxVolumeCount: uint64(n.Max[dt])}
			for _, v := range s.volumesOn(ni, dt) {
				ro := s.roOn(v, ni)
				di.VolumeInfos = append(di.VolumeInfos, &master_pb.VolumeInformationMessage{
					Id: v.Id, Size: volSize(v), Collection: v.Col, FileCount: 3, ReadOnly: ro,
					ReplicaPlacement: uint32(v.Rp/100*100 + (v.Rp/10%10)*10 + v.Rp%10), Version: 3, DiskType: dt,
				})
				di.VolumeCount++
				if !ro {
					di.ActiveVolumeCount++
				}
			}
			di.FreeVolumeCount = di.MaxVolumeCount - di.VolumeCount
			dn.DiskInfos[dt] = di
		}
		rk.DataNodeInfos = append(rk.DataNodeInfos, dn)
	}
	return t
}

// ---------------------------------------------------------------------------
// placement oracle (independent of the planners' helpers)

type loc struct{ dc, rack, node string }

func (s *Snapshot) locOf(ni int) loc {
	n := &s.Nodes[ni]
	return loc{n.DC, n.DC + "/" + n.Rack, n.Id}
}

func distinctNodes(ls []loc) bool {
	seen := map[string]bool{}
	for _, l := range ls {
		if seen[l.node] {
			return false
		}
		seen[l.node] = true
	}
	return true
}

// shape tests whether the replica locations match placement xyz: one main data
// center holding y+z+1 replicas, x other data centers with one replica each;
// inside the main data center one main rack with z+1 replicas and y other racks
// with one replica each.  With exact=false it tests whether the locations can
// still be completed to such a placement (every count <= its target).
func shape(rp int, ls []loc, exact bool) bool {
	x, y, z := rp/100, rp/10%10, rp%10
	if !distinctNodes(ls) {
		return false
	}
	if exact && len(ls) != x+y+z+1 {
		return false
	}
	byDc := map[string][]loc{}
	for _, l := range ls {
		byDc[l.dc] = append(byDc[l.dc], l)
	}
	mains := []string{}
	for d := range byDc {
		mains = append(mains, d)
	}
	if !exact {
		mains = append(mains, "\x00none") // the main data center may be one that has no replica yet
	}
	for _, d := range mains {
		ok := true
		others := 0
		for d2, l2 := range byDc {
			if d2 == d {
				continue
			}
			others++
			if len(l2) != 1 {
				ok = false
			}
		}
		if exact && others != x || others > x {
			ok = false
		}
		in := byDc[d]
		if exact && len(in) != y+z+1 || len(in) > y+z+1 {
			ok = false
		}
		if !ok {
			continue
		}
		byRack := map[string]int{}
		for _, l := range in {
			byRack[l.rack]++
		}
		rmains := []string{}
		for r := range byRack {
			rmains = append(rmains, r)
		}
		if !exact {
			rmains = append(rmains, "\x00none")
		}
		for _, r := range rmains {
			rok := true
			ro := 0
			for r2, c := range byRack {
				if r2 == r {
					continue
				}
				ro++
				if c != 1 {
					rok = false
				}
			}
			if exact && ro != y || ro > y {
				rok = false
			}
			if exact && byRack[r] != z+1 || byRack[r] > z+1 {
				rok = false
			}
			if rok {
				return true
			}
		}
	}
	return false
}

func satisfies(rp int, ls []loc) bool { return shape(rp, ls, true) }
func fits(rp int, ls []loc) bool      { return shape(rp, ls, false) }

func copyCount(rp int) int { return rp/100 + rp/10%10 + rp%10 + 1 }

// ---------------------------------------------------------------------------
// reference cluster: the snapshot plus the steps applied so far

type cluster struct {
	s    *Snapshot
	on   map[uint32]map[int]bool // vid -> node indices
	byId map[string]int
}

func newCluster(s *Snapshot) *cluster {
	c := &cluster{s: s, on: map[uint32]map[int]bool{}, byId: map[string]int{}}
	for i := range s.Nodes {
		c.byId[s.Nodes[i].Id] = i
	}
	for i := range s.Vols {
		v := &s.Vols[i]
		m := map[int]bool{}
		for _, n := range v.On {
			m[n] = true
		}
		c.on[v.Id] = m
	}
	return c
}

func (c *cluster) vol(vid uint32) *Vol {
	for i := range c.s.Vols {
		if c.s.Vols[i].Id == vid {
			return &c.s.Vols[i]
		}
	}
	return nil
}

func (c *cluster) locs(vid uint32) []loc {
	var ns []int
	for n := range c.on[vid] {
		ns = append(ns, n)
	}
	sort.Ints(ns)
	var out []loc
	for _, n := range ns {
		out = append(out, c.s.locOf(n))
	}
	return out
}

// free slots of a disk type on a node: max - volumes of that type currently there
func (c *cluster) free(ni int, disk string) int {
	used := 0
	for vid, m := range c.on {
		if m[ni] && c.vol(vid).Disk == disk {
			used++
		}
	}
	return c.s.Nodes[ni].Max[disk] - used
}

type step struct {
	Kind string `json:"kind"` // move | copy | delete
	Vid  uint32 `json:"vid"`
	Src  string `json:"src,omitempty"`
	Dst  string `json:"dst,omitempty"`
}

func (st step) String() string {
	switch st.Kind {
	case "delete":
		return fmt.Sprintf("delete %d at %s", st.Vid, st.Src)
	default:
		return fmt.Sprintf("%s %d %s=>%s", st.Kind, st.Vid, st.Src, st.Dst)
	}
}

// apply checks one planned step against the statement and applies it.  It
// returns the violated clause ("" = fine) and a message; infra is set when the step
// does not make sense on the reference cluster at all (plan recovery is broken).
func (c *cluster) apply(st step) (clause, msg string, infra bool) {
	v := c.vol(st.Vid)
	if v == nil {
		return "", fmt.Sprintf("step %v names an unknown volume", st), true
	}
	before := c.locs(st.Vid)
	satisfiedBefore := satisfies(v.Rp, before)
	switch st.Kind {
	case "move", "copy":
		src, ok1 := c.byId[st.Src]
		dst, ok2 := c.byId[st.Dst]
		if !ok1 || !ok2 {
			return "", fmt.Sprintf("step %v names an unknown server", st), true
		}
		if !c.on[st.Vid][src] {
			return "", fmt.Sprintf("step %v: source does not hold the volume", st), true
		}
		if c.on[st.Vid][dst] {
			clause, msg = "two-replicas-on-one-server", fmt.Sprintf("%v: %s already holds volume %d", st, st.Dst, st.Vid)
		} else if c.free(dst, v.Disk) < 1 {
			clause, msg = "target-without-free-slot", fmt.Sprintf("%v: %s has %d free %q slots (max %d)", st, st.Dst, c.free(dst, v.Disk), diskName(v.Disk), c.s.Nodes[dst].Max[v.Disk])
		}
		if st.Kind == "move" {
			delete(c.on[st.Vid], src)
		}
		c.on[st.Vid][dst] = true
		after := c.locs(st.Vid)
		if clause == "" {
			if st.Kind == "move" && satisfiedBefore && !satisfies(v.Rp, after) {
				clause, msg = "move-breaks-satisfied-placement", fmt.Sprintf("%v: replication %03d was satisfied by %v and is not by %v", st, v.Rp, nodesOf(before), nodesOf(after))
			}
			if st.Kind == "copy" {
				okc := fits(v.Rp, after)
				if len(after) >= copyCount(v.Rp) {
					okc = satisfies(v.Rp, after)
				}
				if !okc {
					clause, msg = "repair-copy-violates-placement", fmt.Sprintf("%v: replication %03d, replicas after the copy %v", st, v.Rp, nodesOf(after))
				}
			}
		}
	case "delete":
		src, ok := c.byId[st.Src]
		if !ok || !c.on[st.Vid][src] {
			return "", fmt.Sprintf("step %v: server unknown or does not hold the volume", st), true
		}
		delete(c.on[st.Vid], src)
		after := c.locs(st.Vid)
		if satisfiedBefore && !satisfies(v.Rp, after) {
			clause, msg = "delete-breaks-satisfied-placement", fmt.Sprintf("%v: replication %03d was satisfied by %v", st, v.Rp, nodesOf(before))
		}
	default:
		return "", "unknown step kind " + st.Kind, true
	}
	return
}

func nodesOf(ls []loc) string {
	var p []string
	for _, l := range ls {
		p = append(p, l.node+"@"+l.rack)
	}
	return "[" + strings.Join(p, " ") + "]"
}

func diskName(d string) string {
	if d == "" {
		return "hdd"
	}
	return d
}
