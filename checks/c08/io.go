package c08

import "io"

func ioEOF() error { return io.EOF }
