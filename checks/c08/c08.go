// Package c08: persistent identifiers and headers round-trip exactly.
// Exhaustive enumeration of small complete domains (all 256 placement bytes,
// all 65536 TTL byte pairs, all strings of a small grammar, ...).
package c08

import (
	"fmt"
	"os"
	"path/filepath"
	"strconv"
	"strings"

	"verif/mc"

	"github.com/chrislusf/seaweedfs/weed/pb/master_pb"
	"github.com/chrislusf/seaweedfs/weed/storage/backend"
	"github.com/chrislusf/seaweedfs/weed/storage/idx"
	"github.com/chrislusf/seaweedfs/weed/storage/needle"
	"github.com/chrislusf/seaweedfs/weed/storage/needle_map"
	"github.com/chrislusf/seaweedfs/weed/storage/super_block"
	"github.com/chrislusf/seaweedfs/weed/storage/types"
)

func Main() {
	mc.Main("C08", "exploration",
		"complete products of small domains: 256 placement bytes, placement strings over {0,1,2,3,9,a}^<=4, 65536 TTL byte pairs, TTL strings count x unit, file ids over boundary volume/key/cookie + malformed strings, index entries over boundary key/offset/size, super blocks over version x placement x ttl x revision x extra; distinct = (domain, input class, outcome class)",
		run)
}

type w map[string]interface{}

func run(r *mc.Run) {
	if r.Replay != "" {
		var c struct {
			Domain string `json:"domain"`
			In     string `json:"in"`
		}
		if err := r.ReplayCase(&c); err != nil {
			mc.Fatal("replay: %v", err)
		}
		replayOne(r, c.Domain, c.In)
		return
	}
	placementBytes(r)
	placementStrings(r)
	ttlBytes(r)
	ttlStrings(r)
	volumeIds(r)
	fileIds(r)
	idxEntries(r)
	superBlocks(r)
	// the same index-entry domain in the 5-byte-offset build (offsets up to 8 TiB)
	r.ParallelExe(os.Getenv("VERIF_BIN_core5"), "5byte", 1, func(shard, n int) { idxEntries(r) })
}

func replayOne(r *mc.Run, domain, in string) {
	switch domain {
	case "placement-string":
		onePlacementString(r, in)
	case "ttl-string":
		oneTTLString(r, in)
	case "volume-id":
		oneVolumeId(r, in)
	case "file-id-string":
		oneFileIdString(r, in)
	default:
		// the remaining domains are cheap: re-run them completely
		placementBytes(r)
		ttlBytes(r)
		fileIds(r)
		idxEntries(r)
		superBlocks(r)
	}
}

// ---- replica placement --------------------------------------------------------

func validPlacementByte(b int) bool {
	return b/100 <= 2 && (b/10)%10 <= 2 && b%10 <= 2
}

func placementBytes(r *mc.Run) {
	for b := 0; b < 256; b++ {
		rp, err := super_block.NewReplicaPlacementFromByte(byte(b))
		valid := validPlacementByte(b)
		r.Case(fmt.Sprintf("rpbyte|valid=%v|err=%v", valid, err != nil))
		if valid {
			if err != nil {
				r.Violate("placement-byte-valid-rejected", fmt.Sprintf("byte %d: %v", b, err), w{"domain": "placement-byte", "in": strconv.Itoa(b)}, nil)
				continue
			}
			if int(rp.Byte()) != b || rp.DiffDataCenterCount != b/100 || rp.DiffRackCount != (b/10)%10 || rp.SameRackCount != b%10 {
				r.Violate("placement-byte-roundtrip", fmt.Sprintf("byte %d decoded to %+v re-encoded %d", b, rp, rp.Byte()), w{"domain": "placement-byte", "in": strconv.Itoa(b)}, nil)
			}
			// string form round trip
			rp2, err2 := super_block.NewReplicaPlacementFromString(rp.String())
			if err2 != nil || *rp2 != *rp || rp.GetCopyCount() != 1+b/100+(b/10)%10+b%10 {
				r.Violate("placement-string-roundtrip", fmt.Sprintf("byte %d string %q -> %+v %v", b, rp.String(), rp2, err2), w{"domain": "placement-byte", "in": strconv.Itoa(b)}, nil)
			}
		} else if err == nil {
			r.Violate("placement-byte-invalid-accepted", fmt.Sprintf("byte %d decoded to %+v", b, rp), w{"domain": "placement-byte", "in": strconv.Itoa(b)}, nil)
		}
	}
	r.Sample("placement-byte", w{"byte": 12, "string": "012"})
}

func placementStrings(r *mc.Run) {
	alpha := []string{"0", "1", "2", "3", "9", "a"}
	maxLen := 4
	if r.Thorough() {
		alpha = append(alpha, " ", "-", "+", "０") // incl. a full-width digit
		maxLen = 5
	}
	mc.Sequences(len(alpha), 0, maxLen, func(seq []int) bool {
		s := ""
		for _, i := range seq {
			s += alpha[i]
		}
		onePlacementString(r, s)
		return true
	})
	r.Sample("placement-string", "0012")
}

func onePlacementString(r *mc.Run, s string) {
	rp, err := super_block.NewReplicaPlacementFromString(s)
	// documented grammar: exactly three digits 0..2 ("" is the documented default 000).
	valid := len(s) == 3
	for _, c := range s {
		if c < '0' || c > '2' {
			valid = false
		}
	}
	shortOK := len(s) < 3 // shorter strings: the meaning is not documented; only their digits are checked
	for _, c := range s {
		if c < '0' || c > '2' {
			shortOK = false
		}
	}
	r.Case(fmt.Sprintf("rpstr|len=%d|valid=%v|err=%v", len(s), valid, err != nil))
	wit := w{"domain": "placement-string", "in": s}
	switch {
	case valid:
		if err != nil {
			r.Violate("placement-string-valid-rejected", fmt.Sprintf("%q: %v", s, err), wit, nil)
		} else if rp.String() != s {
			r.Violate("placement-string-roundtrip", fmt.Sprintf("%q decoded to %q", s, rp.String()), wit, nil)
		}
	case shortOK:
		// not judged (undocumented but digit-valid); counted only
	default:
		if err == nil {
			class := "placement-string-invalid-accepted"
			if len(s) > 3 {
				class = "placement-string-overlong-accepted"
			}
			r.Violate(class, fmt.Sprintf("%q silently decoded to %q", s, rp.String()), wit, nil)
		}
	}
}

// ---- TTL ------------------------------------------------------------------------

func ttlEmpty(t *needle.TTL) bool { return t == nil || t.Count == 0 }

func ttlBytes(r *mc.Run) {
	buf := make([]byte, 2)
	for c := 0; c < 256; c++ {
		for u := 0; u < 256; u++ {
			t := needle.LoadTTLFromBytes([]byte{byte(c), byte(u)})
			t.ToBytes(buf)
			r.Case(fmt.Sprintf("ttlbytes|c0=%v|unit=%d", c == 0, min(u, 7)))
			if int(buf[0]) != c || int(buf[1]) != u {
				r.Violate("ttl-bytes-roundtrip", fmt.Sprintf("(%d,%d) -> %+v -> (%d,%d)", c, u, t, buf[0], buf[1]), w{"domain": "ttl-bytes", "in": fmt.Sprint(c, ",", u)}, nil)
			}
			// uint32 form: what the heartbeat / master carry
			t2 := needle.LoadTTLFromUint32(t.ToUint32())
			if ttlEmpty(t) != ttlEmpty(t2) || (!ttlEmpty(t) && (*t != *t2)) {
				r.Violate("ttl-uint32-roundtrip", fmt.Sprintf("%+v -> %d -> %+v", t, t.ToUint32(), t2), w{"domain": "ttl-bytes", "in": fmt.Sprint(c, ",", u)}, nil)
			}
			// string form for the documented units
			if c > 0 && u >= 1 && u <= 6 {
				s := t.String()
				t3, err := needle.ReadTTL(s)
				if err != nil || *t3 != *t {
					r.Violate("ttl-string-roundtrip", fmt.Sprintf("%+v -> %q -> %+v %v", t, s, t3, err), w{"domain": "ttl-bytes", "in": fmt.Sprint(c, ",", u)}, nil)
				}
			}
		}
	}
	r.Sample("ttl-bytes", w{"count": 3, "unit": 1, "string": "3m"})
}

func ttlStrings(r *mc.Run) {
	counts := []string{"", "0", "1", "9", "255", "256", "257", "999", "65536", "-1", "1x", "+1", "01", " 1"}
	if r.Thorough() {
		counts = nil
		for c := -2; c <= 1030; c++ {
			counts = append(counts, strconv.Itoa(c))
		}
		counts = append(counts, "", "1x", "+1", "01", " 1", "1 ", "0x10", "1e2", "4294967296", "18446744073709551616")
	}
	units := []string{"m", "h", "d", "w", "M", "y", "", "s", "Y", "0", "x"}
	for _, c := range counts {
		for _, u := range units {
			oneTTLString(r, c+u)
		}
	}
	r.Sample("ttl-string", "256m")
}

func oneTTLString(r *mc.Run, s string) {
	t, err := needle.ReadTTL(s)
	// grammar (needle/volume_ttl.go doc comment): <count><unit> with unit in mhdwMy, or digits only = minutes;
	// the stored count is one byte, so 0..255.  "" = no TTL.
	unitChars := "mhdwMy"
	var wantCount int
	var wantUnit byte
	valid := false
	if s == "" {
		valid = true
	} else {
		body, u := s[:len(s)-1], s[len(s)-1]
		if u >= '0' && u <= '9' {
			body, u = s, 'm'
		}
		if i := strings.IndexByte(unitChars, u); i >= 0 && body != "" && allDigits(body) {
			n, e := strconv.Atoi(body)
			if e == nil && n >= 0 && n <= 255 {
				valid, wantCount, wantUnit = true, n, byte(i+1)
			}
		}
	}
	r.Case(fmt.Sprintf("ttlstr|valid=%v|err=%v", valid, err != nil))
	wit := w{"domain": "ttl-string", "in": s}
	if valid {
		if err != nil {
			r.Violate("ttl-string-valid-rejected", fmt.Sprintf("%q: %v", s, err), wit, nil)
			return
		}
		if s != "" && (int(t.Count) != wantCount || (wantCount > 0 && t.Unit != wantUnit)) {
			r.Violate("ttl-string-decode", fmt.Sprintf("%q -> %+v want (%d,%d)", s, t, wantCount, wantUnit), wit, nil)
		}
		return
	}
	if err == nil {
		class := "ttl-string-invalid-accepted"
		body, u := s[:len(s)-1], s[len(s)-1]
		if u >= '0' && u <= '9' {
			body, u = s, 'm'
		}
		n, e := strconv.Atoi(body)
		switch {
		case e == nil && !allDigits(body) && n >= 0 && n <= 255 && strings.IndexByte(unitChars, u) >= 0:
			// "+1m": an explicit plus sign decodes to the evident value; not judged
			return
		case e == nil && allDigits(body) && n > 255:
			class = "ttl-string-count-over-255-truncated"
		case e == nil && n < 0:
			class = "ttl-string-negative-count-accepted"
		case e == nil && strings.IndexByte(unitChars, u) < 0:
			class = "ttl-string-unknown-unit-accepted"
		}
		r.Violate(class, fmt.Sprintf("%q silently decoded to %+v (%q)", s, t, t.String()), wit, nil)
	}
}

func allDigits(s string) bool {
	for _, c := range s {
		if c < '0' || c > '9' {
			return false
		}
	}
	return true
}

// ---- volume ids, file ids -------------------------------------------------------

func volumeIds(r *mc.Run) {
	for _, s := range []string{"0", "1", "4294967295", "4294967296", "4294967297", "18446744073709551615", "18446744073709551616", "-1", "+1", "", "1a", " 1", "01"} {
		oneVolumeId(r, s)
	}
	r.Sample("volume-id", "4294967297")
}

func oneVolumeId(r *mc.Run, s string) {
	v, err := needle.NewVolumeId(s)
	n, e := strconv.ParseUint(s, 10, 64)
	valid := e == nil && n <= 0xffffffff && allDigits(s)
	r.Case(fmt.Sprintf("vid|valid=%v|err=%v", valid, err != nil))
	wit := w{"domain": "volume-id", "in": s}
	if valid {
		if err != nil || uint64(v) != n {
			r.Violate("volume-id-decode", fmt.Sprintf("%q -> %d %v", s, v, err), wit, nil)
		} else if v2, e2 := needle.NewVolumeId(v.String()); e2 != nil || v2 != v {
			r.Violate("volume-id-roundtrip", fmt.Sprintf("%q -> %d -> %q -> %d %v", s, v, v.String(), v2, e2), wit, nil)
		}
	} else if err == nil {
		class := "volume-id-invalid-accepted"
		if e == nil && n > 0xffffffff {
			class = "volume-id-over-32-bits-truncated"
		}
		r.Violate(class, fmt.Sprintf("%q silently decoded to %d", s, v), wit, nil)
	}
}

func fileIds(r *mc.Run) {
	vols := []uint32{1, 2, 0xffffffff}
	keys := []uint64{1, 0xff, 0x100, 0xffffffff, 1 << 32, 1<<64 - 1, 0x0100000000000000}
	cookies := []uint32{0, 1, 0x00ffffff, 0x01000000, 0xffffffff}
	for _, v := range vols {
		for _, k := range keys {
			for _, c := range cookies {
				f := needle.NewFileId(needle.VolumeId(v), k, c)
				s := f.String()
				g, err := needle.ParseFileIdFromString(s)
				r.Case(fmt.Sprintf("fid|keybytes=%d|cookie0=%v|ok=%v", keyBytes(k), c == 0, err == nil))
				if err != nil || *g != *f {
					r.Violate("file-id-roundtrip", fmt.Sprintf("%+v -> %q -> %+v %v", f, s, g, err), w{"domain": "file-id", "in": s}, nil)
					continue
				}
				if g.String() != s {
					r.Violate("file-id-not-canonical", fmt.Sprintf("%q re-encodes as %q", s, g.String()), w{"domain": "file-id", "in": s}, nil)
				}
				// key/cookie part alone (used in URLs)
				nid, ck, err := needle.ParseNeedleIdCookie(f.GetNeedleIdCookie())
				if err != nil || uint64(nid) != k || uint32(ck) != c {
					r.Violate("needle-id-cookie-roundtrip", fmt.Sprintf("%+v -> %q -> %x %x %v", f, f.GetNeedleIdCookie(), nid, ck, err), w{"domain": "file-id", "in": s}, nil)
				}
			}
		}
	}
	for _, s := range []string{"", ",", "1", "1,", ",0100000000", "1,00000000", "1,1234567", "1,g100000000", "1,01zz000000", "1,0100000000000000000000001", "1;0100000000", "x,0100000000", "1,-100000000", "1,+100000000", "1, 100000000", "4294967297,0100000000", "1,01_0000000", "1,0x00000000a"} {
		oneFileIdString(r, s)
	}
	r.Sample("file-id", w{"volume": 1, "key": "0x100", "cookie": 1, "string": needle.NewFileId(1, 0x100, 1).String()})
	fileIdDeltas(r)
}

// fileIdDeltas: the "<key><cookie>_<n>" form handed to clients for the n-th id of a
// multi-count assignment (operation.SubmitFiles writes the index in decimal) must
// decode to key+n with the same cookie; a suffix that is not a decimal number is
// not a valid encoding.
func fileIdDeltas(r *mc.Run) {
	keys := []uint64{1, 0xff, 0x100, 0xffffffff, 1 << 32, 0x0100000000000000}
	cookies := []uint32{0, 1, 0xffffffff}
	deltas := []uint64{0, 1, 9, 10, 11, 15, 16, 17, 25, 99, 100, 101, 255, 256, 1000, 65535, 65536, 1 << 32}
	if r.Thorough() {
		for d := uint64(0); d < 4096; d++ {
			deltas = append(deltas, d)
		}
	}
	for _, k := range keys {
		for _, c := range cookies {
			base := needle.NewFileId(1, k, c).GetNeedleIdCookie()
			for _, d := range deltas {
				in := base + "_" + strconv.FormatUint(d, 10)
				n := new(needle.Needle)
				err := n.ParsePath(in)
				r.Case(fmt.Sprintf("fid-delta|keybytes=%d|digits=%d|ok=%v", keyBytes(k), len(strconv.FormatUint(d, 10)), err == nil))
				if err != nil || uint64(n.Id) != k+d || uint32(n.Cookie) != c {
					cls := "one-digit"
					if d >= 10 {
						cls = "several-digits"
					}
					r.Violate("file-id-delta-roundtrip:"+cls, fmt.Sprintf("ParsePath(%q) = id %x cookie %x err %v, want id %x cookie %x", in, uint64(n.Id), uint32(n.Cookie), err, k+d, c), w{"domain": "file-id", "in": in}, nil)
				}
			}
			for _, bad := range []string{"a", "1f", "f", "0x1", "-1", "+1", " 1", "1 ", "1.0", "18446744073709551616"} {
				in := base + "_" + bad
				n := new(needle.Needle)
				err := n.ParsePath(in)
				r.Case(fmt.Sprintf("fid-delta-bad|%s|rejected=%v", bad, err != nil))
				if err == nil {
					r.Violate("file-id-delta-accepts-non-decimal", fmt.Sprintf("ParsePath(%q) accepted: id %x cookie %x", in, uint64(n.Id), uint32(n.Cookie)), w{"domain": "file-id", "in": in}, nil)
				}
			}
		}
	}
}

func keyBytes(k uint64) int {
	n := 0
	for ; k > 0; k >>= 8 {
		n++
	}
	return n
}

func isHex(s string) bool {
	for _, c := range s {
		if !(c >= '0' && c <= '9' || c >= 'a' && c <= 'f' || c >= 'A' && c <= 'F') {
			return false
		}
	}
	return true
}

func oneFileIdString(r *mc.Run, s string) {
	g, err := needle.ParseFileIdFromString(s)
	// grammar: <decimal uint32> "," <hex key, 1..16 digits><hex cookie, exactly 8 digits>
	valid := false
	if i := strings.IndexByte(s, ','); i > 0 {
		vs, kc := s[:i], s[i+1:]
		if n, e := strconv.ParseUint(vs, 10, 64); e == nil && allDigits(vs) && n <= 0xffffffff && isHex(kc) && len(kc) > 8 && len(kc) <= 24 {
			valid = true
		}
	}
	r.Case(fmt.Sprintf("fidstr|valid=%v|err=%v", valid, err != nil))
	wit := w{"domain": "file-id-string", "in": s}
	if !valid && err == nil {
		class := "file-id-string-invalid-accepted"
		if i := strings.IndexByte(s, ','); i > 0 {
			if n, e := strconv.ParseUint(s[:i], 10, 64); e == nil && n > 0xffffffff {
				class = "volume-id-over-32-bits-truncated"
			}
		}
		r.Violate(class, fmt.Sprintf("%q silently decoded to %+v", s, g), wit, nil)
	}
	if valid && err != nil {
		r.Violate("file-id-string-valid-rejected", fmt.Sprintf("%q: %v", s, err), wit, nil)
	}
}

// ---- index entries -----------------------------------------------------------------

func idxEntries(r *mc.Run) {
	keys := []uint64{1, 0xffffffff, 1 << 32, 1<<64 - 1}
	maxOff := int64(types.MaxPossibleVolumeSize) - 8
	offs := []int64{0, 8, 16, 1 << 31, (1 << 32) - 8, 1 << 32, (1 << 35) - 8}
	if types.OffsetSize == 5 {
		offs = append(offs, 1<<35, 1<<40, maxOff)
	}
	sizes := []int32{0, 1, 5, 0x7fffffff, -1, -5}
	var all []byte
	type ent struct {
		k uint64
		o int64
		s int32
	}
	var want []ent
	for _, k := range keys {
		for _, o := range offs {
			if o > maxOff {
				continue
			}
			for _, s := range sizes {
				b := needle_map.ToBytes(types.NeedleId(k), types.ToOffset(o), types.Size(s))
				k2, o2, s2 := idx.IdxFileEntry(b)
				r.Case(fmt.Sprintf("idx|offbits=%d|sizeclass=%d", bitlen(o), sizeClass(s)))
				if len(b) != types.NeedleMapEntrySize || uint64(k2) != k || o2.ToActualOffset() != o || int32(s2) != s {
					r.Violate("index-entry-roundtrip", fmt.Sprintf("(%x,%d,%d) -> % x -> (%x,%d,%d)", k, o, s, b, k2, o2.ToActualOffset(), s2), w{"domain": "index-entry", "in": fmt.Sprint(k, o, s)}, nil)
				}
				all = append(all, b...)
				want = append(want, ent{k, o, s})
			}
		}
	}
	// the walker over a file of entries, with a torn tail, visits exactly the complete entries in order
	for _, torn := range []int{0, 1, types.NeedleMapEntrySize - 1} {
		data := append(append([]byte{}, all...), make([]byte, torn)...)
		i := 0
		err := idx.WalkIndexFile(readerAt(data), func(k types.NeedleId, o types.Offset, s types.Size) error {
			if i >= len(want) || uint64(k) != want[i].k || o.ToActualOffset() != want[i].o || int32(s) != want[i].s {
				r.Violate("index-walk-mismatch", fmt.Sprintf("entry %d", i), w{"domain": "index-walk", "in": strconv.Itoa(torn)}, nil)
			}
			i++
			return nil
		})
		r.Case(fmt.Sprintf("idxwalk|torn=%d", torn))
		if err != nil || i != len(want) {
			r.Violate("index-walk-count", fmt.Sprintf("visited %d of %d err=%v torn=%d", i, len(want), err, torn), w{"domain": "index-walk", "in": strconv.Itoa(torn)}, nil)
		}
	}
	r.Sample("index-entry", w{"key": 1, "offset": 8, "size": -1})
	r.Set("offset_size_bytes", types.OffsetSize)
}

type readerAt []byte

func (b readerAt) ReadAt(p []byte, off int64) (int, error) {
	if off >= int64(len(b)) {
		return 0, eof
	}
	n := copy(p, b[off:])
	if n < len(p) {
		return n, eof
	}
	return n, nil
}

func bitlen(o int64) int {
	n := 0
	for ; o > 0; o >>= 1 {
		n++
	}
	return n
}
func sizeClass(s int32) int {
	switch {
	case s < 0:
		return -1
	case s == 0:
		return 0
	}
	return 1
}

// ---- super blocks ------------------------------------------------------------------

func superBlocks(r *mc.Run) {
	dir := mc.TempDir("c08")
	defer os.RemoveAll(dir)
	extras := []*master_pb.SuperBlockExtra{nil,
		{ErasureCoding: &master_pb.SuperBlockExtra_ErasureCoding{Data: 10, Parity: 4}},
		{ErasureCoding: &master_pb.SuperBlockExtra_ErasureCoding{Data: 10, Parity: 4, VolumeIds: manyIds(16000)}},
	}
	n := 0
	for _, ver := range []needle.Version{needle.Version1, needle.Version2, needle.Version3} {
		for pb := 0; pb < 256; pb++ {
			if !validPlacementByte(pb) {
				continue
			}
			for _, ttl := range []string{"", "3m", "255y"} {
				for _, rev := range []uint16{0, 1, 65535} {
					for ei, ex := range extras {
						if ex != nil && ver == needle.Version1 {
							continue
						}
						rp, _ := super_block.NewReplicaPlacementFromByte(byte(pb))
						t, _ := needle.ReadTTL(ttl)
						sb := super_block.SuperBlock{Version: ver, ReplicaPlacement: rp, Ttl: t, CompactionRevision: rev, Extra: ex}
						raw := sb.Bytes()
						p := filepath.Join(dir, fmt.Sprintf("sb%d.dat", n%16))
						n++
						if err := os.WriteFile(p, raw, 0644); err != nil {
							mc.Fatal("write: %v", err)
						}
						f, err := os.Open(p)
						if err != nil {
							mc.Fatal("open: %v", err)
						}
						df := backend.NewDiskFile(f)
						got, err := super_block.ReadSuperBlock(df)
						df.Close()
						wit := w{"domain": "super-block", "in": fmt.Sprintf("v%d rp=%03d ttl=%q rev=%d extra=%d", ver, pb, ttl, rev, ei)}
						r.Case(fmt.Sprintf("sb|ver=%d|ttl=%s|extra=%d|err=%v", ver, ttl, ei, err != nil))
						if err != nil {
							class := "super-block-read-error"
							if ex != nil {
								class = "super-block-extra-not-read-back"
							}
							r.Violate(class, err.Error(), wit, nil)
							continue
						}
						if got.Version != ver || got.ReplicaPlacement.Byte() != byte(pb) || got.Ttl.String() != ttl || got.CompactionRevision != rev || got.BlockSize() != len(raw) {
							r.Violate("super-block-roundtrip", fmt.Sprintf("got %+v blocksize %d want len %d", got, got.BlockSize(), len(raw)), wit, nil)
							continue
						}
						if ex != nil {
							if got.Extra == nil || got.Extra.String() != ex.String() {
								r.Violate("super-block-extra-not-read-back", fmt.Sprintf("extra decoded as %v", got.Extra), wit, nil)
								continue
							}
						} else if got.Extra != nil {
							r.Violate("super-block-roundtrip", "extra appeared", wit, nil)
						}
						if string(got.Bytes()) != string(raw) {
							r.Violate("super-block-reencode", "bytes differ after decode/encode", wit, nil)
						}
						// a torn super block (any proper prefix of the image) is not a valid encoding: it must be
						// rejected, not decoded as if zero-padded.  Every prefix for the small images, the header
						// boundary region and the tail for the large extra.
						if (rev == 1 && ttl == "3m") || r.Thorough() {
							var cuts []int
							if len(raw) <= 64 {
								for c := 0; c < len(raw); c++ {
									cuts = append(cuts, c)
								}
							} else {
								cuts = []int{0, 1, 7, 8, 9, len(raw) / 2, len(raw) - 1}
							}
							for _, c := range cuts {
								if err := os.WriteFile(p, raw[:c], 0644); err != nil {
									mc.Fatal("write: %v", err)
								}
								f2, _ := os.Open(p)
								df2 := backend.NewDiskFile(f2)
								g2, err2 := super_block.ReadSuperBlock(df2)
								df2.Close()
								r.Case(fmt.Sprintf("sb-torn|extra=%d|cutclass=%d|err=%v", ei, cutClass(c, len(raw)), err2 != nil))
								if err2 == nil {
									where := "in-header"
									if c >= 8 {
										where = "in-extra"
									}
									r.Violate("torn-super-block-accepted:"+where, fmt.Sprintf("%d of %d bytes decoded without error as %+v", c, len(raw), g2),
										w{"domain": "super-block-torn", "in": fmt.Sprintf("v%d rp=%03d extra=%d cut=%d", ver, pb, ei, c)}, nil)
								}
							}
						}
					}
				}
			}
		}
	}
	r.Sample("super-block", w{"version": 3, "placement": "012", "ttl": "3m", "revision": 65535, "extra": "ErasureCoding{10,4}"})
}

func cutClass(c, n int) int {
	switch {
	case c == 0:
		return 0
	case c < 8:
		return 1
	case c == 8:
		return 2
	case c == n-1:
		return 4
	}
	return 3
}

func manyIds(n int) []uint32 {
	out := make([]uint32, n)
	for i := range out {
		out[i] = uint32(1<<28 + i) // 5-byte varints: ~ 5 bytes each (packed) -> close to the 64 KiB limit
	}
	return out[:13000] // 5 bytes each packed: 65000 bytes, just under the 65534 limit
}

func min(a, b int) int {
	if a < b {
		return a
	}
	return b
}

var eof = ioEOF()
