package fsys

import (
	"bufio"
	"crypto/sha1"
	"encoding/hex"
	"encoding/json"
	"fmt"
	"os"
	"os/exec"
	"path/filepath"
	"runtime/debug"
	"sort"
	"strings"
	"sync"
	"sync/atomic"
	"syscall"
	"time"

	"verif/mc"
)

// Config is one check over the shared system.
type Config struct {
	ID    string
	Alpha Alphabet
	// Judge decides the property on one transition ("" class = holds).
	Judge func(s *Step, acc *Acc) *Verdict
	// DepthQ/DepthT: search depth per tier; Unmerged: depth up to which every
	// path is executed without state merging.
	DepthQ, DepthT int
	Unmerged       int
	// CrashBudget: after this many non-returning/crashing executions of one
	// and the same event text it is no longer offered (the finding is
	// established; every repetition costs a worker restart).
	// SyncTree: this check does not judge the tree; where the observed tree
	// differs from the reference (a C18 matter) the reference follows the store.
	SyncTree bool
	// Pagination: also run the large-directory boundary scenarios (pagination.go).
	Pagination  bool
	CrashBudget int
	// OwnsCrash: whether a crashing / non-returning request violates this property.
	Assumptions []string
}

// Acc collects per-transition statistics a judge wants in the evidence.
type Acc struct {
	Leaked, Scheduled int
}

type item struct {
	Path  string   `json:"p"` // events joined by ";"
	Menu  []string `json:"m"`
	Hash  string   `json:"h"`
	Shape string   `json:"s"`
	Idx   int      `json:"i"`           // index in the level's frontier (phase files only)
	Run   []int    `json:"r,omitempty"` // event indexes to execute in this phase
}

// suspect: an event the statement says must be refused and that may instead
// never return: the rename of a directory into itself or below itself.
// It returns a key (event text + kind of the target) under which the crash
// budget is kept, or "" when the event is not of that family.
func suspect(paths []string, shape, evs string) string {
	ev, err := ParseEvent(evs)
	if err != nil || ev.Op != "mv" || ev.P == ev.Q || !under(ev.Q, ev.P) {
		return ""
	}
	src, dst, blocked := byte('-'), byte('-'), false
	for i, p := range paths {
		if p == ev.P {
			src = shape[i]
		}
		if p == ev.Q {
			dst = shape[i]
		}
		if p != ev.P && under(p, ev.P) && under(ev.Q, p) && shape[i] == 'f' {
			blocked = true // a file on the way from the source to the target: the create of the target fails
		}
	}
	if src != 'd' {
		return ""
	}
	return fmt.Sprintf("%s dst=%c blocked=%v", evs, dst, blocked)
}

type result struct {
	I      int    `json:"i"`
	E      int    `json:"e"` // -1 = the replay-only case of the item
	Ev     string `json:"ev,omitempty"`
	Hash   string `json:"h,omitempty"`
	Shape  string `json:"s,omitempty"`
	Class  string `json:"c,omitempty"`
	VClass string `json:"vc,omitempty"`
	VMsg   string `json:"vm,omitempty"`
	Leaked int    `json:"lk,omitempty"`
	Sched  int    `json:"sc,omitempty"`
	Infra  string `json:"infra,omitempty"`
	PathEv string `json:"pe,omitempty"` // the event as it is recorded in the successor's history, if different from Ev
}

type caseDescr struct {
	Path []string `json:"path"`
	Ev   string   `json:"ev"`
	Oc   string   `json:"input_class,omitempty"`
}

func splitEvents(p string) []string {
	if p == "" {
		return nil
	}
	return strings.Split(p, ";")
}

func hashOf(s string) string {
	h := sha1.Sum([]byte(s))
	return hex.EncodeToString(h[:10])
}

var procStart = time.Now()
var rnT *runner

// ---- executing one history ----------------------------------------------------------------

type runner struct {
	cfg                               *Config
	w                                 *World
	ids                               map[string]bool
	busy                              int64 // unix nanos of the start of the running case, 0 = idle
	tReplay, tApply, tObserve, tJudge time.Duration
	limit                             int
}

func newRunner(cfg *Config, base string) *runner {
	rn := &runner{cfg: cfg, ids: AllLinkIds(), limit: 150}
	rn.w = NewWorld(base)
	return rn
}

// watchdog ends the process when a request makes the namespace grow beyond
// anything a terminating request of the alphabet can produce (structural
// criterion, polled) or when a case takes longer than the hang limit.
func (rn *runner) watchdog() {
	go func() {
		for {
			time.Sleep(5 * time.Millisecond)
			start := atomic.LoadInt64(&rn.busy)
			if start == 0 {
				continue
			}
			n := 0
			rn.w.Store.ScanAllV(func(p int, k, v []byte) { n++ })
			if n > rn.limit {
				die(fmt.Sprintf("VERIF-RUNAWAY the store grew to %d raw keys during one request (no terminating request of the alphabet creates more than a handful)\n", n))
			}
			if time.Since(time.Unix(0, start)) > 90*time.Second {
				die("VERIF-HANG the request did not return within 90 s\n")
			}
		}
	}()
}

func die(msg string) {
	syscall.Write(2, []byte(msg))
	os.Exit(3)
}

// replay brings the world to the state after path and returns the model.
func (rn *runner) replay(path []string) (Model, int) {
	rn.w.Reset()
	model := Model{}
	links := 0
	for step, s := range path {
		ev, err := ParseEvent(s)
		if err != nil {
			mc.Fatal("%v", err)
		}
		out := rn.w.Apply(ev, step, links+1)
		if ev.Refused {
			continue
		}
		ln := links + 1
		ex := model.Step(ev, func() int { return ln })
		if ev.Op == "ln" {
			links++
		}
		if ex.Conflict || (ev.Op == "mv" && ex.Moved != nil && out.Err != "") {
			st := rn.w.Observe(rn.ids)
			model.Adopt(&st)
		}
		if ev.Sync {
			st := rn.w.Observe(rn.ids)
			model.SyncKinds(&st)
		}
	}
	rn.w.TakeScheduled()
	return model, links
}

// prepared is the state after a history, captured once per frontier item: the
// observed state, the raw store content, the model and the link counter.  The
// other events of the item start from the restored raw content instead of
// replaying the history again (the first one replays; every state's canonical
// hash is compared with the hash computed where it was first reached, which
// cross-checks replay against restore for every explored state).
type prepared struct {
	pre   *State
	snap  []RawKV
	model Model
	links int
}

func (rn *runner) prepare(path []string) *prepared {
	model, links := rn.replay(path)
	st := rn.w.Observe(rn.ids)
	return &prepared{pre: &st, snap: rn.w.Snapshot(), model: model, links: links}
}

// transition executes path + ev and judges it.
func (rn *runner) transition(path []string, evs string, pp *prepared) (res result, post State) {
	ev, err := ParseEvent(evs)
	if err != nil {
		mc.Fatal("%v", err)
	}
	t0 := time.Now()
	var model Model
	var links int
	var pre *State
	if pp != nil {
		rn.w.Restore(pp.snap)
		model, links, pre = pp.model.Clone(), pp.links, pp.pre
	} else {
		model, links = rn.replay(path)
	}
	t1 := time.Now()
	if pre == nil {
		p := rn.w.Observe(rn.ids)
		pre = &p
	}
	preModel := model.Clone()
	out := rn.w.Apply(ev, len(path), links+1)
	q, d := rn.w.TakeScheduled()
	t2 := time.Now()
	post = rn.w.Observe(rn.ids)
	t3 := time.Now()
	rn.tReplay += t1.Sub(t0)
	rn.tApply += t2.Sub(t1)
	rn.tObserve += t3.Sub(t2)
	defer func() { rn.tJudge += time.Since(t3) }()
	ex := model.Step(ev, func() int { return links + 1 })
	st := &Step{Ev: ev, Pre: pre, Post: &post, PreModel: preModel, Model: model, Ex: ex, Out: out, Queued: q, Direct: d}
	if !RefusedRename(st) && (ex.Conflict || (ev.Op == "mv" && out.Err != "" && ex.Moved != nil)) {
		// a rename that stopped half-way: the reference adopts the observed tree
		// (C18 still demands conservation of files)
		st.Ex.Conflict = true
		model.Adopt(&post)
	}
	synced := false
	if rn.cfg.SyncTree && ev.Op == "mv" && !st.Refused && model.KindsDiffer(&post) {
		model.SyncKinds(&post)
		synced = true
	}
	var acc Acc
	v := rn.cfg.Judge(st, &acc)
	res.Ev = evs
	changed := "same"
	if pre.String() != post.String() {
		changed = "changed"
	}
	res.Class = OpClass(ev, pre) + "|" + errClass(out) + "|" + changed
	res.Leaked, res.Sched = acc.Leaked, acc.Scheduled
	if v != nil {
		res.VClass, res.VMsg = v.Class, v.Msg
		return
	}
	res.Hash = hashOf(Canon(&post, st.Model))
	res.Shape = shapeOf(rn.cfg.Alpha.Paths, &post)
	if st.Refused {
		ev.Refused = true
		res.PathEv = ev.String()
	} else if synced {
		ev.Sync = true
		res.PathEv = ev.String()
	}
	return
}

func shapeOf(paths []string, st *State) string {
	b := make([]byte, len(paths))
	for i, p := range paths {
		e := st.Get(p)
		switch {
		case e == nil:
			b[i] = '-'
		case e.Dir:
			b[i] = 'd'
		default:
			b[i] = 'f'
		}
	}
	return string(b)
}

func stateOfShape(paths []string, shape string) *State {
	st := &State{}
	for i, p := range paths {
		switch shape[i] {
		case 'd':
			st.Ents = append(st.Ents, Ent{Path: p, Dir: true})
		case 'f':
			st.Ents = append(st.Ents, Ent{Path: p})
		}
	}
	sort.Slice(st.Ents, func(i, j int) bool { return st.Ents[i].Path < st.Ents[j].Path })
	return st
}

func menuStrings(a Alphabet, st *State) []string {
	evs := a.Menu(st)
	out := make([]string, len(evs))
	for i, e := range evs {
		out[i] = e.String()
	}
	return out
}

// ---- the search ---------------------------------------------------------------------------------

func crashClassifier(caseJSON, tail string) (string, string) {
	var c caseDescr
	json.Unmarshal([]byte(caseJSON), &c)
	oc := c.Oc
	if oc == "" {
		oc = "during-replay"
	}
	switch {
	case strings.Contains(tail, "VERIF-RUNAWAY"):
		return "request-never-returns:" + oc, "the request recursed without end (the store kept growing until the watchdog stopped the worker)"
	case strings.Contains(tail, "VERIF-HANG"):
		return "request-hangs:" + oc, "the request did not return within 90 s"
	case strings.Contains(tail, "stack overflow"):
		return "request-overflows-stack:" + oc, "the request overflowed the stack"
	}
	return "request-crashes-server:" + oc, "the request killed the process: " + crashStack()
}

var crashSeen = map[string]bool{}
var crashMu sync.Mutex

// crashStack returns the head of a not yet reported crash report of a worker (diagnostic text only).
func crashStack() string {
	crashMu.Lock()
	defer crashMu.Unlock()
	files, _ := filepath.Glob(filepath.Join(os.Getenv("VERIF_FSYS_BASE"), "crash.*.txt"))
	sort.Strings(files)
	for _, f := range files {
		if crashSeen[f] {
			continue
		}
		b, err := os.ReadFile(f)
		if err != nil || len(b) == 0 {
			continue
		}
		crashSeen[f] = true
		lines := strings.Split(string(b), "\n")
		if len(lines) > 24 {
			lines = lines[:24]
		}
		return strings.Join(lines, " / ")
	}
	return "(no crash report found)"
}

// Run is the body of a check.
func Run(r *mc.Run, cfg *Config) {
	mc.QuietGlog()
	for _, a := range cfg.Assumptions {
		r.Assume(a)
	}
	r.Assume("file ids of different writes are distinct (each write uses ids no earlier step used, as after a master assignment); volume servers are replaced by a recorder that accepts every BatchDelete and serves manifest blobs")
	r.Assume("the store is reset between histories by deleting every raw key of the real leveldb2 store (verified empty each time) instead of opening a new one (leveldb is compacted every 200 histories; memtable and block cache are smaller than in production, layout and code paths are the same)")
	if r.Replay != "" {
		replayMode(r, cfg)
		return
	}
	if os.Getenv("VERIF_FSYS_ONE") != "" {
		oneChild(cfg)
		return
	}
	base := os.Getenv("VERIF_FSYS_BASE")
	child := os.Getenv("VERIF_CHILD_PHASE") != ""
	if base == "" {
		if child {
			mc.Fatal("worker without VERIF_FSYS_BASE")
		}
		base = mc.TempDir("fsys-" + cfg.ID)
		defer os.RemoveAll(base)
		os.Setenv("VERIF_FSYS_BASE", base)
	}
	nShards := 16
	maxDepth := r.Pick(cfg.DepthQ, cfg.DepthT)
	if v := os.Getenv("VERIF_FSYS_DEPTH"); v != "" { // experiments only
		fmt.Sscan(v, &maxDepth)
	}

	if child {
		phase := os.Getenv("VERIF_CHILD_PHASE")
		var frontier []item
		readJSON(filepath.Join(base, "frontier."+phase+".json"), &frontier)
		shards := nShards
		if len(frontier) < shards {
			shards = len(frontier)
		}
		r.ParallelC(phase, shards, func(shard, n int) { workerBody(r, cfg, base, phase, frontier, shard, n) }, crashClassifier)
		mc.Fatal("worker fell through phase %s", phase)
	}

	// parent
	seen := map[string]struct{}{}
	var parentRunner *runner
	getRunner := func() *runner {
		if parentRunner == nil {
			parentRunner = newRunner(cfg, base)
		}
		return parentRunner
	}
	// initial state
	rn := getRunner()
	if cfg.Pagination {
		paginationScenarios(r, rn.w)
	}
	rn.w.Reset()
	st0 := rn.w.Observe(rn.ids)
	h0 := hashOf(Canon(&st0, Model{}))
	seen[h0] = struct{}{}
	frontier := []item{{Path: "", Menu: menuStrings(cfg.Alpha, &st0), Hash: h0, Shape: shapeOf(cfg.Alpha.Paths, &st0)}}
	var transitions, cut, crashed, leaked, sched, skippedEvents int64
	crashCount := map[string]int{}
	skip := map[string]bool{}
	vioCount := map[string]int{}
	levelSizes := []int{}
	complete := true
	depthDone := 0
	var dumpStates *os.File // debugging aid: every (hash, history) pair, to compare two runs
	if fn := os.Getenv("VERIF_FSYS_DUMP"); fn != "" {
		dumpStates, _ = os.Create(fn)
		defer dumpStates.Close()
	}
	searchStart := time.Now()
	var lastLevelTime time.Duration
	var lastLevelTrans int64
	K := cfg.CrashBudget
	if K <= 0 {
		K = 1
	}
	// runPhase executes the selected events (sel[i] = event indexes of item i) and returns the result lines per item.
	runPhase := func(phase string, fr []item, sel [][]int, split bool) [][]result {
		var work []item
		for i, it := range fr {
			if len(sel[i]) == 0 {
				continue
			}
			if split { // one work item per event: worker deaths then cost restarts in parallel, not in a row
				for _, e := range sel[i] {
					w := it
					w.Idx, w.Run = i, []int{e}
					work = append(work, w)
				}
				continue
			}
			w := it
			w.Idx, w.Run = i, sel[i]
			work = append(work, w)
		}
		byItem := make([][]result, len(fr))
		if len(work) == 0 {
			return byItem
		}
		writeJSON(filepath.Join(base, "frontier."+phase+".json"), work)
		shards := nShards
		if len(work) < shards {
			shards = len(work) // every worker process costs a start-up; do not start idle ones
		}
		r.ParallelC(phase, shards, func(shard, n int) { workerBody(r, cfg, base, phase, work, shard, n) }, crashClassifier)
		for s := 0; s < shards; s++ {
			f, err := os.Open(filepath.Join(base, fmt.Sprintf("res.%s.%d.jsonl", phase, s)))
			if err != nil {
				continue
			}
			sc := bufio.NewScanner(f)
			sc.Buffer(make([]byte, 1<<20), 1<<26)
			for sc.Scan() {
				var res result
				if json.Unmarshal(sc.Bytes(), &res) != nil {
					continue // torn last line of a dead worker
				}
				if res.Infra != "" {
					mc.Fatal("%s", res.Infra)
				}
				if res.I >= 0 && res.I < len(byItem) {
					byItem[res.I] = append(byItem[res.I], res)
				}
			}
			f.Close()
			os.Remove(f.Name())
		}
		os.Remove(filepath.Join(base, "frontier."+phase+".json"))
		return byItem
	}
	for depth := 0; depth < maxDepth && len(frontier) > 0; depth++ {
		// budgets only ever stop the search early at a level boundary (exhaustive:false)
		limit := 200 * time.Second
		if !r.Quick() {
			limit = 13 * time.Minute
		}
		var predicted time.Duration
		if lastLevelTrans >= 5000 { // smaller levels are dominated by the start-up of the worker processes
			est := 0
			for _, it := range frontier {
				est += len(it.Menu)
			}
			predicted = time.Duration(float64(lastLevelTime) * float64(est) / float64(lastLevelTrans))
		}
		if r.Expired() || time.Since(searchStart)+predicted > limit {
			complete = false
			r.NotExhaustive(fmt.Sprintf("wall-clock budget: level %d not started (predicted %.0fs after %.0fs used); all levels below it are complete", depth+1, predicted.Seconds(), time.Since(searchStart).Seconds()))
			break
		}
		t0 := time.Now()
		transBefore := transitions
		levelSizes = append(levelSizes, len(frontier))
		// (a) probe phase: requests the statement says must be refused may instead never
		// return; each such event text is first tried on the first K states that offer it.
		// If it kills the worker every time it is not offered in the remaining states
		// (the finding is established; every repetition costs a worker restart).
		probeSel := make([][]int, len(frontier))
		probes := map[string][][2]int{}
		for i, it := range frontier {
			for e, evs := range it.Menu {
				if key := suspect(cfg.Alpha.Paths, it.Shape, evs); key != "" && !skip[key] && len(probes[key]) < K {
					probes[key] = append(probes[key], [2]int{i, e})
					probeSel[i] = append(probeSel[i], e)
				}
			}
		}
		probeRes := runPhase(fmt.Sprintf("P%d", depth+1), frontier, probeSel, true)
		for key, ps := range probes {
			dead := 0
			for _, pe := range ps {
				found := false
				for _, x := range probeRes[pe[0]] {
					if x.E == pe[1] {
						found = true
					}
				}
				if !found {
					dead++
				}
			}
			if dead == len(ps) && dead >= K {
				skip[key] = true
			}
		}
		// (b) main phase
		mainSel := make([][]int, len(frontier))
		notOffered := make([]map[int]bool, len(frontier))
		for i, it := range frontier {
			probed := map[int]bool{}
			for _, e := range probeSel[i] {
				probed[e] = true
			}
			for e, evs := range it.Menu {
				switch {
				case probed[e]:
				case skip[suspect(cfg.Alpha.Paths, it.Shape, evs)]:
					if notOffered[i] == nil {
						notOffered[i] = map[int]bool{}
					}
					notOffered[i][e] = true
					skippedEvents++
				default:
					mainSel[i] = append(mainSel[i], e)
				}
			}
		}
		mainRes := runPhase(fmt.Sprintf("L%d", depth+1), frontier, mainSel, false)
		// (c) successors
		var next []item
		for i, it := range frontier {
			done := map[int]result{}
			replayed := len(probeSel[i]) == 0 && len(mainSel[i]) == 0
			for _, x := range append(probeRes[i], mainRes[i]...) {
				if x.E == -1 {
					replayed = true
					continue
				}
				done[x.E] = x
			}
			if !replayed {
				// the replay itself killed the worker: reported by mc as a crash of that case
				crashed++
				continue
			}
			path := splitEvents(it.Path)
			for e, evs := range it.Menu {
				if notOffered[i][e] {
					continue
				}
				res, ok := done[e]
				transitions++
				if !ok {
					// no result line: the worker died in this transition (mc recorded the violation)
					crashed++
					cut++
					crashCount[evs]++
					continue
				}
				r.Case(res.Class)
				leaked += int64(res.Leaked)
				sched += int64(res.Sched)
				if res.VClass != "" {
					cut++
					vioCount[res.VClass]++
					if vioCount[res.VClass] <= 3 {
						wit := caseDescr{Path: path, Ev: evs}
						cls, p2, e2 := res.VClass, path, evs
						r.Violate(cls, res.VMsg, wit, func() bool {
							rr, _ := getRunner().transition(p2, e2, nil)
							return rr.VClass == cls
						})
					}
					continue
				}
				if len(path) < 3 {
					r.Sample("transition", map[string]interface{}{"history": path, "event": evs, "class": res.Class})
				}
				_, dup := seen[res.Hash]
				if !dup {
					seen[res.Hash] = struct{}{}
				}
				if dumpStates != nil {
					fmt.Fprintf(dumpStates, "%s\t%s;%s\n", res.Hash, it.Path, evs)
				}
				if dup && depth+1 > cfg.Unmerged {
					continue
				}
				np := evs
				if res.PathEv != "" {
					np = res.PathEv
				}
				if it.Path != "" {
					np = it.Path + ";" + np
				}
				next = append(next, item{Path: np, Menu: menuStrings(cfg.Alpha, stateOfShape(cfg.Alpha.Paths, res.Shape)), Hash: res.Hash, Shape: res.Shape})
			}
		}
		fmt.Printf("%s level %d: %d states expanded, %d transitions so far, %d states, %d new frontier, %.1fs\n", cfg.ID, depth+1, len(frontier), transitions, len(seen), len(next), time.Since(t0).Seconds())
		frontier = next
		depthDone = depth + 1
		lastLevelTime, lastLevelTrans = time.Since(t0), transitions-transBefore
	}
	if parentRunner != nil {
		parentRunner.w.Close()
	}
	if len(skip) > 0 {
		var ks []string
		for k := range skip {
			ks = append(ks, k)
		}
		sort.Strings(ks)
		r.NotExhaustive(fmt.Sprintf("events that did not return in the first %d state(s) of a level offering them were not executed in the other states with the same kind of target: %v", K, ks))
	}
	r.AddStates(int64(len(seen)))
	r.AddTransitions(transitions)
	r.Set("depth", depthDone)
	r.Set("unmerged_depth", cfg.Unmerged)
	r.Set("frontier_sizes", levelSizes)
	r.Set("unexpanded_frontier", len(frontier))
	r.Set("complete_to_depth", complete)
	r.Set("universe_paths", cfg.Alpha.Paths)
	var ops []string
	for o, on := range cfg.Alpha.Ops {
		if on {
			ops = append(ops, o)
		}
	}
	sort.Strings(ops)
	r.Set("operations", ops)
	r.Add("transitions_cut_below_violation", cut)
	r.Add("transitions_that_killed_the_worker", crashed)
	r.Add("events_not_offered_after_crash_budget", skippedEvents)
	if cfg.ID == "C20" {
		r.Add("chunks_scheduled_for_deletion", sched)
		r.Add("chunks_leaked_by_operations_that_did_not_request_deletion", leaked)
	}
}

func workerBody(r *mc.Run, cfg *Config, base, phase string, frontier []item, shard, n int) {
	tStart := time.Now()
	nTrans := 0
	defer func() {
		if os.Getenv("VERIF_FSYS_TIMING") != "" {
			f, _ := os.OpenFile("/tmp/fsys_timing.log", os.O_CREATE|os.O_WRONLY|os.O_APPEND, 0644)
			fmt.Fprintf(f, "%s shard %d: %d transitions in %v (process up %v) replay=%v apply=%v observe=%v judge+canon=%v\n", phase, shard, nTrans, time.Since(tStart), time.Since(procStart), rnT.tReplay, rnT.tApply, rnT.tObserve, rnT.tJudge)
			f.Close()
		}
	}()
	// the runtime's crash report of this worker (the stderr tail mc keeps is too short for the first stack)
	if cf, err := os.Create(filepath.Join(base, fmt.Sprintf("crash.%s.%d.%d.txt", phase, shard, os.Getpid()))); err == nil {
		debug.SetCrashOutput(cf, debug.CrashOptions{})
	}
	rn := newRunner(cfg, base)
	rnT = rn
	rn.watchdog()
	out, err := os.OpenFile(filepath.Join(base, fmt.Sprintf("res.%s.%d.jsonl", phase, shard)), os.O_CREATE|os.O_WRONLY|os.O_APPEND, 0644)
	if err != nil {
		mc.Fatal("results: %v", err)
	}
	emit := func(res result) {
		b, _ := json.Marshal(res)
		out.Write(append(b, '\n'))
	}
	// mirror of mc's case counter: after a worker death the new worker skips
	// the cases before and including the fatal one
	var begun, skipN int64
	fmt.Sscan(os.Getenv("VERIF_CHILD_SKIP"), &skipN)
	begin := func(c caseDescr) bool {
		begun++
		return r.Begin(c)
	}
	for k := shard; k < len(frontier); k += n {
		it := frontier[k]
		i := it.Idx
		path := splitEvents(it.Path)
		var pp *prepared
		if begin(caseDescr{Path: path, Ev: "(replay)"}) {
			atomic.StoreInt64(&rn.busy, time.Now().UnixNano())
			pp = rn.prepare(path)
			atomic.StoreInt64(&rn.busy, 0)
			res := result{I: i, E: -1}
			if h := hashOf(Canon(pp.pre, pp.model)); h != it.Hash {
				res.Infra = fmt.Sprintf("replaying %v gives a state with hash %s, but it had hash %s when it was first reached: the system is not deterministic or a restored state differs from a replayed one\n%s", path, h, it.Hash, Canon(pp.pre, pp.model))
			}
			emit(res)
		}
		for _, e := range it.Run {
			evs := it.Menu[e]
			if pp == nil && begun >= skipN {
				// restarted after a worker death inside this item: the replay case is behind us
				pp = rn.prepare(path)
			}
			oc := ""
			if pp != nil {
				ev, _ := ParseEvent(evs)
				oc = OpClass(ev, pp.pre)
			}
			if !begin(caseDescr{Path: path, Ev: evs, Oc: oc}) {
				continue
			}
			atomic.StoreInt64(&rn.busy, time.Now().UnixNano())
			res, _ := rn.transition(path, evs, pp)
			atomic.StoreInt64(&rn.busy, 0)
			nTrans++
			res.I, res.E = i, e
			emit(res)
		}
	}
	out.Close()
	// the world is not shut down: the worker process exits right after this, and
	// tearing down servers while their goroutines run only adds ways to die
}

func writeJSON(path string, v interface{}) {
	b, err := json.Marshal(v)
	if err != nil {
		mc.Fatal("json: %v", err)
	}
	if err := os.WriteFile(path, b, 0644); err != nil {
		mc.Fatal("write %s: %v", path, err)
	}
}

func readJSON(path string, v interface{}) {
	b, err := os.ReadFile(path)
	if err != nil {
		mc.Fatal("read %s: %v", path, err)
	}
	if err := json.Unmarshal(b, v); err != nil {
		mc.Fatal("parse %s: %v", path, err)
	}
}

// ---- replay of one recorded case -----------------------------------------------------------

// replayMode re-executes one case in a child process (so that a request that
// never returns is observed as such) and reports its verdict.
func replayMode(r *mc.Run, cfg *Config) {
	var pc pagCase
	if err := r.ReplayCase(&pc); err == nil && pc.Pag > 0 {
		base := mc.TempDir("fsys-pag")
		defer os.RemoveAll(base)
		class, v, msg := pagOne(NewWorld(base), pc)
		fmt.Printf("replayed %+v: class=%s verdict=%q\n", pc, class, v)
		if v != "" {
			r.Violate(v, msg, pc, nil)
		}
		return
	}
	var c caseDescr
	if err := r.ReplayCase(&c); err != nil {
		mc.Fatal("replay: %v", err)
	}
	res, tail, oc, ok := runOne(c)
	if !ok {
		if c.Oc == "" {
			c.Oc = oc
		}
		cls, msg := crashClassifier(mc.JS(c), tail)
		r.Violate(cls, msg, c, nil)
		return
	}
	if res.VClass != "" {
		r.Violate(res.VClass, res.VMsg, c, nil)
	}
	fmt.Printf("replayed %v + %s: class=%s verdict=%q\n", c.Path, c.Ev, res.Class, res.VClass)
}

func runOne(c caseDescr) (result, string, string, bool) {
	exe, _ := os.Executable()
	base := mc.TempDir("fsys-one")
	defer os.RemoveAll(base)
	cmd := exec.Command(exe, os.Args[1], "quick")
	cmd.Env = append(os.Environ(), "VERIF_FSYS_ONE="+mc.JS(c), "VERIF_FSYS_BASE="+base)
	var outb, errb strings.Builder
	cmd.Stdout, cmd.Stderr = &outb, &errb
	cmd.Run()
	oc := ""
	for _, ln := range strings.Split(outb.String(), "\n") {
		if strings.HasPrefix(ln, "FSYS-OC ") {
			oc = strings.TrimSpace(ln[len("FSYS-OC "):])
		}
		if strings.HasPrefix(ln, "FSYS-RESULT ") {
			var res result
			if json.Unmarshal([]byte(ln[len("FSYS-RESULT "):]), &res) == nil {
				return res, "", oc, true
			}
		}
	}
	t := errb.String()
	if len(t) > 4000 {
		t = t[len(t)-4000:]
	}
	return result{}, t, oc, false
}

func oneChild(cfg *Config) {
	var c caseDescr
	if err := json.Unmarshal([]byte(os.Getenv("VERIF_FSYS_ONE")), &c); err != nil {
		mc.Fatal("bad case: %v", err)
	}
	base := os.Getenv("VERIF_FSYS_BASE")
	rn := newRunner(cfg, base)
	rn.watchdog()
	atomic.StoreInt64(&rn.busy, time.Now().UnixNano())
	var res result
	if c.Ev == "(replay)" {
		rn.replay(c.Path)
	} else {
		pp := rn.prepare(c.Path)
		if ev, err := ParseEvent(c.Ev); err == nil {
			fmt.Printf("FSYS-OC %s\n", OpClass(ev, pp.pre)) // the input class, should the event itself never return
		}
		res, _ = rn.transition(c.Path, c.Ev, nil)
	}
	atomic.StoreInt64(&rn.busy, 0)
	b, _ := json.Marshal(res)
	fmt.Printf("FSYS-RESULT %s\n", b)
	os.Exit(0)
}
