package fsys

import (
	"fmt"
	"os"
	"regexp"
	"sort"
	"strconv"
	"strings"
)

// Verdict is a violated clause.
type Verdict struct {
	Class string
	Msg   string
}

// Step is everything known about one executed transition.
type Step struct {
	Ev        Event
	Pre, Post *State
	PreModel  Model // model before the event
	Model     Model // model after the event (already stepped)
	Ex        Expect
	Out       Outcome
	Queued    []string // file ids put on the deletion queue by this event
	Direct    []string // file ids deleted synchronously (BatchDelete) by this event
	// Refused is set by RefusedRename: the rename was answered with an error and
	// changed nothing; the model has been put back.
	Refused bool
}

// RefusedRename recognises a rename the server answered with an error without
// changing anything.  No clause of the statements demands that a rename
// succeeds (POSIX refuses e.g. a rename onto a non-empty directory), so such a
// transition leaves the reference model where it was.
func RefusedRename(s *Step) bool {
	if s.Ev.Op != "mv" || s.Out.Err == "" || s.Pre.String() != s.Post.String() {
		return false
	}
	for k := range s.Model {
		delete(s.Model, k)
	}
	for k, v := range s.PreModel {
		s.Model[k] = v
	}
	s.Refused = true
	return true
}

// ---- features of the input, from the observed pre-state -------------------------------

func hasKids(st *State, p string) bool {
	for _, e := range st.Ents {
		if e.Path != p && under(e.Path, p) {
			return true
		}
	}
	return false
}

func subtreeLinked(st *State, p string) bool {
	for _, e := range st.Ents {
		if e.Path != p && under(e.Path, p) && e.Link != "" {
			return true
		}
	}
	return false
}

// kindClass: absent | file | fileL (hard-linked name) | dir | dir+ (non-empty) | dir+L (subtree holds a hard-linked name)
func kindClass(st *State, p string) string {
	e := st.Get(p)
	switch {
	case e == nil:
		return "absent"
	case !e.Dir && e.Link != "":
		return "fileL"
	case !e.Dir:
		return "file"
	case subtreeLinked(st, p):
		return "dir+L"
	case hasKids(st, p):
		return "dir+"
	}
	return "dir"
}

// OpClass names the input family of an event: operation, flags, kind of source and target.
func OpClass(ev Event, pre *State) string {
	s := ev.Op
	if ev.Op == "del" {
		s += fmt.Sprintf("-r%d-d%d", b2i(ev.Rec), b2i(ev.Data))
		if ev.Ign {
			s += "-ignerr"
		}
	}
	s += "|src=" + kindClass(pre, ev.P)
	if ev.Op == "mv" || ev.Op == "ln" {
		s += "|dst=" + kindClass(pre, ev.Q)
		switch {
		case ev.P == ev.Q:
			s += "|self"
		case under(ev.Q, ev.P):
			s += "|into-own-subtree"
		case under(ev.P, ev.Q):
			s += "|onto-ancestor"
		}
	}
	return s
}

func errClass(out Outcome) string {
	if out.Err == "" {
		return "ok"
	}
	return "err"
}

// ---- C18 ---------------------------------------------------------------------------------------

func kinds(st *State) map[string]bool {
	m := map[string]bool{}
	for _, e := range st.Ents {
		m[e.Path] = e.Dir
	}
	return m
}

func diffKinds(have map[string]bool, want Model) (lost, extra, flipped []string) {
	for p, n := range want {
		d, ok := have[p]
		if !ok {
			lost = append(lost, p)
		} else if d != n.Dir {
			flipped = append(flipped, p)
		}
	}
	for p := range have {
		if _, ok := want[p]; !ok {
			extra = append(extra, p)
		}
	}
	sort.Strings(lost)
	sort.Strings(extra)
	sort.Strings(flipped)
	return
}

func contentSig(e *Ent) string {
	return fmt.Sprintf("%o|%s", e.Mode&0777, strings.Join(e.Chunks, ","))
}

// JudgeC18 checks the namespace clauses on one transition.  It may resync the
// model after a conflicting rename (s.Model is modified in place).
func JudgeC18(s *Step) *Verdict {
	oc := OpClass(s.Ev, s.Pre)
	post := kinds(s.Post)
	// (1) every entry's ancestors exist and are directories
	for _, e := range s.Post.Ents {
		for _, a := range ancestors(e.Path) {
			d, ok := post[a]
			if !ok {
				return &Verdict{"orphan-entry:" + oc, fmt.Sprintf("after %s entry %s exists but its ancestor %s does not", s.Ev, e.Path, a)}
			}
			if !d {
				return &Verdict{"entry-under-file:" + oc, fmt.Sprintf("after %s entry %s exists below %s, which is a file", s.Ev, e.Path, a)}
			}
		}
		if !e.Walked {
			return &Verdict{"unreachable-entry:" + oc, fmt.Sprintf("after %s entry %s is in the store but no listing from / reaches it", s.Ev, e.Path)}
		}
	}
	// (2) a file is never replaced by a directory or vice versa
	for _, e := range s.Pre.Ents {
		if d, ok := post[e.Path]; ok && d != e.Dir {
			// legal only if the event removed the old entry and put another there: a rename onto it is
			// a replacement too, so no event of the alphabet may do it
			return &Verdict{"kind-flipped:" + oc, fmt.Sprintf("%s turned %s from dir=%v into dir=%v", s.Ev, e.Path, e.Dir, d)}
		}
	}
	// (3) operations the statement says fail
	if s.Ex.MustFail && s.Out.Err == "" {
		changed := s.Pre.String() != s.Post.String()
		if s.Ev.Op == "mv" {
			return &Verdict{"rename-into-own-subtree-not-refused:" + oc, fmt.Sprintf("%s returned success (store changed: %v)", s.Ev, changed)}
		}
		return &Verdict{"nonrecursive-delete-of-nonempty-dir-not-refused:" + oc, fmt.Sprintf("%s returned success (store changed: %v)", s.Ev, changed)}
	}
	if s.Ex.MustFail && s.Pre.String() != s.Post.String() {
		return &Verdict{"refused-operation-changed-store:" + oc, fmt.Sprintf("%s failed (%s) but the store changed:\n%s---\n%s", s.Ev, s.Out.Err, s.Pre, s.Post)}
	}
	if s.Refused {
		return nil
	}
	// (4) a rename that stopped half-way (a kind clash below the top, or any error after
	// the first step): the statement does not say where it must stop, only that nothing is
	// lost or duplicated
	if s.Ex.Conflict || (s.Ev.Op == "mv" && s.Out.Err != "" && s.Ex.Moved != nil) {
		if v := conservation(s, oc); v != nil {
			return v
		}
		return nil // the model has adopted the observed tree
	}
	// (5) the tree is the reference tree
	lost, extra, flipped := diffKinds(post, s.Model)
	if len(lost)+len(extra)+len(flipped) > 0 {
		sym := "tree-differs"
		switch {
		case len(flipped) > 0:
			sym = "kind-differs"
		case len(lost) > 0 && len(extra) > 0:
			sym = "entries-lost-and-extra"
		case len(lost) > 0:
			sym = "entries-lost"
		case len(extra) > 0:
			sym = "entries-extra"
		}
		return &Verdict{sym + ":" + oc + "|" + errClass(s.Out), fmt.Sprintf("after %s (err=%q) lost=%v extra=%v kind-differs=%v; reference tree: %s", s.Ev, s.Out.Err, lost, extra, flipped, s.Model)}
	}
	// (6) a rename moves content unchanged
	for from, to := range s.Ex.Moved {
		a, b := s.Pre.Get(from), s.Post.Get(to)
		if a == nil || b == nil || a.Dir {
			continue
		}
		if contentSig(a) != contentSig(b) {
			return &Verdict{"rename-changed-content:" + oc, fmt.Sprintf("%s: %s had %s, %s has %s", s.Ev, from, contentSig(a), to, contentSig(b))}
		}
	}
	return nil
}

// conservation: after a partially executed rename P -> Q every file of the source
// subtree still exists exactly once (at its old or at its new path), no content
// exists more often than before, and files outside the source subtree are
// untouched unless a moved file took their place below Q.
func conservation(s *Step, oc string) *Verdict {
	before, after := map[string]int{}, map[string]int{}
	for i := range s.Pre.Ents {
		if !s.Pre.Ents[i].Dir {
			before[contentSig(&s.Pre.Ents[i])]++
		}
	}
	for i := range s.Post.Ents {
		if !s.Post.Ents[i].Dir {
			after[contentSig(&s.Post.Ents[i])]++
		}
	}
	for k, n := range after {
		if before[k] < n {
			return &Verdict{"rename-duplicated-file:" + oc, fmt.Sprintf("%s: file with content %s existed %d times before and %d times after", s.Ev, k, before[k], n)}
		}
	}
	for i := range s.Pre.Ents {
		e := &s.Pre.Ents[i]
		if e.Dir {
			continue
		}
		sig := contentSig(e)
		if under(e.Path, s.Ev.P) {
			to := s.Ev.Q + e.Path[len(s.Ev.P):]
			a, b := s.Post.Get(e.Path), s.Post.Get(to)
			if !(a != nil && !a.Dir && contentSig(a) == sig) && !(b != nil && !b.Dir && contentSig(b) == sig) {
				return &Verdict{"rename-lost-file:" + oc, fmt.Sprintf("%s (err=%q): %s (content %s) is neither at its old path nor at %s", s.Ev, s.Out.Err, e.Path, sig, to)}
			}
			continue
		}
		now := s.Post.Get(e.Path)
		if now != nil && !now.Dir && contentSig(now) == sig {
			continue
		}
		if under(e.Path, s.Ev.Q) {
			from := s.Pre.Get(s.Ev.P + e.Path[len(s.Ev.Q):])
			if from != nil && !from.Dir && now != nil && !now.Dir && contentSig(now) == contentSig(from) {
				continue // replaced by the moved file of the same name
			}
		}
		return &Verdict{"rename-damaged-bystander:" + oc, fmt.Sprintf("%s (err=%q): %s (content %s) is outside the moved subtree and changed", s.Ev, s.Out.Err, e.Path, sig)}
	}
	return nil
}

// ---- C20 ---------------------------------------------------------------------------------------

// LeakStat counts chunks that stopped being referenced without being scheduled
// (by operations that did not request data deletion: not a violation).
type LeakStat struct {
	Leaked    int
	Scheduled int
}

// JudgeC20 checks both clauses on one transition; purely observational.
func JudgeC20(s *Step) (*Verdict, LeakStat) {
	oc := OpClass(s.Ev, s.Pre)
	var ls LeakStat
	sched := map[string]string{}
	for _, f := range s.Queued {
		sched[f] = "queue"
	}
	for _, f := range s.Direct {
		sched[f] = "direct"
	}
	ls.Scheduled = len(sched)
	refAfter := s.Post.Referenced()
	refBefore := s.Pre.Referenced()
	// clause 1: nothing scheduled is still referenced
	var fids []string
	for f := range sched {
		fids = append(fids, f)
	}
	sort.Strings(fids)
	for _, f := range fids {
		if paths := refAfter[f]; len(paths) > 0 {
			// who shares the chunk, and does the filer know (one hard-link identity)?
			links := map[string]bool{}
			owners := map[string]bool{}
			for _, p := range refBefore[f] {
				owners[p] = true
				if e := s.Pre.Get(p); e != nil {
					links[e.Link] = true
				}
			}
			for _, p := range paths {
				owners[p] = true
				if e := s.Post.Get(p); e != nil {
					links[e.Link] = true
				}
			}
			var class string
			switch {
			case len(links) == 1 && !links[""]:
				class = "referenced-chunk-scheduled:" + oc + ":by-hard-link-sibling"
			case len(owners) == 1:
				class = "referenced-chunk-scheduled:" + oc + ":by-the-written-entry"
			case len(links) > 1:
				// entries that are not names of one identity share the chunk (a rename copied a
				// hard-linked name without its link): any later collection on one side hits the other
				class = "referenced-chunk-scheduled:chunk-shared-outside-a-hard-link:one-side-linked"
			default:
				class = "referenced-chunk-scheduled:chunk-shared-outside-a-hard-link:no-side-linked"
			}
			return &Verdict{class, fmt.Sprintf("%s sent %s to the %s deletion sink while %v still reference(s) it", s.Ev, f, sched[f], paths)}, ls
		}
	}
	// clause 2: an explicit delete that asked for data deletion schedules everything it unreferenced
	var gone []string
	for f := range refBefore {
		if len(refAfter[f]) == 0 {
			gone = append(gone, f)
		}
	}
	sort.Strings(gone)
	for _, f := range gone {
		if _, ok := sched[f]; ok {
			continue
		}
		if s.Ev.Op == "del" && s.Ev.Data {
			how := "plain"
			for _, p := range refBefore[f] {
				if e := s.Pre.Get(p); e != nil && e.Link != "" {
					how = "was-hard-linked"
				}
			}
			if _, isMan := s.Pre.Man[f]; isMan {
				how += "-manifest"
			}
			return &Verdict{"unreferenced-chunk-not-scheduled:" + oc + ":" + how,
				fmt.Sprintf("%s removed the last reference (%v) to %s but did not schedule it for deletion", s.Ev, refBefore[f], f)}, ls
		}
		ls.Leaked++
	}
	return nil, ls
}

// ---- C21 ---------------------------------------------------------------------------------------

// JudgeC21 checks the hard-link clauses against the link membership of the model.
func JudgeC21(s *Step) *Verdict {
	if s.Ex.Conflict && !s.Refused {
		return nil // partially executed rename: membership adopted from the store, not judged
	}
	oc := OpClass(s.Ev, s.Pre)
	names := s.Model.Names()
	// membership: the names carrying an identity are exactly the model's names
	real := map[int][]string{}
	for _, e := range s.Post.Ents {
		if e.Link != "" && !e.Dir {
			k := LinkNum(e.Link)
			real[k] = append(real[k], e.Path)
		}
	}
	for k := 1; k <= MaxLinkIds; k++ {
		want, have := names[k], real[k]
		if strings.Join(want, " ") != strings.Join(have, " ") {
			sym := "link-membership-differs"
			switch {
			case len(have) < len(want):
				sym = "name-lost-its-link"
			case len(have) > len(want):
				sym = "name-kept-link-it-should-not-have"
			}
			return &Verdict{sym + ":" + oc, fmt.Sprintf("after %s identity %d should have names %v, entries carrying it: %v", s.Ev, k, want, have)}
		}
		kv := s.Post.KV(linkHex(k))
		if len(want) == 0 {
			if kv != nil {
				return &Verdict{"link-counter-exceeds-live-names:" + oc, fmt.Sprintf("after %s no name of identity %d is left but its record exists (counter %d, chunks %v)", s.Ev, k, kv.Counter, kv.Chunks)}
			}
			continue
		}
		if kv == nil {
			return &Verdict{"link-counter-below-live-names:" + oc, fmt.Sprintf("after %s identity %d has names %v but no shared record", s.Ev, k, want)}
		}
		first := s.Post.Get(want[0])
		for _, n := range want {
			e := s.Post.Get(n)
			if int(e.Counter) != len(want) {
				sym := "link-counter-exceeds-live-names"
				if int(e.Counter) < len(want) {
					sym = "link-counter-below-live-names"
				}
				return &Verdict{sym + ":" + oc, fmt.Sprintf("after %s identity %d has %d live name(s) %v but %s shows counter %d", s.Ev, k, len(want), want, n, e.Counter)}
			}
			if contentSig(e) != contentSig(first) || e.Mtime != first.Mtime || e.Mode != first.Mode {
				return &Verdict{"names-disagree:" + oc, fmt.Sprintf("after %s %s shows %s and %s shows %s", s.Ev, want[0], contentSig(first), n, contentSig(e))}
			}
		}
	}
	// an update through a linked name is what every name shows: content and attributes
	// (the client read the entry, changed one thing and wrote all of it back)
	if s.Out.Err == "" && (len(s.Out.Wrote) > 0 || s.Out.HasMode) && s.Ev.Op != "mkfile" && s.Ev.Op != "mkman" {
		if n, ok := s.Model[s.Ev.P]; ok && n.Link != 0 {
			for _, other := range names[n.Link] {
				e := s.Post.Get(other)
				if e == nil {
					continue
				}
				if strings.Join(e.Chunks, ",") != strings.Join(s.Out.Wrote, ",") {
					return &Verdict{"update-not-visible-through-link:" + oc, fmt.Sprintf("%s wrote %v through %s but %s shows %v", s.Ev, s.Out.Wrote, s.Ev.P, other, e.Chunks)}
				}
				if s.Out.HasMode && e.Mode != s.Out.WroteMode {
					return &Verdict{"attribute-update-not-visible-through-link:" + oc, fmt.Sprintf("%s wrote mode %o through %s and was answered success, but %s shows mode %o", s.Ev, s.Out.WroteMode, s.Ev.P, other, e.Mode)}
				}
			}
		}
	}
	return nil
}

// ---- canonical form -----------------------------------------------------------------------

var fidRe = regexp.MustCompile(`7,[0-9a-f]+5eed0001`)

// Canon is the canonical text of (observed store, reference model): file ids
// are replaced by their rank (every comparison the code makes on them is
// equality or, through chunk mtimes, order), wall-clock times by a class, and
// permission bits of directories are dropped (nothing branches on them).
func Canon(st *State, m Model) string {
	raw := st.String()
	ids := fidRe.FindAllString(raw, -1)
	uniq := map[string]uint64{}
	for _, id := range ids {
		k, _ := strconv.ParseUint(id[2:len(id)-8], 16, 64)
		uniq[id] = k
	}
	keys := make([]string, 0, len(uniq))
	for id := range uniq {
		keys = append(keys, id)
	}
	sort.Slice(keys, func(i, j int) bool { return uniq[keys[i]] < uniq[keys[j]] })
	rank := map[string]string{}
	for i, id := range keys {
		rank[id] = "c" + strconv.Itoa(i)
	}
	var b strings.Builder
	for _, e := range st.Ents {
		mode, rawMode, t := e.Mode, e.RawMode, e.T+"/"+e.RawT
		if e.Dir {
			mode &^= 0777
			rawMode &^= 0777
		}
		fmt.Fprintf(&b, "%s|d=%v|m=%o/%o|t=%s|c=%s|r=%s|l=%s|n=%d/%d|w=%v\n", e.Path, e.Dir, mode, rawMode, t, strings.Join(e.Chunks, ","), strings.Join(e.Raw, ","), e.Link, e.Counter, e.RawCnt, e.Walked)
	}
	for _, k := range st.KVs {
		t := "n"
		if k.Mtime == fixedTime {
			t = "f"
		}
		fmt.Fprintf(&b, "KV %s|n=%d|m=%o|t=%s|c=%s|bad=%v\n", k.Id, k.Counter, k.Mode, t, strings.Join(k.Chunks, ","), k.Bad)
	}
	out := fidRe.ReplaceAllStringFunc(b.String(), func(id string) string { return rank[id] })
	var ml []string
	for f, ds := range st.Man {
		ml = append(ml, fidRe.ReplaceAllStringFunc("MAN "+f+"="+strings.Join(ds, ",")+"\n", func(id string) string { return rank[id] }))
	}
	sort.Strings(ml)
	out += strings.Join(ml, "")
	return normLinks(out + "MODEL " + m.String())
}

var linkRe = regexp.MustCompile(`(a[1-9]){16}01|#[1-9]`)

// normLinks renames link identities by order of first appearance (they are
// only ever compared for equality).
func normLinks(s string) string {
	names := map[string]string{}
	return linkRe.ReplaceAllStringFunc(s, func(m string) string {
		k := m[1:2] // the identity digit: "aK..." or "#K"
		if _, ok := names[k]; !ok {
			names[k] = "L" + strconv.Itoa(len(names)+1)
		}
		return names[k]
	})
}

var _ = os.ModeDir
