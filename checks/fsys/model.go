package fsys

import (
	"sort"
	"strings"
)

// Node is one entry of the reference tree.
type Node struct {
	Dir  bool
	Link int // hard-link identity the name belongs to (0 = none)
}

// Model is the reference namespace: path -> node.  Boring on purpose.
type Model map[string]Node

func (m Model) Clone() Model {
	c := make(Model, len(m))
	for k, v := range m {
		c[k] = v
	}
	return c
}

func ancestors(p string) []string {
	var out []string
	for {
		i := strings.LastIndexByte(p, '/')
		if i <= 0 {
			return out
		}
		p = p[:i]
		out = append(out, p)
	}
}

// under reports whether q is p or lies below p.
func under(q, p string) bool { return q == p || strings.HasPrefix(q, p+"/") }

// canCreateAt: every proper ancestor of p is missing or a directory.
func (m Model) canCreateAt(p string) bool {
	for _, a := range ancestors(p) {
		if n, ok := m[a]; ok && !n.Dir {
			return false
		}
	}
	return true
}

func (m Model) ensureParents(p string) {
	for _, a := range ancestors(p) {
		if _, ok := m[a]; !ok {
			m[a] = Node{Dir: true}
		}
	}
}

func (m Model) subtree(p string) []string {
	var out []string
	for k := range m {
		if under(k, p) {
			out = append(out, k)
		}
	}
	sort.Strings(out)
	return out
}

func (m Model) hasChildren(p string) bool {
	for k := range m {
		if k != p && under(k, p) {
			return true
		}
	}
	return false
}

// Expect is what the statement of C18 demands of one event.
type Expect struct {
	// MustFail: the statement says the operation fails / is refused.
	MustFail bool
	// Unchanged: the set of entries and their kinds must be what it was.
	Unchanged bool
	// Conflict: a rename whose merge meets a file/directory clash somewhere
	// below the top; the statement does not say where such a rename must stop,
	// so only conservation is demanded and the model adopts the observed tree.
	Conflict bool
	// Class names the input class of the event (for coverage accounting).
	Class string
	// Moved maps old path -> new path for a rename that must succeed.
	Moved map[string]string
}

func kindOf(m Model, p string) string {
	n, ok := m[p]
	switch {
	case !ok:
		return "absent"
	case n.Dir && m.hasChildren(p):
		return "dir+"
	case n.Dir:
		return "dir"
	}
	return "file"
}

// Step applies the event to the model (in place) and says what is expected.
// linkOf tells which identity a new link gets (decided by the harness when it
// issues the request pair).
func (m Model) Step(ev Event, linkOf func() int) Expect {
	ex := Expect{}
	src := kindOf(m, ev.P)
	switch ev.Op {
	case "mkfile", "mkman", "mkdir", "append":
		wantDir := ev.Op == "mkdir"
		ex.Class = ev.Op + "|" + src
		n, ok := m[ev.P]
		switch {
		case ok && ev.Op == "append":
			ex.Unchanged = true // content grows; the kind stays
		case ok && n.Dir != wantDir:
			ex.Unchanged = true // a file is never replaced by a directory or vice versa
			ex.Class += "|kind-clash"
		case ok:
			ex.Unchanged = true
			if !wantDir {
				m[ev.P] = Node{} // overwritten: a new, independent file
			}
		case !m.canCreateAt(ev.P):
			ex.Unchanged = true // an ancestor is a file
			ex.Class += "|under-file"
		default:
			m.ensureParents(ev.P)
			m[ev.P] = Node{Dir: wantDir}
		}
	case "updrepl", "updadd", "chmod":
		ex.Class = ev.Op + "|" + src
		ex.Unchanged = true
	case "flip":
		ex.Class = ev.Op + "|" + src
		ex.Unchanged = true // the kind of an existing entry never changes
	case "del":
		ex.Class = "del|" + src + "|r" + itoa(b2i(ev.Rec))
		n, ok := m[ev.P]
		switch {
		case !ok:
			ex.Unchanged = true
		case n.Dir && m.hasChildren(ev.P) && !ev.Rec:
			ex.Unchanged, ex.MustFail = true, true
		default:
			for _, k := range m.subtree(ev.P) {
				delete(m, k)
			}
		}
	case "ln":
		ex.Class = "ln|" + src + "|" + kindOf(m, ev.Q)
		n, ok := m[ev.P]
		if !ok || n.Dir {
			ex.Unchanged = true
			break
		}
		if n.Link == 0 {
			n.Link = linkOf()
			m[ev.P] = n
		}
		if _, exists := m[ev.Q]; !exists && m.canCreateAt(ev.Q) {
			m.ensureParents(ev.Q)
			m[ev.Q] = Node{Link: n.Link}
		}
	case "mv":
		dst := kindOf(m, ev.Q)
		ex.Class = "mv|" + src + "|" + dst
		n, ok := m[ev.P]
		switch {
		case !ok:
			ex.Unchanged = true
		case ev.P == ev.Q:
			ex.Unchanged = true
			ex.Class += "|self"
		case n.Dir && under(ev.Q, ev.P):
			ex.Unchanged, ex.MustFail = true, true
			ex.Class += "|into-own-subtree"
		case !m.canCreateAt(ev.Q):
			ex.Unchanged = true
			ex.Class += "|under-file"
		default:
			if under(ev.P, ev.Q) {
				ex.Class += "|onto-ancestor"
			}
			// plan the move on a copy; a kind clash anywhere makes it a conflict
			sub := m.subtree(ev.P)
			t := m.Clone()
			for _, k := range sub {
				delete(t, k)
			}
			moved := map[string]string{}
			clash, topClash := false, false
			for _, k := range sub {
				nk := ev.Q + k[len(ev.P):]
				moved[k] = nk
				if old, exists := t[nk]; exists && old.Dir != m[k].Dir {
					clash = true
					if k == ev.P {
						topClash = true
					}
					continue
				}
				if old, exists := t[nk]; exists && old.Dir {
					continue // directories merge
				}
				t[nk] = m[k]
			}
			switch {
			case topClash:
				ex.Unchanged = true // refused at the first step, nothing may change
				ex.Class += "|kind-clash"
			case clash:
				ex.Conflict = true
				ex.Class += "|nested-kind-clash"
			default:
				t.ensureParents(ev.Q)
				for k := range m {
					delete(m, k)
				}
				for k, v := range t {
					m[k] = v
				}
				ex.Moved = moved
			}
		}
	}
	return ex
}

func itoa(i int) string {
	if i == 0 {
		return "0"
	}
	return "1"
}

// Adopt replaces the model by the observed tree (after a rename whose merge
// met a kind clash below the top: the statements do not say where such a
// rename must stop).  Link membership is taken from the entries as well.
func (m Model) Adopt(st *State) {
	for k := range m {
		delete(m, k)
	}
	for _, e := range st.Ents {
		n := Node{Dir: e.Dir}
		if !e.Dir {
			n.Link = LinkNum(e.Link)
		}
		m[e.Path] = n
	}
}

// KindsDiffer reports whether the observed tree and the model disagree on paths or kinds.
func (m Model) KindsDiffer(st *State) bool {
	if len(st.Ents) != len(m) {
		return true
	}
	for _, e := range st.Ents {
		if n, ok := m[e.Path]; !ok || n.Dir != e.Dir {
			return true
		}
	}
	return false
}

// SyncKinds makes the model's paths and kinds those of the observed tree and keeps
// the link membership the model has for names that are files in both.
func (m Model) SyncKinds(st *State) {
	old := m.Clone()
	for k := range m {
		delete(m, k)
	}
	for _, e := range st.Ents {
		n := Node{Dir: e.Dir}
		if o, ok := old[e.Path]; ok && !o.Dir && !e.Dir {
			n.Link = o.Link
		}
		m[e.Path] = n
	}
}

// String is the canonical text of the model.
func (m Model) String() string {
	keys := make([]string, 0, len(m))
	for k := range m {
		keys = append(keys, k)
	}
	sort.Strings(keys)
	var b strings.Builder
	for _, k := range keys {
		n := m[k]
		b.WriteString(k)
		if n.Dir {
			b.WriteString("/")
		}
		if n.Link != 0 {
			b.WriteString("#")
			b.WriteString(string(rune('0' + n.Link)))
		}
		b.WriteString(" ")
	}
	return b.String()
}

// Names returns the live names of every link identity.
func (m Model) Names() map[int][]string {
	out := map[int][]string{}
	for k, n := range m {
		if n.Link != 0 && !n.Dir {
			out[n.Link] = append(out[n.Link], k)
		}
	}
	for _, v := range out {
		sort.Strings(v)
	}
	return out
}
