package fsys

import (
	"context"
	"fmt"
	"os"
	"strings"

	"github.com/golang/protobuf/proto"

	"verif/mc"

	"github.com/chrislusf/seaweedfs/weed/pb/filer_pb"
	"github.com/chrislusf/seaweedfs/weed/storage/needle"
)

// Event is one request (or, for ln, the request pair of Dir.Link) of a client.
type Event struct {
	Op   string // mkfile mkdir mkman updrepl updadd chmod flip append del mv ln
	P    string
	Q    string // mv, ln
	Rec  bool   // del
	Data bool   // del
	Ign  bool   // del: IgnoreRecursiveError
	// Refused marks, inside a recorded history, a rename the server answered
	// with an error without changing anything (the reference tree skips it).
	Refused bool
	// Sync marks, inside a recorded history, an event after which the observed tree
	// differed from the reference tree in a check that does not judge the tree
	// (C20, C21; C18 reports it): the reference takes over the observed kinds.
	Sync bool
}

func (e Event) String() string {
	switch e.Op {
	case "del":
		if e.Ign {
			return fmt.Sprintf("del %s r%d d%d i1", e.P, b2i(e.Rec), b2i(e.Data))
		}
		return fmt.Sprintf("del %s r%d d%d", e.P, b2i(e.Rec), b2i(e.Data))
	case "mv", "ln":
		if e.Refused {
			return e.Op + " " + e.P + " " + e.Q + " !refused"
		}
		if e.Sync {
			return e.Op + " " + e.P + " " + e.Q + " !sync"
		}
		return e.Op + " " + e.P + " " + e.Q
	}
	return e.Op + " " + e.P
}

func b2i(b bool) int {
	if b {
		return 1
	}
	return 0
}

// ParseEvent is the inverse of String.
func ParseEvent(s string) (Event, error) {
	f := strings.Fields(s)
	if len(f) < 2 {
		return Event{}, fmt.Errorf("bad event %q", s)
	}
	e := Event{Op: f[0], P: f[1]}
	switch e.Op {
	case "del":
		if len(f) == 5 && f[4] == "i1" {
			e.Ign = true
		} else if len(f) != 4 {
			return e, fmt.Errorf("bad event %q", s)
		}
		e.Rec, e.Data = f[2] == "r1", f[3] == "d1"
	case "mv", "ln":
		if len(f) == 4 && f[3] == "!refused" {
			e.Refused = true
		} else if len(f) == 4 && f[3] == "!sync" {
			e.Sync = true
		} else if len(f) != 3 {
			return e, fmt.Errorf("bad event %q", s)
		}
		e.Q = f[2]
	}
	return e, nil
}

// Fid is the fresh file id of the n-th chunk written in step `step` of a history.
// Every write gets ids no earlier step has used, as a client that asked the
// master for an assignment would.
func Fid(step, n int) string {
	return needle.NewFileId(VolumeId, uint64(step*4+n+1), 0x5eed0001).String()
}

// LinkIdBytes is the hard link id of identity k (16 bytes + the mount's marker byte).
func LinkIdBytes(k int) []byte {
	b := make([]byte, 17)
	for i := 0; i < 16; i++ {
		b[i] = byte(0xA0 + k)
	}
	b[16] = 0x01 // weed/filesys HARD_LINK_MARKER
	return b
}

const MaxLinkIds = 9

// AllLinkIds is the key set Observe treats as hard-link records.
func AllLinkIds() map[string]bool {
	m := map[string]bool{}
	for k := 1; k <= MaxLinkIds; k++ {
		m[string(LinkIdBytes(k))] = true
	}
	return m
}

func linkHex(k int) string { return fmt.Sprintf("%x", LinkIdBytes(k)) }

// LinkNum maps the hex form back to the identity number (0 = none/unknown).
func LinkNum(hex string) int {
	for k := 1; k <= MaxLinkIds; k++ {
		if linkHex(k) == hex {
			return k
		}
	}
	return 0
}

const (
	fixedTime = 1000
	fileMode  = 0644
	dirMode   = uint32(os.ModeDir) | 0755
	chunkSize = 4
)

func freshChunk(step, n int, offset int64) *filer_pb.FileChunk {
	return &filer_pb.FileChunk{FileId: Fid(step, n), Offset: offset, Size: chunkSize, Mtime: int64(step + 1)}
}

func totalSize(cs []*filer_pb.FileChunk) (t int64) {
	for _, c := range cs {
		if e := c.Offset + int64(c.Size); e > t {
			t = e
		}
	}
	return
}

// Outcome is what the client saw.
type Outcome struct {
	Err   string   // "" = success; otherwise the error (gRPC error or resp.Error)
	Wrote []string // for write events: the chunk list the client sent
	// WroteMode: for updates, the file mode the client sent (valid when HasMode).
	WroteMode uint32
	HasMode   bool
	Skipped   bool // the client could not form the request (e.g. update of a missing entry)
}

// Apply executes one event against the real server.  step is the index of the
// event in its history (decides the fresh file ids); linkNext is the identity a
// link of a not yet linked file gets (1 + number of earlier ln events).
func (w *World) Apply(ev Event, step int, linkNext int) Outcome {
	ctx := context.Background()
	dir, name := splitPath(ev.P)
	switch ev.Op {
	case "mkfile", "mkdir", "mkman":
		ent := &filer_pb.Entry{Name: name, Attributes: &filer_pb.FuseAttributes{Mtime: fixedTime, Crtime: fixedTime, FileMode: fileMode}}
		switch ev.Op {
		case "mkdir":
			ent.IsDirectory = true
			ent.Attributes.FileMode = dirMode
		case "mkfile":
			ent.Chunks = []*filer_pb.FileChunk{freshChunk(step, 0, 0)}
			ent.Attributes.FileSize = chunkSize
		case "mkman":
			// a manifest chunk that stands for two data chunks
			d1, d2 := freshChunk(step, 1, 0), freshChunk(step, 2, chunkSize)
			blob, err := proto.Marshal(&filer_pb.FileChunkManifest{Chunks: []*filer_pb.FileChunk{d1, d2}})
			if err != nil {
				mc.Fatal("marshal manifest: %v", err)
			}
			m := freshChunk(step, 0, 0)
			m.Size = 2 * chunkSize
			m.IsChunkManifest = true
			w.PutBlob(m.FileId, blob)
			ent.Chunks = []*filer_pb.FileChunk{m}
			ent.Attributes.FileSize = 2 * chunkSize
		}
		wrote := chunkStrs(ent.Chunks)
		resp, err := w.FS.CreateEntry(ctx, &filer_pb.CreateEntryRequest{Directory: dir, Entry: ent})
		return Outcome{Err: errOf(err, respErr(resp)), Wrote: wrote}
	case "updrepl", "updadd", "chmod", "flip":
		cur := w.Lookup(ev.P)
		if cur == nil {
			// a client cannot read-modify-write what it cannot read; it still may send a blind update
			cur = &filer_pb.Entry{Name: name, Attributes: &filer_pb.FuseAttributes{Mtime: fixedTime, Crtime: fixedTime, FileMode: fileMode}}
		}
		if cur.Attributes == nil {
			cur.Attributes = &filer_pb.FuseAttributes{}
		}
		switch ev.Op {
		case "updrepl":
			cur.Chunks = []*filer_pb.FileChunk{freshChunk(step, 0, 0)}
			cur.Attributes.FileSize = chunkSize
		case "updadd":
			off := totalSize(cur.Chunks)
			cur.Chunks = append(cur.Chunks, freshChunk(step, 0, off))
			cur.Attributes.FileSize = uint64(off + chunkSize)
		case "chmod":
			cur.Attributes.FileMode ^= 0044
		case "flip":
			cur.IsDirectory = !cur.IsDirectory
			cur.Attributes.FileMode ^= uint32(os.ModeDir)
		}
		wrote := chunkStrs(cur.Chunks)
		_, err := w.FS.UpdateEntry(ctx, &filer_pb.UpdateEntryRequest{Directory: dir, Entry: cur})
		return Outcome{Err: errOf(err, ""), Wrote: wrote, WroteMode: cur.Attributes.FileMode, HasMode: true}
	case "append":
		c := freshChunk(step, 0, 0)
		_, err := w.FS.AppendToEntry(ctx, &filer_pb.AppendToEntryRequest{Directory: dir, EntryName: name, Chunks: []*filer_pb.FileChunk{c}})
		return Outcome{Err: errOf(err, "")}
	case "del":
		resp, err := w.FS.DeleteEntry(ctx, &filer_pb.DeleteEntryRequest{Directory: dir, Name: name, IsDeleteData: ev.Data, IsRecursive: ev.Rec, IgnoreRecursiveError: ev.Ign})
		e2 := ""
		if resp != nil {
			e2 = resp.Error
		}
		return Outcome{Err: errOf(err, e2)}
	case "mv":
		qd, qn := splitPath(ev.Q)
		_, err := w.FS.AtomicRenameEntry(ctx, &filer_pb.AtomicRenameEntryRequest{OldDirectory: dir, OldName: name, NewDirectory: qd, NewName: qn})
		return Outcome{Err: errOf(err, "")}
	case "ln":
		// what weed/filesys Dir.Link sends
		old := w.Lookup(ev.P)
		if old == nil {
			return Outcome{Skipped: true, Err: "link source missing"}
		}
		if len(old.HardLinkId) == 0 {
			old.HardLinkId = LinkIdBytes(linkNext)
			old.HardLinkCounter = 1
		}
		old.HardLinkCounter++
		if _, err := w.FS.UpdateEntry(ctx, &filer_pb.UpdateEntryRequest{Directory: dir, Entry: old}); err != nil {
			return Outcome{Err: "link step 1 (UpdateEntry): " + err.Error()}
		}
		qd, qn := splitPath(ev.Q)
		resp, err := w.FS.CreateEntry(ctx, &filer_pb.CreateEntryRequest{Directory: qd, Entry: &filer_pb.Entry{
			Name: qn, IsDirectory: false, Attributes: old.Attributes, Chunks: old.Chunks, Extended: old.Extended,
			HardLinkId: old.HardLinkId, HardLinkCounter: old.HardLinkCounter,
		}})
		if e := errOf(err, respErr(resp)); e != "" {
			return Outcome{Err: "link step 2 (CreateEntry): " + e}
		}
		return Outcome{}
	}
	mc.Fatal("unknown event %v", ev)
	return Outcome{}
}

func respErr(r *filer_pb.CreateEntryResponse) string {
	if r == nil {
		return ""
	}
	return r.Error
}

func errOf(err error, respError string) string {
	if err != nil {
		return err.Error()
	}
	return respError
}

// Alphabet selects the events of a check.
type Alphabet struct {
	Paths []string
	Ops   map[string]bool
	// NoMvIntoOwnSubtree leaves out renames of a directory into itself or below
	// itself (decided by C18; the other checks do not repeat them).
	NoMvIntoOwnSubtree bool
}

func parentOf(p string) string {
	d, _ := splitPath(p)
	return d
}

// Menu lists the events enabled in a state, simplest first.  Creates are
// offered on every universe path; the other operations on every existing
// universe path plus the first missing one (so that the not-found paths of the
// server are exercised without multiplying no-op transitions).
func (a Alphabet) Menu(st *State) []Event {
	var out []Event
	for _, op := range []string{"mkfile", "mkdir", "mkman"} {
		if a.Ops[op] {
			for _, p := range a.Paths {
				out = append(out, Event{Op: op, P: p})
			}
		}
	}
	var targets []string
	missing := false
	for _, p := range a.Paths {
		if st.Get(p) != nil {
			targets = append(targets, p)
		} else if !missing {
			missing = true
			targets = append(targets, p)
		}
	}
	for _, p := range targets {
		e := st.Get(p)
		for _, op := range []string{"updrepl", "updadd", "chmod", "flip", "append"} {
			if !a.Ops[op] {
				continue
			}
			if e != nil && e.Dir && (op == "updrepl" || op == "updadd" || op == "append") {
				continue // clients write content to files, not to directories
			}
			out = append(out, Event{Op: op, P: p})
		}
		if a.Ops["del"] {
			out = append(out, Event{Op: "del", P: p}, Event{Op: "del", P: p, Data: true})
			if e != nil && e.Dir {
				out = append(out, Event{Op: "del", P: p, Rec: true}, Event{Op: "del", P: p, Rec: true, Data: true})
			}
			if a.Ops["delign"] {
				// IgnoreRecursiveError (fs.rm -f, DELETE ?ignoreRecursiveError=true): documented to ignore
				// errors of sub-folders during a recursive delete, nothing else
				out = append(out, Event{Op: "del", P: p, Ign: true})
				if e != nil && e.Dir {
					out = append(out, Event{Op: "del", P: p, Rec: true, Data: true, Ign: true})
				}
			}
		}
		if a.Ops["mv"] {
			for _, q := range a.Paths {
				if q == p && (e == nil || !e.Dir) {
					continue
				}
				if a.NoMvIntoOwnSubtree && e != nil && e.Dir && under(q, p) {
					continue
				}
				out = append(out, Event{Op: "mv", P: p, Q: q})
			}
		}
		if a.Ops["ln"] && e != nil && !e.Dir {
			for _, q := range a.Paths {
				if q == p || st.Get(q) != nil {
					continue
				}
				par := parentOf(q)
				if par != "/" {
					if pe := st.Get(par); pe == nil || !pe.Dir {
						continue
					}
				}
				out = append(out, Event{Op: "ln", P: p, Q: q})
			}
		}
	}
	return out
}
