// Package fsys is the explicit-state system shared by C18, C20 and C21: the
// real FilerServer gRPC service methods called in-process over a real
// filer.Filer with a leveldb2 store, closed by a recorder that stands in for
// the volume servers (it records BatchDelete calls and serves manifest blobs).
package fsys

import (
	"context"
	"crypto/md5"
	"flag"
	"fmt"
	"net"
	"net/http"
	"os"
	"path/filepath"
	"sort"
	"strings"
	"sync"
	"time"

	"github.com/golang/protobuf/proto"
	"google.golang.org/grpc"
	"google.golang.org/grpc/metadata"

	"verif/mc"

	"github.com/chrislusf/seaweedfs/weed/filer"
	leveldb2 "github.com/chrislusf/seaweedfs/weed/filer/leveldb2"
	"github.com/chrislusf/seaweedfs/weed/pb/filer_pb"
	"github.com/chrislusf/seaweedfs/weed/pb/volume_server_pb"
	weed_server "github.com/chrislusf/seaweedfs/weed/server"
	"github.com/chrislusf/seaweedfs/weed/wdclient"
)

// VolumeId is the volume every chunk of the harness lives on.
const VolumeId = 7

// QuietLogs sends glog output below FATAL to files in dir instead of stderr.
func QuietLogs(dir string) {
	os.MkdirAll(dir, 0755)
	flag.Set("logtostderr", "false")
	flag.Set("alsologtostderr", "false")
	flag.Set("stderrthreshold", "FATAL")
	flag.Set("logdir", dir)
}

// ---- recorder: stands in for the volume servers ------------------------------------

type recorder struct {
	volume_server_pb.UnimplementedVolumeServerServer
	mu      sync.Mutex
	deleted []string
	blobs   map[string][]byte // file id -> stored bytes (manifest blobs)
	gs      *grpc.Server
	hs      *http.Server
	url     string // host:port of the HTTP side; gRPC listens on port+10000
}

func (rc *recorder) BatchDelete(ctx context.Context, req *volume_server_pb.BatchDeleteRequest) (*volume_server_pb.BatchDeleteResponse, error) {
	rc.mu.Lock()
	defer rc.mu.Unlock()
	resp := &volume_server_pb.BatchDeleteResponse{}
	for _, fid := range req.FileIds {
		rc.deleted = append(rc.deleted, fid)
		resp.Results = append(resp.Results, &volume_server_pb.DeleteResult{FileId: fid, Status: http.StatusAccepted})
	}
	return resp, nil
}

func (rc *recorder) ServeHTTP(w http.ResponseWriter, r *http.Request) {
	fid := strings.TrimPrefix(r.URL.Path, "/")
	rc.mu.Lock()
	b, ok := rc.blobs[fid]
	rc.mu.Unlock()
	if !ok {
		http.Error(w, "not found", http.StatusNotFound)
		return
	}
	w.Header().Set("Content-Length", fmt.Sprint(len(b)))
	w.Write(b)
}

func (rc *recorder) take() []string {
	rc.mu.Lock()
	defer rc.mu.Unlock()
	d := rc.deleted
	rc.deleted = nil
	return d
}

func startRecorder() *recorder {
	rc := &recorder{blobs: map[string][]byte{}}
	for try := 0; try < 200; try++ {
		hl, err := net.Listen("tcp", "127.0.0.1:0")
		if err != nil {
			mc.Fatal("listen: %v", err)
		}
		port := hl.Addr().(*net.TCPAddr).Port
		if port+10000 > 65535 {
			hl.Close()
			continue
		}
		gl, err := net.Listen("tcp", fmt.Sprintf("127.0.0.1:%d", port+10000))
		if err != nil {
			hl.Close()
			continue
		}
		rc.url = fmt.Sprintf("127.0.0.1:%d", port)
		rc.gs = grpc.NewServer()
		volume_server_pb.RegisterVolumeServerServer(rc.gs, rc)
		go rc.gs.Serve(gl)
		rc.hs = &http.Server{Handler: rc}
		go rc.hs.Serve(hl)
		return rc
	}
	mc.Fatal("no free port pair for the recorder")
	return nil
}

// ---- the real instance ------------------------------------------------------------------

// World is one real filer (store + Filer + FilerServer) plus the recorder.
type World struct {
	Dir   string
	Store *leveldb2.LevelDB2Store
	F     *filer.Filer
	FS    *weed_server.FilerServer
	rc    *recorder
	uses  int
}

// NewWorld builds the instance in a fresh directory below base.
func NewWorld(base string) *World {
	dir, err := os.MkdirTemp(base, "w-")
	if err != nil {
		mc.Fatal("mkdir: %v", err)
	}
	w := &World{Dir: dir}
	w.rc = startRecorder()
	w.open()
	return w
}

func (w *World) open() {
	storeDir := filepath.Join(w.Dir, "db")
	st, err := leveldb2.NewLevelDB2StoreSmallV(storeDir, 256<<10, 1<<20)
	if err != nil {
		mc.Fatal("leveldb2: %v", err)
	}
	w.Store = st
	w.F = filer.NewFilerV(st, filer.FilerOptionsV{
		Masters:        []string{"127.0.0.1:1"},
		GrpcDialOption: grpc.WithInsecure(),
		Host:           "127.0.0.1",
		GrpcPort:       18888,
		DirBucketsPath: "/buckets",
	})
	w.F.MasterClient.AddLocationFilersrvV(VolumeId, wdclient.Location{Url: w.rc.url, PublicUrl: w.rc.url})
	w.FS = weed_server.NewFilerServerV(w.F, &weed_server.FilerOption{
		Masters:         []string{"127.0.0.1:1"},
		MaxMB:           4,
		DirListingLimit: 100000,
		Host:            "127.0.0.1",
		Port:            8888,
	}, grpc.WithInsecure(), false)
}

// Close releases everything.
func (w *World) Close() {
	w.F.Shutdown()
	w.rc.gs.Stop()
	w.rc.hs.Close()
	os.RemoveAll(w.Dir)
}

var storeIdKey = []byte(filer.FilerStoreId)

// CompactEvery is the number of Resets after which the store is compacted
// (bounds the build-up of overwritten versions in leveldb's memtable, which
// every scan has to step over; the logical content is not affected).
var CompactEvery = 200

// Reset brings the store back to the empty state (every raw key except the
// store signature is removed) and empties the deletion sinks.
func (w *World) Reset() {
	w.uses++
	type kv struct {
		p int
		k []byte
	}
	var del []kv
	w.Store.ScanAllV(func(p int, k, v []byte) {
		if string(k) != string(storeIdKey) {
			del = append(del, kv{p, k})
		}
	})
	for _, d := range del {
		if err := w.Store.DeleteRawV(d.p, d.k); err != nil {
			mc.Fatal("wipe: %v", err)
		}
	}
	if w.uses%CompactEvery == 0 {
		if err := w.Store.CompactAllV(); err != nil {
			mc.Fatal("compact: %v", err)
		}
	}
	n := 0
	w.Store.ScanAllV(func(p int, k, v []byte) { n++ })
	if n != 1 {
		mc.Fatal("wipe left %d raw keys (want 1: the store signature)", n)
	}
	w.F.DrainDeletionQueueV()
	w.rc.take()
	// manifest blobs stay: their content is a function of their file id
}

// RawKV is one raw key/value of the store.
type RawKV struct {
	P    int
	K, V []byte
}

// Snapshot captures the complete raw content of the store (without the store signature).
func (w *World) Snapshot() []RawKV {
	var out []RawKV
	w.Store.ScanAllV(func(p int, k, v []byte) {
		if string(k) != string(storeIdKey) {
			out = append(out, RawKV{p, k, v})
		}
	})
	return out
}

// Restore resets the store and puts a captured content back, byte for byte.
func (w *World) Restore(snap []RawKV) {
	w.Reset()
	for _, kv := range snap {
		if err := w.Store.PutRawV(kv.P, kv.K, kv.V); err != nil {
			mc.Fatal("restore: %v", err)
		}
	}
}

// PutBlob stores bytes under a file id on the recorder (manifest blobs).
func (w *World) PutBlob(fid string, b []byte) {
	w.rc.mu.Lock()
	w.rc.blobs[fid] = b
	w.rc.mu.Unlock()
}

// TakeScheduled returns and clears every file id the filer scheduled for
// deletion (asynchronous queue) or deleted directly (BatchDelete at the volume
// server) since the last call.
func (w *World) TakeScheduled() (queued, direct []string) {
	queued = w.F.DrainDeletionQueueV()
	direct = w.rc.take()
	return
}

// ---- observation ----------------------------------------------------------------------------

// Ent is one entry of the store as an observer sees it.
type Ent struct {
	Path    string   // full path ("?<hex>/name" when the directory hash is unknown)
	Dir     bool     // raw mode has the directory bit
	Mode    uint32   // effective file mode
	Mtime   int64    // effective mtime (wall clock for entries the server stamped itself; not part of String)
	T       string   // mtime class: "-" directory, "f" the fixed client time, "n" stamped by the server
	Chunks  []string // effective chunk list: fid@offset+size[M]
	Raw     []string // chunk list stored in the entry itself
	Link    string   // hard link id (hex) or ""
	Counter int32    // effective hard link counter
	RawCnt  int32
	RawMode uint32 // mode stored in the entry itself (differs from Mode for a stale hard-link copy)
	RawT    string // mtime class of the entry itself
	Walked  bool   // reached by a ListEntries walk from "/"
}

// KV is one shared hard-link record.
type KV struct {
	Id      string
	Counter int32
	Mode    uint32
	Mtime   int64
	Chunks  []string
	Bad     bool // undecodable
}

// State is the complete observable content of the store.
type State struct {
	Ents []Ent               // sorted by path
	KVs  []KV                // sorted by id
	Man  map[string][]string // manifest file id -> file ids of the data chunks it lists
}

func chunkStr(c *filer_pb.FileChunk) string {
	s := fmt.Sprintf("%s@%d+%d", c.GetFileIdString(), c.Offset, c.Size)
	if c.IsChunkManifest {
		s += "M"
	}
	return s
}

func chunkStrs(cs []*filer_pb.FileChunk) []string {
	out := make([]string, 0, len(cs))
	for _, c := range cs {
		out = append(out, chunkStr(c))
	}
	return out
}

// FidOf extracts the file id from a chunk string.
func FidOf(chunk string) string {
	if i := strings.IndexByte(chunk, '@'); i >= 0 {
		return chunk[:i]
	}
	return chunk
}

var dirHash = map[string]string{}

func init() {
	// every directory path over the names a..d up to depth 9 would be 349525
	// hashes; depth 7 (21845) covers every path a history of <= 7 events can
	// build out of the universe, deeper ones are reported by hash.
	names := []string{"a", "b", "c", "d"}
	var rec func(p string, d int)
	rec = func(p string, d int) {
		k := p
		if k == "" {
			k = "/"
		}
		h := md5.Sum([]byte(k))
		dirHash[string(h[:])] = k
		if d == 7 {
			return
		}
		for _, n := range names {
			rec(p+"/"+n, d+1)
		}
	}
	rec("", 0)
}

type listStream struct {
	out []*filer_pb.Entry
}

func (s *listStream) Send(r *filer_pb.ListEntriesResponse) error {
	s.out = append(s.out, r.Entry)
	return nil
}
func (s *listStream) SetHeader(metadata.MD) error  { return nil }
func (s *listStream) SendHeader(metadata.MD) error { return nil }
func (s *listStream) SetTrailer(metadata.MD)       {}
func (s *listStream) Context() context.Context     { return context.Background() }
func (s *listStream) SendMsg(m interface{}) error  { return nil }
func (s *listStream) RecvMsg(m interface{}) error  { return nil }

// List calls the real ListEntries for one directory.
func (w *World) List(dir string) []*filer_pb.Entry {
	s := &listStream{}
	if err := w.FS.ListEntries(&filer_pb.ListEntriesRequest{Directory: dir, Limit: 100000}, s); err != nil {
		mc.Fatal("ListEntries %s: %v", dir, err)
	}
	return s.out
}

// Lookup calls the real LookupDirectoryEntry.
func (w *World) Lookup(path string) *filer_pb.Entry {
	dir, name := splitPath(path)
	resp, err := w.FS.LookupDirectoryEntry(context.Background(), &filer_pb.LookupDirectoryEntryRequest{Directory: dir, Name: name})
	if err != nil || resp == nil {
		return nil
	}
	return resp.Entry
}

func splitPath(p string) (dir, name string) {
	i := strings.LastIndexByte(p, '/')
	dir, name = p[:i], p[i+1:]
	if dir == "" {
		dir = "/"
	}
	return
}

func joinPath(dir, name string) string {
	if dir == "/" {
		return "/" + name
	}
	return dir + "/" + name
}

// Observe reads the complete store: a raw scan of every key (ground truth),
// the effective view of every entry through LookupDirectoryEntry, and a walk
// from "/" through ListEntries that marks which entries a client can reach.
func (w *World) Observe(linkIds map[string]bool) State {
	var st State
	type rawEnt struct {
		path string
		e    *filer.Entry
	}
	var raws []rawEnt
	err := w.Store.ScanAllV(func(p int, k, v []byte) {
		if string(k) == string(storeIdKey) {
			return
		}
		if linkIds[string(k)] {
			kv := KV{Id: fmt.Sprintf("%x", k)}
			e := &filer.Entry{}
			if err := e.DecodeAttributesAndChunks(v); err != nil {
				kv.Bad = true
			} else {
				filer_pb.AfterEntryDeserialization(e.Chunks)
				kv.Counter, kv.Mode, kv.Mtime, kv.Chunks = e.HardLinkCounter, uint32(e.Mode), e.Mtime.Unix(), chunkStrs(e.Chunks)
			}
			st.KVs = append(st.KVs, kv)
			return
		}
		if len(k) <= md5.Size {
			mc.Fatal("unexpected raw key %x", k)
		}
		dir, ok := dirHash[string(k[:md5.Size])]
		if !ok {
			dir = fmt.Sprintf("?%x", k[:md5.Size])
		}
		name := string(k[md5.Size:])
		e := &filer.Entry{}
		if err := e.DecodeAttributesAndChunks(v); err != nil {
			mc.Fatal("undecodable raw entry %s/%s: %v", dir, name, err)
		}
		filer_pb.AfterEntryDeserialization(e.Chunks)
		raws = append(raws, rawEnt{joinPath(dir, name), e})
	})
	if err != nil {
		mc.Fatal("scan: %v", err)
	}
	// walk from the root through the real listing
	walked := map[string]bool{}
	var walk func(dir string, depth int)
	walk = func(dir string, depth int) {
		if depth > 40 {
			return
		}
		for _, e := range w.List(dir) {
			p := joinPath(dir, e.Name)
			walked[p] = true
			if e.IsDirectory {
				walk(p, depth+1)
			}
		}
	}
	walk("/", 0)
	for _, r := range raws {
		en := Ent{Path: r.path, Dir: r.e.IsDirectory(), Raw: chunkStrs(r.e.Chunks), RawCnt: r.e.HardLinkCounter, RawMode: uint32(r.e.Mode), Walked: walked[r.path]}
		switch {
		case en.Dir:
			en.RawT = "-"
		case r.e.Mtime.Unix() == 1000:
			en.RawT = "f"
		default:
			en.RawT = "n"
		}
		if len(r.e.HardLinkId) > 0 {
			en.Link = fmt.Sprintf("%x", []byte(r.e.HardLinkId))
		}
		if strings.HasPrefix(r.path, "?") {
			// unknown directory: the effective view cannot be asked for by path
			en.Mode, en.Mtime, en.Chunks, en.Counter = uint32(r.e.Mode), r.e.Mtime.Unix(), en.Raw, r.e.HardLinkCounter
		} else if eff := w.Lookup(r.path); eff != nil {
			if eff.Attributes != nil {
				en.Mode, en.Mtime = eff.Attributes.FileMode, eff.Attributes.Mtime
			}
			en.Chunks, en.Counter = chunkStrs(eff.Chunks), eff.HardLinkCounter
		} else {
			mc.Fatal("raw entry %s is not found by LookupDirectoryEntry", r.path)
		}
		switch {
		case en.Dir:
			en.T = "-"
		case en.Mtime == 1000:
			en.T = "f"
		default:
			en.T = "n"
		}
		st.Ents = append(st.Ents, en)
	}
	// manifests referenced by any chunk list: what they stand for (read from the blob store)
	note := func(cs []string) {
		for _, c := range cs {
			if !strings.HasSuffix(c, "M") {
				continue
			}
			fid := FidOf(c)
			if _, done := st.Man[fid]; done {
				continue
			}
			w.rc.mu.Lock()
			blob, ok := w.rc.blobs[fid]
			w.rc.mu.Unlock()
			if st.Man == nil {
				st.Man = map[string][]string{}
			}
			st.Man[fid] = nil
			if ok {
				m := &filer_pb.FileChunkManifest{}
				if proto.Unmarshal(blob, m) == nil {
					for _, dc := range m.Chunks {
						st.Man[fid] = append(st.Man[fid], dc.GetFileIdString())
					}
				}
			}
		}
	}
	for _, e := range st.Ents {
		note(e.Chunks)
		note(e.Raw)
	}
	for _, k := range st.KVs {
		note(k.Chunks)
	}
	sort.Slice(st.Ents, func(i, j int) bool { return st.Ents[i].Path < st.Ents[j].Path })
	sort.Slice(st.KVs, func(i, j int) bool { return st.KVs[i].Id < st.KVs[j].Id })
	return st
}

// Get returns the entry at path or nil.
func (s *State) Get(path string) *Ent {
	i := sort.Search(len(s.Ents), func(i int) bool { return s.Ents[i].Path >= path })
	if i < len(s.Ents) && s.Ents[i].Path == path {
		return &s.Ents[i]
	}
	return nil
}

// KV returns the record of a link id (hex) or nil.
func (s *State) KV(id string) *KV {
	for i := range s.KVs {
		if s.KVs[i].Id == id {
			return &s.KVs[i]
		}
	}
	return nil
}

// Referenced returns the set of file ids referenced by any entry (effective
// view: a hard-linked name references the chunks of the shared record).
func (s *State) Referenced() map[string][]string {
	out := map[string][]string{}
	for _, e := range s.Ents {
		for _, c := range e.Chunks {
			fid := FidOf(c)
			out[fid] = append(out[fid], e.Path)
			for _, d := range s.Man[fid] {
				out[d] = append(out[d], e.Path)
			}
		}
	}
	return out
}

// String is the canonical text of the state.
func (s *State) String() string {
	var b strings.Builder
	for _, e := range s.Ents {
		fmt.Fprintf(&b, "%s|d=%v|m=%o/%o|t=%s/%s|c=%s|r=%s|l=%s|n=%d/%d|w=%v\n", e.Path, e.Dir, e.Mode, e.RawMode, e.T, e.RawT, strings.Join(e.Chunks, ","), strings.Join(e.Raw, ","), e.Link, e.Counter, e.RawCnt, e.Walked)
	}
	for _, k := range s.KVs {
		t := "n"
		if k.Mtime == 1000 {
			t = "f"
		}
		fmt.Fprintf(&b, "KV %s|n=%d|m=%o|t=%s|c=%s|bad=%v\n", k.Id, k.Counter, k.Mode, t, strings.Join(k.Chunks, ","), k.Bad)
	}
	return b.String()
}

var _ = time.Now
