package fsys

import (
	"context"
	"fmt"
	"sort"

	"verif/mc"

	"github.com/chrislusf/seaweedfs/weed/filer"
	"github.com/chrislusf/seaweedfs/weed/pb/filer_pb"
	"github.com/chrislusf/seaweedfs/weed/storage/needle"
)

// Boundary scenarios outside the search: a directory with n direct children
// (n around the listing page size of the filer), each a one-chunk file with
// its own chunk id, for the "+1" sizes also a sub-directory whose name sorts
// last and holds one file; then the real recursive DeleteEntry with
// is_delete_data.  Oracle as in C20: every chunk that stopped being referenced
// is scheduled exactly once, nothing else is, and the subtree is gone.

type pagCase struct {
	Pag    int  `json:"pagination_children"`
	SubDir bool `json:"sub_directory_sorting_last"`
}

func pagLabel(n int) string {
	p := filer.PaginationSize
	switch {
	case n%p == 0:
		return fmt.Sprintf("%dxpage", n/p)
	case n%p == 1:
		return fmt.Sprintf("%dxpage+1", n/p)
	}
	return fmt.Sprintf("%dxpage-1", n/p+1)
}

func pagFid(i int) string {
	return needle.NewFileId(VolumeId, uint64(1000+i), 0x5eed0001).String()
}

// pagOne runs one scenario; returns (coverage class, violation class, message).
func pagOne(w *World, c pagCase) (string, string, string) {
	ctx := context.Background()
	w.Reset()
	want := map[string]bool{}
	mk := func(dir, name string, i int) {
		fid := pagFid(i)
		want[fid] = true
		resp, err := w.FS.CreateEntry(ctx, &filer_pb.CreateEntryRequest{Directory: dir, Entry: &filer_pb.Entry{
			Name:       name,
			Attributes: &filer_pb.FuseAttributes{Mtime: fixedTime, Crtime: fixedTime, FileMode: fileMode, FileSize: chunkSize},
			Chunks:     []*filer_pb.FileChunk{{FileId: fid, Offset: 0, Size: chunkSize, Mtime: 1}},
		}})
		if e := errOf(err, respErr(resp)); e != "" {
			mc.Fatal("pagination scenario: create %s/%s: %s", dir, name, e)
		}
	}
	for i := 0; i < c.Pag; i++ {
		mk("/a", fmt.Sprintf("f%05d", i), i)
	}
	if c.SubDir {
		mk("/a/zzz", "x", c.Pag) // "zzz" sorts after every f#####
	}
	w.TakeScheduled()
	resp, err := w.FS.DeleteEntry(ctx, &filer_pb.DeleteEntryRequest{Directory: "/", Name: "a", IsDeleteData: true, IsRecursive: true})
	e2 := ""
	if resp != nil {
		e2 = resp.Error
	}
	q, d := w.TakeScheduled()
	left := len(w.Snapshot())
	label := pagLabel(c.Pag)
	if c.SubDir {
		label += "+subdir"
	}
	class := fmt.Sprintf("pagination|children=%s|err=%v|left=%v", label, errOf(err, e2) != "", left > 0)
	if e := errOf(err, e2); e != "" {
		return class, "recursive-delete-of-large-directory-failed:" + label, fmt.Sprintf("recursive delete (deleteData) of a directory with %d children answered %q", c.Pag, e)
	}
	if left != 0 {
		return class, "recursive-delete-of-large-directory-left-entries:" + label, fmt.Sprintf("after the recursive delete of a directory with %d children %d raw keys are left in the store", c.Pag, left)
	}
	got := map[string]int{}
	for _, f := range append(q, d...) {
		got[f]++
	}
	var missing, twice, extra []string
	for f := range want {
		switch {
		case got[f] == 0:
			missing = append(missing, f)
		case got[f] > 1:
			twice = append(twice, f)
		}
	}
	for f := range got {
		if !want[f] {
			extra = append(extra, f)
		}
	}
	sort.Strings(missing)
	sort.Strings(twice)
	sort.Strings(extra)
	head := func(s []string) []string {
		if len(s) > 3 {
			return s[:3]
		}
		return s
	}
	switch {
	case len(missing) > 0:
		return class, "unreferenced-chunk-not-scheduled:del-r1-d1|large-directory:" + label, fmt.Sprintf("recursive delete (deleteData) of a directory with %d children (page size %d) removed all entries but did not schedule %d of the %d chunks, e.g. %v", c.Pag, filer.PaginationSize, len(missing), len(want), head(missing))
	case len(extra) > 0:
		return class, "unknown-chunk-scheduled:del-r1-d1|large-directory:" + label, fmt.Sprintf("scheduled file ids nothing referenced: %v", head(extra))
	case len(twice) > 0:
		return class, "chunk-scheduled-twice:del-r1-d1|large-directory:" + label, fmt.Sprintf("%d chunks were scheduled more than once, e.g. %v", len(twice), head(twice))
	}
	return class, "", ""
}

func pagCases() []pagCase {
	p := filer.PaginationSize
	return []pagCase{{Pag: p - 1}, {Pag: p}, {Pag: p + 1}, {Pag: p + 1, SubDir: true}, {Pag: 2 * p}, {Pag: 2*p + 1}, {Pag: 2*p + 1, SubDir: true}}
}

// paginationScenarios runs the family in the calling process.
func paginationScenarios(r *mc.Run, w *World) {
	n := 0
	for _, c := range pagCases() {
		c := c
		class, v, msg := pagOne(w, c)
		r.Case(class)
		n++
		if v != "" {
			r.Violate(v, msg, c, func() bool { _, v2, _ := pagOne(w, c); return v2 == v })
		}
	}
	w.Reset()
	r.Set("pagination_scenarios", n)
	r.Set("pagination_page_size", filer.PaginationSize)
	r.Sample("pagination", pagCases()[3])
}
