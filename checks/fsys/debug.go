package fsys

import (
	"fmt"
	"os"
	"runtime/debug"
	"runtime/pprof"
	"strings"
	"time"

	"verif/mc"
)

// Debug runs the events given on the command line (separated by ";") and prints every step.
func Debug() {
	base := mc.TempDir("fsysdbg")
	defer os.RemoveAll(base)
	mc.QuietGlog()
	if v := os.Getenv("DBG_STACK"); v != "" {
		var n int
		fmt.Sscan(v, &n)
		debug.SetMaxStack(n)
	}
	t0 := time.Now()
	w := NewWorld(base)
	fmt.Println("newworld", time.Since(t0))
	w.Reset()
	if v := os.Getenv("DBG_REOPEN"); v != "" {
		fmt.Sscan(v, &CompactEvery)
	}
	if os.Getenv("DBG_BENCH") != "" {
		ids := AllLinkIds()
		evs := []string{"mkfile /a/b/c", "mkfile /d", "mv /d /a/d", "del /a r1 d1"}
		if pf := os.Getenv("DBG_PROF"); pf != "" {
			f, _ := os.Create(pf)
			pprof.StartCPUProfile(f)
			defer pprof.StopCPUProfile()
		}
		t0 = time.Now()
		N := 2000
		for i := 0; i < N; i++ {
			w.Reset()
			for j, s := range evs {
				ev, _ := ParseEvent(s)
				w.Apply(ev, j, 1)
			}
			w.TakeScheduled()
			w.Observe(ids)
		}
		fmt.Println("per history of 4 events + reset + observe:", time.Since(t0)/time.Duration(N))
		t0 = time.Now()
		for i := 0; i < N; i++ {
			w.Observe(ids)
		}
		fmt.Println("per observe:", time.Since(t0)/time.Duration(N))
		t0 = time.Now()
		for i := 0; i < N; i++ {
			w.Reset()
		}
		fmt.Println("per reset:", time.Since(t0)/time.Duration(N))
		return
	}
	ids := AllLinkIds()
	st := w.Observe(ids)
	for i, s := range strings.Split(strings.Join(os.Args[2:], " "), ";") {
		s = strings.TrimSpace(s)
		if s == "" {
			continue
		}
		ev, err := ParseEvent(s)
		if err != nil {
			fmt.Println(err)
			return
		}
		out := w.Apply(ev, i, i+1)
		q, d := w.TakeScheduled()
		st = w.Observe(ids)
		fmt.Printf("== %d %s -> err=%q queued=%v direct=%v\n%s", i, ev, out.Err, q, d, st.String())
	}
}
