package c06

import (
	"bytes"
	"fmt"
	"os"
	"path/filepath"

	"verif/mc"

	"github.com/chrislusf/seaweedfs/weed/storage/backend"
	ec "github.com/chrislusf/seaweedfs/weed/storage/erasure_coding"
	"github.com/chrislusf/seaweedfs/weed/storage/needle"
	"github.com/chrislusf/seaweedfs/weed/storage/needle_map"
	"github.com/chrislusf/seaweedfs/weed/storage/super_block"
	"github.com/chrislusf/seaweedfs/weed/storage/types"
)

const miB = 1 << 20

func realSizes(r *mc.Run) []int64 {
	s := []int64{8, 48, miB + 16, 10*miB - 8, 10 * miB, 10*miB + 8}
	if !r.Quick() {
		s = append(s, 20*miB-8, 20*miB, 20*miB+8, 30*miB+8)
	}
	return s
}

type realNeedle struct {
	id     types.NeedleId
	offset int64
	size   types.Size
	data   []byte
}

func needleData(n int, salt int) []byte {
	b := make([]byte, n)
	for i := range b {
		b[i] = byte(i*31 + salt*7 + i/4096)
	}
	return b
}

// buildVolume writes a version-3 volume file of exactly datSize bytes (super block
// + needles appended by the real encoder) and its .idx.
func buildVolume(base string, datSize int64) ([]realNeedle, error) {
	f, err := os.OpenFile(base+".dat", os.O_RDWR|os.O_CREATE|os.O_TRUNC, 0644)
	if err != nil {
		return nil, err
	}
	defer f.Close()
	sb := super_block.SuperBlock{Version: needle.Version3, ReplicaPlacement: &super_block.ReplicaPlacement{}, Ttl: needle.EMPTY_TTL}
	if _, err := f.Write(sb.Bytes()); err != nil {
		return nil, err
	}
	df := backend.NewDiskFile(f)
	var ns []realNeedle
	var idxBuf []byte
	cur := int64(super_block.SuperBlockSize)
	appendNeedle := func(dataLen int) error {
		n := &needle.Needle{Id: types.NeedleId(len(ns) + 1), Cookie: types.Cookie(0x1000 + len(ns)), Data: needleData(dataLen, len(ns))}
		n.Checksum = needle.NewCRC(n.Data)
		off, _, actual, err := n.Append(df, needle.Version3)
		if err != nil {
			return err
		}
		if int64(off) != cur {
			return fmt.Errorf("needle appended at %d, expected %d", off, cur)
		}
		cur += actual
		ns = append(ns, realNeedle{id: n.Id, offset: int64(off), size: n.Size, data: n.Data})
		idxBuf = append(idxBuf, needle_map.ToBytes(n.Id, types.ToOffset(int64(off)), n.Size)...)
		return nil
	}
	// planned needles: small ones, block-sized ones, ones that straddle 1 MiB block boundaries
	plan := []int{5, 1, 700 * 1024, miB - 100, 3*miB/2 + 3, 64, 2*miB + 9, 900 * 1024, miB, 4*miB + 1, 300, 2 * miB, 5 * miB, 3 * miB, 6 * miB}
	for _, dl := range plan {
		a := needle.GetActualSize(types.Size(dl+5), needle.Version3)
		if cur+a+40 > datSize {
			continue
		}
		if err := appendNeedle(dl); err != nil {
			return nil, err
		}
	}
	if rest := datSize - cur; rest > 0 {
		if rest < 40 || rest%8 != 0 {
			return nil, fmt.Errorf("cannot fill %d bytes with one needle", rest)
		}
		if err := appendNeedle(int(rest - 34)); err != nil {
			return nil, err
		}
	}
	if cur != datSize {
		return nil, fmt.Errorf("volume is %d bytes, wanted %d", cur, datSize)
	}
	return ns, os.WriteFile(base+".idx", idxBuf, 0644)
}

// realVolume: the production path with the real constants on one volume.
func realVolume(r *mc.Run, dir string, datSize int64) {
	os.RemoveAll(dir)
	os.MkdirAll(dir, 0755)
	base := filepath.Join(dir, "1")
	wit := W{Phase: "real", Dat: datSize, Large: ec.ErasureCodingLargeBlockSize, Small: ec.ErasureCodingSmallBlockSize}
	cls := fmt.Sprintf("real|dat=%dMiB%+d", (datSize+miB/2)/miB, datSize-((datSize+miB/2)/miB)*miB)
	ns, err := buildVolume(base, datSize)
	if err != nil {
		mc.Fatal("build volume of %d bytes: %v", datSize, err)
	}
	orig, _ := os.ReadFile(base + ".dat")
	fail := func(class, msg string) {
		violate(r, class, msg, wit, nil)
		r.Case(cls + "|" + class)
	}
	if err := ec.WriteEcFiles(base); err != nil {
		fail("real:encode-error", fmt.Sprintf("WriteEcFiles: %v", err))
		return
	}
	if err := ec.WriteSortedFileFromIdx(base, ".ecx"); err != nil {
		fail("real:ecx-error", fmt.Sprintf("WriteSortedFileFromIdx: %v", err))
		return
	}
	shards := make([][]byte, nTotal)
	for i := range shards {
		shards[i], err = os.ReadFile(base + ec.ToExt(i))
		if err != nil {
			fail("real:shard-missing", err.Error())
			return
		}
		if int64(len(shards[i])) != shardSizeOf(datSize, ec.ErasureCodingLargeBlockSize, ec.ErasureCodingSmallBlockSize) {
			fail("real:shard-size", fmt.Sprintf("shard %d has %d bytes for a .dat of %d", i, len(shards[i]), datSize))
			return
		}
	}
	r.Case(cls + "|encoded")

	// every needle through the EC read path
	ev, err := ec.NewEcVolume(types.HardDriveType, dir, dir, "", 1)
	if err != nil {
		fail("real:ecvolume-open-error", err.Error())
		return
	}
	for i := 0; i < nTotal; i++ {
		sh, err := ec.NewEcVolumeShard(types.HardDriveType, dir, "", 1, ec.ShardId(i))
		if err != nil {
			ev.Close()
			fail("real:shard-open-error", err.Error())
			return
		}
		ev.AddEcVolumeShard(sh)
	}
	for _, n := range ns {
		out := readNeedleViaEc(ev, n)
		r.Case(fmt.Sprintf("%s|read|blocks=%d|%s", cls, (n.offset+int64(len(n.data)))/miB-n.offset/miB, out))
		if out != "ok" {
			w2 := wit
			w2.Off, w2.Size = n.offset, int64(n.size)
			violate(r, "real-read:"+rowClass(datSize, ec.ErasureCodingLargeBlockSize, ec.ErasureCodingSmallBlockSize),
				fmt.Sprintf("needle %d at offset %d size %d of a %d-byte volume read through LocateEcShardNeedle: %s", n.id, n.offset, n.size, datSize, out), w2, nil)
		}
	}
	ev.Close()

	// decode
	if len(ns) > 0 {
		got, err := ec.FindDatFileSize(base, base)
		if err != nil || got != datSize {
			fail("real:find-dat-size", fmt.Sprintf("FindDatFileSize = %d, %v; the volume (last record live) has %d bytes", got, err, datSize))
		}
	}
	os.Remove(base + ".dat")
	if err := ec.WriteDatFile(base, datSize); err != nil {
		fail("real:writedat-error", fmt.Sprintf("WriteDatFile(%d): %v", datSize, err))
	} else if got, _ := os.ReadFile(base + ".dat"); !bytes.Equal(got, orig) {
		fail("real:writedat-differs", fmt.Sprintf("WriteDatFile(%d) wrote %d bytes that differ from the original volume", datSize, len(got)))
	} else {
		r.Case(cls + "|decoded")
	}

	// rebuild some subsets with the production entry point
	for _, miss := range [][]int{{0}, {13}, {9, 10}, {0, 1, 2, 3}, {10, 11, 12, 13}, {3, 7, 11, 13}} {
		for _, m := range miss {
			os.Remove(base + ec.ToExt(m))
		}
		ids, err := ec.RebuildEcFiles(base)
		out := "ok"
		switch {
		case err != nil:
			out = "error"
			fail("real-rebuild:error", fmt.Sprintf("RebuildEcFiles with %v missing: %v", miss, err))
		case len(ids) != len(miss):
			out = "wrong-ids"
			fail("real-rebuild:wrong-ids", fmt.Sprintf("RebuildEcFiles generated %v, missing were %v", ids, miss))
		default:
			for _, m := range miss {
				if b, _ := os.ReadFile(base + ec.ToExt(m)); !bytes.Equal(b, shards[m]) {
					out = "mismatch"
					fail("real-rebuild:mismatch", fmt.Sprintf("shard %d rebuilt with %v missing differs from the original", m, miss))
					break
				}
			}
		}
		r.Case(fmt.Sprintf("%s|rebuild|missing=%d|%s", cls, len(miss), out))
		if out != "ok" {
			for i, s := range shards {
				os.WriteFile(base+ec.ToExt(i), s, 0644)
			}
		}
	}
}

// readNeedleViaEc mirrors Store.ReadEcShardNeedle for local shards.
func readNeedleViaEc(ev *ec.EcVolume, n realNeedle) string {
	offset, size, intervals, err := ev.LocateEcShardNeedle(n.id, ev.Version)
	if err != nil {
		return "locate-error"
	}
	if offset.ToActualOffset() != n.offset || size != n.size {
		return "wrong-index-entry"
	}
	var data []byte
	for _, iv := range intervals {
		shardId, actualOffset := iv.ToShardIdAndOffset(ec.ErasureCodingLargeBlockSize, ec.ErasureCodingSmallBlockSize)
		shard, found := ev.FindEcVolumeShard(shardId)
		if !found {
			return "shard-not-found"
		}
		buf := make([]byte, iv.Size)
		if _, err := shard.ReadAt(buf, actualOffset); err != nil {
			return "shard-read-error"
		}
		data = append(data, buf...)
	}
	got := new(needle.Needle)
	if err := got.ReadBytes(data, offset.ToActualOffset(), size, ev.Version); err != nil {
		return "needle-decode-error"
	}
	if got.Id != n.id || !bytes.Equal(got.Data, n.data) {
		return "wrong-data"
	}
	return "ok"
}
