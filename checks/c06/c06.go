// Package c06: erasure coding reconstructs and serves the exact original volume.
//
// Seam: erasure_coding.StorlibGenerateEcFilesV / StorlibGenerateMissingEcFilesV
// (generateEcFiles / generateMissingEcFiles with the block sizes they take as
// parameters), LocateData + Interval.ToShardIdAndOffset with the same sizes and
// the shard-derived data size (10 x shard size, as LocateEcShardNeedle passes);
// with the real constants: WriteEcFiles, RebuildEcFiles, WriteDatFile,
// FindDatFileSize, NewEcVolume + LocateEcShardNeedle on real volumes of 10 and
// 20 MiB, and LocateData arithmetic around the 10 GiB large-row boundaries.
package c06

import (
	"bytes"
	"fmt"
	"os"
	"path/filepath"
	"runtime"
	"runtime/debug"
	"sync"

	"verif/mc"

	ec "github.com/chrislusf/seaweedfs/weed/storage/erasure_coding"
	"github.com/chrislusf/seaweedfs/weed/storage/types"
)

func Main() {
	mc.Main("C06", "exploration",
		"scaled block sizes (large=64, small=8, buffer=8, passed as parameters): every .dat size 0..2080 (3 large rows + 2 small rows, crossing every row boundary) with position-dependent content is encoded by the real encoder; the data shards are compared with a reference striping, and reads located by LocateData/ToShardIdAndOffset from the shard-derived size are compared with the original bytes for every 8-aligned offset x every length to the end of the file on the boundary sizes (quick: 41 sizes around the large-row boundaries; thorough: every small-row multiple +-1) and elsewhere every offset x lengths {8,40,72,648,to the end} (quick) / every multiple of 8 (thorough); every subset of 1..4 missing shards is rebuilt by the real rebuilder and compared byte for byte (quick: on 3 sizes, thorough: on every second small-row multiple; a rotating subset of each cardinality on the other boundary sizes / thorough: on all other sizes); real constants: volumes of real needles with sizes around 10 and 20 MiB through WriteEcFiles / LocateEcShardNeedle / RebuildEcFiles / FindDatFileSize / WriteDatFile, and LocateData arithmetic around k*10 GiB against the reference striping; distinct = (phase, row class of the size, outcome)",
		run)
}

const (
	large  = 64
	small  = 8
	bufSz  = 8
	nData  = ec.DataShardsCount
	nTotal = ec.TotalShardsCount
	maxDat = 3*nData*large + 2*nData*small // 2080
)

type w = map[string]interface{}

// W is the replay witness.
type W struct {
	Phase   string `json:"phase"` // scaled | real | arith
	Dat     int64  `json:"dat_size"`
	Off     int64  `json:"offset,omitempty"`
	Size    int64  `json:"size,omitempty"`
	Missing []int  `json:"missing_shards,omitempty"`
	Large   int64  `json:"large_block,omitempty"`
	Small   int64  `json:"small_block,omitempty"`
}

var (
	vmu    sync.Mutex
	vcount = map[string]int{}
)

func violate(r *mc.Run, class, msg string, wit W, recheck func() bool) {
	vmu.Lock()
	vcount[class]++
	n := vcount[class]
	vmu.Unlock()
	r.Add("failing_cases", 1)
	if n > 3 {
		return
	}
	r.Violate(class, msg, wit, recheck)
}

// ---- reference striping (the layout the encoder is specified to produce) -------

// encLargeRows: the encoder writes large rows while more than one large row of
// data remains, then small rows.
func encLargeRows(dat, l int64) int64 {
	if dat <= 0 {
		return 0
	}
	return (dat - 1) / (nData * l)
}

func shardSizeOf(dat, l, s int64) int64 {
	nl := encLargeRows(dat, l)
	rest := dat - nl*nData*l
	rows := (rest + nData*s - 1) / (nData * s)
	return nl*l + rows*s
}

// whereIs: shard and offset inside the shard of byte p of the .dat.
func whereIs(dat, l, s, p int64) (shard int, off int64) {
	nl := encLargeRows(dat, l)
	if p < nl*nData*l {
		row, within := p/(nData*l), p%(nData*l)
		return int(within / l), row*l + within%l
	}
	q := p - nl*nData*l
	row, within := q/(nData*s), q%(nData*s)
	return int(within / s), nl*l + row*s + within%s
}

// rowClass: where the size sits relative to the next large-row boundary.
func rowClass(dat, l, s int64) string {
	if dat <= 0 {
		return "empty"
	}
	rest := dat - encLargeRows(dat, l)*nData*l // in (0, 10*l]
	switch {
	case rest == nData*l:
		return "exact-large-row-multiple"
	case rest > nData*l-nData*s:
		return "last-small-rows-fill-a-large-block"
	case rest > nData*l-2*nData*s:
		return "one-small-row-short-of-a-large-block"
	}
	return "regular"
}

func datContent(n int64) []byte {
	b := make([]byte, n)
	for i := range b {
		b[i] = byte(1 + (i*7+i/251+i/64)%255) // never 0, so that padding is distinguishable
	}
	return b
}

// ---- scaled pass -------------------------------------------------------------------

type encoded struct {
	dat    []byte
	shards [][]byte
}

func encodeScaled(dir string, datSize int64) (*encoded, string, string) {
	os.RemoveAll(dir)
	os.MkdirAll(dir, 0755)
	base := filepath.Join(dir, "1")
	dat := datContent(datSize)
	if err := os.WriteFile(base+".dat", dat, 0644); err != nil {
		mc.Fatal("write dat: %v", err)
	}
	if err := ec.StorlibGenerateEcFilesV(base, bufSz, large, small); err != nil {
		return nil, "encode:error", fmt.Sprintf("generateEcFiles: %v", err)
	}
	e := &encoded{dat: dat}
	for i := 0; i < nTotal; i++ {
		b, err := os.ReadFile(base + ec.ToExt(i))
		if err != nil {
			return nil, "encode:shard-missing", fmt.Sprintf("shard %d: %v", i, err)
		}
		e.shards = append(e.shards, b)
	}
	return e, "", ""
}

// checkLayout: equal shard sizes; data shards = reference striping + zero padding.
func checkLayout(e *encoded) (class, msg string) {
	datSize := int64(len(e.dat))
	want := shardSizeOf(datSize, large, small)
	for i, s := range e.shards {
		if int64(len(s)) != want {
			return "encode:shard-size", fmt.Sprintf("shard %d has %d bytes, expected %d for a .dat of %d", i, len(s), want, datSize)
		}
	}
	ref := make([][]byte, nData)
	for i := range ref {
		ref[i] = make([]byte, want)
	}
	for p := int64(0); p < datSize; p++ {
		sh, off := whereIs(datSize, large, small, p)
		ref[sh][off] = e.dat[p]
	}
	for i := 0; i < nData; i++ {
		if !bytes.Equal(ref[i], e.shards[i]) {
			return "encode:data-shard-content", fmt.Sprintf("data shard %d differs from the striping of the .dat (size %d)", i, datSize)
		}
	}
	return "", ""
}

// readVia locates [off, off+size) the way LocateEcShardNeedle does (data size =
// 10 x shard size) and compares the bytes with the original; "" when equal.
func readVia(e *encoded, l, s int64, off, size int64) string {
	shardSize := int64(len(e.shards[0]))
	intervals := ec.LocateData(l, s, nData*shardSize, off, types.Size(size))
	pos := off
	for _, iv := range intervals {
		sh, so := iv.ToShardIdAndOffset(l, s)
		n := int64(iv.Size)
		if int(sh) >= nData || so < 0 || so+n > shardSize {
			return "beyond-shard"
		}
		if pos+n > int64(len(e.dat)) || !bytes.Equal(e.shards[sh][so:so+n], e.dat[pos:pos+n]) {
			return "wrong-bytes"
		}
		pos += n
	}
	if pos != off+size {
		return "short-read"
	}
	return ""
}

func boundarySizes() map[int64]bool {
	b := map[int64]bool{}
	add := func(x int64) {
		for d := int64(-1); d <= 1; d++ {
			if x+d >= 0 && x+d <= maxDat {
				b[x+d] = true
			}
		}
	}
	add(0)
	add(8)
	for k := int64(1); k*nData*small <= maxDat; k++ {
		// small-row multiples next to the large-row boundaries and the first ones
		x := k * nData * small
		r := x % (nData * large)
		if k <= 2 || r == 0 || r == nData*large-nData*small || r == nData*large-2*nData*small || r == nData*small {
			add(x)
		}
	}
	add(maxDat)
	return b
}

func scaledSize(r *mc.Run, dir string, datSize int64, boundary, everySubset bool) {
	cls := rowClass(datSize, large, small)
	e, vc, vm := encodeScaled(dir, datSize)
	if e == nil {
		violate(r, vc, vm, W{Phase: "scaled", Dat: datSize}, nil)
		r.Case("scaled|encode|" + cls + "|" + vc)
		return
	}
	if vc, vm = checkLayout(e); vc != "" {
		violate(r, vc+":"+cls, vm, W{Phase: "scaled", Dat: datSize}, nil)
		r.Case("scaled|layout|" + cls + "|" + vc)
		return
	}
	r.Case("scaled|layout|" + cls + "|ok")

	// reads
	allLengths := boundary
	var reads, bad int64
	outcomes := map[string]bool{}
	one := func(off, size int64) {
		reads++
		if out := readVia(e, large, small, off, size); out != "" {
			bad++
			outcomes[out] = true
			wit := W{Phase: "scaled", Dat: datSize, Off: off, Size: size}
			violate(r, "ec-read:"+cls, fmt.Sprintf(".dat of %d bytes (shards of %d): bytes [%d,%d) located from the shard size read back as %s", datSize, len(e.shards[0]), off, off+size, out), wit,
				func() bool {
					d2 := mc.TempDir("c06r")
					defer os.RemoveAll(d2)
					e2, _, _ := encodeScaled(d2, datSize)
					return e2 != nil && readVia(e2, large, small, off, size) != ""
				})
		}
	}
	for off := int64(0); off < datSize; off += 8 {
		if allLengths {
			for size := int64(1); off+size <= datSize; size++ {
				one(off, size)
			}
			continue
		}
		if !r.Quick() {
			// thorough, away from the boundaries: every record length that is a multiple of 8 (what
			// GetActualSize produces) and the read to the end of the file
			for size := int64(8); off+size < datSize; size += 8 {
				one(off, size)
			}
			one(off, datSize-off)
			continue
		}
		// quick, away from the boundaries: a few record lengths and the read to the end of the file
		for _, size := range []int64{8, 40, 72, 648} {
			if off+size < datSize {
				one(off, size)
			}
		}
		one(off, datSize-off)
	}
	r.Cases(reads)
	r.Add("located_reads", reads)
	oc := "ok"
	for o := range outcomes {
		oc = "bad"
		r.Distinct("scaled|read|" + cls + "|" + o)
	}
	r.Distinct("scaled|read|" + cls + "|" + oc)

	// rebuilds
	var subsets [][]int
	if everySubset {
		subsets = allSubsets()
	} else if r.Quick() && !boundary {
		subsets = nil
	} else {
		// a rotating representative: one single, one pair, one triple, one quadruple
		k := int(datSize)
		subsets = [][]int{{k % nTotal}, {k % nTotal, (k + 5) % nTotal}, {k % nTotal, (k + 3) % nTotal, (k + 9) % nTotal}, {k % nTotal, (k + 1) % nTotal, (k + 7) % nTotal, (k + 12) % nTotal}}
	}
	for _, miss := range subsets {
		rebuildCase(r, dir, e, datSize, miss)
	}
}

func rebuildCase(r *mc.Run, dir string, e *encoded, datSize int64, miss []int) {
	base := filepath.Join(dir, "1")
	out := rebuildOnce(base, e, miss)
	r.Case(fmt.Sprintf("scaled|rebuild|%s|missing=%d|%s", rowClass(datSize, large, small), len(miss), out.class))
	r.Add("rebuilds", 1)
	if out.class != "ok" {
		wit := W{Phase: "scaled", Dat: datSize, Missing: miss}
		violate(r, fmt.Sprintf("rebuild:%s:missing=%d", out.class, len(miss)), out.msg, wit, nil)
		// restore the shard files for the next subset
		for i, s := range e.shards {
			os.WriteFile(base+ec.ToExt(i), s, 0644)
		}
	}
}

type outcome struct{ class, msg string }

func rebuildOnce(base string, e *encoded, miss []int) outcome {
	for _, m := range miss {
		os.Remove(base + ec.ToExt(m))
	}
	ids, err := ec.StorlibGenerateMissingEcFilesV(base, bufSz, large, small)
	if err != nil {
		return outcome{"error", fmt.Sprintf("generateMissingEcFiles with shards %v missing: %v", miss, err)}
	}
	if len(ids) != len(miss) {
		return outcome{"wrong-ids", fmt.Sprintf("generated shard ids %v, missing were %v", ids, miss)}
	}
	for _, m := range miss {
		b, err := os.ReadFile(base + ec.ToExt(m))
		if err != nil || !bytes.Equal(b, e.shards[m]) {
			return outcome{"mismatch", fmt.Sprintf("shard %d regenerated from the others (missing %v) differs from the original (%d vs %d bytes, err %v)", m, miss, len(b), len(e.shards[m]), err)}
		}
	}
	return outcome{"ok", ""}
}

var subsetsOnce [][]int

func allSubsets() [][]int {
	if subsetsOnce != nil {
		return subsetsOnce
	}
	var out [][]int
	var rec func(start int, cur []int)
	rec = func(start int, cur []int) {
		if len(cur) > 0 {
			out = append(out, append([]int{}, cur...))
		}
		if len(cur) == ec.ParityShardsCount {
			return
		}
		for i := start; i < nTotal; i++ {
			rec(i+1, append(cur, i))
		}
	}
	rec(0, nil)
	// simplest first
	var ordered [][]int
	for n := 1; n <= ec.ParityShardsCount; n++ {
		for _, s := range out {
			if len(s) == n {
				ordered = append(ordered, s)
			}
		}
	}
	subsetsOnce = ordered
	return ordered
}

// ---- arithmetic pass with the real constants ------------------------------------------

// arith: around k*10 GiB the locator (fed with the shard-derived size) must agree
// with the reference striping, which the scaled pass validated against the real encoder.
func arith(r *mc.Run) {
	const L, S = int64(ec.ErasureCodingLargeBlockSize), int64(ec.ErasureCodingSmallBlockSize)
	deltas := []int64{-2*nData*S - 8, -2 * nData * S, -2*nData*S + 8, -nData*S - 8, -nData * S, -nData*S + 8, -8, 0, 8, nData * S, nData*S + 8}
	for k := int64(1); k <= 3; k++ {
		for _, d := range deltas {
			dat := k*nData*L + d
			cls := rowClass(dat, L, S)
			shard := shardSizeOf(dat, L, S)
			bad := ""
			var badOff, badSize int64
			// needles at the start, around every row boundary and at the end
			var offs []int64
			for _, o := range []int64{0, 8, L - 8, L, nData*L - 8, nData * L, k*nData*L - 8, k * nData * L, dat - 4096, dat - 64} {
				if o >= 0 && o < dat {
					offs = append(offs, o)
				}
			}
			n := int64(0)
			for _, off := range offs {
				for _, size := range []int64{8, 40, 4096, S + 8} {
					if off+size > dat {
						continue
					}
					n++
					ivs := ec.LocateData(L, S, nData*shard, off, types.Size(size))
					pos := off
					for _, iv := range ivs {
						sh, so := iv.ToShardIdAndOffset(L, S)
						wsh, wso := whereIs(dat, L, S, pos)
						if int(sh) != wsh || so != wso || so+int64(iv.Size) > shard {
							if bad == "" {
								bad = fmt.Sprintf("byte %d is in shard %d at %d, the locator says shard %d at %d", pos, wsh, wso, sh, so)
								badOff, badSize = off, size
							}
						}
						pos += int64(iv.Size)
					}
				}
			}
			r.Cases(n)
			out := "ok"
			if bad != "" {
				out = "wrong-location"
				violate(r, "locate-real-constants:"+cls, fmt.Sprintf(".dat of %d bytes (%d*10GiB%+d), shards of %d: %s", dat, k, d, shard, bad),
					W{Phase: "arith", Dat: dat, Off: badOff, Size: badSize, Large: L, Small: S}, nil)
			}
			r.Distinct("arith|" + cls + "|" + out)
		}
	}
}

func run(r *mc.Run) {
	if r.Replay != "" {
		var wit W
		if err := r.ReplayCase(&wit); err != nil {
			mc.Fatal("replay: %v", err)
		}
		dir := mc.TempDir("c06")
		defer os.RemoveAll(dir)
		switch wit.Phase {
		case "scaled":
			if len(wit.Missing) > 0 {
				e, vc, vm := encodeScaled(dir, wit.Dat)
				if e == nil {
					violate(r, vc, vm, wit, nil)
					return
				}
				rebuildCase(r, dir, e, wit.Dat, wit.Missing)
				return
			}
			scaledSize(r, dir, wit.Dat, true, false)
		case "arith":
			arith(r)
		case "real":
			realVolume(r, dir, wit.Dat)
		default:
			mc.Fatal("unknown phase %q", wit.Phase)
		}
		return
	}
	r.Assume("scaled block sizes are passed as parameters to the unexported encoder/rebuilder (hook) and to LocateData; WriteDatFile and LocateEcShardNeedle use the package constants and are driven only by the real-constants pass (volumes up to 20 MiB: their large-row branches are not executed)")
	r.Assume("the reference striping (large rows while more than one large row of data remains, then small rows, zero padded) is validated against the real encoder for every scaled size before it judges the locator at 10 GiB")
	bs := boundarySizes()
	r.Set("scaled_sizes", maxDat+1)
	r.Set("boundary_sizes_with_every_read_length", len(bs))
	r.Set("subsets_of_missing_shards", len(allSubsets()))
	// the rebuilder works shard-wise in 1 MiB chunks and never looks at block sizes: every subset of
	// missing shards is tried on a few sizes (quick) / on every second small-row multiple (thorough); a rotating
	// representative of each subset size everywhere else
	every := map[int64]bool{1: true, 640: true, maxDat: true}
	if !r.Quick() {
		// thorough: every small-row multiple and its neighbours get every read length
		for k := int64(0); k*nData*small <= maxDat; k++ {
			for d := int64(-1); d <= 1; d++ {
				if x := k*nData*small + d; x >= 0 && x <= maxDat {
					bs[x] = true
				}
			}
		}
		r.Set("boundary_sizes_with_every_read_length", len(bs))
		for k := int64(0); k*nData*small <= maxDat; k += 2 {
			every[k*nData*small] = true
		}
		every[641], every[79], every[0] = true, true, true
	}
	r.Set("sizes_with_every_subset_rebuilt", len(every))
	const shards = 48
	r.Parallel("scaled", shards, func(shard, n int) {
		if os.Getenv("VERIF_CHILD_PHASE") != "" { // performance only: one OS process per shard, small cache-warm heap
			runtime.GOMAXPROCS(1)
			debug.SetGCPercent(25)
		}
		dir := mc.TempDir("c06")
		defer os.RemoveAll(dir)
		i := 0
		// boundary sizes first (they are the expensive ones), spread over the shards
		for pass := 0; pass < 2; pass++ {
			for d := int64(0); d <= maxDat; d++ {
				if (bs[d] || every[d]) != (pass == 0) {
					continue
				}
				i++
				if i%n != shard {
					continue
				}
				if !r.Begin(W{Phase: "scaled", Dat: d}) {
					continue
				}
				scaledSize(r, dir, d, bs[d], false)
			}
		}
	})
	// every subset of missing shards on the chosen sizes, the subsets spread over the shards
	var everySizes []int64
	for d := int64(0); d <= maxDat; d++ {
		if every[d] {
			everySizes = append(everySizes, d)
		}
	}
	r.Parallel("rebuild-every-subset", 32, func(shard, n int) {
		if os.Getenv("VERIF_CHILD_PHASE") != "" {
			runtime.GOMAXPROCS(1)
			debug.SetGCPercent(25)
		}
		dir := mc.TempDir("c06")
		defer os.RemoveAll(dir)
		subs := allSubsets()
		for _, d := range everySizes {
			var e *encoded
			for i, miss := range subs {
				if i%n != shard {
					continue
				}
				if !r.Begin(W{Phase: "scaled", Dat: d, Missing: miss}) {
					continue
				}
				if e == nil {
					var vc, vm string
					if e, vc, vm = encodeScaled(dir, d); e == nil {
						violate(r, vc, vm, W{Phase: "scaled", Dat: d}, nil)
						break
					}
				}
				rebuildCase(r, dir, e, d, miss)
			}
		}
	})
	arith(r)
	reals := realSizes(r)
	r.Parallel("real", len(reals), func(shard, n int) {
		dir := mc.TempDir("c06real")
		defer os.RemoveAll(dir)
		if !r.Begin(W{Phase: "real", Dat: reals[shard]}) {
			return
		}
		realVolume(r, dir, reals[shard])
	})
	r.Sample("scaled", W{Phase: "scaled", Dat: 641, Off: 632, Size: 9, Large: large, Small: small})
	r.Sample("scaled-rebuild", W{Phase: "scaled", Dat: 1280, Missing: []int{0, 3, 10, 13}})
	r.Sample("real", W{Phase: "real", Dat: 10 << 20})
	r.Sample("arith", W{Phase: "arith", Dat: 10 << 30, Off: 0, Size: 40, Large: ec.ErasureCodingLargeBlockSize, Small: ec.ErasureCodingSmallBlockSize})
}
