// Package c01: volume blob store — read-your-writes, overwrite, delete, cookie,
// read-only guard.  Explicit-state search over histories on a real
// storage.Store (Store/Volume API part of the property; the HTTP clause is
// checked elsewhere).
package c01

import (
	"fmt"
	"os"
	"path/filepath"
	"sort"
	"strings"
	"time"

	"verif/checks/c01http"
	"verif/checks/volkit"
	"verif/mc"

	"github.com/chrislusf/seaweedfs/weed/storage"
	"github.com/chrislusf/seaweedfs/weed/storage/needle"
	"github.com/chrislusf/seaweedfs/weed/storage/types"
)

func Main() {
	mc.Main("C01", "model_checking",
		"all histories over {write(key 1|2, cookie A|B, payload empty|1B|9B|9B-other-bytes, metadata none|name+mime|full), delete(key, cookie), readonly on/off, reopen} on a real Store volume: every sequence unmerged to depth d0, then breadth-first with state merging on (reference map, read-only flag, real volume shape: per key index entry + all 4 reads + counters) to depth d1; after every event all keys are read with both cookies and compared with a reference map; both needle-map kinds",
		run)
}

// ---- alphabet ---------------------------------------------------------------------

type Event struct {
	Op      string `json:"op"` // W D RO+ RO- REOPEN REOPEN-FRESH REOPEN-REGEN
	Key     uint64 `json:"key,omitempty"`
	Cookie  int    `json:"cookie,omitempty"`  // index into cookies
	Payload int    `json:"payload,omitempty"` // 0 empty, 1 one byte, 2 nine bytes, 3 nine other bytes
	Meta    int    `json:"meta,omitempty"`    // 0 none, 1 name+mime, 2 name+mime+pairs+lastModified+compressed
}

func (e Event) String() string {
	switch e.Op {
	case "W":
		return fmt.Sprintf("W(k%d,c%c,p%d,m%d)", e.Key, 'A'+rune(e.Cookie), e.Payload, e.Meta)
	case "D":
		return fmt.Sprintf("D(k%d,c%c)", e.Key, 'A'+rune(e.Cookie))
	}
	return e.Op
}

var cookies = []uint32{0x11111111, 0x22222222}
var keys = []uint64{1, 2}

func payload(key uint64, cookie, shape int) []byte {
	switch shape {
	case 1:
		return []byte{byte('a' + int(key)*2 + cookie)}
	case 2:
		return []byte(fmt.Sprintf("k%dc%d-5678", key, cookie))
	case 3: // same length as shape 2, different content: an overwrite that only a byte comparison tells apart
		return []byte(fmt.Sprintf("k%dc%d-ALT!", key, cookie))
	}
	return []byte{}
}

func blobOf(e Event) volkit.Blob {
	b := volkit.Blob{Data: payload(e.Key, e.Cookie, e.Payload)}
	if e.Meta >= 1 {
		b.Name = fmt.Sprintf("n%d.txt", e.Key)
		b.Mime = "text/plain"
	}
	if e.Meta >= 2 {
		b.Pairs = `{"a":"b"}`
		b.LastModified = 1600000000 + e.Key
		b.Compressed = true
	}
	return b
}

func alphabet(kind storage.NeedleMapKind, payloads, metas []int) []Event {
	var evs []Event
	// simplest first: writes of small things, then deletes, then mode changes
	for _, p := range payloads {
		for _, m := range metas {
			for _, k := range keys {
				for c := range cookies {
					evs = append(evs, Event{Op: "W", Key: k, Cookie: c, Payload: p, Meta: m})
				}
			}
		}
	}
	for _, k := range keys {
		for c := range cookies {
			evs = append(evs, Event{Op: "D", Key: k, Cookie: c})
		}
	}
	if kind == storage.NeedleMapInMemory {
		evs = append(evs, Event{Op: "REOPEN"})
	} else {
		evs = append(evs, Event{Op: "REOPEN-REGEN"}, Event{Op: "REOPEN-FRESH"})
	}
	evs = append(evs, Event{Op: "RO+"}, Event{Op: "RO-"})
	return evs
}

// ---- system -----------------------------------------------------------------------

type refEntry struct {
	state  int // 0 absent, 1 live, 2 deleted
	cookie int
	blob   volkit.Blob
	shape  int // payload shape of the live/deleted blob
	meta   int
}

type sys struct {
	env *volkit.Env
	vid needle.VolumeId
	ref map[uint64]*refEntry
	ro  bool
	// outcome of the last event, for case classes
	lastOutcome string
	// deviations between real volume and reference present before the current event
	before map[string]disc
}

// batched: every write asks for fsync on a store that is stopping, which is the
// one combination that takes Volume.writeNeedle2's asyncRequest path (worker
// goroutine, doWriteRequest without syncWrite).  Set by search/replay before
// any sys is built.
var batched bool

func newSys(kind storage.NeedleMapKind) *sys {
	return &sys{env: volkit.NewEnv("c01", kind)}
}

func (s *sys) reset() {
	if s.vid != 0 {
		s.env.Drop(s.vid)
	}
	s.vid = s.env.NewVolume("")
	s.ref = map[uint64]*refEntry{}
	for _, k := range keys {
		s.ref[k] = &refEntry{}
	}
	s.ro = false
	s.before = map[string]disc{}
}

func (s *sys) close() {
	if s.vid != 0 {
		s.env.Drop(s.vid)
		s.vid = 0
	}
	s.env.Close()
}

type viol struct {
	class string
	msg   string
	fatal bool // the history cannot be continued (volume gone)
}

var old = time.Date(2000, 1, 1, 0, 0, 0, 0, time.UTC)

// apply executes one event on the real volume and the reference model; with
// check it then reads all keys with both cookies and compares.
func (s *sys) apply(e Event, check bool) []viol {
	st := s.env.Store
	var direct []viol
	switch e.Op {
	case "W":
		b := blobOf(e)
		write := s.env.Write
		if batched {
			write = s.env.WriteBatched
		}
		unchanged, err := write(s.vid, e.Key, cookies[e.Cookie], b)
		r := s.ref[e.Key]
		switch {
		case err != nil:
			s.lastOutcome = "rejected"
			if s.ro {
				s.lastOutcome = "rejected-readonly"
			} else if r.state != 0 && r.cookie != e.Cookie {
				s.lastOutcome = "rejected-cookie"
			}
		case s.ro:
			direct = append(direct, viol{class: "write-accepted-on-readonly-volume", msg: fmt.Sprintf("%v returned nil error on a read-only volume", e)})
			*r = refEntry{state: 1, cookie: e.Cookie, blob: b, shape: e.Payload, meta: e.Meta}
		case unchanged:
			s.lastOutcome = "unchanged"
			if r.state != 1 || r.cookie != e.Cookie || string(r.blob.Data) != string(b.Data) {
				direct = append(direct, viol{class: "unchanged-reported-for-different-content", msg: fmt.Sprintf("%v answered isUnchanged but the last successful write of the key differs (state %d)", e, r.state)})
			}
			// "unchanged" (HTTP 304) is not a new write: the earlier write stands
		default:
			s.lastOutcome = "written"
			if r.state != 0 && r.cookie != e.Cookie {
				s.lastOutcome = "written-over-other-cookie"
			}
			*r = refEntry{state: 1, cookie: e.Cookie, blob: b, shape: e.Payload, meta: e.Meta}
		}
	case "D":
		out, _ := s.env.DeleteLikeHandler(s.vid, e.Key, cookies[e.Cookie])
		s.lastOutcome = out
		if strings.HasPrefix(out, "error") {
			s.lastOutcome = "rejected"
		}
		r := s.ref[e.Key]
		if out == "ok" {
			if r.state == 1 && r.cookie != e.Cookie {
				// a delete presenting another cookie went through to the store; the
				// cookie clause says nothing may have been removed: keep the reference
				s.lastOutcome = "ok-with-wrong-cookie"
			} else {
				r.state = 2
			}
		}
	case "RO+":
		if err := st.MarkVolumeReadonly(s.vid); err != nil {
			mc.Fatal("MarkVolumeReadonly: %v", err)
		}
		s.ro = true
		s.lastOutcome = "ok"
	case "RO-":
		if err := st.MarkVolumeWritable(s.vid); err != nil {
			mc.Fatal("MarkVolumeWritable: %v", err)
		}
		s.ro = false
		s.lastOutcome = "ok"
	case "REOPEN", "REOPEN-REGEN", "REOPEN-FRESH":
		s.env.Unload(s.vid)
		base := s.env.Base(s.vid)
		switch e.Op {
		case "REOPEN-REGEN": // the leveldb directory is older than the index: it is regenerated from the index
			os.Chtimes(filepath.Join(base+".ldb", "LOG"), old, old)
		case "REOPEN-FRESH": // the leveldb directory is newer than the index: it is used as it is
			os.Chtimes(base+".idx", old, old)
		}
		if err := s.env.Load(s.vid); err != nil {
			return []viol{{class: evKind(e, s.env.Kind) + ":reopen-fails", msg: fmt.Sprintf("%v: %v", e, err), fatal: true}}
		}
		// the read-only mark is not persistent: a reopened volume is writable again
		s.ro = false
		s.lastOutcome = "ok"
	default:
		mc.Fatal("unknown op %q", e.Op)
	}
	if !check {
		return direct
	}
	return append(direct, s.checkReads(e)...)
}

func shapeName(p int) string {
	if p == 0 {
		return "empty-blob"
	}
	return "nonempty-blob"
}

func evKind(e Event, kind storage.NeedleMapKind) string {
	switch e.Op {
	case "W":
		return "write"
	case "D":
		return "delete"
	case "REOPEN":
		return "reopen-memory"
	case "REOPEN-REGEN":
		return "reopen-leveldb-regenerated"
	case "REOPEN-FRESH":
		return "reopen-leveldb-fresh"
	}
	return "readonly-switch"
}

// discrepancies reads every key with both cookies and compares with the
// reference.  It returns the set of deviations, keyed by (key, cookie, symptom);
// a transition is charged only with the deviations it introduces.
type disc struct {
	symptom string
	shape   int
	key     uint64
	msg     string
}

func (s *sys) discrepancies() map[string]disc {
	out := map[string]disc{}
	add := func(k uint64, c int, shape int, symptom, msg string) {
		out[fmt.Sprintf("k%d|c%d|%s", k, c, symptom)] = disc{symptom: symptom, shape: shape, key: k, msg: msg}
	}
	for _, k := range keys {
		r := s.ref[k]
		for c := range cookies {
			got, _ := s.env.Read(s.vid, k, cookies[c])
			where := fmt.Sprintf("read(k%d,c%c)", k, 'A'+rune(c))
			switch r.state {
			case 0:
				if got.Err == "" {
					add(k, c, r.shape, "never-written-key-readable", fmt.Sprintf("%s returned %+v for a key never written", where, got))
				}
			case 2:
				if got.Err == "" && got.Cookie == cookies[c] {
					add(k, c, r.shape, "deleted-still-readable", fmt.Sprintf("%s returned %+v although the last successful operation on the key was a delete", where, got))
				}
			case 1:
				if c != r.cookie {
					// a read presenting another cookie must not return data: either an error
					// or a stored cookie that makes the caller's comparison fail
					if got.Err == "" && got.Cookie == cookies[c] {
						add(k, c, r.shape, "wrong-cookie-read-returns-blob", fmt.Sprintf("%s (stored cookie %c) passed the cookie comparison and returned %+v", where, 'A'+rune(r.cookie), got))
					}
					continue
				}
				if got.Err != "" {
					add(k, c, r.shape, errShort(got.Err), fmt.Sprintf("%s = %s, want the blob of the last successful write", where, got.Err))
					continue
				}
				if got.Cookie != cookies[c] {
					add(k, c, r.shape, "stored-cookie-differs", fmt.Sprintf("%s returned cookie %x", where, got.Cookie))
				}
				if got.Data != string(r.blob.Data) {
					add(k, c, r.shape, "data-differs", fmt.Sprintf("%s data %q want %q", where, got.Data, r.blob.Data))
				}
				var lost []string
				if got.Name != r.blob.Name {
					lost = append(lost, "name")
				}
				if got.Mime != r.blob.Mime {
					lost = append(lost, "mime")
				}
				if got.Pairs != r.blob.Pairs {
					lost = append(lost, "pairs")
				}
				if got.LastModified != r.blob.LastModified {
					lost = append(lost, "lastmodified")
				}
				if got.Compressed != r.blob.Compressed {
					lost = append(lost, "compressed")
				}
				if len(lost) > 0 {
					add(k, c, r.shape, "metadata-differs", fmt.Sprintf("%s metadata %v differ: got %+v want %+v", where, lost, got, r.blob))
				}
			}
		}
	}
	return out
}

// checkReads charges the event with the deviations that were not there before
// it.  The class of a failure is computed from the failing read's own
// features: <event kind>:<blob shape of the key>:[other-key-]<symptom>.
func (s *sys) checkReads(e Event) []viol {
	now := s.discrepancies()
	var ids []string
	for id := range now {
		if _, was := s.before[id]; !was {
			ids = append(ids, id)
		}
	}
	sort.Strings(ids)
	var out []viol
	seen := map[string]bool{}
	for _, id := range ids {
		d := now[id]
		touched := ""
		if (e.Op == "W" || e.Op == "D") && e.Key != d.key {
			touched = "other-key-"
		}
		class := evKind(e, s.env.Kind) + ":" + shapeName(d.shape) + ":" + touched + d.symptom
		if seen[class] {
			continue
		}
		seen[class] = true
		out = append(out, viol{class: class, msg: fmt.Sprintf("after %v: %s", e, d.msg)})
	}
	s.before = now
	return out
}

// errShort names how a blob that should be readable fails to read: "lost"
// (not found / deleted) or "read-error" (anything else, e.g. a CRC error).
func errShort(e string) string {
	if strings.HasPrefix(e, "error") {
		return "read-error"
	}
	return "lost"
}

// canon is the canonical state: reference map, read-only flag and the shape of
// the real volume read back through its API.
func (s *sys) canon() string {
	var sb strings.Builder
	v := s.env.Store.GetVolume(s.vid)
	fmt.Fprintf(&sb, "ro=%v/%v;", s.ro, v.IsReadOnly())
	fmt.Fprintf(&sb, "cnt=%d,%d,%d,%d,%d;", v.FileCount(), v.DeletedCount(), v.ContentSize(), v.DeletedSize(), v.MaxFileKey())
	for _, k := range keys {
		r := s.ref[k]
		fmt.Fprintf(&sb, "k%d:ref=%d,%d,%d,%d;", k, r.state, r.cookie, r.shape, r.meta)
		_, size, ok := v.VolumeGroupNeedleEntryV(types.NeedleId(k))
		fmt.Fprintf(&sb, "nm=%v,%d;", ok, size)
		for c := range cookies {
			got, _ := s.env.Read(s.vid, k, cookies[c])
			fmt.Fprintf(&sb, "r%d=%s|%x|%s|%s|%s|%s|%d|%v;", c, got.Err, got.Cookie, got.Data, got.Name, got.Mime, got.Pairs, got.LastModified, got.Compressed)
		}
		// what a reader of deleted entries would see (stored cookie and size of a tombstoned blob)
		n := &needle.Needle{Id: types.NeedleId(k)}
		cnt, err := s.env.Store.ReadVolumeNeedle(s.vid, n, &storage.ReadOption{ReadDeleted: true})
		fmt.Fprintf(&sb, "rd=%d,%s,%x;", cnt, volkit.ErrClass(err), n.Cookie)
	}
	return sb.String()
}

// ---- search -----------------------------------------------------------------------

type witness struct {
	Kind string  `json:"needle_map"`
	Path []Event `json:"path"`
}

func kindName(k storage.NeedleMapKind) string {
	if k == storage.NeedleMapInMemory {
		return "memory"
	}
	return "leveldb"
}

func kindOf(s string) storage.NeedleMapKind {
	if strings.HasSuffix(s, "-batched") {
		batched = true
		s = strings.TrimSuffix(s, "-batched")
	}
	if s == "memory" {
		return storage.NeedleMapInMemory
	}
	return storage.NeedleMapLevelDb
}

// runPath replays a path on a fresh volume checking after every event; it
// returns the violations charged to each event.
func runPath(s *sys, path []Event) [][]viol {
	s.reset()
	out := make([][]viol, len(path))
	for i, e := range path {
		out[i] = s.apply(e, true)
		for _, v := range out[i] {
			if v.fatal {
				return out
			}
		}
	}
	return out
}

func hasClass(vs []viol, class string) bool {
	for _, v := range vs {
		if v.class == class {
			return true
		}
	}
	return false
}

type pool struct {
	ch chan *sys
}

func newPool(kind storage.NeedleMapKind, n int) *pool {
	p := &pool{ch: make(chan *sys, n)}
	for i := 0; i < n; i++ {
		p.ch <- newSys(kind)
	}
	return p
}
func (p *pool) get() *sys  { return <-p.ch }
func (p *pool) put(s *sys) { p.ch <- s }
func (p *pool) close() {
	close(p.ch)
	for s := range p.ch {
		s.close()
	}
}

type succ struct {
	ev      int
	canon   string
	vs      []viol
	fatal   bool
	outcome string
}

// search: every event sequence of length <= d0 is executed (no merging below
// d0), from depth d0 on only states with a new Canon are expanded, up to depth
// d1.  Levels deeper than softDepth are started only while the search has used
// less than softBudget (a whole level is then left out and reported).
func search(r *mc.Run, label string, kind storage.NeedleMapKind, payloads, metas []int, d0, d1, softDepth int, softBudget time.Duration) {
	evs := alphabet(kind, payloads, metas)
	const workers = 16
	p := newPool(kind, workers)
	defer p.close()
	batched = strings.HasSuffix(label, "-batched")
	defer func() { batched = false }()
	kn := kindName(kind) // in witnesses and case classes
	if batched {
		kn += "-batched"
	}
	t0 := time.Now()

	seen := map[string]struct{}{}
	{
		s := p.get()
		s.reset()
		seen[s.canon()] = struct{}{}
		p.put(s)
	}
	r.AddStates(1)
	frontier := [][]uint8{{}}
	perClass := map[string]int{}
	maxDepth := 0
	for depth := 0; depth < d1 && len(frontier) > 0; depth++ {
		if r.Expired() || (depth >= softDepth && time.Since(t0) > softBudget) {
			r.NotExhaustive(fmt.Sprintf("%s: wall-clock budget reached before depth %d (complete to depth %d)", kn, depth+1, depth))
			break
		}
		results := make([][]succ, len(frontier))
		r.Go(len(frontier), workers, func(i int) {
			s := p.get()
			defer p.put(s)
			path := frontier[i]
			out := make([]succ, 0, len(evs))
			for ei, e := range evs {
				s.reset()
				for _, pe := range path {
					s.apply(evs[pe], false)
				}
				if (e.Op == "RO+" && s.ro) || (e.Op == "RO-" && !s.ro) {
					continue // not enabled
				}
				s.before = s.discrepancies()
				vs := s.apply(e, true)
				sc := succ{ev: ei, vs: vs, outcome: s.lastOutcome}
				for _, v := range vs {
					sc.fatal = sc.fatal || v.fatal
				}
				if !sc.fatal {
					sc.canon = s.canon()
				}
				out = append(out, sc)
			}
			results[i] = out
		})
		var next [][]uint8
		var trans, newStates int64
		for i, out := range results {
			for _, sc := range out {
				trans++
				e := evs[sc.ev]
				np := append(append(make([]uint8, 0, len(frontier[i])+1), frontier[i]...), uint8(sc.ev))
				cls := kn + "|" + e.Op + "|" + sc.outcome
				if e.Op == "W" {
					cls += fmt.Sprintf("|p%d|m%d", e.Payload, e.Meta)
				}
				for _, v := range sc.vs {
					cls += "|!" + v.class
				}
				r.Case(cls)
				for _, v := range sc.vs {
					full := make([]Event, len(np))
					for j, x := range np {
						full[j] = evs[x]
					}
					w := witness{Kind: kn, Path: full}
					perClass[v.class]++
					var recheck func() bool
					if perClass[v.class] <= 2 {
						cl := v.class
						recheck = func() bool {
							s := p.get()
							defer p.put(s)
							res := runPath(s, full)
							return hasClass(res[len(full)-1], cl)
						}
					}
					r.Violate(v.class, v.msg, w, recheck)
				}
				if sc.fatal {
					continue
				}
				// a transition that introduced a deviation is not a dead end: the
				// search goes on from the deviating state (the deviation is part of Canon
				// through the reads) and charges later events only with new deviations
				_, known := seen[sc.canon]
				if !known {
					seen[sc.canon] = struct{}{}
					newStates++
				}
				if depth+1 < d0 || !known {
					next = append(next, np)
				}
			}
		}
		r.AddTransitions(trans)
		r.AddStates(newStates)
		frontier = next
		maxDepth = depth + 1
		r.Set(label+"_frontier_at_depth_"+fmt.Sprint(depth+1), len(next))
	}
	r.Set(label+"_search_wall_s", int(time.Since(t0).Seconds()))
	r.Set(label+"_depth_reached", maxDepth)
	r.Set(label+"_unmerged_depth", d0)
	r.Set(label+"_alphabet", len(evs))
	var cl []string
	for c, n := range perClass {
		cl = append(cl, fmt.Sprintf("%s x%d", c, n))
	}
	sort.Strings(cl)
	r.Set(label+"_violating_transitions_by_class", cl)
}

func run(r *mc.Run) {
	volkit.Quiet()
	volkit.PaceGC(1024)
	if r.Replay != "" {
		if c01http.IsWitness(r) {
			c01http.Replay(r)
			return
		}
		var w witness
		if err := r.ReplayCase(&w); err != nil {
			mc.Fatal("replay: %v", err)
		}
		s := newSys(kindOf(w.Kind))
		defer s.close()
		res := runPath(s, w.Path)
		r.Case("replay")
		for at, vs := range res {
			for _, v := range vs {
				r.Violate(v.class, fmt.Sprintf("at event %d: %s", at, v.msg), w, nil)
			}
		}
		return
	}
	// the HTTP face of the cookie clause: real volume-server handlers (own Parallel phase)
	c01http.Run(r)
	r.Assume("the cookie presented by a reader/deleter is compared by the caller with the cookie Store.ReadVolumeNeedle fills in, exactly as GetOrHeadHandler/DeleteHandler do; the Store API itself takes no cookie on read")
	r.Assume("a write answered isUnchanged (HTTP 304) is not counted as a new successful write: the metadata of the earlier write stands; the harness only demands that such an answer is given for identical cookie and data")
	r.Assume("AppendAtNs and absolute offsets are not observed")
	if r.Quick() {
		search(r, "memory", storage.NeedleMapInMemory, []int{2, 0}, []int{0, 2}, 2, 3, 99, 0)
		search(r, "leveldb", storage.NeedleMapLevelDb, []int{2, 0}, []int{0, 2}, 1, 2, 99, 0)
		// overwrites of equal length and equal cookie with different bytes (isFileUnchanged must compare content)
		search(r, "memory-samelen", storage.NeedleMapInMemory, []int{2, 3}, []int{0}, 2, 3, 99, 0)
		// the batched write path (fsync requested while the store is stopping)
		search(r, "memory-batched", storage.NeedleMapInMemory, []int{2, 0}, []int{0}, 2, 3, 99, 0)
	} else {
		// the quick search one level deeper, then the full alphabet at the quick depth
		search(r, "memory", storage.NeedleMapInMemory, []int{2, 0}, []int{0, 2}, 2, 4, 99, 0)
		search(r, "memory-full-alphabet", storage.NeedleMapInMemory, []int{1, 0, 2}, []int{0, 1, 2}, 2, 3, 99, 0)
		search(r, "leveldb", storage.NeedleMapLevelDb, []int{2, 0}, []int{0, 2}, 2, 3, 99, 0)
		search(r, "memory-samelen", storage.NeedleMapInMemory, []int{2, 3}, []int{0, 2}, 2, 4, 99, 0)
		search(r, "leveldb-samelen", storage.NeedleMapLevelDb, []int{2, 3}, []int{0}, 2, 3, 99, 0)
		search(r, "memory-batched", storage.NeedleMapInMemory, []int{2, 0, 3}, []int{0, 2}, 2, 3, 99, 0)
	}
	r.Sample("history", witness{Kind: "memory", Path: []Event{{Op: "W", Key: 1, Cookie: 0, Payload: 2, Meta: 2}, {Op: "D", Key: 1, Cookie: 1}, {Op: "REOPEN"}}})
}
