package c11

import (
	"runtime/debug"

	"verif/mc"
)

const ruleC11 = "explicit-state BFS (replay-from-initial, unmerged prefix then merging on model+real-layout state) over the real MasterServer.SendHeartbeat body; 3 volume servers in 2 racks, volume 1 (replication 000) and volume 2 (replication 001), EC volume 7; events per server: every full heartbeat over {absent, writable, read-only, at-size-limit, read-only-at-limit} per volume, incremental new/deleted (incl. duplicate and stale ones), full and incremental EC heartbeats, stream end, reconnect, overlapping reconnect + late end of the old stream, plus the master's periodic full-volume collection round; both replicationAsMin settings; empty and populated start states; distinct = (asMin, event kind, outcome)"

const ruleC12 = "explicit-state BFS (replay-from-initial, unmerged prefix then merging on registered state + every usage counter) over the real MasterServer.SendHeartbeat body; 3 volume servers in 2 racks / 2 data centers, one with hdd+ssd; volumes {1,2,3} plain or remote-tiered, EC volumes {7,8} with shard masks {0x1,0x3,0x6}; events per server: every full heartbeat, incremental new/deleted (incl. duplicate and stale ones), full EC heartbeats touching one or both EC volumes, incremental EC shard messages, max-volume-count changes for one or both disk types, stream end, reconnect; distinct = (event kind, outcome)"

func MainC11() { mc.Main("C11", "model_checking", ruleC11, func(r *mc.Run) { run(r, "C11") }) }
func MainC12() { mc.Main("C12", "model_checking", ruleC12, func(r *mc.Run) { run(r, "C12") }) }

// Main is C11 (package name).
func Main() { MainC11() }

func hdd(n uint32) []map[string]uint32 { return []map[string]uint32{{"": n}} }

// profileC11: alphabet for the writable-set / lookup property.
func profileC11(thorough bool) *profile {
	p := &profile{
		Name: "c11",
		Servers: []srvSpec{
			{Name: "A", Ip: "10.0.0.1", Port: 8080, DC: "dc1", Rack: "r1", Disks: []string{""}, Vols: []uint32{1, 2}, Ecs: []uint32{7}, MaxMenu: hdd(4)},
			{Name: "B", Ip: "10.0.0.2", Port: 8080, DC: "dc1", Rack: "r1", Disks: []string{""}, Vols: []uint32{1, 2}, MaxMenu: hdd(4)},
			{Name: "C", Ip: "10.0.0.3", Port: 8080, DC: "dc1", Rack: "r2", Disks: []string{""}, Vols: []uint32{2}, Ecs: []uint32{7}, MaxMenu: hdd(4)},
		},
		Vols:      map[uint32]volSpec{1: {Id: 1, Rp: 0}, 2: {Id: 2, Rp: 1}},
		EcDisk:    map[uint32]string{7: ""},
		VolStates: []volState{{}, {RO: true}, {Big: true}},
		EcMasks:   []uint32{0x1},
		EcBits:    []uint32{0x1},
		Refresh:   true,
	}
	p.Overlap = true
	if thorough {
		p.Name = "c11T"
		p.VolStates = append(p.VolStates, volState{RO: true, Big: true})
	}
	return p
}

// profileC12: alphabet for the capacity-accounting property.
func profileC12(thorough bool) *profile {
	two := []map[string]uint32{{"": 2, "ssd": 1}, {"": 3, "ssd": 1}, {"": 2, "ssd": 2}, {"": 3, "ssd": 2}}
	one := []map[string]uint32{{"": 2}, {"": 3}}
	p := &profile{
		Name: "c12",
		Servers: []srvSpec{
			{Name: "A", Ip: "10.0.0.1", Port: 8080, DC: "dc1", Rack: "r1", Disks: []string{"", "ssd"}, Vols: []uint32{1, 3}, Ecs: []uint32{7, 8}, MaxMenu: two},
			{Name: "B", Ip: "10.0.0.2", Port: 8080, DC: "dc1", Rack: "r1", Disks: []string{""}, Vols: []uint32{1, 2}, Ecs: []uint32{7}, MaxMenu: one},
			{Name: "C", Ip: "10.0.0.3", Port: 8080, DC: "dc2", Rack: "r2", Disks: []string{""}, Vols: []uint32{2}, Ecs: []uint32{8}, MaxMenu: one},
		},
		Vols:      map[uint32]volSpec{1: {Id: 1, Rp: 0}, 2: {Id: 2, Rp: 1}, 3: {Id: 3, Rp: 0, Disk: "ssd"}},
		EcDisk:    map[uint32]string{7: "", 8: ""},
		VolStates: []volState{{}, {Remote: true}},
		EcMasks:   []uint32{0x1, 0x3, 0x6},
		EcBits:    []uint32{0x1, 0x2},
	}
	if thorough {
		p.Name = "c12T"
		p.EcBits = append(p.EcBits, 0x4)
	}
	return p
}

func mustPath(x *explorer, names ...string) []uint16 {
	var out []uint16
	for _, n := range names {
		i, ok := x.index[n]
		if !ok {
			mc.Fatal("seed event %q not in alphabet of %s", n, x.p.Name)
		}
		out = append(out, uint16(i))
	}
	return out
}

func run(r *mc.Run, prop string) {
	r.Assume("message-level histories: the first message of a stream is a full volume heartbeat carrying the server identity and max counts (as volume_grpc_client_to_master.go does); every later message is exactly one of: full volume heartbeat, one incremental new/deleted volume, full EC heartbeat, one incremental EC shard message")
	r.Assume("incremental messages may be stale or duplicate: the volume server queues them in NewVolumesChan/DeletedVolumesChan/NewEcShardsChan/DeletedEcShardsChan of the Store (they survive a reconnect) and its select loop may send a periodic full heartbeat that already reflects the change before the queued delta")
	r.Assume("a volume keeps its replica placement, collection, ttl and disk type for its whole life; normal and EC volume ids are disjoint")
	r.Assume("the fake raft server always names a leader; the sequencer is the in-memory one")
	if r.Replay != "" {
		var w witness
		if err := r.ReplayCase(&w); err != nil {
			mc.Fatal("replay: %v", err)
		}
		var p *profile
		switch w.Profile {
		case "c11":
			p = profileC11(false)
		case "c11T":
			p = profileC11(true)
		case "c12":
			p = profileC12(false)
		case "c12T":
			p = profileC12(true)
		default:
			mc.Fatal("replay: unknown profile %q", w.Profile)
		}
		x := newExplorer(r, prop, p, w.AsMin)
		x.replay(w)
		return
	}
	thorough := r.Thorough()
	debug.SetGCPercent(400)
	if prop == "C11" {
		// quick: base alphabet, depth 3 from three start states.  thorough: the same to depth 4,
		// plus the extended alphabet (read-only-at-limit volumes) to depth 3.
		type pass struct {
			p     *profile
			depth int
		}
		passes := []pass{{profileC11(false), r.Pick(3, 4)}}
		if thorough {
			passes = append(passes, pass{profileC11(true), 3})
		}
		for _, ps := range passes {
			for _, asMin := range []bool{false, true} {
				x := newExplorer(r, prop, ps.p, asMin)
				x.explore("empty", nil, 2, ps.depth)
				// populated start: both volumes offered with the right number of replicas, EC shards on A and C
				seed := mustPath(x, "A:full{1w,2w}", "B:full{2w}", "C:full{}", "A:ecfull{7:0x1}", "C:ecfull{7:0x1}")
				x.explore("populated", seed, 1, ps.depth)
				// degraded start: volume 1 over-replicated with a read-only copy, volume 2 on all three
				// servers with one copy that grew to the limit and was collected
				seed = mustPath(x, "A:full{1r,2w}", "B:full{1w,2w}", "C:full{2w}", "B:full{1w,2W}", "refresh")
				x.explore("degraded", seed, 1, ps.depth)
				x.flushNotes()
			}
		}
		return
	}
	p := profileC12(thorough)
	for _, asMin := range []bool{false, true} {
		x := newExplorer(r, prop, p, asMin)
		d := r.Pick(3, 4)
		if asMin {
			d-- // the setting cannot influence the counters; a shallower pass only confirms that
		}
		x.explore("empty", nil, 2, d)
		if !asMin {
			seed := mustPath(x, "A:full{1w,3w}", "B:full{1w,2w*}", "C:full{2w}", "A:ecfull{7:0x1,8:0x3}", "B:ecfull{7:0x6}")
			x.explore("populated", seed, 1, r.Pick(2, 3))
		}
		x.flushNotes()
	}
}
