// Package c11 holds ONE explicit-state system used by two checks:
//
//	C11  writable set + lookups reflect the registered state
//	C12  capacity counters equal the recomputation from what is registered
//
// The system is the master's topology driven through the REAL body of
// MasterServer.SendHeartbeat: every modelled volume server owns an in-memory
// stream (fakeStream) whose Recv hands the handler one scripted Heartbeat at a
// time, so that the order SetMax -> AdjustMaxVolumeCounts -> incremental -> full
// -> EC incremental -> EC full -> (on stream end) UnRegisterDataNode is the real
// one.  The periodic full/crowded collection is one more event (refresh).
package c11

import (
	"context"
	"fmt"
	"io"
	"iter"
	"os"
	"sort"
	"strings"
	"sync"

	"github.com/chrislusf/raft"
	"google.golang.org/grpc/metadata"

	"github.com/chrislusf/seaweedfs/weed/pb/master_pb"
	"github.com/chrislusf/seaweedfs/weed/sequence"
	weed_server "github.com/chrislusf/seaweedfs/weed/server"
	"github.com/chrislusf/seaweedfs/weed/storage/needle"
	"github.com/chrislusf/seaweedfs/weed/topology"
	flag "github.com/chrislusf/seaweedfs/weed/util/fla9"

	"verif/mc"
)

const (
	sizeLimitMB = 1
	sizeLimit   = uint64(sizeLimitMB) * 1024 * 1024
	sizeSmall   = sizeLimit - 1 // just below the limit
	sizeBig     = sizeLimit     // exactly the limit: "uint64(v.Size) >= volumeSizeLimit" is oversized
)

var quietOnce sync.Once

// quiet silences glog: V(0) lines off, everything else to a discarded stderr.
func quiet() {
	quietOnce.Do(func() {
		if err := flag.Set("v", "-1"); err != nil {
			mc.Fatal("cannot set glog -v: %v", err)
		}
		if err := flag.Set("logtostderr", "true"); err != nil {
			mc.Fatal("cannot set glog -logtostderr: %v", err)
		}
		if f, err := os.OpenFile(os.DevNull, os.O_WRONLY, 0); err == nil {
			os.Stderr = f
		}
	})
}

// ---------------------------------------------------------------------------
// fake raft server: SendHeartbeat only asks for the leader.

type fakeRaft struct{ raft.Server }

func (fakeRaft) Leader() string { return "master:9333" }
func (fakeRaft) Name() string   { return "master:9333" }
func (fakeRaft) State() string  { return raft.Leader }

// ---------------------------------------------------------------------------
// in-memory heartbeat stream

// The handler runs as a coroutine (iter.Pull): Recv yields to the driver and is
// resumed with the next heartbeat, so driver and handler alternate strictly and
// without going through the scheduler.
type fakeStream struct {
	hb     *master_pb.Heartbeat // next heartbeat to hand to the handler
	closed bool                 // the stream has ended: Recv returns io.EOF
	yield  func(struct{}) bool
	next   func() (struct{}, bool)
	stop   func()
}

func (f *fakeStream) Recv() (*master_pb.Heartbeat, error) {
	if !f.yield(struct{}{}) || f.closed {
		return nil, io.EOF
	}
	hb := f.hb
	f.hb = nil
	return hb, nil
}
func (f *fakeStream) Send(*master_pb.HeartbeatResponse) error { return nil }
func (f *fakeStream) SetHeader(metadata.MD) error             { return nil }
func (f *fakeStream) SendHeader(metadata.MD) error            { return nil }
func (f *fakeStream) SetTrailer(metadata.MD)                  {}
func (f *fakeStream) Context() context.Context                { return context.Background() }
func (f *fakeStream) SendMsg(m interface{}) error             { return nil }
func (f *fakeStream) RecvMsg(m interface{}) error             { return io.EOF }

// ---------------------------------------------------------------------------
// static description of the modelled cluster

type srvSpec struct {
	Name  string
	Ip    string
	Port  int
	DC    string
	Rack  string
	Disks []string // disk types the server has ("" = hdd)
	Vols  []uint32 // volumes this server may hold
	Ecs   []uint32 // EC volumes this server may hold shards of
	// MaxMenu: absolute max-volume-count maps the server may report; [0] is what it
	// reports when it connects.
	MaxMenu []map[string]uint32
}

func (s *srvSpec) id() string { return fmt.Sprintf("%s:%d", s.Ip, s.Port) }

type volSpec struct {
	Id   uint32
	Rp   byte   // replica placement byte (0 = 000, 1 = 001 ...)
	Disk string // "" or "ssd"
}

// volState is what a full heartbeat says about one volume.
type volState struct {
	RO     bool
	Big    bool
	Remote bool
}

func (v volState) code() string {
	c := "w"
	switch {
	case v.RO && v.Big:
		c = "R"
	case v.RO:
		c = "r"
	case v.Big:
		c = "W"
	}
	if v.Remote {
		c += "*"
	}
	return c
}

type profile struct {
	Name      string
	Servers   []srvSpec
	Vols      map[uint32]volSpec
	EcDisk    map[uint32]string
	VolStates []volState // what a present volume may look like in a full heartbeat
	EcMasks   []uint32   // non-zero shard masks a full EC heartbeat may carry per EC volume
	EcBits    []uint32   // single-shard masks of incremental EC messages
	Refresh   bool       // the periodic full/crowded collection is an event
	Overlap   bool       // a server may open a second stream before the first one ended
}

// ---------------------------------------------------------------------------
// events

type volMsg struct {
	Id uint32
	St volState
}
type ecMsg struct {
	Id   uint32
	Bits uint32
}

// event kinds
const (
	kFull     = "full"     // full volume heartbeat (first message of a stream: connects)
	kNew      = "new"      // incremental: NewVolumes=[vid]
	kDel      = "del"      // incremental: DeletedVolumes=[vid]
	kEcFull   = "ecfull"   // full EC heartbeat
	kEcNew    = "ecnew"    // incremental: NewEcShards=[vid,bit]
	kEcDel    = "ecdel"    // incremental: DeletedEcShards=[vid,bit]
	kMax      = "max"      // full heartbeat repeating the registered volumes with another max count
	kDisc     = "disc"     // the (only) stream of the server ends
	kRefresh  = "refresh"  // one round of CollectDeadNodeAndFullVolumes + its consumer
	kOverlap  = "reopen"   // the server opens a NEW stream (restart) while the master still holds the old one; first message repeats what is registered
	kOldClose = "oldclose" // the master finally notices that the OLD stream of that server ended
)

type event struct {
	S    int // server index, -1 for global events
	K    string
	Vols []volMsg          // kFull
	Vid  uint32            // kNew kDel kEcNew kEcDel
	Bits uint32            // kEcNew kEcDel
	Ecs  []ecMsg           // kEcFull
	Max  map[string]uint32 // kMax
	name string
}

func (p *profile) evName(e *event) string {
	if e.S < 0 {
		return e.K
	}
	s := p.Servers[e.S].Name + ":" + e.K
	switch e.K {
	case kFull:
		var parts []string
		for _, v := range e.Vols {
			parts = append(parts, fmt.Sprintf("%d%s", v.Id, v.St.code()))
		}
		s += "{" + strings.Join(parts, ",") + "}"
	case kNew, kDel:
		s += fmt.Sprintf("(%d)", e.Vid)
	case kEcNew, kEcDel:
		s += fmt.Sprintf("(%d,0x%x)", e.Vid, e.Bits)
	case kEcFull:
		var parts []string
		for _, v := range e.Ecs {
			parts = append(parts, fmt.Sprintf("%d:0x%x", v.Id, v.Bits))
		}
		s += "{" + strings.Join(parts, ",") + "}"
	case kMax:
		s += "{" + maxStr(e.Max) + "}"
	}
	return s
}

func maxStr(m map[string]uint32) string {
	var ks []string
	for k := range m {
		ks = append(ks, k)
	}
	sort.Strings(ks)
	var parts []string
	for _, k := range ks {
		n := k
		if n == "" {
			n = "hdd"
		}
		parts = append(parts, fmt.Sprintf("%s=%d", n, m[k]))
	}
	return strings.Join(parts, ",")
}

// alphabet lists every event of the profile, simplest first.
func (p *profile) alphabet() []event {
	var out []event
	add := func(e event) {
		e.name = p.evName(&e)
		out = append(out, e)
	}
	for si := range p.Servers {
		sp := &p.Servers[si]
		// full heartbeats: every combination of {absent, each state} per possible volume
		sizes := make([]int, len(sp.Vols))
		for i := range sizes {
			sizes[i] = 1 + len(p.VolStates)
		}
		if len(sizes) == 0 {
			add(event{S: si, K: kFull})
		}
		mc.Product(sizes, func(ix []int) bool {
			var vs []volMsg
			for i, c := range ix {
				if c > 0 {
					st := p.VolStates[c-1]
					vs = append(vs, volMsg{Id: sp.Vols[i], St: st})
				}
			}
			add(event{S: si, K: kFull, Vols: vs})
			return true
		})
		for _, v := range sp.Vols {
			add(event{S: si, K: kNew, Vid: v})
		}
		for _, v := range sp.Vols {
			add(event{S: si, K: kDel, Vid: v})
		}
		if len(sp.Ecs) > 0 {
			sizes = make([]int, len(sp.Ecs))
			for i := range sizes {
				sizes[i] = 1 + len(p.EcMasks)
			}
			mc.Product(sizes, func(ix []int) bool {
				var es []ecMsg
				for i, c := range ix {
					if c > 0 {
						es = append(es, ecMsg{Id: sp.Ecs[i], Bits: p.EcMasks[c-1]})
					}
				}
				add(event{S: si, K: kEcFull, Ecs: es})
				return true
			})
			for _, v := range sp.Ecs {
				for _, b := range p.EcBits {
					add(event{S: si, K: kEcNew, Vid: v, Bits: b})
				}
			}
			for _, v := range sp.Ecs {
				for _, b := range p.EcBits {
					add(event{S: si, K: kEcDel, Vid: v, Bits: b})
				}
			}
		}
		for i, m := range sp.MaxMenu {
			if i == 0 && len(sp.MaxMenu) == 1 {
				break
			}
			add(event{S: si, K: kMax, Max: m})
		}
		add(event{S: si, K: kDisc})
		if p.Overlap {
			add(event{S: si, K: kOverlap})
			add(event{S: si, K: kOldClose})
		}
	}
	if p.Refresh {
		add(event{S: -1, K: kRefresh})
	}
	return out
}

// ---------------------------------------------------------------------------
// reference model: what the heartbeats received so far say is registered

type mvol struct {
	RO     bool
	Size   uint64
	Remote bool
	Disk   string
	// BigAtReg: the replica was at/over the size limit when this server (last) registered it
	// as a new volume; false when it grew later, reported by a heartbeat on the existing registration.
	BigAtReg bool
}

type msrv struct {
	streams int // open streams (0 = not connected)
	// detached: the DataNode object the newest stream writes to was unregistered by
	// the end of an older stream (overlapping reconnect).
	vols map[uint32]mvol
	ecs  map[uint32]uint32
	max  map[string]uint32
}

type model struct {
	srv []msrv
}

func newModel(p *profile) *model {
	m := &model{srv: make([]msrv, len(p.Servers))}
	for i := range m.srv {
		m.srv[i] = msrv{vols: map[uint32]mvol{}, ecs: map[uint32]uint32{}, max: map[string]uint32{}}
	}
	return m
}

// ---------------------------------------------------------------------------
// the system

type sys struct {
	p      *profile
	asMin  bool
	topo   *topology.Topology
	ms     *weed_server.MasterServer
	stream [][]*fakeStream // per server, oldest first
	m      *model
	// features of the last applied event, computed against the model state before it
	last lastInfo
}

type lastInfo struct {
	kind string // refined event kind used in finding classes
	// orderSensitive: the handler walks a Go map with two or more entries whose visiting
	// order can matter for this event (the EC shards registered on the server during a full
	// EC heartbeat).  Go randomises that order, so such a transition is executed many times
	// and fails if any execution fails (see explorer.run).
	orderSensitive bool
}

func newSys(p *profile, asMin bool) *sys {
	quiet()
	s := &sys{p: p, asMin: asMin}
	s.topo = topology.NewTopology("topo", sequence.NewMemorySequencer(), sizeLimit, 5, asMin)
	s.topo.RaftServer = fakeRaft{}
	s.ms = weed_server.NewMasterServerTopoV(s.topo, sizeLimitMB)
	s.stream = make([][]*fakeStream, len(p.Servers))
	s.m = newModel(p)
	return s
}

func (s *sys) close() {
	for si := range s.stream {
		for len(s.stream[si]) > 0 {
			s.closeStream(si, 0)
		}
	}
}

func (s *sys) open(si int) *fakeStream {
	f := &fakeStream{}
	f.next, f.stop = iter.Pull(func(yield func(struct{}) bool) {
		f.yield = yield
		s.ms.SendHeartbeat(f)
	})
	// run the handler up to its first Recv
	if _, ok := f.next(); !ok {
		mc.Fatal("SendHeartbeat handler of server %s returned before reading a heartbeat", s.p.Servers[si].Name)
	}
	s.stream[si] = append(s.stream[si], f)
	return f
}

// send delivers one heartbeat on the newest stream of the server and returns when
// the handler has processed it completely (it is back in Recv).
func (s *sys) send(si int, hb *master_pb.Heartbeat) {
	f := s.stream[si][len(s.stream[si])-1]
	f.hb = hb
	if _, ok := f.next(); !ok {
		mc.Fatal("SendHeartbeat handler of server %s returned while processing a heartbeat", s.p.Servers[si].Name)
	}
}

// closeStream ends the stream: Recv returns io.EOF, the handler runs its deferred
// UnRegisterDataNode and returns.
func (s *sys) closeStream(si int, idx int) {
	f := s.stream[si][idx]
	f.closed = true
	if _, ok := f.next(); ok {
		mc.Fatal("SendHeartbeat handler of server %s kept reading after the stream ended", s.p.Servers[si].Name)
	}
	f.stop()
	s.stream[si] = append(s.stream[si][:idx:idx], s.stream[si][idx+1:]...)
}

func (s *sys) volMessage(v uint32, st mvol) *master_pb.VolumeInformationMessage {
	vs := s.p.Vols[v]
	m := &master_pb.VolumeInformationMessage{
		Id:               v,
		Size:             st.Size,
		Collection:       "",
		FileCount:        3,
		ReadOnly:         st.RO,
		ReplicaPlacement: uint32(vs.Rp),
		Version:          uint32(needle.CurrentVersion),
		Ttl:              0,
		DiskType:         vs.Disk,
	}
	if st.Remote {
		m.RemoteStorageName = "s3.default"
		m.RemoteStorageKey = fmt.Sprintf("%d.dat", v)
	}
	return m
}

func (s *sys) shortMessage(v uint32) *master_pb.VolumeShortInformationMessage {
	vs := s.p.Vols[v]
	return &master_pb.VolumeShortInformationMessage{
		Id: v, Collection: "", ReplicaPlacement: uint32(vs.Rp), Version: uint32(needle.CurrentVersion), Ttl: 0, DiskType: vs.Disk,
	}
}

func (s *sys) ecMessage(v uint32, bits uint32) *master_pb.VolumeEcShardInformationMessage {
	return &master_pb.VolumeEcShardInformationMessage{Id: v, Collection: "", EcIndexBits: bits, DiskType: s.p.EcDisk[v]}
}

func copyMax(m map[string]uint32) map[string]uint32 {
	o := map[string]uint32{}
	for k, v := range m {
		o[k] = v
	}
	return o
}

func sortedVids[T any](m map[uint32]T) []uint32 {
	var ks []uint32
	for k := range m {
		ks = append(ks, k)
	}
	sort.Slice(ks, func(i, j int) bool { return ks[i] < ks[j] })
	return ks
}

// fullHeartbeat builds what Store.CollectHeartbeat sends.
func (s *sys) fullHeartbeat(si int, vols map[uint32]mvol, max map[string]uint32) *master_pb.Heartbeat {
	sp := &s.p.Servers[si]
	hb := &master_pb.Heartbeat{
		Ip: sp.Ip, Port: uint32(sp.Port), PublicUrl: sp.id(), MaxVolumeCounts: copyMax(max),
		MaxFileKey: 0, DataCenter: sp.DC, Rack: sp.Rack,
	}
	for _, v := range sortedVids(vols) {
		hb.Volumes = append(hb.Volumes, s.volMessage(v, vols[v]))
	}
	hb.HasNoVolumes = len(hb.Volumes) == 0
	return hb
}

func (s *sys) volsOf(e *event) map[uint32]mvol {
	out := map[uint32]mvol{}
	for _, v := range e.Vols {
		sz := sizeSmall
		if v.St.Big {
			sz = sizeBig
		}
		out[v.Id] = mvol{RO: v.St.RO, Size: sz, Remote: v.St.Remote, Disk: s.p.Vols[v.Id].Disk}
	}
	return out
}

// enabled says whether the event can happen in the current state (structural
// constraints of a correct volume server; see the check's note).
func (s *sys) enabled(e *event) bool {
	if e.S < 0 {
		return true
	}
	ms := &s.m.srv[e.S]
	switch e.K {
	case kFull:
		return true // on a closed server this opens the stream (first message is always a full heartbeat)
	case kMax:
		return ms.streams > 0 && maxStr(e.Max) != maxStr(ms.max)
	case kOverlap:
		return ms.streams == 1
	case kOldClose:
		return ms.streams == 2
	case kDisc:
		return ms.streams == 1
	default:
		return ms.streams > 0
	}
}

// apply executes the event on the real master and on the reference model.
func (s *sys) apply(e *event) {
	s.last = lastInfo{kind: e.K}
	if e.S < 0 {
		// refresh
		topology.RefreshOnceTopoV(s.topo, 0.9)
		return
	}
	sp := &s.p.Servers[e.S]
	ms := &s.m.srv[e.S]
	switch e.K {
	case kFull, kMax, kOverlap:
		vols := ms.vols
		max := ms.max
		if e.K == kFull {
			vols = s.volsOf(e)
		}
		if e.K == kMax {
			max = e.Max
		}
		if e.K == kOverlap {
			s.open(e.S)
			ms.streams++
		} else if ms.streams == 0 {
			s.open(e.S)
			ms.streams = 1
			max = sp.MaxMenu[0]
			s.last.kind = "connect"
		} else if e.K == kFull {
			// refine: what does this full heartbeat change for the server?
			add, del, rem := 0, 0, 0
			for k, v := range vols {
				if o, ok := ms.vols[k]; !ok {
					add++
				} else if o.Remote != v.Remote {
					rem++
				}
			}
			for k := range ms.vols {
				if _, ok := vols[k]; !ok {
					del++
				}
			}
			if add > 0 {
				s.last.kind += ":adds"
			}
			if del > 0 {
				s.last.kind += ":removes"
			}
			if rem > 0 {
				s.last.kind += ":remote-flag-changes"
			}
		} else if e.K == kMax {
			n := 0
			for k, v := range max {
				if v != 0 && ms.max[k] != v {
					n++
				}
			}
			s.last.kind = fmt.Sprintf("max:changes-%d-disk-types", n)
		}
		s.send(e.S, s.fullHeartbeat(e.S, vols, max))
		// model: a full heartbeat replaces the server's volume list; non-zero max counts replace the old ones
		nv := map[uint32]mvol{}
		for k, v := range vols {
			if o, ok := ms.vols[k]; ok && e.K == kFull {
				v.BigAtReg = o.BigAtReg
			} else if e.K == kFull {
				v.BigAtReg = v.Size >= sizeLimit
			}
			nv[k] = v
		}
		ms.vols = nv
		nm := copyMax(ms.max)
		for k, v := range max {
			if v != 0 {
				nm[k] = v
			}
		}
		ms.max = nm
	case kNew:
		if _, ok := ms.vols[e.Vid]; ok {
			s.last.kind = "new-duplicate" // the master already has it (e.g. a full heartbeat overtook the queued delta)
		}
		s.send(e.S, &master_pb.Heartbeat{NewVolumes: []*master_pb.VolumeShortInformationMessage{s.shortMessage(e.Vid)}})
		// the short message carries neither size nor read-only nor remote information
		ms.vols[e.Vid] = mvol{Disk: s.p.Vols[e.Vid].Disk}
	case kDel:
		if _, ok := ms.vols[e.Vid]; !ok {
			s.last.kind = "del-stale" // the master does not have it (any more)
		} else if ms.vols[e.Vid].Remote {
			s.last.kind = "del-remote"
		}
		s.send(e.S, &master_pb.Heartbeat{DeletedVolumes: []*master_pb.VolumeShortInformationMessage{s.shortMessage(e.Vid)}})
		delete(ms.vols, e.Vid)
	case kEcFull:
		changed := 0
		want := map[uint32]uint32{}
		for _, m := range e.Ecs {
			want[m.Id] = m.Bits
		}
		for _, v := range sp.Ecs {
			if want[v] != ms.ecs[v] {
				changed++
			}
		}
		had := fmt.Sprint(len(ms.ecs))
		if len(ms.ecs) >= 2 {
			had = "2+"
			s.last.orderSensitive = true
		}
		_ = changed
		s.last.kind = fmt.Sprintf("ecfull:server-had-%s-ec-volumes", had)
		hb := &master_pb.Heartbeat{}
		for _, m := range e.Ecs {
			hb.EcShards = append(hb.EcShards, s.ecMessage(m.Id, m.Bits))
		}
		hb.HasNoEcShards = len(hb.EcShards) == 0
		s.send(e.S, hb)
		ms.ecs = want
	case kEcNew:
		if ms.ecs[e.Vid]&e.Bits != 0 {
			s.last.kind = "ecnew-duplicate"
		}
		s.send(e.S, &master_pb.Heartbeat{NewEcShards: []*master_pb.VolumeEcShardInformationMessage{s.ecMessage(e.Vid, e.Bits)}})
		ms.ecs[e.Vid] |= e.Bits
	case kEcDel:
		if ms.ecs[e.Vid]&e.Bits == 0 {
			s.last.kind = "ecdel-stale"
		}
		s.send(e.S, &master_pb.Heartbeat{DeletedEcShards: []*master_pb.VolumeEcShardInformationMessage{s.ecMessage(e.Vid, e.Bits)}})
		ms.ecs[e.Vid] &^= e.Bits
		if ms.ecs[e.Vid] == 0 {
			delete(ms.ecs, e.Vid)
		}
	case kDisc:
		s.closeStream(e.S, 0)
		ms.streams = 0
		ms.vols = map[uint32]mvol{}
		ms.ecs = map[uint32]uint32{}
		ms.max = map[string]uint32{}
	case kOldClose:
		// the older of two streams ends; the server itself is alive on the newer one and
		// keeps everything it reported there
		s.closeStream(e.S, 0)
		ms.streams = 1
	}
}
