package c11

import (
	"fmt"
	"sort"
	"strings"

	"github.com/chrislusf/seaweedfs/weed/storage/needle"
	"github.com/chrislusf/seaweedfs/weed/storage/types"
	"github.com/chrislusf/seaweedfs/weed/topology"
)

// verdict of one transition
type verdict struct {
	class string // "" = holds
	msg   string
	note  string // outcome class for the distinct count (never a violation)
}

// ---------------------------------------------------------------------------
// C11

func (s *sys) realWritables() map[uint32]bool {
	w := map[uint32]bool{}
	for _, l := range topology.LayoutsTopoV(s.topo) {
		for _, v := range l.Writables {
			w[v] = true
		}
	}
	return w
}

func (s *sys) realLookup(vid uint32) []string {
	set := map[string]bool{}
	for _, dn := range s.topo.Lookup("", needle.VolumeId(vid)) {
		set[string(dn.Id())] = true
	}
	var out []string
	for k := range set {
		out = append(out, k)
	}
	sort.Strings(out)
	return out
}

// registered returns the servers (ids, sorted) on which the heartbeats say the
// volume / an EC shard of the volume currently is.
func (s *sys) registered(vid uint32) (ids []string, infos []mvol) {
	for si := range s.m.srv {
		ms := &s.m.srv[si]
		if ms.streams == 0 {
			continue
		}
		if v, ok := ms.vols[vid]; ok {
			ids = append(ids, s.p.Servers[si].id())
			infos = append(infos, v)
		} else if ms.ecs[vid] != 0 {
			ids = append(ids, s.p.Servers[si].id())
		}
	}
	sort.Strings(ids)
	return
}

func copyCount(rp byte) int { return 1 + int(rp)/100 + (int(rp)/10)%10 + int(rp)%10 }

// checkC11 evaluates the C11 statement in the state reached by the last event.
// wBefore is the real writable set before that event.
func (s *sys) checkC11(wBefore map[uint32]bool) verdict {
	w := s.realWritables()
	var notes []string
	for _, vid := range sortedVids(s.p.Vols) {
		vs := s.p.Vols[vid]
		ids, infos := s.registered(vid)
		// --- lookup clause
		got := s.realLookup(vid)
		if strings.Join(got, ",") != strings.Join(ids, ",") {
			return verdict{class: lookupClass(got, ids, "volume") + "@" + s.last.kind,
				msg: fmt.Sprintf("Lookup(%d) = %v but the servers registered for it are %v", vid, got, ids)}
		}
		// --- writable clause (only-if direction is what the statement demands)
		anyRO, anyBig := false, false
		for _, in := range infos {
			anyRO = anyRO || in.RO
			anyBig = anyBig || in.Size >= sizeLimit
		}
		cc := copyCount(vs.Rp)
		countOK := len(ids) == cc || (s.asMin && len(ids) > cc)
		if w[vid] {
			switch {
			case len(ids) == 0:
				return verdict{class: "offered-without-any-registered-replica@" + s.last.kind,
					msg: fmt.Sprintf("volume %d is in writables but no server has it registered", vid)}
			case anyRO:
				return verdict{class: "offered-with-readonly-replica@" + s.last.kind,
					msg: fmt.Sprintf("volume %d is in writables but a registered replica is read-only (%v)", vid, infos)}
			case !countOK:
				return verdict{class: fmt.Sprintf("offered-with-%d-replicas-for-%d-copies:asMin=%v@%s", len(ids), cc, s.asMin, s.last.kind),
					msg: fmt.Sprintf("volume %d (replication %03d) is in writables with %d registered replicas %v", vid, vs.Rp, len(ids), ids)}
			case anyBig:
				// The master learns sizes from heartbeats but only acts on them in its periodic
				// collection round, so "reported big, not yet collected" is a lag by design and
				// not counted.  What the statement forbids is that the master itself PUTS an
				// oversized volume INTO the offer, or that a collection round leaves it there.
				if !wBefore[vid] {
					how := "size-grew-after-registration"
					for _, in := range infos {
						if in.Size >= sizeLimit && in.BigAtReg {
							how = "registered-oversized"
						}
					}
					return verdict{class: "oversized-volume-put-into-writables:" + how,
						msg: fmt.Sprintf("volume %d was not offered before this event, is offered after it, and a registered replica reports size >= limit (%v)", vid, infos)}
				}
				if s.last.kind == kRefresh {
					return verdict{class: "oversized-volume-survives-collection-round@" + s.last.kind,
						msg: fmt.Sprintf("volume %d still offered after a full-volume collection round although a registered replica reports size >= limit", vid)}
				}
				notes = append(notes, "oversized-awaiting-collection")
			default:
				notes = append(notes, "offered")
			}
		} else if len(ids) > 0 {
			if !anyRO && countOK && !anyBig {
				// converse direction: not demanded by the statement, only observed
				notes = append(notes, "eligible-but-not-offered")
			} else {
				notes = append(notes, "withheld")
			}
		}
	}
	for _, vid := range sortedVids(s.p.EcDisk) {
		ids, _ := s.registered(vid)
		got := s.realLookup(vid)
		if strings.Join(got, ",") != strings.Join(ids, ",") {
			return verdict{class: lookupClass(got, ids, "ec") + "@" + s.last.kind,
				msg: fmt.Sprintf("Lookup(%d) = %v but the servers holding registered EC shards of it are %v", vid, got, ids)}
		}
		if len(ids) > 0 {
			notes = append(notes, "ec")
		}
	}
	sort.Strings(notes)
	notes = uniq(notes)
	return verdict{note: strings.Join(notes, "+")}
}

func uniq(a []string) []string {
	var o []string
	for i, x := range a {
		if i == 0 || a[i-1] != x {
			o = append(o, x)
		}
	}
	return o
}

func lookupClass(got, want []string, what string) string {
	g := map[string]bool{}
	for _, x := range got {
		g[x] = true
	}
	wm := map[string]bool{}
	for _, x := range want {
		wm[x] = true
	}
	extra, missing := false, false
	for x := range g {
		if !wm[x] {
			extra = true
		}
	}
	for x := range wm {
		if !g[x] {
			missing = true
		}
	}
	switch {
	case extra && missing:
		return "lookup-" + what + "-wrong-servers"
	case extra:
		return "lookup-" + what + "-lists-unregistered-server"
	default:
		return "lookup-" + what + "-misses-registered-server"
	}
}

// canonC11: registered state per server (model) + everything of the real layouts
// that can influence future writable/lookup behaviour.
func (s *sys) canonC11() string {
	var b strings.Builder
	s.canonModel(&b, false)
	for _, l := range topology.LayoutsTopoV(s.topo) {
		fmt.Fprintf(&b, "L[%s|%s|%s|%s w=%v cr=%v", l.Collection, l.Rp, l.Ttl, l.DiskType, l.Writables, l.Crowded)
		for _, vid := range sortedVids(l.LocationsRaw) {
			fmt.Fprintf(&b, " %d@%v", vid, l.LocationsRaw[vid])
		}
		for _, vid := range sortedVids(l.ReadOnlyMap) {
			fmt.Fprintf(&b, " ro%d@%v", vid, l.ReadOnlyMap[vid])
		}
		for _, vid := range sortedVids(l.OversizedMap) {
			fmt.Fprintf(&b, " ov%d@%v", vid, l.OversizedMap[vid])
		}
		b.WriteString("]")
	}
	ec := topology.EcLocationsTopoV(s.topo)
	for _, vid := range sortedVids(ec) {
		m := ec[vid]
		var sids []int
		for k := range m {
			sids = append(sids, k)
		}
		sort.Ints(sids)
		fmt.Fprintf(&b, "E%d[", vid)
		for _, k := range sids {
			fmt.Fprintf(&b, "%d%v", k, m[k])
		}
		b.WriteString("]")
	}
	// real registered volumes per data node (read-only / size class as the master holds them)
	s.walk(func(level string, path string, n topology.Node) {
		if d, ok := n.(*topology.Disk); ok {
			vs := d.GetVolumes()
			sort.Slice(vs, func(i, j int) bool { return vs[i].Id < vs[j].Id })
			fmt.Fprintf(&b, "D[%s", path)
			for _, v := range vs {
				fmt.Fprintf(&b, " %d:%v:%v", v.Id, v.ReadOnly, v.Size >= sizeLimit)
			}
			b.WriteString("]")
		}
	})
	return b.String()
}

func (s *sys) canonModel(b *strings.Builder, withMax bool) {
	for si := range s.m.srv {
		ms := &s.m.srv[si]
		fmt.Fprintf(b, "S%d:%d[", si, ms.streams)
		for _, v := range sortedVids(ms.vols) {
			x := ms.vols[v]
			fmt.Fprintf(b, "%d:%v:%v:%v ", v, x.RO, x.Size >= sizeLimit, x.Remote)
		}
		for _, v := range sortedVids(ms.ecs) {
			fmt.Fprintf(b, "e%d:%x ", v, ms.ecs[v])
		}
		if withMax {
			b.WriteString(maxStr(ms.max))
		}
		b.WriteString("]")
	}
}

// ---------------------------------------------------------------------------
// tree walk (children sorted by id)

func (s *sys) walk(f func(level, path string, n topology.Node)) {
	var rec func(n topology.Node, depth int, path string)
	levels := []string{"topology", "datacenter", "rack", "server", "disk"}
	rec = func(n topology.Node, depth int, path string) {
		f(levels[depth], path, n)
		if depth == 4 {
			return
		}
		cs := n.Children()
		sort.Slice(cs, func(i, j int) bool { return cs[i].Id() < cs[j].Id() })
		for _, c := range cs {
			id := string(c.Id())
			if depth == 3 && id == "" {
				id = "hdd"
			}
			rec(c, depth+1, path+"/"+id)
		}
	}
	rec(s.topo, 0, "")
}

// ---------------------------------------------------------------------------
// C12

type counts struct{ Volume, Remote, EcShard, Max int64 }

func (c counts) String() string {
	return fmt.Sprintf("{vol:%d remote:%d ec:%d max:%d}", c.Volume, c.Remote, c.EcShard, c.Max)
}

type cmap map[string]counts // by disk type ("" = hdd)

func (a cmap) add(b cmap) {
	for k, v := range b {
		x := a[k]
		x.Volume += v.Volume
		x.Remote += v.Remote
		x.EcShard += v.EcShard
		x.Max += v.Max
		a[k] = x
	}
}

func dtName(k string) string {
	if k == "" {
		return "hdd"
	}
	return k
}

// checkC12 compares, at every node of the tree, the usage counters with the
// recomputation from the volumes and EC shards registered beneath the node (and
// the max counts last reported by the servers beneath it).
func (s *sys) checkC12() verdict {
	maxOf := map[string]map[string]uint32{} // data node id -> reported max
	for si := range s.m.srv {
		if s.m.srv[si].streams > 0 {
			maxOf[s.p.Servers[si].id()] = s.m.srv[si].max
		}
	}
	type bad struct {
		level, path, dt, counter string
		got, want               int64
	}
	var bads []bad
	levelRank := map[string]int{"disk": 0, "server": 1, "rack": 2, "datacenter": 3, "topology": 4}
	var rec func(n topology.Node, depth int, path string, srvId string) cmap
	levels := []string{"topology", "datacenter", "rack", "server", "disk"}
	nonzero := false
	rec = func(n topology.Node, depth int, path string, srvId string) cmap {
		exp := cmap{}
		if d, ok := n.(*topology.Disk); ok {
			dt := string(types.ToDiskType(string(d.Id())))
			c := counts{}
			for _, v := range d.GetVolumes() {
				c.Volume++
				if v.IsRemote() {
					c.Remote++
				}
			}
			for _, e := range d.GetEcShards() {
				c.EcShard += int64(e.ShardIdCount())
			}
			c.Max = int64(maxOf[srvId][dt])
			if m, ok := maxOf[srvId]; ok {
				// a server may report hdd as "" or "hdd"
				if v, ok2 := m[string(d.Id())]; ok2 {
					c.Max = int64(v)
				}
			}
			exp[dt] = c
		} else {
			cs := n.Children()
			sort.Slice(cs, func(i, j int) bool { return cs[i].Id() < cs[j].Id() })
			for _, ch := range cs {
				id := srvId
				if depth == 2 {
					id = string(ch.Id())
				}
				exp.add(rec(ch, depth+1, path+"/"+dtName(string(ch.Id())), id))
			}
		}
		got := topology.UsageCountsTopoV(n)
		keys := map[string]bool{}
		for k := range got {
			keys[k] = true
		}
		for k := range exp {
			keys[k] = true
		}
		var ks []string
		for k := range keys {
			ks = append(ks, k)
		}
		sort.Strings(ks)
		for _, k := range ks {
			g, e := got[k], exp[k]
			if e != (counts{}) {
				nonzero = true
			}
			cmp := func(name string, gv, ev int64) {
				if gv != ev {
					bads = append(bads, bad{levels[depth], path, dtName(k), name, gv, ev})
				}
			}
			cmp("volume", g.Volume, e.Volume)
			cmp("remote", g.Remote, e.Remote)
			cmp("ecShard", g.EcShard, e.EcShard)
			cmp("max", g.Max, e.Max)
		}
		return exp
	}
	rec(s.topo, 0, "", "")
	if len(bads) == 0 {
		if nonzero {
			return verdict{note: "counts-match"}
		}
		return verdict{note: "all-zero"}
	}
	// class: which counters are wrong, the lowest level at which one is wrong, the refined kind of the last event
	cset := map[string]bool{}
	low := "topology"
	for _, b := range bads {
		cset[b.counter] = true
		if levelRank[b.level] < levelRank[low] {
			low = b.level
		}
	}
	var cs []string
	for k := range cset {
		cs = append(cs, k)
	}
	sort.Strings(cs)
	var parts []string
	for i, b := range bads {
		if i >= 6 {
			parts = append(parts, "...")
			break
		}
		parts = append(parts, fmt.Sprintf("%s %s [%s] %s=%d, recomputed %d", b.level, b.path, b.dt, b.counter, b.got, b.want))
	}
	return verdict{class: fmt.Sprintf("%s-count-drift:from=%s@%s", strings.Join(cs, "+"), low, s.last.kind),
		msg: strings.Join(parts, "; ")}
}

// canonC12: registered state per server (model, with max) + the real counters at
// every node + what is really registered on every disk.
func (s *sys) canonC12() string {
	var b strings.Builder
	s.canonModel(&b, true)
	s.walk(func(level, path string, n topology.Node) {
		u := topology.UsageCountsTopoV(n)
		var ks []string
		for k := range u {
			ks = append(ks, k)
		}
		sort.Strings(ks)
		fmt.Fprintf(&b, "N[%s", path)
		for _, k := range ks {
			c := u[k]
			if c.Volume == 0 && c.Remote == 0 && c.EcShard == 0 && c.Max == 0 {
				continue
			}
			fmt.Fprintf(&b, " %s:%d,%d,%d,%d", dtName(k), c.Volume, c.Remote, c.EcShard, c.Max)
		}
		if d, ok := n.(*topology.Disk); ok {
			vs := d.GetVolumes()
			sort.Slice(vs, func(i, j int) bool { return vs[i].Id < vs[j].Id })
			for _, v := range vs {
				fmt.Fprintf(&b, " v%d:%v", v.Id, v.IsRemote())
			}
			es := d.GetEcShards()
			sort.Slice(es, func(i, j int) bool { return es[i].VolumeId < es[j].VolumeId })
			for _, e := range es {
				fmt.Fprintf(&b, " e%d:%x", e.VolumeId, uint32(e.ShardBits))
			}
		}
		b.WriteString("]")
	})
	return b.String()
}
