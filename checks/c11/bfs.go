package c11

import (
	"crypto/sha1"
	"fmt"
	"sort"
	"strings"

	"verif/mc"
)

// explorer is a level-synchronous explicit-state BFS over the real master.  Live
// objects are not cloned: every transition is executed on a fresh master by
// replaying the event path (seed + path) and then the new event.  Expansion of a
// level is spread over goroutines (each transition has its own master instance);
// merging is sequential in (frontier order x alphabet order), so the result does
// not depend on scheduling.
type explorer struct {
	r     *mc.Run
	prop  string // "C11" | "C12"
	p     *profile
	asMin bool
	alpha []event
	index map[string]int

	perClass map[string]int
	notes    map[string]int64
}

func newExplorer(r *mc.Run, prop string, p *profile, asMin bool) *explorer {
	x := &explorer{r: r, prop: prop, p: p, asMin: asMin, alpha: p.alphabet(), index: map[string]int{},
		perClass: map[string]int{}, notes: map[string]int64{}}
	for i := range x.alpha {
		if _, dup := x.index[x.alpha[i].name]; dup {
			mc.Fatal("duplicate event name %q in alphabet of profile %s", x.alpha[i].name, p.Name)
		}
		x.index[x.alpha[i].name] = i
	}
	return x
}

type witness struct {
	Prop    string   `json:"prop"`
	Profile string   `json:"profile"`
	AsMin   bool     `json:"replicationAsMin"`
	Path    []string `json:"path"`
}

func (x *explorer) names(path []uint16) []string {
	out := make([]string, len(path))
	for i, e := range path {
		out[i] = x.alpha[e].name
	}
	return out
}

// run executes path (no checks on the prefix: it was checked when it was first
// reached) and evaluates the property after the last event.
func (x *explorer) run(path []uint16) (v verdict, canon [20]byte, enabled []uint16, ok bool) {
	var sensitive bool
	v, canon, enabled, sensitive, ok = x.runOnce(path)
	if !ok || !sensitive || v.class != "" {
		return
	}
	// The last event made the handler walk a Go map with >= 2 entries; the runtime
	// randomises that order (for two entries in one bucket the rarer order has probability
	// 1/8).  Execute the transition again until it fails or orderRepeats executions held:
	// (7/8)^128 < 4e-8 that the rarer order was never seen.
	for i := 1; i < orderRepeats; i++ {
		v2, c2, _, _, _ := x.runOnce(path)
		if v2.class != "" {
			return v2, c2, enabled, true
		}
	}
	return
}

const orderRepeats = 128

func (x *explorer) runOnce(path []uint16) (v verdict, canon [20]byte, enabled []uint16, sensitive, ok bool) {
	s := newSys(x.p, x.asMin)
	defer s.close()
	var wBefore map[uint32]bool
	for i, ei := range path {
		e := &x.alpha[ei]
		if !s.enabled(e) {
			return verdict{}, canon, nil, false, false
		}
		if i == len(path)-1 && x.prop == "C11" {
			wBefore = s.realWritables()
		}
		s.apply(e)
	}
	if len(path) > 0 {
		if x.prop == "C11" {
			v = s.checkC11(wBefore)
		} else {
			v = s.checkC12()
		}
	}
	var c string
	if x.prop == "C11" {
		c = s.canonC11()
	} else {
		c = s.canonC12()
	}
	canon = sha1.Sum([]byte(c))
	for i := range x.alpha {
		if s.enabled(&x.alpha[i]) {
			enabled = append(enabled, uint16(i))
		}
	}
	return v, canon, enabled, s.last.orderSensitive, true
}

type tres struct {
	ev    uint16
	v     verdict
	canon [20]byte
	kind  string
}

// explore runs the search from the state reached by seed.  Unmerged to depth d0,
// merged on the canonical state up to maxDepth.
func (x *explorer) explore(seedName string, seed []uint16, d0, maxDepth int) {
	r := x.r
	label := fmt.Sprintf("%s/asMin=%v/seed=%s", x.p.Name, x.asMin, seedName)
	// The seed is a fixed event path to a populated start state.  It must be executable;
	// if the property does not hold along it (it does on the unchanged tree) that is a
	// violation like any other and there is nothing to explore from this seed.
	var c0 [20]byte
	for l := 1; l <= len(seed); l++ {
		v, c, _, ok := x.run(seed[:l])
		if !ok {
			mc.Fatal("seed %s of profile %s: step %d is not executable", seedName, x.p.Name, l)
		}
		if v.class != "" {
			x.notes[x.alpha[seed[l-1]].K+"|VIOLATION:"+v.class]++
			x.report(seed[:l], v)
			r.Cases(int64(l))
			r.AddTransitions(int64(l))
			return
		}
		c0 = c
	}
	if len(seed) == 0 {
		_, c0, _, _ = x.run(nil)
	}
	seen := map[[20]byte]struct{}{c0: {}}
	var states, transitions, prunedAfterOldClose int64 = 1, 0, 0
	frontier := [][]uint16{append([]uint16{}, seed...)}
	depthDone := 0
	const chunk = 2048
	for depth := 0; depth < maxDepth && len(frontier) > 0; depth++ {
		if r.Expired() {
			r.NotExhaustive(fmt.Sprintf("%s: wall-clock budget used up after complete depth %d (of %d)", label, depth, maxDepth))
			break
		}
		var next [][]uint16
		for lo := 0; lo < len(frontier); lo += chunk {
			hi := lo + chunk
			if hi > len(frontier) {
				hi = len(frontier)
			}
			part := frontier[lo:hi]
			results := make([][]tres, len(part))
			r.Go(len(part), 16, func(i int) {
				path := part[i]
				_, _, en, ok := x.run(path)
				if !ok {
					mc.Fatal("frontier path not executable: %v", x.names(path))
				}
				out := make([]tres, 0, len(en))
				np := make([]uint16, len(path)+1)
				copy(np, path)
				for _, ei := range en {
					np[len(path)] = ei
					v, c, _, ok := x.run(np)
					if !ok {
						mc.Fatal("enabled event not executable: %v", x.names(np))
					}
					out = append(out, tres{ev: ei, v: v, canon: c, kind: x.alpha[ei].K})
				}
				results[i] = out
			})
			for i, path := range part {
				for _, t := range results[i] {
					transitions++
					np := append(append(make([]uint16, 0, len(path)+1), path...), t.ev)
					if t.v.class != "" {
						x.notes[t.kind+"|VIOLATION:"+t.v.class]++
						x.report(np, t.v)
						continue // no exploration below a violating transition
					}
					x.notes[t.kind+"|"+t.v.note]++
					if t.kind == kOldClose {
						// The late end of the OLD stream of a server that has already re-connected runs
						// UnRegisterDataNode on the DataNode object the NEW stream keeps using.  From here
						// on the handler works on an unlinked node; the immediately visible consequence is
						// reported above (known finding), what follows is garbage-in and not explored.
						prunedAfterOldClose++
						continue
					}
					_, known := seen[t.canon]
					if !known {
						seen[t.canon] = struct{}{}
						states++
						if len(np) >= 3 {
							r.Sample(fmt.Sprintf("%s depth %d: %s", label, depth+1, t.v.note), map[string]interface{}{"path": x.names(np), "outcome": t.v.note})
						}
					}
					if depth+1 <= d0 || !known {
						next = append(next, np)
					}
				}
			}
		}
		frontier = next
		depthDone = depth + 1
	}
	r.AddStates(states)
	r.AddTransitions(transitions)
	r.Cases(transitions)
	r.Set("depth:"+label, depthDone)
	r.Set("alphabet:"+label, len(x.alpha))
	r.Add("states:"+label, states)
	r.Add("transitions:"+label, transitions)
	r.Add("frontier_left:"+label, int64(len(frontier)))
	r.Add("not_explored_below_oldclose", prunedAfterOldClose)
}

func (x *explorer) flushNotes() {
	var ks []string
	for k := range x.notes {
		ks = append(ks, k)
	}
	sort.Strings(ks)
	for _, k := range ks {
		x.r.Distinct(fmt.Sprintf("asMin=%v|%s", x.asMin, k))
	}
}

func (x *explorer) report(path []uint16, v verdict) {
	x.r.Add("violating_transitions", 1)
	if x.perClass[v.class] >= 2 {
		return
	}
	x.perClass[v.class]++
	w := witness{Prop: x.prop, Profile: x.p.Name, AsMin: x.asMin, Path: x.names(path)}
	p2 := append([]uint16{}, path...)
	x.r.Violate(v.class, v.msg+" | path: "+strings.Join(w.Path, " ; "), w, func() bool {
		v2, _, _, ok := x.run(p2)
		return ok && v2.class == v.class
	})
}

// replay re-executes one recorded witness.
func (x *explorer) replay(w witness) {
	var path []uint16
	for _, n := range w.Path {
		i, ok := x.index[n]
		if !ok {
			mc.Fatal("replay: event %q is not in the alphabet of profile %s", n, x.p.Name)
		}
		path = append(path, uint16(i))
	}
	// check every prefix: the first violating step is reported
	for l := 1; l <= len(path); l++ {
		v, _, _, ok := x.run(path[:l])
		if !ok {
			mc.Fatal("replay: path not executable at step %d (%s)", l, w.Path[l-1])
		}
		x.r.Case("replay|" + v.class)
		if v.class != "" {
			x.report(path[:l], v)
			return
		}
	}
}
