package c11

import (
	"testing"
	"verif/mc"
)

func BenchmarkRun(b *testing.B) {
	r := &mc.Run{}
	x := newExplorer(r, "C11", profileC11(false), false)
	path := mustPath(x, "A:full{1w,2w}", "B:full{2w}", "C:full{}", "A:ecfull{7:0x1}")
	b.ResetTimer()
	b.RunParallel(func(pb *testing.PB) {
		for pb.Next() {
			x.run(path)
		}
	})
}
