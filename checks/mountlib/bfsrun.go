package mountlib

import (
	"fmt"
	"strings"

	"verif/mc"
)

// Viol formats a violation returned by System.Apply: a narrow class plus a message.
func Viol(class, format string, a ...interface{}) string {
	return class + "\x00" + fmt.Sprintf(format, a...)
}

// SplitViol is the inverse of Viol.
func SplitViol(v string) (class, msg string) {
	if i := strings.IndexByte(v, 0); i >= 0 {
		return v[:i], v[i+1:]
	}
	return "unclassified", v
}

// ReplayPath runs one event path on a fresh instance and returns the first
// violation ("" if none) and the index of the violating event.
func ReplayPath(sys mc.System, path []string) (string, int) {
	sys.Reset()
	defer sys.Close()
	for i, ev := range path {
		if v := sys.Apply(ev); v != "" {
			return v, i
		}
	}
	return "", -1
}

// Witness is the replay-file form of a BFS counter-example.
type Witness struct {
	Config string   `json:"config,omitempty"`
	Events []string `json:"events"`
}

// RunBFS runs mc.BFS over sys, records states/transitions, and turns every
// violating path into r.Violate with the class computed by the system, rechecked
// by re-executing the path.
func RunBFS(r *mc.Run, config string, sys mc.System, unmerged, maxDepth int) mc.BFSResult {
	res := mc.BFS(sys, unmerged, maxDepth, r.Expired, func(path []string, v string) {
		class, msg := SplitViol(v)
		p := append([]string{}, path...)
		r.Violate(class, fmt.Sprintf("%s (after %d events: %s)", msg, len(p), strings.Join(p, " ")),
			Witness{Config: config, Events: p},
			func() bool {
				v2, _ := ReplayPath(sys, p)
				c2, _ := SplitViol(v2)
				return v2 != "" && c2 == class
			})
	})
	r.AddStates(res.States)
	r.AddTransitions(res.Transitions)
	r.Cases(res.Transitions)
	if !res.Complete {
		r.NotExhaustive(fmt.Sprintf("%s: wall-clock budget reached after depth %d of %d", config, res.MaxDepth, maxDepth))
	}
	return res
}
