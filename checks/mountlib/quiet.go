// Package mountlib holds helpers shared by the checks of the "mount" group.
package mountlib

import (
	"os"
	"strconv"
	"time"

	"verif/mc"

	flag "github.com/chrislusf/seaweedfs/weed/util/fla9"
)

// QuietGlog sends glog output to files in a scratch directory instead of
// stderr; the returned function removes the directory.
func QuietGlog() func() {
	dir := mc.TempDir("glog")
	// glog registers its flags with seaweedfs' own flag package (util/fla9)
	for _, kv := range [][2]string{{"logtostderr", "false"}, {"alsologtostderr", "false"}, {"stderrthreshold", "FATAL"}, {"logdir", dir}} {
		if err := flag.Set(kv[0], kv[1]); err != nil {
			mc.Fatal("glog flag %s: %v", kv[0], err)
		}
	}
	return func() { os.RemoveAll(dir) }
}

// Budget returns the wall-clock budget of a check's own search loop: q in the
// quick tier, t in the thorough tier, or VERIF_BUDGET_S seconds when that is
// set.  A budget only ever stops a search early (the run is then marked not
// exhaustive); no verdict depends on it.
func Budget(r *mc.Run, q, t time.Duration) time.Duration {
	if b := os.Getenv("VERIF_BUDGET_S"); b != "" {
		if n, err := strconv.Atoi(b); err == nil {
			return time.Duration(n) * time.Second
		}
	}
	if r.Quick() {
		return q
	}
	return t
}
