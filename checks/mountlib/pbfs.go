package mountlib

import (
	"crypto/sha256"
	"fmt"
	"os"
	"runtime/pprof"
	"strings"
	"sync"
	"sync/atomic"
	"time"

	"verif/mc"
)

// Quiet is an optional extension of mc.System: Replay applies an event without
// evaluating the oracle.  PBFS uses it for the prefix of a path (every prefix
// has already been checked as the last event of its own transition).
type Quiet interface {
	Replay(ev string)
}

// StaticMenu is an optional marker: Events() does not depend on the state, so
// the menu is computed once.
type StaticMenu interface {
	StaticMenu()
}

// Soft is an optional extension: violations found by the last Apply that do not
// invalidate the reference model; they are reported but exploration continues
// below the transition (used for a pervasive defect that would otherwise prune
// the whole search).
type Soft interface {
	SoftViolations() []string
}

// HangTimeout is how long a single transition (replay of a short path plus one
// event, normally micro- to milliseconds) may take before it is recorded as a
// hang.  It only ever turns a transition that never returns into a verdict.
var HangTimeout = 60 * time.Second

// Level is the per-depth statistic of the last PBFS call.
type Level struct {
	Depth       int   `json:"depth"`
	Transitions int64 `json:"transitions"`
	Planned     int64 `json:"planned"`
	StatesSoFar int64 `json:"states_so_far"`
	Frontier    int   `json:"frontier_kept"`
}

// Levels holds the statistics of the most recent PBFS call (PBFS itself is not
// re-entrant across goroutines).
var Levels []Level

type succ struct {
	viol  string
	soft  []string
	canon [16]byte
	done  bool
}

type wstate struct {
	mu        sync.Mutex
	abandoned bool
	busy      bool
	task      int
	since     time.Time
	slot      int
}

// PBFS is a level-synchronous, parallel variant of mc.BFS with the same
// semantics: replay-from-initial on fresh instances, every event sequence
// unmerged up to depth `unmerged`, merged on Canon() up to maxDepth, no
// exploration below a (hard) violating transition.  Each worker owns one System
// built by newSys.  The result does not depend on worker timing: successors
// are merged in (frontier order, menu order).
func PBFS(newSys func(worker int) mc.System, workers, unmerged, maxDepth int, expired func() bool,
	onViolation func(path []string, msg string)) (mc.BFSResult, [][]string) {

	Levels = nil
	var samples [][]string
	res := mc.BFSResult{Complete: true}
	if workers < 1 {
		workers = 1
	}
	nsys := 0
	var sysMu sync.Mutex
	mkSys := func() mc.System {
		sysMu.Lock()
		defer sysMu.Unlock()
		nsys++
		return newSys(nsys - 1)
	}
	replay := func(s mc.System, path []string) {
		if q, ok := s.(Quiet); ok {
			for _, e := range path {
				q.Replay(e)
			}
			return
		}
		for _, e := range path {
			s.Apply(e)
		}
	}

	seen := map[[16]byte]struct{}{}
	s0 := mkSys()
	s0.Reset()
	seen[hash16(s0.Canon())] = struct{}{}
	var static []string
	if _, ok := s0.(StaticMenu); ok {
		static = s0.Events()
	}
	s0.Close()
	pool := []mc.System{s0}
	for len(pool) < workers {
		pool = append(pool, mkSys())
	}
	frontier := [][]string{{}}
	res.States = 1

	// runLevel executes fn(system, task) for every task on the worker pool; a
	// task that does not return within HangTimeout is handed to onHang, its
	// goroutine is abandoned (it cannot be killed) and a fresh instance takes
	// over the worker slot.
	var aborted atomic.Bool
	runLevel := func(ntasks int, fn func(s mc.System, task int), onHang func(task int)) {
		next := make(chan int, 1024)
		done := make(chan struct{}, 4096)
		var live []*wstate
		var liveMu sync.Mutex
		var spawn func(slot int)
		spawn = func(slot int) {
			ws := &wstate{slot: slot}
			s := pool[slot]
			liveMu.Lock()
			live = append(live, ws)
			liveMu.Unlock()
			go func() {
				for t := range next {
					ws.mu.Lock()
					ws.task, ws.since, ws.busy = t, time.Now(), true
					ws.mu.Unlock()
					fn(s, t)
					ws.mu.Lock()
					if ws.abandoned {
						ws.mu.Unlock()
						return // a replacement has taken over this slot
					}
					ws.busy = false
					ws.mu.Unlock()
				}
				ws.mu.Lock()
				a := ws.abandoned
				ws.mu.Unlock()
				if !a {
					done <- struct{}{}
				}
			}()
		}
		for slot := range pool {
			spawn(slot)
		}
		go func() {
			for t := 0; t < ntasks; t++ {
				if t%16 == 0 && expired != nil && expired() {
					aborted.Store(true) // the rest of this level is not executed
					break
				}
				next <- t
			}
			close(next)
		}()
		finished := 0
		tick := time.NewTicker(time.Second)
		defer tick.Stop()
		for finished < len(pool) {
			select {
			case <-done:
				finished++
			case <-tick.C:
				liveMu.Lock()
				cur := append([]*wstate{}, live...)
				liveMu.Unlock()
				for _, ws := range cur {
					ws.mu.Lock()
					hung := !ws.abandoned && ws.busy && time.Since(ws.since) > HangTimeout
					if hung {
						ws.abandoned = true
					}
					task, slot := ws.task, ws.slot
					ws.mu.Unlock()
					if hung {
						dumpStacks()
						onHang(task)
						pool[slot] = mkSys()
						spawn(slot)
					}
				}
			}
		}
	}

	for depth := 0; depth < maxDepth && len(frontier) > 0; depth++ {
		if expired != nil && expired() {
			res.Complete = false
			break
		}
		// menus
		menus := make([][]string, len(frontier))
		if static != nil {
			for i := range menus {
				menus[i] = static
			}
		} else {
			var mu sync.Mutex
			runLevel(len(frontier), func(s mc.System, i int) {
				s.Reset()
				replay(s, frontier[i])
				m := s.Events()
				s.Close()
				mu.Lock()
				menus[i] = m
				mu.Unlock()
			}, func(i int) {})
		}
		// one task per transition
		type task struct{ i, k int }
		var tasks []task
		out := make([][]succ, len(frontier))
		for i := range frontier {
			out[i] = make([]succ, len(menus[i]))
			for k := range menus[i] {
				tasks = append(tasks, task{i, k})
			}
		}
		var outMu sync.Mutex
		runLevel(len(tasks), func(s mc.System, t int) {
			tk := tasks[t]
			ev := menus[tk.i][tk.k]
			s.Reset()
			replay(s, frontier[tk.i])
			v := s.Apply(ev)
			sc := succ{done: true}
			if v != "" {
				sc.viol = v
			} else {
				sc.canon = hash16(s.Canon())
				if so, ok := s.(Soft); ok {
					sc.soft = so.SoftViolations()
				}
			}
			s.Close()
			outMu.Lock()
			if !out[tk.i][tk.k].done {
				out[tk.i][tk.k] = sc
			}
			outMu.Unlock()
		}, func(t int) {
			tk := tasks[t]
			ev := menus[tk.i][tk.k]
			outMu.Lock()
			out[tk.i][tk.k] = succ{done: true, viol: Viol("hang:"+strings.SplitN(ev, ":", 2)[0],
				"event %s did not return within %v (deadlock or endless loop)", ev, HangTimeout)}
			outMu.Unlock()
		})

		var nf [][]string
		executed := 0
		for i, path := range frontier {
			for k, ev := range menus[i] {
				sc := out[i][k]
				if !sc.done {
					continue // level abandoned when the budget ran out
				}
				executed++
				res.Transitions++
				np := append(append(make([]string, 0, len(path)+1), path...), ev)
				if sc.viol != "" {
					onViolation(np, sc.viol)
					continue
				}
				for _, sv := range sc.soft {
					onViolation(np, sv)
				}
				_, known := seen[sc.canon]
				if !known {
					seen[sc.canon] = struct{}{}
					res.States++
				}
				if depth+1 <= unmerged || !known {
					nf = append(nf, np)
				}
			}
		}
		Levels = append(Levels, Level{Depth: depth + 1, Transitions: int64(executed), Planned: int64(len(tasks)), StatesSoFar: res.States, Frontier: len(nf)})
		if aborted.Load() {
			// violations found so far in this level have been reported; the level does
			// not count as covered
			res.Complete = false
			break
		}
		frontier = nf
		res.MaxDepth = depth + 1
		if len(nf) > 0 {
			// keep the first, middle and last path that was kept at this depth
			samples = [][]string{nf[0], nf[len(nf)/2], nf[len(nf)-1]}
		}
	}
	return res, samples
}

var dumpOnce sync.Once

// dumpStacks writes all goroutine stacks to a scratch file the first time a
// transition is declared hung (diagnostics only).
func dumpStacks() {
	dumpOnce.Do(func() {
		if f, err := os.Create(fmt.Sprintf("/tmp/verif-hang-%d.txt", os.Getpid())); err == nil {
			pprof.Lookup("goroutine").WriteTo(f, 2)
			f.Close()
		}
	})
}

func hash16(s string) (h [16]byte) {
	sum := sha256.Sum256([]byte(s))
	copy(h[:], sum[:16])
	return
}

// RunPBFS runs PBFS, records states/transitions and turns every violating
// path into r.Violate with the class computed by the system (three witnesses
// per class, shortest first), rechecked by re-executing the path.
func RunPBFS(r *mc.Run, config string, newSys func(worker int) mc.System, workers, unmerged, maxDepth int) mc.BFSResult {
	return RunPBFSBudget(r, config, newSys, workers, unmerged, maxDepth, r.Expired)
}

// RunPBFSBudget is RunPBFS with the caller's own budget test (which only ever
// stops the search early and marks the run as not exhaustive).
func RunPBFSBudget(r *mc.Run, config string, newSys func(worker int) mc.System, workers, unmerged, maxDepth int, expired func() bool) mc.BFSResult {
	var re mc.System
	perClass := map[string]int{}
	res, samples := PBFS(newSys, workers, unmerged, maxDepth, expired, func(path []string, v string) {
		class, msg := SplitViol(v)
		r.Add("violating_transitions", 1)
		perClass[class]++
		if perClass[class] > 3 {
			return
		}
		p := append([]string{}, path...)
		if re == nil {
			re = newSys(-1)
		}
		var hangMemo *bool
		r.Violate(class, fmt.Sprintf("%s (after %d events: %s)", msg, len(p), strings.Join(p, " ")),
			Witness{Config: config, Events: p},
			func() bool {
				if strings.HasPrefix(class, "hang:") {
					// re-executed once, on a throw-away instance, with the same deadline
					if hangMemo == nil {
						ch := make(chan string, 1)
						tmp := newSys(-2)
						go func() { v2, _ := ReplayPath(tmp, p); ch <- v2 }()
						ok := false
						select {
						case <-ch:
						case <-time.After(HangTimeout):
							ok = true
						}
						hangMemo = &ok
					}
					return *hangMemo
				}
				return hasClass(re, p, class)
			})
	})
	r.AddStates(res.States)
	r.AddTransitions(res.Transitions)
	r.Cases(res.Transitions)
	if !res.Complete {
		covered := res.MaxDepth
		if n := len(Levels); n > 0 && Levels[n-1].Transitions < Levels[n-1].Planned {
			covered = Levels[n-1].Depth - 1
		}
		r.NotExhaustive(fmt.Sprintf("%s: wall-clock budget reached; depth %d fully covered, announced depth %d", config, covered, maxDepth))
	}
	for _, p := range samples {
		r.Sample("history", Witness{Config: config, Events: p})
	}
	key := "levels"
	if config != "" {
		key += "_" + config
	}
	r.Set(key, append([]Level{}, Levels...))
	return res
}

// hasClass re-executes a path and reports whether its last event produces a
// (hard or soft) violation of the given class.
func hasClass(s mc.System, path []string, class string) bool {
	s.Reset()
	defer s.Close()
	for i, ev := range path {
		v := s.Apply(ev)
		if i < len(path)-1 {
			if v != "" {
				return false
			}
			continue
		}
		if c, _ := SplitViol(v); v != "" && c == class {
			return true
		}
		if so, ok := s.(Soft); ok {
			for _, sv := range so.SoftViolations() {
				if c, _ := SplitViol(sv); c == class {
					return true
				}
			}
		}
	}
	return false
}

// ReplayAll re-executes a path for --replay and returns every violation (hard
// or soft) with the index of the event that produced it; it stops at the first
// hard violation.
func ReplayAll(s mc.System, path []string) (viols []string, at []int) {
	s.Reset()
	defer s.Close()
	for i, ev := range path {
		v := s.Apply(ev)
		if v != "" {
			return append(viols, v), append(at, i)
		}
		if so, ok := s.(Soft); ok {
			for _, sv := range so.SoftViolations() {
				viols, at = append(viols, sv), append(at, i)
			}
		}
	}
	return
}

// Classes is a goroutine-safe set of (input class, outcome) names that is also
// forwarded to r.Distinct; Counts() goes into the evidence so that a reader can
// see which shapes were reached.
type Classes struct {
	mu sync.Mutex
	m  map[string]int64
	r  *mc.Run
}

func NewClasses(r *mc.Run) *Classes { return &Classes{m: map[string]int64{}, r: r} }

func (c *Classes) Hit(class string) {
	c.mu.Lock()
	n := c.m[class]
	c.m[class] = n + 1
	c.mu.Unlock()
	if n == 0 {
		c.r.Distinct(class)
	}
}

func (c *Classes) Counts() map[string]int64 {
	c.mu.Lock()
	defer c.mu.Unlock()
	out := make(map[string]int64, len(c.m))
	for k, v := range c.m {
		out[k] = v
	}
	return out
}
