// Package c30: mount write buffering preserves POSIX byte semantics.
//
// The real mount object (filesys.WFS, Dir.Create -> File + FileHandle, Write /
// Read / Flush / Release, File.Setattr for truncation) is driven without the
// kernel against the in-process mini cluster (real filer, real volume server,
// fake master).  Both dirty-page buffers (temp file, continuous in-memory) are
// put behind the same handle.  Every operation sequence of a bounded space is
// executed on a fresh file and compared with a POSIX byte model after every
// operation; after every flush the entry stored in the filer is resolved with
// the filer's own chunk logic and the chunk bytes are fetched from the volume
// server.
package c30

import (
	"bytes"
	"context"
	"fmt"
	"io"
	"math"
	"net/http"
	"os"
	"strconv"
	"strings"
	"sync"
	"time"

	"verif/checks/mountlib"
	"verif/cluster"
	"verif/mc"

	"github.com/chrislusf/seaweedfs/weed/filer"
	"github.com/chrislusf/seaweedfs/weed/filesys"
	"github.com/chrislusf/seaweedfs/weed/filesys/meta_cache"
	"github.com/chrislusf/seaweedfs/weed/pb/filer_pb"
	"github.com/seaweedfs/fuse"
)

const rule = "exhaustive operation sequences on a fresh file of the real mount (chunk size limit 8 B), for both dirty-page buffers: fixed family first = two separate dirty spans [o,o+l1), [0,l2) then a write starting exactly at l2 that runs into the older span, followed by nothing / flush / a write inside the overlap / both (70 histories); phase writes = every sequence of 1..3 writes over offsets 0..10 x lengths {1,3,8,12} (quick: third write over offsets {0,8}) x every placement of flushes between them; phase mixed = every sequence up to depth D over {write(off in {0,6,10} (quick {0,6}), len in {1,3,8,12}), flush, truncate(0,2,5,8,12), reopen}; after every operation: size (Attr) and three reads ([0,32), [5,9), [8,24)) against the POSIX byte model; after every flush and at the end (final flush): the entry read back from the filer, resolved with filer.ViewFromChunks and fetched from the volume server, against the model; states = distinct (model bytes, dirty-buffer kind, chunk layout) reached, transitions = operations executed; distinct = (buffer, operation class, outcome)"

func Main() {
	mc.Main("C30", "model_checking", rule, run)
}

const chunkLimit = 8

// ---- environment ------------------------------------------------------------------

type env struct {
	c     *cluster.Cluster
	f     *cluster.Filer
	wfs   *filesys.WFS
	root  *filesys.Dir
	cache string
	seq   int
	ctx   context.Context
}

var mountSeq int
var mountMu sync.Mutex

func newEnv() *env {
	e := &env{ctx: context.Background()}
	c, err := cluster.New(cluster.Options{VolumeServers: 1})
	if err != nil {
		mc.Fatal("cluster: %v", err)
	}
	e.c = c
	c.MustAddVolume(1, "", "000", "")
	f, err := c.StartFiler(cluster.FilerOptions{NoDeletionLoop: true})
	if err != nil {
		mc.Fatal("filer: %v", err)
	}
	e.f = f
	e.cache = mc.TempDir("c30")
	mapper, err := meta_cache.NewUidGidMapper("", "")
	if err != nil {
		mc.Fatal("uid mapper: %v", err)
	}
	mountMu.Lock()
	mountSeq++
	id := mountSeq
	mountMu.Unlock()
	opt := &filesys.Option{
		MountDirectory:     fmt.Sprintf("/mnt/verif-c30-%d-%d", os.Getpid(), id),
		FilerAddresses:     []string{f.Addr},
		FilerGrpcAddresses: []string{f.GrpcAddr},
		GrpcDialOption:     c.GrpcDialOption,
		FilerMountRootPath: fmt.Sprintf("/m%d", id),
		Replication:        "000",
		ChunkSizeLimit:     chunkLimit,
		CacheDir:           e.cache,
		CacheSizeMB:        0,
		Umask:              0,
		MountMode:          os.ModeDir | 0755,
		MountCtime:         time.Now(),
		MountMtime:         time.Now(),
		UidGidMapper:       mapper,
	}
	e.wfs = filesys.NewSeaweedFileSystem(opt)
	rootNode, _ := e.wfs.Root()
	e.root = rootNode.(*filesys.Dir)
	return e
}

func (e *env) close() {
	e.c.Close()
	os.RemoveAll(e.cache)
}

// ---- one open file ------------------------------------------------------------------

type openFile struct {
	e     *env
	kind  string
	name  string
	file  *filesys.File
	fh    *filesys.FileHandle
	model []byte
	nw    int // number of writes so far (selects the byte pattern)
}

func (e *env) create(kind string) (*openFile, error) {
	e.seq++
	o := &openFile{e: e, kind: kind, name: fmt.Sprintf("f%d", e.seq)}
	node, handle, err := e.root.Create(e.ctx, &fuse.CreateRequest{Name: o.name, Flags: fuse.OpenReadWrite | fuse.OpenCreate, Mode: 0644}, &fuse.CreateResponse{})
	if err != nil {
		return nil, err
	}
	o.file = node.(*filesys.File)
	o.fh = handle.(*filesys.FileHandle)
	filesys.SetDirtyPagesKindV(o.fh, kind)
	return o, nil
}

func (o *openFile) write(off, n int) error {
	data := make([]byte, n)
	for i := range data {
		data[i] = byte(0x10*(o.nw+1) + i) // never 0; identifies write and position
	}
	o.nw++
	resp := &fuse.WriteResponse{}
	if err := o.fh.Write(o.e.ctx, &fuse.WriteRequest{Offset: int64(off), Data: data}, resp); err != nil {
		return err
	}
	if resp.Size != n {
		return fmt.Errorf("short write %d of %d", resp.Size, n)
	}
	if len(o.model) < off+n {
		o.model = append(o.model, make([]byte, off+n-len(o.model))...)
	}
	copy(o.model[off:], data)
	return nil
}

func (o *openFile) truncate(n int) error {
	err := o.file.Setattr(o.e.ctx, &fuse.SetattrRequest{Valid: fuse.SetattrSize, Size: uint64(n)}, &fuse.SetattrResponse{})
	if n <= len(o.model) {
		o.model = o.model[:n:n]
	} else {
		o.model = append(o.model, make([]byte, n-len(o.model))...)
	}
	return err
}

func (o *openFile) flush() error {
	return o.fh.Flush(o.e.ctx, &fuse.FlushRequest{})
}

// reopen is what close() + open() do: FLUSH, RELEASE, OPEN.
func (o *openFile) reopen() error {
	if err := o.flush(); err != nil {
		return err
	}
	if err := o.fh.Release(o.e.ctx, &fuse.ReleaseRequest{}); err != nil {
		return err
	}
	h, err := o.file.Open(o.e.ctx, &fuse.OpenRequest{Flags: fuse.OpenReadWrite}, &fuse.OpenResponse{})
	if err != nil {
		return err
	}
	o.fh = h.(*filesys.FileHandle)
	filesys.SetDirtyPagesKindV(o.fh, o.kind)
	return nil
}

func (o *openFile) release() {
	o.fh.Release(o.e.ctx, &fuse.ReleaseRequest{})
}

func (o *openFile) read(off, n int) ([]byte, error) {
	resp := &fuse.ReadResponse{Data: make([]byte, 0, n)}
	err := o.fh.Read(o.e.ctx, &fuse.ReadRequest{Offset: int64(off), Size: n}, resp)
	return resp.Data, err
}

func (o *openFile) attrSize() (int, error) {
	var a fuse.Attr
	if err := o.file.Attr(o.e.ctx, &a); err != nil {
		return 0, err
	}
	return int(a.Size), nil
}

// stored reads the entry back from the filer and resolves it to bytes with the
// filer's own chunk logic; chunk bytes come from the volume server.
func (o *openFile) stored() (data []byte, chunks string, err error) {
	var entry *filer_pb.Entry
	err = o.e.f.WithClient(func(cl filer_pb.SeaweedFilerClient) error {
		resp, err := filer_pb.LookupEntry(cl, &filer_pb.LookupDirectoryEntryRequest{Directory: o.e.root.FullPath(), Name: o.name})
		if err != nil {
			return err
		}
		entry = resp.Entry
		return nil
	})
	if err != nil {
		return nil, "", fmt.Errorf("lookup stored entry: %v", err)
	}
	size := int(filer.FileSize(entry))
	data = make([]byte, size)
	copy(data, entry.Content)
	lookup := func(fileId string) ([]string, error) {
		return []string{o.e.c.Servers[0].HttpUrl(fileId)}, nil
	}
	views := filer.ViewFromChunks(lookup, entry.Chunks, 0, math.MaxInt64)
	var desc []string
	for _, c := range entry.Chunks {
		desc = append(desc, fmt.Sprintf("[%d,%d)", c.Offset, c.Offset+int64(c.Size)))
	}
	for _, v := range views {
		resp, err := http.Get(o.e.c.Servers[0].HttpUrl(v.FileId))
		if err != nil {
			return nil, "", err
		}
		b, _ := io.ReadAll(resp.Body)
		resp.Body.Close()
		if resp.StatusCode != 200 {
			return nil, "", fmt.Errorf("chunk %s: http %d", v.FileId, resp.StatusCode)
		}
		if v.Offset+int64(v.Size) > int64(len(b)) {
			return nil, "", fmt.Errorf("chunk %s has %d bytes, view wants [%d,%d)", v.FileId, len(b), v.Offset, v.Offset+int64(v.Size))
		}
		if v.LogicOffset+int64(v.Size) > int64(size) {
			return nil, "", fmt.Errorf("view [%d,%d) beyond file size %d", v.LogicOffset, v.LogicOffset+int64(v.Size), size)
		}
		copy(data[v.LogicOffset:], b[v.Offset:v.Offset+int64(v.Size)])
	}
	return data, strings.Join(desc, ""), nil
}

// ---- operations and cases -------------------------------------------------------------

// op strings: "w<off>+<len>", "f", "t<size>", "r" (reopen)
func parseOp(s string) (k byte, a, b int) {
	switch s[0] {
	case 'w':
		p := strings.Split(s[1:], "+")
		a, _ = strconv.Atoi(p[0])
		b, _ = strconv.Atoi(p[1])
	case 't':
		a, _ = strconv.Atoi(s[1:])
	}
	return s[0], a, b
}

type witness struct {
	Buffer string   `json:"buffer"`
	Reads  string   `json:"reads"` // "every": read after every operation; "end": read once after the last operation, and through a fresh handle after the final flush
	Ops    []string `json:"ops"`
}

var readModes = []string{"every", "end"}

type result struct {
	class, msg string
	at         int
}

// history features used to name violation classes narrowly; the shrink flags
// are taken from the real object's state at the time of the truncate
type features struct {
	flushedBefore    bool // some flush happened earlier
	shrunk           bool // a truncate made the file smaller
	shrinkWholeBelow bool // ... while the entry had a chunk lying wholly below the new size
	shrinkCutChunk   bool // ... while the entry had a chunk straddling the new size
	shrinkDirty      bool // ... while the dirty buffer held data beyond the new size
	extended         bool // a truncate grew the file
	bigWrite         bool // a write larger than the chunk size limit
	overlapWrite     bool // a write overlapping earlier written bytes
	reopened         bool
}

func (ft *features) trigger() string {
	switch {
	case ft.shrinkWholeBelow && ft.shrinkDirty:
		return "shrink-above-a-whole-chunk-and-below-dirty-data"
	case ft.shrinkWholeBelow:
		return "shrink-above-a-whole-chunk"
	case ft.shrinkDirty:
		return "shrink-below-dirty-data"
	case ft.shrinkCutChunk:
		return "shrink-cutting-a-chunk"
	case ft.shrunk:
		return "shrink"
	case ft.extended:
		return "extending-truncate"
	case ft.reopened:
		return "reopen"
	case ft.bigWrite && ft.overlapWrite:
		return "oversize-and-overlapping-writes"
	case ft.bigWrite:
		return "oversize-write"
	case ft.overlapWrite:
		return "overlapping-writes"
	}
	return "disjoint-writes"
}

var readShapes = [][2]int{{0, 32}, {5, 4}, {8, 16}}

// runCase executes one sequence on a fresh file.  It returns the first violation.
func (e *env) runCase(r *mc.Run, cl *mountlib.Classes, states *stateSet, kind, reads string, ops []string, count bool) (res *result) {
	at := -1
	defer func() {
		if p := recover(); p != nil {
			res = &result{class: kind + ":panic", msg: fmt.Sprintf("panic: %v", p), at: at}
		}
	}()
	o, err := e.create(kind)
	if err != nil {
		mc.Fatal("create: %v", err)
	}
	defer o.release()
	var ft features
	written := []bool{}                            // which bytes have ever been written
	all := append(append([]string{}, ops...), "f") // final flush
	if reads == "end" {
		all = append(all, "r") // and a look through a fresh handle
	}
	viewSig := "" // chunk list at the time the handle cached its chunk view
	chunkSig := func() string {
		var b strings.Builder
		if en := o.file.EntryV(); en != nil {
			for _, c := range en.Chunks {
				fmt.Fprintf(&b, "%s:%d:%d ", c.GetFileIdString(), c.Offset, c.Size)
			}
		}
		return b.String()
	}
	for i, s := range all {
		at = i
		k, a, b := parseOp(s)
		opClass := ""
		var opErr error
		switch k {
		case 'w':
			opClass = "write"
			if b > chunkLimit {
				ft.bigWrite = true
				opClass = "write-oversize"
			}
			for j := a; j < a+b; j++ {
				if j < len(written) && written[j] {
					ft.overlapWrite = true
				}
			}
			for len(written) < a+b {
				written = append(written, false)
			}
			for j := a; j < a+b; j++ {
				written[j] = true
			}
			opErr = o.write(a, b)
		case 't':
			switch {
			case a < len(o.model):
				opClass = "truncate-shrink"
				ft.shrunk = true
				if filesys.DirtyMaxStopV(o.fh, 64) > int64(a) {
					ft.shrinkDirty = true
				}
				if en := o.file.EntryV(); en != nil {
					for _, c := range en.Chunks {
						end := c.Offset + int64(c.Size)
						if end <= int64(a) {
							ft.shrinkWholeBelow = true
						} else if c.Offset < int64(a) {
							ft.shrinkCutChunk = true
						}
					}
				}
			case a > len(o.model):
				opClass = "truncate-extend"
				ft.extended = true
			default:
				opClass = "truncate-same"
			}
			if a < len(written) {
				written = written[:a]
			}
			opErr = o.truncate(a)
		case 'f':
			opClass = "flush"
			opErr = o.flush()
		case 'r':
			opClass = "reopen"
			ft.reopened = true
			opErr = o.reopen()
		default:
			mc.Fatal("bad op %q", s)
		}
		if opErr != nil {
			return &result{class: kind + ":" + opClass + "-fails:after-" + ft.trigger(), msg: fmt.Sprintf("%s returned %v", s, opErr), at: i}
		}
		filesys.WaitUploadsV(o.fh)
		if os.Getenv("C30_DEBUG") != "" {
			en := o.file.EntryV()
			fmt.Printf("DEBUG after %s: attrFileSize=%d chunks=%s model=% x\n", s, en.GetAttributes().GetFileSize(), chunkSig(), o.model)
		}
		if k == 'r' {
			viewSig = ""
		}
		if k == 'f' || k == 'r' {
			ft.flushedBefore = true
		}
		// reads
		doReads := reads == "every" || i == len(ops)-1 || i == len(all)-1
		stale := func() string {
			if filesys.HasViewCacheV(o.fh) && viewSig != chunkSig() {
				if ft.shrunk {
					return "stale-chunk-view-after-truncate"
				}
				return "stale-chunk-view-after-later-upload"
			}
			return ""
		}
		sz, err := o.attrSize()
		if err != nil {
			return &result{class: kind + ":attr-fails", msg: err.Error(), at: i}
		}
		outcome := "ok"
		if sz != len(o.model) {
			return &result{class: kind + ":size:after-" + ft.trigger(), at: i,
				msg: fmt.Sprintf("after %s the file size is %d, POSIX model has %d", s, sz, len(o.model))}
		}
		for _, sh := range readShapes {
			if !doReads {
				break
			}
			had := filesys.HasViewCacheV(o.fh)
			got, err := o.read(sh[0], sh[1])
			if !had && filesys.HasViewCacheV(o.fh) {
				viewSig = chunkSig()
			}
			if err != nil {
				return &result{class: kind + ":read-fails:after-" + ft.trigger(), msg: fmt.Sprintf("after %s read [%d,%d): %v", s, sh[0], sh[0]+sh[1], err), at: i}
			}
			want := []byte{}
			if sh[0] < len(o.model) {
				want = o.model[sh[0]:minInt(sh[0]+sh[1], len(o.model))]
			}
			vis := make([]byte, len(want)) // what the kernel shows: clamped to the size, short reads zero-filled
			copy(vis, got)
			if !bytes.Equal(vis, want) {
				if st := stale(); st != "" {
					return &result{class: kind + ":read:" + st, at: i,
						msg: fmt.Sprintf("after %s read [%d,%d) = % x, POSIX model % x (the handle's cached chunk view predates the current chunk list)", s, sh[0], sh[0]+sh[1], vis, want)}
				}
				return &result{class: kind + ":read:after-" + ft.trigger(), at: i,
					msg: fmt.Sprintf("after %s read [%d,%d) = % x, POSIX model % x", s, sh[0], sh[0]+sh[1], vis, want)}
			}
			if len(got) < len(want) {
				outcome = "ok-short-read-of-zeros"
			}
		}
		// stored chunks
		layout := ""
		if k == 'f' || k == 'r' {
			data, desc, err := o.stored()
			if err != nil {
				return &result{class: kind + ":stored-unreadable:after-" + ft.trigger(), msg: fmt.Sprintf("after %s: %v", s, err), at: i}
			}
			layout = desc
			if len(data) != len(o.model) {
				return &result{class: kind + ":stored:after-" + ft.trigger(), at: i,
					msg: fmt.Sprintf("after %s the stored entry (chunks %s) has size %d, POSIX model has %d", s, desc, len(data), len(o.model))}
			}
			if !bytes.Equal(data, o.model) {
				return &result{class: kind + ":stored:after-" + ft.trigger(), at: i,
					msg: fmt.Sprintf("after %s the stored chunks %s resolve to % x, POSIX model % x", s, desc, data, o.model)}
			}
		}
		if count {
			cl.Hit(kind + "|reads-" + reads + "|" + opClass + "|after-" + ft.trigger() + "|" + outcome)
			states.add(kind, o.model, layout)
			r.AddTransitions(1)
		}
	}
	return nil
}

func minInt(a, b int) int {
	if a < b {
		return a
	}
	return b
}

// stateSet counts distinct (buffer, model bytes normalised to write index, stored layout) states.
type stateSet struct {
	mu sync.Mutex
	m  map[string]struct{}
}

func (s *stateSet) add(kind string, model []byte, layout string) {
	k := kind + "|" + string(model) + "|" + layout
	s.mu.Lock()
	s.m[k] = struct{}{}
	s.mu.Unlock()
}

// ---- enumeration ------------------------------------------------------------------------

var kinds = []string{filesys.DirtyPagesTempFileV, filesys.DirtyPagesContinuousV}

func writeAlphabet(offsets, lens []int) []string {
	var out []string
	for _, l := range lens {
		for _, o := range offsets {
			out = append(out, fmt.Sprintf("w%d+%d", o, l))
		}
	}
	return out
}

func pickInts(r *mc.Run, q, t []int) []int {
	if r.Quick() {
		return q
	}
	return t
}

func rng(lo, hi int) []int {
	var out []int
	for i := lo; i <= hi; i++ {
		out = append(out, i)
	}
	return out
}

// eachSeq enumerates the operation sequences in a fixed order, shortest first.
// The quick tier is a subset of the thorough tier (sub-alphabets, lower depth).
func eachSeq(r *mc.Run, f func(ops []string) bool) {
	lens := []int{1, 3, 8, 12}
	full := writeAlphabet(rng(0, 10), lens)
	// phase writes: sequences of writes with every placement of flushes in between
	emit := func(alpha []string, minLen, maxLen int) bool {
		ok := true
		mc.Sequences(len(alpha), minLen, maxLen, func(seq []int) bool {
			for mask := 0; mask < 1<<uint(len(seq)-1); mask++ {
				var ops []string
				for i, x := range seq {
					ops = append(ops, alpha[x])
					if i < len(seq)-1 && mask&(1<<uint(i)) != 0 {
						ops = append(ops, "f")
					}
				}
				if !f(ops) {
					ok = false
					return false
				}
			}
			return true
		})
		return ok
	}
	mixed := writeAlphabet(pickInts(r, []int{0, 6}, []int{0, 6, 10}), lens)
	mixed = append(mixed, "f", "t0", "t2", "t5", "t8", "t12", "r")
	emitMixed := func(n int) bool {
		ok := true
		mc.Sequences(len(mixed), n, n, func(seq []int) bool {
			var ops []string
			for i, x := range seq {
				if i > 0 && mixed[x] == "f" && ops[i-1] == "f" {
					return true // flush directly after flush: the same as one flush
				}
				ops = append(ops, mixed[x])
			}
			if !f(ops) {
				ok = false
			}
			return ok
		})
		return ok
	}
	// fixed family, always first (so that no budget cuts it off): two separate
	// dirty spans, then a write that continues exactly at the end of the span added
	// last and runs into the OLDER span to its right; then nothing / a flush / one
	// more write inside the overlap / flush and that write.  Reads follow every
	// operation and the stored entry is checked after every flush.
	emitRunInto := func() bool {
		for _, o1 := range []int{2, 3, 4} {
			for _, l1 := range []int{1, 3} {
				for _, l2 := range []int{1, 3} {
					if l2 >= o1 {
						continue // the second span must stay apart from the first
					}
					for _, l3 := range []int{3, 8} {
						if l2+l3 <= o1 {
							continue // the third write must reach into the first span
						}
						w := []string{fmt.Sprintf("w%d+%d", o1, l1), fmt.Sprintf("w0+%d", l2), fmt.Sprintf("w%d+%d", l2, l3)}
						w4 := fmt.Sprintf("w%d+1", o1)
						for _, tail := range [][]string{nil, {"f"}, {w4}, {"f", w4}, {w4, "f", w4}} {
							if !f(append(append([]string{}, w...), tail...)) {
								return false
							}
						}
					}
				}
			}
		}
		return true
	}
	if !emitRunInto() {
		return
	}
	// shortest first across both phases
	third := full
	if r.Quick() {
		third = writeAlphabet([]int{0, 8}, lens)
	}
	_ = emit(full, 1, 1) && emitMixed(1) &&
		emit(full, 2, 2) && emitMixed(2) &&
		emitMixed(3) && emit(third, 3, 3) &&
		(r.Quick() || emitMixed(4))
}

func run(r *mc.Run) {
	if os.Getenv("VERIF_CHILD_PHASE") == "" {
		// worker processes leave through os.Exit inside r.Parallel (no deferred
		// cleanup); there the cluster package discards the log output
		defer mountlib.QuietGlog()()
	}
	cl := mountlib.NewClasses(r)
	states := &stateSet{m: map[string]struct{}{}}
	if r.Replay != "" {
		var w witness
		if err := r.ReplayCase(&w); err != nil {
			mc.Fatal("replay: %v", err)
		}
		e := newEnv()
		defer e.close()
		r.Cases(1)
		if res := e.runCase(r, cl, states, w.Buffer, w.Reads, w.Ops, true); res != nil {
			r.Violate(res.class, res.msg, w, nil)
		}
		return
	}
	const shards = 16
	start := time.Now()
	budget := mountlib.Budget(r, 50*time.Second, 11*time.Minute)
	r.Parallel("sequences", shards, func(shard, n int) {
		e := newEnv()
		defer e.close()
		perClass := map[string]int{}
		idx := 0
		one := func(kind, reads string, ops []string) *result {
			w := witness{Buffer: kind, Reads: reads, Ops: append([]string{}, ops...)}
			if !r.Begin(w) {
				return nil
			}
			r.Cases(1)
			res := e.runCase(r, cl, states, kind, reads, ops, true)
			if shard == 0 {
				r.Sample(fmt.Sprintf("sequence-of-%d", len(ops)), w)
			}
			if res == nil {
				return nil
			}
			r.Add("violating_cases", 1)
			perClass[res.class]++
			if perClass[res.class] <= 2 {
				r.Violate(res.class, fmt.Sprintf("%s (op %d of %s + final flush, %s buffer, reads=%s)", res.msg, res.at+1, strings.Join(ops, " "), kind, reads), w, func() bool {
					r2 := e.runCase(r, cl, states, kind, reads, ops, false)
					return r2 != nil && r2.class == res.class
				})
			}
			return res
		}
		eachSeq(r, func(ops []string) bool {
			idx++
			if idx%n != shard {
				return true
			}
			if idx%64 == shard && (time.Since(start) > budget || r.Expired()) {
				r.NotExhaustive(fmt.Sprintf("wall-clock budget reached in shard %d at sequence %d (%s); sequences are enumerated shortest first", shard, idx, strings.Join(ops, " ")))
				return false
			}
			for _, kind := range kinds {
				res := one(kind, "every", ops)
				if res != nil && strings.Contains(res.class, ":read:stale-chunk-view") {
					// the stale view hides everything after it: look behind it with reads only at the end
					one(kind, "end", ops)
				}
			}
			return true
		})
		r.AddStates(int64(len(states.m)))
		for k, v := range cl.Counts() {
			r.Add("n|"+k, v)
		}
	})
	r.Assume("reads are issued only when no chunk upload started by an earlier write is still in flight (filesys.WaitUploadsV); the window in which the continuous buffer has handed an interval to an upload goroutine and the chunk is not yet in the entry depends on goroutine timing and is not judged")
	r.Assume("FUSE kernel semantics applied to raw handler results: a read is clamped to the size reported by Attr and a short read is zero-filled up to that size")
	r.Assume("close() is modelled as FLUSH then RELEASE, as the kernel issues them; reopen = close + open")
	r.Assume("the filer runs without its background chunk deletion loop (NoDeletionLoop) so that reads do not depend on when garbage chunks disappear")
	r.Assume("states are counted per worker shard and summed (a state reached in two shards counts twice)")
}
