// Package c25: filer HTTP writes store exactly the request body.
//
// The real filer HTTP handler (PUT, POST multipart, ?op=append) is driven
// in-process against the mini cluster (fake master + one real volume server).
// The stored content is read back independently of the filer's read path: the
// entry is looked up over the gRPC service method and every chunk is fetched
// from the volume server and placed at its offset.
package c25

import (
	"bytes"
	"context"
	"errors"
	"fmt"
	"io"
	"mime/multipart"
	"net/http"
	"net/http/httptest"
	"net/textproto"
	"strings"

	"verif/cluster"
	"verif/mc"

	"github.com/chrislusf/seaweedfs/weed/pb/filer_pb"
)

const mib = 1 << 20

func Main() {
	mc.Main("C25", "fault_enumeration",
		"complete product of method (PUT, POST multipart; with Content-Length and, for sizes around the chunk size, without it, in-process and over loopback TCP) x inline limit (0, 512) x body size (0,1,511,512,513, 1MiB-1, 1MiB, 1MiB+1, 2MiB, 2MiB+1 at chunk size 1 MiB) for creates and overwrites; ?op=append of every size onto files created as inline / one chunk / several chunks, and a second append on top; every failure offset of the body from {0, 1, middle, chunk boundary -1/0/+1, last byte} x target (new file, overwrite, append); distinct = (operation, method, limit, size class, storage shape, status class, outcome)",
		run)
}

type w = map[string]interface{}

// Case is one request sequence: optional base file, then the request under test.
type Case struct {
	Limit    int    `json:"limit"`     // SaveToFilerLimit of the filer (0 or 512)
	Method   string `json:"method"`    // PUT | POST
	Op       string `json:"op"`        // create | overwrite | append | append2
	Base     int    `json:"base"`      // size of the file written first (-1 = none)
	BaseMeth string `json:"base_meth"` // method that wrote the base
	Mid      int    `json:"mid"`       // append2: size of the first append (-1 = none)
	Size     int    `json:"size"`      // declared size of the body under test
	Fail     int    `json:"fail"`      // the body's reader errors after this many bytes (-1 = never)
	Ext      string `json:"ext"`       // file name extension
	DirPost  bool   `json:"dir_post"`  // POST to the directory URL (name from the multipart file name)
	// Unsized: the request carries no Content-Length (Transfer-Encoding: chunked, as curl -T -,
	// a streaming Go client or the S3 gateway's proxy send it); the body is a plain io.Reader.
	Unsized bool `json:"unsized,omitempty"`
	// TCP: the request goes over loopback TCP to the filer's port (net/http then really
	// uses chunked encoding for an unsized body) instead of ServeHTTP.
	TCP bool `json:"tcp,omitempty"`
}

func sizeClass(n int) string {
	switch {
	case n < 0:
		return "none"
	case n == 0:
		return "0"
	case n < 512:
		return "<512"
	case n == 512:
		return "512"
	case n < mib:
		return "<1Mi"
	case n == mib:
		return "1Mi"
	case n < 2*mib:
		return "<2Mi"
	case n == 2*mib:
		return "2Mi"
	}
	return ">2Mi"
}

// pattern is position dependent (period 251*256) and depends on a salt, so that
// misplaced, duplicated or mixed-up bytes are visible.
func pattern(n int, salt byte) []byte {
	b := make([]byte, n)
	for i := range b {
		b[i] = byte(i%251) ^ byte(i>>8) ^ salt
	}
	return b
}

var sizes = []int{0, 1, 511, 512, 513, mib - 1, mib, mib + 1, 2 * mib, 2*mib + 1}

func cases(r *mc.Run) []Case {
	var out []Case
	limits := []int{0, 512}
	meths := []string{"PUT", "POST"}
	exts := []string{".bin"}
	if !r.Quick() {
		exts = append(exts, ".txt") // compressible name: the chunk upload path gzips
	}
	// creates
	for _, lim := range limits {
		for _, m := range meths {
			for _, ext := range exts {
				for _, s := range sizes {
					out = append(out, Case{Limit: lim, Method: m, Op: "create", Base: -1, Mid: -1, Size: s, Fail: -1, Ext: ext})
					if m == "POST" {
						out = append(out, Case{Limit: lim, Method: m, Op: "create", Base: -1, Mid: -1, Size: s, Fail: -1, Ext: ext, DirPost: true})
					}
				}
			}
		}
	}
	// overwrites: old content of each storage shape replaced by every size
	bases := []int{100, 600, mib + 1} // inline (at limit 512) | one chunk | two chunks
	osizes := sizes                   // sizes used on top of an existing file
	if r.Quick() {
		osizes = []int{0, 1, 512, 513, mib, mib + 1, 2*mib + 1}
	} else {
		bases = append(bases, 2*mib+1)
	}
	for _, lim := range limits {
		for _, m := range meths {
			for _, b := range bases {
				for _, s := range osizes {
					out = append(out, Case{Limit: lim, Method: m, Op: "overwrite", Base: b, BaseMeth: "PUT", Mid: -1, Size: s, Fail: -1, Ext: ".bin"})
				}
			}
		}
	}
	// appends onto files created by each path
	for _, lim := range limits {
		for _, m := range meths {
			for _, bm := range meths {
				if r.Quick() && bm != m {
					continue
				}
				for _, b := range append([]int{0}, bases...) {
					for _, s := range osizes {
						out = append(out, Case{Limit: lim, Method: m, Op: "append", Base: b, BaseMeth: bm, Mid: -1, Size: s, Fail: -1, Ext: ".bin"})
					}
				}
			}
			// append to a file that does not exist
			for _, s := range sizes {
				out = append(out, Case{Limit: lim, Method: m, Op: "append", Base: -1, Mid: -1, Size: s, Fail: -1, Ext: ".bin"})
			}
			// two appends in a row
			mids := []int{1, 513, mib, mib + 1}
			if r.Quick() {
				mids = []int{513, mib + 1}
			}
			for _, b := range []int{600, mib + 1} {
				for _, mid := range mids {
					for _, s := range []int{1, 512, mib + 1} {
						out = append(out, Case{Limit: lim, Method: m, Op: "append2", Base: b, BaseMeth: "PUT", Mid: mid, Size: s, Fail: -1, Ext: ".bin"})
					}
				}
			}
		}
	}
	// requests without Content-Length: PUT creates, overwrites and appends around the chunk size
	for _, lim := range limits {
		for _, sz := range []int{513, mib - 1, mib, mib + 1, 2 * mib, 2*mib + 1} {
			out = append(out, Case{Limit: lim, Method: "PUT", Op: "create", Base: -1, Mid: -1, Size: sz, Fail: -1, Ext: ".bin", Unsized: true})
			out = append(out, Case{Limit: lim, Method: "PUT", Op: "append", Base: 600, BaseMeth: "PUT", Mid: -1, Size: sz, Fail: -1, Ext: ".bin", Unsized: true})
			if !r.Quick() {
				out = append(out, Case{Limit: lim, Method: "PUT", Op: "overwrite", Base: mib + 1, BaseMeth: "PUT", Mid: -1, Size: sz, Fail: -1, Ext: ".bin", Unsized: true})
				out = append(out, Case{Limit: lim, Method: "POST", Op: "create", Base: -1, Mid: -1, Size: sz, Fail: -1, Ext: ".bin", Unsized: true})
			}
		}
	}
	// the same over real TCP (chunked transfer encoding on the wire)
	for _, sz := range []int{mib - 1, 2*mib + 1} {
		out = append(out, Case{Limit: 0, Method: "PUT", Op: "create", Base: -1, Mid: -1, Size: sz, Fail: -1, Ext: ".bin", Unsized: true, TCP: true})
		out = append(out, Case{Limit: 0, Method: "PUT", Op: "append", Base: 600, BaseMeth: "PUT", Mid: -1, Size: sz, Fail: -1, Ext: ".bin", Unsized: true, TCP: true})
	}
	// failing bodies
	for _, lim := range limits {
		for _, m := range meths {
			for _, op := range []string{"create", "overwrite", "append"} {
				fsizes := []int{300, 513, mib + 1, 2*mib + 1}
				if r.Quick() {
					fsizes = []int{300, mib + 1, 2*mib + 1}
				}
				for _, s := range fsizes {
					for _, f := range failOffsets(s) {
						base := -1
						if op != "create" {
							base = 600
						}
						out = append(out, Case{Limit: lim, Method: m, Op: op, Base: base, BaseMeth: "PUT", Mid: -1, Size: s, Fail: f, Ext: ".bin"})
						if op != "create" && !r.Quick() {
							out = append(out, Case{Limit: lim, Method: m, Op: op, Base: mib + 1, BaseMeth: "PUT", Mid: -1, Size: s, Fail: f, Ext: ".bin"})
						}
					}
				}
			}
		}
	}
	return out
}

func failOffsets(n int) []int {
	cand := []int{0, 1, n / 2, mib - 1, mib, mib + 1, 2*mib - 1, 2 * mib, n - 1}
	seen := map[int]bool{}
	var out []int
	for _, f := range cand {
		if f >= 0 && f < n && !seen[f] {
			seen[f] = true
			out = append(out, f)
		}
	}
	return out
}

func failClass(c Case) string {
	if c.Fail < 0 {
		return "nofail"
	}
	switch {
	case c.Fail == 0:
		return "fail@0"
	case c.Fail < mib:
		return "fail<chunk1"
	case c.Fail == mib:
		return "fail@chunk1"
	case c.Fail < 2*mib:
		return "fail<chunk2"
	case c.Fail == 2*mib:
		return "fail@chunk2"
	}
	return "fail>chunk2"
}

// ---- environment ------------------------------------------------------------------------------

type env struct {
	c      *cluster.Cluster
	filers map[int]*cluster.Filer
	seq    int
}

func newEnv() *env {
	c := cluster.MustNew(cluster.Options{VolumeServers: 1})
	c.MustAddVolume(1, "", "000", "")
	e := &env{c: c, filers: map[int]*cluster.Filer{}}
	for _, lim := range []int{0, 512} {
		e.filers[lim] = c.MustStartFiler(cluster.FilerOptions{MaxMB: 1, SaveToFilerLimit: int64(lim), NoDeletionLoop: true, NoAggregate: true})
	}
	return e
}

type failingReader struct {
	data []byte
	pos  int
	fail int // -1 never
}

var errBody = errors.New("verif: connection reset while reading the request body")

func (f *failingReader) Read(p []byte) (int, error) {
	limit := len(f.data)
	if f.fail >= 0 && f.fail < limit {
		limit = f.fail
	}
	if f.pos >= limit {
		if f.fail >= 0 {
			return 0, errBody
		}
		return 0, io.EOF
	}
	n := copy(p, f.data[f.pos:limit])
	f.pos += n
	return n, nil
}

// request sends one write through the real handler.  fail counts bytes of the file content.
func (e *env) request(lim int, method, url, name string, data []byte, fail int) (int, string) {
	return e.requestX(lim, method, url, name, data, fail, false, false)
}

// plainReader hides the concrete type so that net/http cannot learn the length.
type plainReader struct{ r io.Reader }

func (p plainReader) Read(b []byte) (int, error) { return p.r.Read(b) }

func (e *env) requestX(lim int, method, url, name string, data []byte, fail int, unsized, tcp bool) (int, string) {
	f := e.filers[lim]
	var body []byte
	ctype := "application/octet-stream"
	failAt := fail
	if method == "POST" {
		var buf bytes.Buffer
		mw := multipart.NewWriter(&buf)
		h := textproto.MIMEHeader{}
		h.Set("Content-Disposition", fmt.Sprintf(`form-data; name="file"; filename="%s"`, name))
		h.Set("Content-Type", "application/octet-stream")
		pw, _ := mw.CreatePart(h)
		hdr := buf.Len()
		pw.Write(data)
		mw.Close()
		body = buf.Bytes()
		ctype = mw.FormDataContentType()
		if fail >= 0 {
			failAt = hdr + fail
		}
	} else {
		body = data
	}
	if tcp {
		req, err := http.NewRequest(method, f.Url(url), plainReader{&failingReader{data: body, fail: failAt}})
		if err != nil {
			mc.Fatal("request: %v", err)
		}
		if !unsized {
			req.ContentLength = int64(len(body))
		}
		req.Header.Set("Content-Type", ctype)
		resp, err := http.DefaultClient.Do(req)
		if err != nil {
			return 0, "transport error: " + err.Error()
		}
		b, _ := io.ReadAll(resp.Body)
		resp.Body.Close()
		return resp.StatusCode, strings.TrimSpace(string(b))
	}
	req := httptest.NewRequest(method, url, nil)
	req.Body = io.NopCloser(plainReader{&failingReader{data: body, fail: failAt}})
	if unsized {
		req.ContentLength = -1
		req.TransferEncoding = []string{"chunked"}
		req.Header.Del("Content-Length")
	} else {
		req.ContentLength = int64(len(body))
		req.Header.Set("Content-Length", fmt.Sprint(len(body)))
	}
	req.Header.Set("Content-Type", ctype)
	rec := httptest.NewRecorder()
	f.Handler().ServeHTTP(rec, req)
	return rec.Code, strings.TrimSpace(rec.Body.String())
}

// stored reads the entry and assembles its content from the volume server.
// shape: absent | inline | chunks:N
func (e *env) stored(lim int, dir, name string) (content []byte, shape string, fileSize uint64, err error) {
	f := e.filers[lim]
	resp, lerr := f.Server.LookupDirectoryEntry(context.Background(), &filer_pb.LookupDirectoryEntryRequest{Directory: dir, Name: name})
	if lerr != nil || resp == nil || resp.Entry == nil {
		return nil, "absent", 0, nil
	}
	ent := resp.Entry
	if ent.Attributes != nil {
		fileSize = ent.Attributes.FileSize
	}
	if len(ent.Chunks) == 0 {
		if len(ent.Content) > 0 {
			return ent.Content, "inline", fileSize, nil
		}
		return nil, "empty", fileSize, nil
	}
	if len(ent.Content) > 0 {
		return nil, "", fileSize, fmt.Errorf("entry has both inline content and chunks")
	}
	var total int64
	for _, c := range ent.Chunks {
		if c.IsChunkManifest {
			return nil, "", fileSize, fmt.Errorf("unexpected manifest chunk")
		}
		if end := c.Offset + int64(c.Size); end > total {
			total = end
		}
	}
	buf := make([]byte, total)
	covered := make([]bool, total)
	for _, c := range ent.Chunks {
		r, gerr := http.Get(e.c.Servers[0].HttpUrl("/" + c.GetFileIdString()))
		if gerr != nil {
			return nil, "", fileSize, gerr
		}
		b, _ := io.ReadAll(r.Body)
		r.Body.Close()
		if r.StatusCode != 200 {
			return nil, "", fileSize, fmt.Errorf("chunk %s: status %d", c.GetFileIdString(), r.StatusCode)
		}
		if uint64(len(b)) != c.Size {
			return nil, "", fileSize, fmt.Errorf("chunk %s holds %d bytes, entry says %d", c.GetFileIdString(), len(b), c.Size)
		}
		for i := range b {
			if covered[c.Offset+int64(i)] {
				return nil, "", fileSize, fmt.Errorf("chunks overlap at offset %d", c.Offset+int64(i))
			}
			covered[c.Offset+int64(i)] = true
		}
		copy(buf[c.Offset:], b)
	}
	for i, ok := range covered {
		if !ok {
			return nil, "", fileSize, fmt.Errorf("hole at offset %d", i)
		}
	}
	return buf, fmt.Sprintf("chunks:%d", len(ent.Chunks)), fileSize, nil
}

func firstDiff(a, b []byte) int {
	n := len(a)
	if len(b) < n {
		n = len(b)
	}
	for i := 0; i < n; i++ {
		if a[i] != b[i] {
			return i
		}
	}
	if len(a) != len(b) {
		return n
	}
	return -1
}

func ok2xx(code int) bool { return code >= 200 && code < 300 }

// one executes a case; returns (coverage class, violation class, message).
func (e *env) one(c Case) (class, vclass, msg string) {
	e.seq++
	dir := fmt.Sprintf("/c25/n%d", e.seq)
	name := "f" + c.Ext
	url := dir + "/" + name
	var expect []byte // content the file must have if the request under test does not commit
	exists := false
	if c.Base >= 0 {
		base := pattern(c.Base, 0x11)
		code, body := e.request(c.Limit, c.BaseMeth, url, name, base, -1)
		if !ok2xx(code) {
			return "", "base-write-failed", fmt.Sprintf("writing the base file (%d bytes) answered %d %s", c.Base, code, body)
		}
		expect, exists = base, true
	}
	baseShape := "none"
	if exists {
		got, shape, _, err := e.stored(c.Limit, dir, name)
		if err != nil || firstDiff(got, expect) >= 0 {
			return "", "base-write-differs", fmt.Sprintf("base file of %d bytes reads back differently (shape %s, err %v, first difference at %d)", c.Base, shape, err, firstDiff(got, expect))
		}
		baseShape = shape
		if strings.HasPrefix(shape, "chunks:") && shape != "chunks:1" {
			baseShape = "chunks:n"
		}
	}
	if c.Op == "append2" {
		mid := pattern(c.Mid, 0x22)
		code, body := e.request(c.Limit, c.Method, url+"?op=append", name, mid, -1)
		if !ok2xx(code) {
			return "", "first-append-failed", fmt.Sprintf("first append of %d bytes answered %d %s", c.Mid, code, body)
		}
		expect = append(append([]byte{}, expect...), mid...)
	}
	data := pattern(c.Size, 0x33)
	target := url
	if c.DirPost {
		target = dir + "/"
	}
	if c.Op == "append" || c.Op == "append2" {
		target += "?op=append"
	}
	code, body := e.requestX(c.Limit, c.Method, target, name, data, c.Fail, c.Unsized, c.TCP)
	got, shape, fsize, err := e.stored(c.Limit, dir, name)
	shapeC := shape
	if strings.HasPrefix(shape, "chunks:") && shape != "chunks:1" {
		shapeC = "chunks:n"
	}
	how := ""
	if c.Unsized {
		how = "|unsized"
	}
	if c.TCP {
		how += "|tcp"
	}
	class = fmt.Sprintf("%s|%s%s|limit=%d|base=%s|size=%s|%s|status=%d|stored=%s", c.Op, c.Method, how, c.Limit, baseShape, sizeClass(c.Size), failClass(c), code, shapeC)
	if err != nil {
		return class, "stored-entry-unreadable:" + c.Op + ":" + c.Method, fmt.Sprintf("after %s %s (%d bytes, status %d): %v", c.Method, target, c.Size, code, err)
	}
	if c.Fail >= 0 {
		// the body failed part-way: must be reported as failed, and nothing committed
		unchanged := (exists && shape != "absent" && firstDiff(got, expect) < 0) || (!exists && shape == "absent")
		if !unchanged || ok2xx(code) {
			what := "new"
			if c.Op != "create" {
				what = c.Op
			}
			return class, fmt.Sprintf("truncated-body-committed:%s:%s", c.Method, what),
				fmt.Sprintf("%s %s with a %d-byte body whose reader fails after %d bytes answered %d %s; the entry now holds %d bytes (shape %s); before the request: %s", c.Method, target, c.Size, c.Fail, code, body, len(got), shape, describe(exists, expect))
		}
		return class, "", ""
	}
	// complete body
	want := data
	if c.Op == "append" || c.Op == "append2" {
		want = append(append([]byte{}, expect...), data...)
	}
	if !ok2xx(code) {
		// a refused write must leave the file as it was
		unchanged := (exists && shape != "absent" && firstDiff(got, expect) < 0) || (!exists && shape == "absent")
		if (c.Op == "append" || c.Op == "append2") && baseShape == "inline" && unchanged {
			// documented limitation ("append to small file is not supported yet"): refused, nothing changed
			return class + "|append-to-inline-refused", "", ""
		}
		return class, fmt.Sprintf("complete-body-refused:%s:%s:base=%s", c.Method, c.Op, baseShape), fmt.Sprintf("%s %s with a complete %d-byte body answered %d %s (file unchanged: %v)", c.Method, target, c.Size, code, body, unchanged)
	}
	if d := firstDiff(got, want); d >= 0 {
		sym := "stored-content-differs"
		if c.Op == "append" || c.Op == "append2" {
			sym = "append-misplaced"
		}
		if c.Unsized {
			sym += "-without-content-length"
		}
		return class, fmt.Sprintf("%s:%s:%s:base=%s:size=%s", sym, c.Method, c.Op, baseShape, sizeClass(c.Size)),
			fmt.Sprintf("%s %s stored %d bytes (shape %s), expected %d; first difference at offset %d", c.Method, target, len(got), shape, len(want), d)
	}
	if fsize != uint64(len(want)) {
		return class, fmt.Sprintf("file-size-attribute-wrong:%s:%s:base=%s", c.Method, c.Op, baseShape), fmt.Sprintf("%s %s: content is %d bytes but the entry's FileSize says %d (the next append is placed there)", c.Method, target, len(want), fsize)
	}
	return class, "", ""
}

func describe(exists bool, b []byte) string {
	if !exists {
		return "absent"
	}
	return fmt.Sprintf("%d bytes", len(b))
}

func run(r *mc.Run) {
	mc.QuietGlog()
	r.Assume("one real volume server and a fake master (verif/cluster); the filer is the real FilerServer HTTP handler called through ServeHTTP without TCP; a failing body is an io.Reader that returns an error after f bytes (what a connection reset gives the handler)")
	r.Assume("chunk size is 1 MiB (maxMB=1, the smallest the flag allows), SaveToFilerLimit is 0 or 512")
	if r.Replay != "" {
		var c Case
		if err := r.ReplayCase(&c); err != nil {
			mc.Fatal("replay: %v", err)
		}
		e := newEnv()
		defer e.c.Close()
		cls, v, msg := e.one(c)
		fmt.Printf("replayed %+v: class=%s verdict=%q %s\n", c, cls, v, msg)
		if v != "" {
			r.Violate(v, msg, c, nil)
		}
		return
	}
	cs := cases(r)
	r.Set("cases_enumerated", len(cs))
	r.Set("body_sizes", sizes)
	r.Parallel("cases", 8, func(shard, n int) {
		e := newEnv()
		defer e.c.Close()
		for i := shard; i < len(cs); i += n {
			c := cs[i]
			if !r.Begin(c) {
				continue
			}
			cls, v, msg := e.one(c)
			if cls != "" {
				r.Case(cls)
			} else {
				r.Case("infra|" + v)
			}
			if v != "" {
				c2 := c
				r.Violate(v, msg, c2, func() bool {
					_, v2, _ := e.one(c2)
					return v2 == v
				})
			}
			if i < 3*n {
				r.Sample("case", c)
			}
		}
	})
}
