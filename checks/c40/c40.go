// Package c40: replicated writes leave every replica with the same blob.
//
// Real code driven: PostHandler / DeleteHandler -> topology.ReplicatedWrite /
// ReplicatedDelete / distributedOperation -> operation.UploadData / util.Delete
// to the other replicas, on 2 or 3 real in-process volume servers (volume
// replication 001 and 002).  The fake master answers the primary's lookup with
// the primary's own address plus, for every other replica, the address of a
// tiny reverse proxy in front of that replica.  The proxy injects the faults.
//
// Space: (A) no faults: name x mime x body x pairs x ttl x ts (4x4x5x2x2x2 = 640
// uploads), each followed by an overwrite with other content and a delete, on
// both layouts; (B) fault vectors: for a few upload shapes and each operation
// {upload, overwrite, delete}, every assignment of a fault mode to every
// replica, where a mode is a script over the successive forwarded requests
// (the primary retries a failed forward up to 3 times): ok | 500,ok | 500,500,ok
// | 500x3 | applied-then-500,ok | replica down (connection refused, listener
// really closed) for uploads, {ok, 500, down} for deletes.
//
// Oracle (from the statement): if the primary answered success, every replica,
// read straight from its store, holds the same decoded content, name, mime,
// pairs, last-modified and TTL, or every replica holds the deletion.  A reported
// failure is recorded, not judged.
package c40

import (
	"bytes"
	"compress/gzip"
	"crypto/sha256"
	"fmt"
	"io"
	"mime"
	"net"
	"net/http"
	"net/http/httputil"
	"net/url"
	"path"
	"sort"
	"strings"
	"sync"
	"time"

	"verif/checks/vhutil"
	"verif/cluster"
	"verif/mc"

	"github.com/chrislusf/seaweedfs/weed/operation"
	"github.com/chrislusf/seaweedfs/weed/storage/needle"
)

func Main() {
	mc.Main("C40", "fault_enumeration",
		"no-fault product name x mime x body x pairs x ttl x ts (640 uploads, each then overwritten and deleted) on replication 001 and 002; fault vectors: every assignment of a per-replica fault script (ok, 500 then ok, 500x2 then ok, 500x3, applied-then-500, replica down) to every replica for upload / overwrite / delete of selected shapes; replicas read from their stores",
		run)
}

type w = map[string]interface{}

// ---- fault proxy -------------------------------------------------------------------

type proxy struct {
	target string // real replica "host:port"
	addr   string
	mu     sync.Mutex
	script []string // consumed per forwarded request; empty = ok
	seen   int
	ln     net.Listener
	srv    *http.Server
	rp     *httputil.ReverseProxy
}

func newProxy(target string) *proxy {
	l, l2, port, err := cluster.AllocPortPair()
	if err != nil {
		mc.Fatal("c40: %v", err)
	}
	l2.Close()
	u, _ := url.Parse("http://" + target)
	p := &proxy{target: target, addr: fmt.Sprintf("%s:%d", cluster.Host, port), rp: httputil.NewSingleHostReverseProxy(u)}
	p.serve(l)
	return p
}

func (p *proxy) serve(l net.Listener) {
	p.ln = l
	p.srv = &http.Server{Handler: http.HandlerFunc(p.handle)}
	go p.srv.Serve(l)
}

func (p *proxy) handle(rw http.ResponseWriter, r *http.Request) {
	p.mu.Lock()
	mode := "ok"
	if len(p.script) > 0 {
		mode, p.script = p.script[0], p.script[1:]
	}
	p.seen++
	p.mu.Unlock()
	switch mode {
	case "500":
		io.Copy(io.Discard, r.Body)
		rw.Header().Set("Content-Type", "application/json")
		rw.WriteHeader(500)
		rw.Write([]byte(`{"error":"injected fault"}`))
	case "applied-500":
		rec := &discardWriter{h: http.Header{}}
		p.rp.ServeHTTP(rec, r)
		rw.Header().Set("Content-Type", "application/json")
		rw.WriteHeader(500)
		rw.Write([]byte(`{"error":"injected fault after applying"}`))
	default:
		p.rp.ServeHTTP(rw, r)
	}
}

type discardWriter struct{ h http.Header }

func (d *discardWriter) Header() http.Header         { return d.h }
func (d *discardWriter) Write(b []byte) (int, error) { return len(b), nil }
func (d *discardWriter) WriteHeader(int)             {}

// down closes the listener (connections are refused); up listens again on the same port.
func (p *proxy) down() { p.srv.Close() }
func (p *proxy) up() {
	var l net.Listener
	var err error
	for i := 0; i < 200; i++ {
		if l, err = net.Listen("tcp", p.addr); err == nil {
			p.serve(l)
			return
		}
		time.Sleep(5 * time.Millisecond)
	}
	mc.Fatal("c40: cannot re-listen on %s: %v", p.addr, err)
}

func (p *proxy) set(script []string) {
	p.mu.Lock()
	p.script = append([]string{}, script...)
	p.seen = 0
	p.mu.Unlock()
}

// ---- environment ---------------------------------------------------------------------

type layout struct {
	Name        string
	Replication string
	Servers     int
	Vid         uint32
}

var layouts = []layout{{"001", "001", 2, 1}, {"002", "002", 3, 2}}

type env struct {
	c       *cluster.Cluster
	lay     layout
	proxies []*proxy // for servers 1..n-1
	nextKey uint64
	kept    map[string]int
}

func newEnv(lay layout) *env {
	c := cluster.MustNew(cluster.Options{VolumeServers: lay.Servers})
	var idx []int
	for i := 0; i < lay.Servers; i++ {
		idx = append(idx, i)
	}
	c.MustAddVolume(lay.Vid, "", lay.Replication, "", idx...)
	e := &env{c: c, lay: lay, nextKey: 1, kept: map[string]int{}}
	urls := []string{c.Servers[0].Url()}
	for i := 1; i < lay.Servers; i++ {
		p := newProxy(c.Servers[i].Url())
		e.proxies = append(e.proxies, p)
		urls = append(urls, p.addr)
	}
	c.Master.SetLocations(lay.Vid, urls...)
	return e
}

func (e *env) close() {
	for _, p := range e.proxies {
		p.srv.Close()
	}
	e.c.Close()
}

// ---- uploads ----------------------------------------------------------------------------

type upload struct {
	Name  string `json:"name"`
	Mime  string `json:"mime"`
	Body  string `json:"body"` // empty | text10 | text20k | random20k | pregz
	Pairs bool   `json:"pairs"`
	Ttl   string `json:"ttl"`
	Ts    bool   `json:"ts"`
}

var (
	names  = []string{"", "a.txt", "a.jpg", "a.gz"}
	mimesL = []string{"", "text/plain", "image/jpeg", "application/octet-stream"}
	bodies = []string{"empty", "text10", "text20k", "random20k", "pregz"}
)

func pseudo(n int, seed string) []byte {
	out := make([]byte, 0, n+32)
	h := sha256.Sum256([]byte(seed))
	for len(out) < n {
		out = append(out, h[:]...)
		h = sha256.Sum256(h[:])
	}
	return out[:n]
}

func gz(b []byte) []byte {
	var buf bytes.Buffer
	zw := gzip.NewWriter(&buf)
	zw.Write(b)
	zw.Close()
	return buf.Bytes()
}

// body returns the bytes sent, whether they are sent with Content-Encoding: gzip, and the decoded content.
func body(kind string, variant int) (sent []byte, gzipped bool, decoded []byte) {
	tag := []byte(fmt.Sprintf("v%d ", variant))
	switch kind {
	case "empty":
		return []byte{}, false, []byte{}
	case "text10":
		d := append(tag, []byte("hello wo")...)[:10]
		return d, false, d
	case "text20k":
		d := append(tag, bytes.Repeat([]byte("all work and no play makes jack a dull boy\n"), 480)...)[:20*1024]
		return d, false, d
	case "random20k":
		d := pseudo(20*1024, fmt.Sprintf("r%d", variant))
		return d, false, d
	case "pregz":
		d := append(tag, bytes.Repeat([]byte("pre-compressed content "), 100)...)
		return gz(d), true, d
	}
	mc.Fatal("body kind %q", kind)
	return
}

type replicaState struct {
	Found        bool
	Decoded      string // sha256 of decoded content + length
	Name         string
	Mime         string
	Pairs        string
	LastModified uint64
	Ttl          string
	raw          vhutil.NeedleSnap
}

func (e *env) read(server int, key uint64) replicaState {
	sn := vhutil.Snap(e.c.Servers[server].Store, e.lay.Vid, key)
	if !sn.Found {
		return replicaState{}
	}
	data := []byte(sn.Data)
	n := needle.Needle{Flags: sn.Flags}
	if n.IsCompressed() {
		zr, err := gzip.NewReader(bytes.NewReader(data))
		if err == nil {
			if d, err := io.ReadAll(zr); err == nil {
				data = d
			}
		}
	}
	h := sha256.Sum256(data)
	return replicaState{Found: true, Decoded: fmt.Sprintf("%x/%d", h[:6], len(data)), Name: sn.Name, Mime: sn.Mime, Pairs: sn.Pairs,
		LastModified: sn.LastModified, Ttl: sn.Ttl, raw: sn}
}

func (e *env) doUpload(key uint64, u upload, variant int) vhutil.Resp {
	sent, gzipped, _ := body(u.Body, variant)
	part := vhutil.Part{FileName: u.Name, Mime: u.Mime, Data: sent}
	if gzipped {
		part.ContentEncoding = "gzip"
	}
	b, ct := vhutil.Multipart(part)
	hdr := map[string]string{}
	if u.Pairs {
		hdr["Seaweed-Color"] = "blue"
	}
	var q []string
	if u.Ttl != "" {
		q = append(q, "ttl="+u.Ttl)
	}
	if u.Ts {
		q = append(q, fmt.Sprintf("ts=%d", 1600000000+variant))
	}
	url := e.c.Servers[0].HttpUrl(cluster.Fid(e.lay.Vid, key, cookie))
	if len(q) > 0 {
		url += "?" + strings.Join(q, "&")
	}
	return vhutil.Do("POST", url, hdr, b, ct)
}

// doClientUpload uploads through operation.UploadData (its 3-attempt retry loop included).
func (e *env) doClientUpload(key uint64, u upload, variant int) error {
	sent, gzipped, _ := body(u.Body, variant)
	pairs := map[string]string{}
	if u.Pairs {
		pairs["Seaweed-Color"] = "blue"
	}
	var q []string
	if u.Ttl != "" {
		q = append(q, "ttl="+u.Ttl)
	}
	if u.Ts {
		q = append(q, fmt.Sprintf("ts=%d", 1600000000+variant))
	}
	url := e.c.Servers[0].HttpUrl(cluster.Fid(e.lay.Vid, key, cookie))
	if len(q) > 0 {
		url += "?" + strings.Join(q, "&")
	}
	_, err := operation.UploadData(url, u.Name, false, sent, gzipped, u.Mime, pairs, "")
	return err
}

// runRetry executes a two-step history: an upload whose replication fails, then
// the identical upload again; the SECOND answer is judged.
func runRetry(r *mc.Run, e *env, k kase, recheck bool) (classes map[string]bool) {
	classes = map[string]bool{}
	key := e.nextKey
	e.nextKey++
	modes := k.Faults[0]
	overwrite := strings.HasSuffix(k.Retry, "overwrite")
	client := strings.HasPrefix(k.Retry, "client-")
	variant := 1
	if overwrite {
		if resp := e.doUpload(key, k.Upload, 1); resp.Err != nil || resp.Status/100 != 2 {
			mc.Fatal("c40: preparing v1 for %+v: %v %d %s", k, resp.Err, resp.Status, trunc(resp.Body))
		}
		if f, _, _ := e.compare(key); f != "" && f != "mime" {
			mc.Fatal("c40: v1 not on every replica (%s) for %+v", f, k)
		}
		variant = 2
	}
	ms := append([]string{}, modes...)
	sort.Strings(ms)
	fm := strings.Join(ms, "+")
	firstStatus, status := "-", "err"
	ok := false
	if client {
		for pi, p := range e.proxies {
			p.set(clientModes[modes[pi]])
		}
		err := e.doClientUpload(key, k.Upload, variant)
		ok = err == nil
		if ok {
			status = "ok"
		}
		for _, p := range e.proxies {
			p.set(nil)
		}
	} else {
		var downed []*proxy
		for pi, p := range e.proxies {
			p.set(uploadModes[modes[pi]])
			if modes[pi] == "down" {
				p.down()
				downed = append(downed, p)
			}
		}
		first := e.doUpload(key, k.Upload, variant)
		for _, p := range downed {
			p.up()
		}
		for _, p := range e.proxies {
			p.set(nil)
		}
		firstStatus = "err"
		if first.Err == nil {
			firstStatus = fmt.Sprint(first.Status)
		}
		second := e.doUpload(key, k.Upload, variant) // the identical request, every replica healthy
		ok = second.Err == nil && second.Status/100 == 2
		if second.Err == nil {
			status = fmt.Sprint(second.Status)
		}
	}
	field, detail, _ := e.compare(key)
	outcome := "consistent"
	if field != "" {
		outcome = "differ:" + field
	}
	if !recheck {
		r.Case(fmt.Sprintf("%s|retry:%s|%s|first=%s|second=%s|%s", k.Layout, k.Retry, fm, firstStatus, status, outcome))
		r.Add(fmt.Sprintf("retry:%s %s %s -> first=%s second=%s %s", k.Layout, k.Retry, fm, firstStatus, status, outcome), 1)
	}
	if !ok || field == "" {
		return // a reported failure is not judged
	}
	// one family per differing field: the repeat of an upload whose replication failed,
	// with or without a client-supplied timestamp (which decides last-modified)
	feat := "client-ts=none"
	if k.Upload.Ts {
		feat = "client-ts=given"
	}
	if field == "mime" {
		feat += ":sent-mime=" + mimeClass(k.Upload.Mime)
	}
	class := fmt.Sprintf("replicas-differ:%s:repeat-of-failed-upload:%s", field, feat)
	classes[class] = true
	if !recheck && e.kept[class] < 3 {
		e.kept[class]++
		r.Violate(class, fmt.Sprintf("layout %s, %s history for %+v: the first attempt under faults %v answered %s, the identical repeat answered %s (success) but replicas differ in %s: %s",
			k.Layout, k.Retry, k.Upload, modes, firstStatus, status, field, detail), k, func() bool {
			return runRetry(r, e, k, true)[class]
		})
	} else if !recheck {
		r.Add("violating_cases_not_kept", 1)
	}
	return
}

func (e *env) doDelete(key uint64) vhutil.Resp {
	return vhutil.Do("DELETE", e.c.Servers[0].HttpUrl(cluster.Fid(e.lay.Vid, key, cookie)), nil, nil, "")
}

const cookie = 0x40c0ffee

// compare returns "" or the first differing field between replicas.
func (e *env) compare(key uint64) (field, detail string, states []replicaState) {
	for i := 0; i < e.lay.Servers; i++ {
		states = append(states, e.read(i, key))
	}
	a := states[0]
	for i := 1; i < len(states); i++ {
		b := states[i]
		switch {
		case a.Found != b.Found:
			return "presence", fmt.Sprintf("server0 found=%v server%d found=%v", a.Found, i, b.Found), states
		case !a.Found:
			continue
		case a.Decoded != b.Decoded:
			return "content", fmt.Sprintf("server0 %s server%d %s", a.Decoded, i, b.Decoded), states
		case a.Name != b.Name:
			return "name", fmt.Sprintf("server0 %q server%d %q", a.Name, i, b.Name), states
		case a.Mime != b.Mime:
			return "mime", fmt.Sprintf("server0 %q server%d %q", a.Mime, i, b.Mime), states
		case a.Pairs != b.Pairs:
			return "pairs", fmt.Sprintf("server0 %q server%d %q", a.Pairs, i, b.Pairs), states
		case a.LastModified != b.LastModified:
			return "last-modified", fmt.Sprintf("server0 %d server%d %d", a.LastModified, i, b.LastModified), states
		case a.Ttl != b.Ttl:
			return "ttl", fmt.Sprintf("server0 %q server%d %q", a.Ttl, i, b.Ttl), states
		}
	}
	return "", "", states
}

// ---- cases ----------------------------------------------------------------------------------

type kase struct {
	Layout string     `json:"layout"`
	Upload upload     `json:"upload"`
	Faults [][]string `json:"faults,omitempty"` // per op (upload, overwrite, delete) x per replica: mode name
	// Retry selects a two-step history instead of upload/overwrite/delete: an
	// upload that fails under Faults[0], then the identical upload repeated.
	// "fresh" | "overwrite" (v1 stored everywhere first, v2 fails, v2 repeated) with
	// a plain HTTP client and healthy replicas on the repeat; "client-fresh" |
	// "client-overwrite": one operation.UploadData call whose own retry loop is the
	// repeat (Faults[0] are scripts that fail the first forwarded requests).
	Retry string `json:"retry,omitempty"`
}

var uploadModes = map[string][]string{
	"ok":             nil,
	"500-ok":         {"500"},
	"500-500-ok":     {"500", "500"},
	"500x3":          {"500", "500", "500"},
	"applied500-ok":  {"applied-500"},
	"applied500-500": {"applied-500", "500", "500"},
	"down":           nil,
}

// scripts for the client-retry histories: the primary forwards up to 3 times per
// client attempt, so 3 failures = the client's first attempt fails, 6 = the first two
var clientModes = map[string][]string{
	"ok":       nil,
	"500x3-ok": {"500", "500", "500"},
	"500x6-ok": {"500", "500", "500", "500", "500", "500"},
}

var uploadModeNames = []string{"ok", "500-ok", "500-500-ok", "500x3", "applied500-ok", "applied500-500", "down"}
var deleteModeNames = []string{"ok", "500", "applied500", "down"}
var deleteModes = map[string][]string{"ok": nil, "500": {"500"}, "applied500": {"applied-500"}, "down": nil}

func mimeClass(m string) string {
	switch m {
	case "":
		return "none"
	case "application/octet-stream":
		return "octet-stream"
	}
	return "given"
}

func extClass(n string) string {
	if n == "" {
		return "noname"
	}
	if i := strings.LastIndex(n, "."); i >= 0 {
		return "name" + n[i:]
	}
	return "name-noext"
}

// runCase executes upload, overwrite, delete (with the fault modes, if any) and judges each reported success.
func runCase(r *mc.Run, e *env, k kase, recheck bool) (classes map[string]bool) {
	if k.Retry != "" {
		return runRetry(r, e, k, recheck)
	}
	classes = map[string]bool{}
	key := e.nextKey
	e.nextKey++
	ops := []string{"upload", "overwrite", "delete"}
	for oi, op := range ops {
		// install the faults of this operation
		var modes []string
		if len(k.Faults) > oi {
			modes = k.Faults[oi]
		}
		var downed []*proxy
		for pi, p := range e.proxies {
			m := "ok"
			if pi < len(modes) {
				m = modes[pi]
			}
			if op == "delete" {
				p.set(deleteModes[m])
			} else {
				p.set(uploadModes[m])
			}
			if m == "down" {
				p.down()
				downed = append(downed, p)
			}
		}
		var resp vhutil.Resp
		switch op {
		case "upload":
			resp = e.doUpload(key, k.Upload, 1)
		case "overwrite":
			u2 := k.Upload
			resp = e.doUpload(key, u2, 2)
		case "delete":
			resp = e.doDelete(key)
		}
		for _, p := range downed {
			p.up()
		}
		for _, p := range e.proxies {
			p.set(nil)
		}
		ok := resp.Err == nil && resp.Status >= 200 && resp.Status < 300
		status := "err"
		if resp.Err == nil {
			status = fmt.Sprint(resp.Status)
		}
		fm := "nofault"
		if len(modes) > 0 {
			ms := append([]string{}, modes...)
			sort.Strings(ms)
			fm = strings.Join(ms, "+")
		}
		field, detail, states := e.compare(key)
		outcome := "consistent"
		if field != "" {
			outcome = "differ:" + field
		}
		if !recheck {
			r.Case(fmt.Sprintf("%s|%s|%s|status=%s|%s", k.Layout, op, fm, status, outcome))
			if len(modes) > 0 && fm != strings.Repeat("ok+", len(modes)-1)+"ok" {
				r.Add(fmt.Sprintf("fault:%s %s %s -> status=%s %s", k.Layout, op, fm, status, outcome), 1)
			}
		}
		if !ok {
			if len(modes) == 0 {
				// without faults every operation of the scenario is expected to work; otherwise the scenario is vacuous
				class := fmt.Sprintf("no-fault-%s-failed:%s:%s", op, k.Upload.Body, mimeClass(k.Upload.Mime))
				if !recheck {
					r.Violate(class, fmt.Sprintf("%s answered %s %q without any fault", op, status, trunc(resp.Body)), k, nil)
				}
				classes[class] = true
			}
			continue // a reported failure is not judged
		}
		if field == "" {
			// Success and identical replicas.  (Whether the identical state is the expected
			// one -- e.g. a delete that leaves the blob everywhere -- is C01's business; the
			// outcome is only recorded.)
			want := op != "delete"
			if states[0].Found != want && !recheck {
				r.Distinct(fmt.Sprintf("%s|%s|success-without-effect|body=%s", k.Layout, op, k.Upload.Body))
			}
			continue
		}
		opc := op
		if op == "overwrite" {
			opc = "upload" // same code path; the first upload already shows it
		}
		feat := ""
		switch {
		case k.Upload.Body == "empty":
			feat = "empty-body"
		case field == "mime":
			// does the upload carry a mime type the volume server stores?
			extType := mime.TypeByExtension(path.Ext(k.Upload.Name))
			if k.Upload.Mime == "" || k.Upload.Mime == "application/octet-stream" || k.Upload.Mime == extType {
				feat = "upload-carries-no-storable-mime"
			} else {
				feat = "sent-mime=" + mimeClass(k.Upload.Mime) + ":" + extClass(k.Upload.Name)
			}
			if k.Upload.Body == "pregz" {
				feat += ":pre-gzipped"
			}
		case field == "content" || field == "presence":
			feat = "body=" + k.Upload.Body
		default:
			feat = extClass(k.Upload.Name)
		}
		class := fmt.Sprintf("replicas-differ:%s:%s:%s:faults=%s", field, opc, feat, fm)
		if !recheck && e.kept[class] < 3 {
			e.kept[class]++
			r.Violate(class, fmt.Sprintf("layout %s, %s of %+v (faults %v) answered %s but replicas differ in %s: %s", k.Layout, op, k.Upload, modes, status, field, detail), k, func() bool {
				return runCase(r, e, k, true)[class]
			})
		} else if !recheck {
			r.Add("violating_cases_not_kept", 1)
		}
		classes[class] = true
	}
	return
}

func trunc(b []byte) string {
	if len(b) > 120 {
		return string(b[:120])
	}
	return string(b)
}

func allUploads() []upload {
	var out []upload
	for _, b := range bodies { // simplest first
		for _, n := range names {
			for _, m := range mimesL {
				for _, p := range []bool{false, true} {
					for _, t := range []string{"", "1m"} {
						for _, ts := range []bool{false, true} {
							out = append(out, upload{n, m, b, p, t, ts})
						}
					}
				}
			}
		}
	}
	return out
}

var faultShapes = []upload{
	{"a.txt", "text/plain", "text10", true, "", true},
	{"", "application/octet-stream", "random20k", false, "", false},
	{"a.gz", "application/x-gzip", "pregz", false, "1m", false},
}

// modeVectors enumerates every assignment of a mode to each of n replicas.
func modeVectors(modes []string, n int, f func(v []string)) {
	sizes := make([]int, n)
	for i := range sizes {
		sizes[i] = len(modes)
	}
	mc.Product(sizes, func(ix []int) bool {
		v := make([]string, n)
		for i, x := range ix {
			v[i] = modes[x]
		}
		f(v)
		return true
	})
}

func enumerate(r *mc.Run, f func(idx int, k kase)) {
	idx := 0
	for _, lay := range layouts {
		for _, u := range allUploads() {
			f(idx, kase{Layout: lay.Name, Upload: u})
			idx++
		}
	}
	for _, lay := range layouts {
		nrep := lay.Servers - 1
		um, dm := uploadModeNames, deleteModeNames
		if r.Quick() && nrep > 1 {
			um = []string{"ok", "500-ok", "500x3", "down"}
			dm = []string{"ok", "500", "down"}
		}
		okv := make([]string, nrep)
		for i := range okv {
			okv[i] = "ok"
		}
		shapes := faultShapes
		if r.Quick() {
			shapes = faultShapes[:2]
		}
		for _, u := range shapes {
			// faults on the first upload
			modeVectors(um, nrep, func(v []string) {
				f(idx, kase{Layout: lay.Name, Upload: u, Faults: [][]string{v, okv, okv}})
				idx++
			})
			// faults on the overwrite
			modeVectors(um, nrep, func(v []string) {
				f(idx, kase{Layout: lay.Name, Upload: u, Faults: [][]string{okv, v, okv}})
				idx++
			})
			// faults on the delete
			modeVectors(dm, nrep, func(v []string) {
				f(idx, kase{Layout: lay.Name, Upload: u, Faults: [][]string{okv, okv, v}})
				idx++
			})
		}
	}
	// (C) two-step histories: an upload whose replication fails, then the identical upload again
	retryShapes := faultShapes[:2] // storable mime, non-empty bodies
	for _, lay := range layouts {
		nrep := lay.Servers - 1
		for _, u := range retryShapes {
			for _, variant := range []string{"fresh", "overwrite"} {
				modeVectors([]string{"ok", "500x3", "down"}, nrep, func(v []string) {
					if strings.Join(v, "") == strings.Repeat("ok", nrep) {
						return // nothing fails
					}
					f(idx, kase{Layout: lay.Name, Upload: u, Faults: [][]string{v}, Retry: variant})
					idx++
				})
				cm := []string{"ok", "500x3-ok"}
				if !r.Quick() {
					cm = append(cm, "500x6-ok")
				}
				modeVectors(cm, nrep, func(v []string) {
					if strings.Join(v, "") == strings.Repeat("ok", nrep) {
						return
					}
					f(idx, kase{Layout: lay.Name, Upload: u, Faults: [][]string{v}, Retry: "client-" + variant})
					idx++
				})
			}
		}
	}
}

func run(r *mc.Run) {
	r.Assume("replicas are read straight from each server's store (no HTTP), decoded with compress/gzip when the needle carries the compressed flag")
	r.Assume("a replica 'refusing connections' is down for the whole operation (its listener is closed); 500 answers are scripted per forwarded request; an operation the primary reports as failed is recorded but not judged")
	if r.Replay != "" {
		var k kase
		if err := r.ReplayCase(&k); err != nil {
			mc.Fatal("replay: %v", err)
		}
		for _, lay := range layouts {
			if lay.Name == k.Layout {
				e := newEnv(lay)
				defer e.close()
				runCase(r, e, k, false)
				return
			}
		}
		mc.Fatal("replay: unknown layout %q", k.Layout)
	}
	const shards = 16
	r.Parallel("cases", shards, func(shard, n int) {
		envs := map[string]*env{}
		defer func() {
			for _, e := range envs {
				e.close()
			}
		}()
		enumerate(r, func(idx int, k kase) {
			if idx%n != shard {
				return
			}
			if !r.Begin(k) {
				return
			}
			e := envs[k.Layout]
			if e == nil {
				for _, lay := range layouts {
					if lay.Name == k.Layout {
						e = newEnv(lay)
					}
				}
				envs[k.Layout] = e
			}
			runCase(r, e, k, false)
			if k.Retry != "" {
				r.Sample("retry-case", k)
				r.Add("retry_cases", 1)
			} else if len(k.Faults) > 0 {
				r.Sample("fault-case", k)
				r.Add("fault_cases", 1)
			} else {
				r.Sample("no-fault-case", k)
				r.Add("nofault_cases", 1)
			}
		})
	})
}
