package c13

// Part (b) of C13: the failover protocol as an explicit-state system (E4) over
// the real sequencers and the real Topology.NextVolumeId.  Two masters, one
// volume; events: assign(count) at the leader, a client uploading an assigned
// range, a heartbeat (the leader's SetMax(max stored key), the first statement of
// MasterServer.SendHeartbeat), leader change, grow (NextVolumeId through a fake
// raft.Server that applies MaxVolumeIdCommand to every master).

import (
	"context"
	"fmt"
	"io"
	"os"
	"sort"
	"strings"

	"github.com/chrislusf/raft"

	"verif/mc"

	"google.golang.org/grpc/metadata"

	"github.com/chrislusf/seaweedfs/weed/pb/master_pb"
	"github.com/chrislusf/seaweedfs/weed/sequence"
	weed_server "github.com/chrislusf/seaweedfs/weed/server"
	"github.com/chrislusf/seaweedfs/weed/storage/needle"
	"github.com/chrislusf/seaweedfs/weed/topology"
)

type fakeRaft struct {
	raft.Server
	sys  *failover
	self int
}

func (f *fakeRaft) Do(c raft.Command) (interface{}, error) {
	// leader completeness: a committed command is applied on every master
	for i := range f.sys.topos {
		ap, ok := c.(interface {
			Apply(raft.Server) (interface{}, error)
		})
		if !ok {
			return nil, fmt.Errorf("command %s has no Apply(raft.Server)", c.CommandName())
		}
		if _, err := ap.Apply(&fakeRaft{sys: f.sys, self: i}); err != nil {
			return nil, err
		}
	}
	return nil, nil
}
func (f *fakeRaft) Context() interface{} { return f.sys.topos[f.self] }
func (f *fakeRaft) Name() string         { return fmt.Sprintf("m%d", f.self) }
func (f *fakeRaft) Leader() string       { return fmt.Sprintf("m%d", f.sys.leader) }
func (f *fakeRaft) State() string {
	if f.self == f.sys.leader {
		return raft.Leader
	}
	return raft.Follower
}

// hbStream hands the real MasterServer.SendHeartbeat handler exactly one full heartbeat and
// then ends; onSend sees every response in order (1: the volume size limit answer to a first
// heartbeat, 2: the leader announcement at the bottom of the iteration).
type hbStream struct {
	hb     *master_pb.Heartbeat
	sends  int
	onSend func(n int)
	leader string // Leader field of the last response that carried one
}

func (f *hbStream) Recv() (*master_pb.Heartbeat, error) {
	if f.hb == nil {
		return nil, io.EOF
	}
	hb := f.hb
	f.hb = nil
	return hb, nil
}
func (f *hbStream) Send(resp *master_pb.HeartbeatResponse) error {
	f.sends++
	if resp.Leader != "" {
		f.leader = resp.Leader
	}
	if f.onSend != nil {
		f.onSend(f.sends)
	}
	return nil
}
func (f *hbStream) SetHeader(metadata.MD) error  { return nil }
func (f *hbStream) SendHeader(metadata.MD) error { return nil }
func (f *hbStream) SetTrailer(metadata.MD)       {}
func (f *hbStream) Context() context.Context     { return context.Background() }
func (f *hbStream) SendMsg(m interface{}) error  { return nil }
func (f *hbStream) RecvMsg(m interface{}) error  { return io.EOF }

type assignment struct {
	by       int
	lo, n    uint64
	uploaded bool
	upStep   int // step at which it was uploaded
}

type failover struct {
	kind    string
	dir     string
	seqs    []sequence.Sequencer
	closers []func()
	topos   []*topology.Topology
	masters []*weed_server.MasterServer
	leader  int
	hbSince bool // the current leader has processed a heartbeat since it became leader
	assigns []assignment
	stored  map[uint64]bool
	maxKey  uint64
	vids    []needle.VolumeId
	changes int
	step    int
	hbStep  int // step of the last heartbeat processed by the current leader
}

func (s *failover) Reset() {
	s.Close()
	s.seqs, s.closers, s.topos, s.masters = nil, nil, nil, nil
	s.leader, s.hbSince, s.assigns, s.stored, s.maxKey, s.vids, s.changes, s.step, s.hbStep = 0, true, nil, map[uint64]bool{}, 0, nil, 0, 0, 0
	switch s.kind {
	case "memory":
		s.seqs = []sequence.Sequencer{sequence.NewMemorySequencer(), sequence.NewMemorySequencer()}
	case "etcd":
		api := &fakeKeys{}
		os.RemoveAll(s.dir)
		for i := 0; i < 2; i++ {
			d := fmt.Sprintf("%s/m%d", s.dir, i)
			os.MkdirAll(d, 0755)
			es, err := sequence.NewEtcdSequencerV(api, d)
			if err != nil {
				mc.Fatal("etcd sequencer: %v", err)
			}
			s.seqs = append(s.seqs, es)
			s.closers = append(s.closers, es.CloseV)
		}
	}
	for i := 0; i < 2; i++ {
		t := topology.NewTopology("t", s.seqs[i], 1024*1024, 5, false)
		s.topos = append(s.topos, t)
	}
	for i := range s.topos {
		s.topos[i].RaftServer = &fakeRaft{sys: s, self: i}
		s.masters = append(s.masters, weed_server.NewMasterServerTopoV(s.topos[i], 1))
	}
}

// heartbeat drives the real SendHeartbeat handler of master `to` with one full heartbeat of the
// volume server (max stored key, its one volume).  electAt > 0: master `to` wins the election
// while the handler is answering its electAt-th response of this iteration.  It reports whether
// the volume server was told to stay with this master.
func (s *failover) heartbeat(to int, electAt int) bool {
	st := &hbStream{hb: &master_pb.Heartbeat{Ip: "10.0.0.9", Port: 8080, PublicUrl: "10.0.0.9:8080",
		MaxVolumeCounts: map[string]uint32{"": 4}, MaxFileKey: s.maxKey,
		Volumes: []*master_pb.VolumeInformationMessage{{Id: 1, Size: 1, FileCount: s.maxKey, Version: uint32(needle.CurrentVersion)}}}}
	st.onSend = func(n int) {
		if n == electAt && s.leader != to {
			s.leader = to
			s.hbSince = false
			s.changes++
		}
	}
	s.masters[to].SendHeartbeat(st) // returns io.EOF when the stream ends
	return st.leader == fmt.Sprintf("m%d", to) && s.leader == to
}

func (s *failover) Close() {
	for _, c := range s.closers {
		c()
	}
	s.closers = nil
}

func (s *failover) Events() []string {
	ev := []string{"heartbeat", "heartbeat-elect1", "leader-change", "grow"}
	if s.hbSince {
		ev = append(ev, "assign1", "assign2")
	}
	pending := 0
	for i, a := range s.assigns {
		if !a.uploaded {
			pending++
			ev = append(ev, fmt.Sprintf("upload%d", i))
		}
	}
	sort.Strings(ev)
	return ev
}

func (s *failover) Apply(ev string) string {
	s.step++
	switch {
	case strings.HasPrefix(ev, "assign"):
		n := uint64(ev[len(ev)-1] - '0')
		lo := s.seqs[s.leader].NextFileId(n)
		for _, a := range s.assigns {
			if lo < a.lo+a.n && a.lo < lo+n {
				cls := "overlapping-assignments-same-master:" + s.kind
				if a.by != s.leader {
					cls = "assignment-of-previous-leader-reissued-after-leader-change:" + s.kind
					if a.uploaded && a.upStep < s.hbStep {
						// the key was already in the volume when the new leader processed its last heartbeat
						cls = "stored-key-reissued-after-leader-change:" + s.kind
					}
				} else if a.uploaded {
					cls = "stored-key-reissued-same-master:" + s.kind
				}
				s.assigns = append(s.assigns, assignment{by: s.leader, lo: lo, n: n})
				return cls + "|" + fmt.Sprintf("master m%d assigned [%d,%d) which overlaps [%d,%d) assigned by m%d (uploaded=%v)", s.leader, lo, lo+n, a.lo, a.lo+a.n, a.by, a.uploaded)
			}
		}
		if lo == 0 {
			return "next-file-id-returned-0:" + s.kind + "|NextFileId returned 0"
		}
		s.assigns = append(s.assigns, assignment{by: s.leader, lo: lo, n: n})
	case strings.HasPrefix(ev, "upload"):
		var i int
		fmt.Sscanf(ev, "upload%d", &i)
		a := &s.assigns[i]
		a.uploaded = true
		a.upStep = s.step
		for k := a.lo; k < a.lo+a.n; k++ {
			s.stored[k] = true
			if k > s.maxKey {
				s.maxKey = k
			}
		}
	case ev == "heartbeat":
		// the volume server's full heartbeat through the real handler of the current leader
		if s.heartbeat(s.leader, 0) {
			s.hbSince = true
			s.hbStep = s.step
		}
	case ev == "heartbeat-elect1":
		// the heartbeat reaches the other master, which wins the election while it answers the
		// first response of this iteration; told "your leader is me", the volume server stays
		if s.heartbeat(1-s.leader, 1) {
			s.hbSince = true
			s.hbStep = s.step
		}
	case ev == "leader-change":
		s.leader = 1 - s.leader
		s.hbSince = false
		s.changes++
	case ev == "grow":
		vid, err := s.topos[s.leader].NextVolumeId()
		if err != nil {
			return "next-volume-id-error|" + err.Error()
		}
		for _, v := range s.vids {
			if v == vid {
				return fmt.Sprintf("duplicate-volume-id|volume id %d handed out twice (leader m%d)", vid, s.leader)
			}
		}
		s.vids = append(s.vids, vid)
	}
	return ""
}

func (s *failover) Canon() string {
	var as []string
	for _, a := range s.assigns {
		as = append(as, fmt.Sprintf("%d:%d+%d:%v:%v", a.by, a.lo, a.n, a.uploaded, a.uploaded && a.upStep < s.hbStep))
	}
	ch := s.changes
	if ch > 2 {
		ch = 2
	}
	return fmt.Sprintf("L%d hb%v peek[%d %d] max%d vids%v topoMax[%d %d] ch%d %v", s.leader, s.hbSince, s.seqs[0].Peek(), s.seqs[1].Peek(), s.maxKey, s.vids,
		s.topos[0].GetMaxVolumeId(), s.topos[1].GetMaxVolumeId(), ch, as)
}

// Failover runs the explicit-state search for each sequencer type.
func Failover(r *mc.Run) {
	depth := r.Pick(6, 8)
	dir := mc.TempDir("c13b")
	defer os.RemoveAll(dir)
	for _, kind := range []string{"memory", "etcd"} {
		sys := &failover{kind: kind, dir: dir}
		res := mc.BFS(sys, 3, depth, r.Expired, func(path []string, msg string) {
			parts := strings.SplitN(msg, "|", 2)
			r.Violate(parts[0], parts[1], map[string]interface{}{"kind": "failover", "sequencer": kind, "events": path}, nil)
			r.Distinct("failover|" + kind + "|violation|" + parts[0])
		})
		sys.Close()
		if !res.Complete {
			r.NotExhaustive("failover BFS stopped by the wall-clock budget (" + kind + ")")
		}
		r.AddStates(res.States)
		r.AddTransitions(res.Transitions)
		r.Cases(res.Transitions)
		r.Set("failover_depth_"+kind, res.MaxDepth)
		r.Add("failover_states", res.States)
		r.Distinct(fmt.Sprintf("failover|%s|states=%d", kind, res.States))
		r.Sample("failover", map[string]interface{}{"sequencer": kind, "states": res.States, "transitions": res.Transitions, "depth": res.MaxDepth, "example_path": []string{"assign1", "leader-change", "heartbeat", "assign1"}})
	}
}

// ReplayFailover re-executes one recorded event path.
func ReplayFailover(r *mc.Run) bool {
	var w struct {
		Kind      string   `json:"kind"`
		Sequencer string   `json:"sequencer"`
		Events    []string `json:"events"`
	}
	if err := r.ReplayCase(&w); err != nil || w.Kind != "failover" {
		return false
	}
	dir := mc.TempDir("c13b")
	defer os.RemoveAll(dir)
	sys := &failover{kind: w.Sequencer, dir: dir}
	sys.Reset()
	defer sys.Close()
	for _, ev := range w.Events {
		if msg := sys.Apply(ev); msg != "" {
			parts := strings.SplitN(msg, "|", 2)
			r.Violate(parts[0], parts[1], w, nil)
			return true
		}
	}
	return true
}
