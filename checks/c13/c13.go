// Package c13: file keys are never handed out twice (schedules part).
// E1+E2: every interleaving, up to a preemption bound, of 2-3 threads calling
// the real sequencers (rewritten by vrewrite so that their mutexes, the
// snowflake clock and the fake etcd KeysAPI are scheduling points).
package c13

import (
	"context"
	"fmt"
	"os"
	"sort"
	"strconv"
	"strings"
	"time"

	"verif/mc"
	"verif/shim/vsched"

	"github.com/chrislusf/seaweedfs/weed/sequence"
	"go.etcd.io/etcd/client"
)

func Main() {
	mc.Main("C13", "model_checking",
		"E1/E2 stateless DFS: all interleavings at lock / fake-etcd / clock-tick points of 2-3 threads x <=2 calls from {NextFileId(1|2|600), SetMax(5|700)} on each sequencer type (memory; two etcd sequencers sharing one linearizable fake KeysAPI; snowflake on a virtual clock), preemption bound per tier; oracle: returned ranges pairwise disjoint, and no call started after SetMax(m) returned yields a key <= m. distinct = (sequencer, scenario shape, outcome shape)",
		run)
}

type op struct {
	Kind string // "N" NextFileId, "S" SetMax
	Arg  uint64
	Inst int // which sequencer instance (etcd: 0/1)
}

func (o op) String() string { return fmt.Sprintf("%s%d@%d", o.Kind, o.Arg, o.Inst) }

type scenario struct {
	Seq     string   `json:"sequencer"`
	Threads [][]op   `json:"threads"`
	Choices []int    `json:"choices,omitempty"`
}

type event struct {
	thread, idx int
	op          op
	call, ret   int
	val         uint64
}

var alphabet = []op{{"N", 1, 0}, {"N", 2, 0}, {"N", 600, 0}, {"S", 5, 0}, {"S", 700, 0}}

func programs(maxLen int, insts int) [][]op {
	var out [][]op
	var al []op
	for i := 0; i < insts; i++ {
		for _, o := range alphabet {
			o.Inst = i
			al = append(al, o)
		}
	}
	mc.Sequences(len(al), 1, maxLen, func(seq []int) bool {
		p := make([]op, len(seq))
		for i, s := range seq {
			p[i] = al[s]
		}
		out = append(out, p)
		return true
	})
	return out
}

// multisets of k programs (thread symmetry)
func scenarios(seqName string, progs [][]op, k int) []scenario {
	var out []scenario
	var rec func(start int, cur [][]op)
	rec = func(start int, cur [][]op) {
		if len(cur) == k {
			out = append(out, scenario{Seq: seqName, Threads: append([][]op{}, cur...)})
			return
		}
		for i := start; i < len(progs); i++ {
			rec(i, append(cur, progs[i]))
		}
	}
	rec(0, nil)
	return out
}

func run(r *mc.Run) {
	mc.QuietGlog()
	if r.Replay != "" {
		if ReplayFailover(r) {
			return
		}
		var sc scenario
		if err := r.ReplayCase(&sc); err != nil {
			mc.Fatal("replay: %v", err)
		}
		x, _ := mc.RunOne(sc.Choices, nil, 5000, nil, func() { runScenario(sc, nil) })
		var evs []event
		mc.RunOne(sc.Choices, nil, 5000, nil, func() { runScenario(sc, &evs) })
		_ = x
		if cl, msg := judge(sc, evs); cl != "" {
			r.Violate(cl, msg, sc, nil)
		}
		return
	}
	if r.ChildPhase() == "" {
		Failover(r)
	}
	bound := r.Pick(2, 3)
	var all []scenario
	// memory: quick 2 threads x <=2 ops + 3 threads x 1 op; thorough 3 threads x <=2 ops
	if r.Quick() {
		all = append(all, scenarios("memory", programs(2, 1), 2)...)
		all = append(all, scenarios("memory", programs(1, 1), 3)...)
		all = append(all, scenarios("snowflake", programs(2, 1), 2)...)
		all = append(all, scenarios("etcd", programs(1, 2), 2)...)
		all = append(all, scenarios("etcd", programs(2, 1), 2)...)
		// two masters, three operations in total (e.g. SetMax then NextFileId on one master racing a batch fetch on the other)
		for _, sc := range scenarios("etcd", programs(2, 2), 2) {
			if len(sc.Threads[0])+len(sc.Threads[1]) == 3 {
				all = append(all, sc)
			}
		}
	} else {
		all = append(all, scenarios("memory", programs(2, 1), 3)...)
		all = append(all, scenarios("snowflake", programs(2, 1), 2)...)
		all = append(all, scenarios("snowflake", programs(1, 1), 3)...)
		all = append(all, scenarios("etcd", programs(2, 2), 2)...)
		all = append(all, scenarios("etcd", programs(1, 2), 3)...)
	}
	r.Set("preemption_bound", bound)
	r.Set("scenarios", len(all))
	selfTest(r, all[len(all)/2])
	r.WorkerProcs = 1
	r.Parallel("sched", 16, func(shard, n int) {
		for i, sc := range all {
			if i%n != shard {
				continue
			}
			if !r.Begin(sc) {
				continue
			}
			if r.Expired() {
				r.NotExhaustive("wall-clock budget: not all scenarios explored")
				break
			}
			explore(r, sc, bound)
		}
	})
}

// determinism self-test: the same choice sequence twice gives identical observations
func selfTest(r *mc.Run, sc scenario) {
	var a, b []event
	x1, _ := mc.RunOne([]int{1}, nil, 5000, nil, func() { runScenario(sc, &a) })
	x2, _ := mc.RunOne(x1.Choices, x1.Ns, 5000, nil, func() { runScenario(sc, &b) })
	if fmt.Sprint(a) != fmt.Sprint(b) || fmt.Sprint(x1.Choices) != fmt.Sprint(x2.Choices) {
		mc.Fatal("determinism self-test failed: %v vs %v", a, b)
	}
}

func explore(r *mc.Run, sc scenario, bound int) {
	var evs []event
	outcomes := map[string]bool{}
	st := mc.Explore(bound, 5000, nil,
		func() { evs = evs[:0]; runScenario(sc, &evs) },
		func(x *mc.Exec) {
			if x.Sched.Outcome != "" {
				w := sc
				w.Choices = append([]int{}, x.Choices...)
				cls := "sched-" + strings.SplitN(x.Sched.Outcome, ":", 2)[0]
				r.Violate(cls+":"+sc.Seq, x.Sched.Outcome, w, nil)
				return
			}
			outcomes[shape(evs)] = true
			if cl, msg := judge(sc, evs); cl != "" {
				w := sc
				w.Choices = append([]int{}, x.Choices...)
				r.Violate(cl, msg, w, func() bool {
					var e2 []event
					mc.RunOne(w.Choices, nil, 5000, nil, func() { runScenario(sc, &e2) })
					c2, _ := judge(sc, e2)
					return c2 == cl
				})
			}
		}, r.Expired)
	if !st.Complete {
		r.NotExhaustive("wall-clock budget inside a scenario")
	}
	r.Cases(st.Executions)
	r.AddTransitions(st.Points + st.Executions)
	r.AddStates(st.Executions)
	for k, v := range st.ByCost {
		r.Add("executions_with_"+strconv.Itoa(k)+"_deviations", v)
	}
	r.Distinct(fmt.Sprintf("%s|threads=%d|ops=%s|outcomes=%d", sc.Seq, len(sc.Threads), opShape(sc), len(outcomes)))
	r.Sample(sc.Seq, map[string]interface{}{"scenario": fmt.Sprint(sc.Threads), "executions": st.Executions, "distinct_outcomes": len(outcomes)})
}

func opShape(sc scenario) string {
	var parts []string
	for _, t := range sc.Threads {
		s := ""
		for _, o := range t {
			s += o.Kind
		}
		parts = append(parts, s)
	}
	sort.Strings(parts)
	return strings.Join(parts, ",")
}

func shape(evs []event) string {
	var parts []string
	for _, e := range evs {
		parts = append(parts, fmt.Sprintf("%d.%d=%d", e.thread, e.idx, e.val))
	}
	sort.Strings(parts)
	return strings.Join(parts, " ")
}

// judge returns a violation class and message, or "".
func judge(sc scenario, evs []event) (string, string) {
	// 1. ranges pairwise disjoint
	for i := 0; i < len(evs); i++ {
		a := evs[i]
		if a.op.Kind != "N" {
			continue
		}
		if a.val == 0 {
			return "next-file-id-returned-0:" + sc.Seq, fmt.Sprintf("NextFileId(%d) returned 0", a.op.Arg)
		}
		for j := i + 1; j < len(evs); j++ {
			b := evs[j]
			if b.op.Kind != "N" {
				continue
			}
			if a.val < b.val+b.op.Arg && b.val < a.val+a.op.Arg {
				cls := "overlapping-ranges:" + sc.Seq
				if sc.Seq == "snowflake" && (a.op.Arg > 1 || b.op.Arg > 1) {
					cls = "snowflake-ignores-count"
				}
				return cls, fmt.Sprintf("T%d NextFileId(%d)=%d overlaps T%d NextFileId(%d)=%d", a.thread, a.op.Arg, a.val, b.thread, b.op.Arg, b.val)
			}
		}
	}
	// 2. after SetMax(m) returned, a later-started NextFileId never returns a key <= m
	//    (for etcd the two instances are two masters: the promise is per instance here;
	//    the cross-master case belongs to the failover system)
	if sc.Seq == "snowflake" {
		return "", "" // time-based ids: SetMax is documented as ignored; ids are far above any small m
	}
	for _, s := range evs {
		if s.op.Kind != "S" {
			continue
		}
		for _, n := range evs {
			if n.op.Kind == "N" && n.op.Inst == s.op.Inst && n.call > s.ret && n.val <= s.op.Arg {
				cls := "key-at-or-below-setmax:" + sc.Seq
				if n.val == s.op.Arg {
					cls = "setmax-value-handed-out-again:" + sc.Seq
				}
				return cls, fmt.Sprintf("SetMax(%d) returned at %d; NextFileId(%d) called at %d returned %d", s.op.Arg, s.ret, n.op.Arg, n.call, n.val)
			}
		}
	}
	return "", ""
}

func runScenario(sc scenario, evs *[]event) {
	var seqs []sequence.Sequencer
	var cleanup func()
	switch sc.Seq {
	case "memory":
		seqs = []sequence.Sequencer{sequence.NewMemorySequencer()}
	case "snowflake":
		s, err := sequence.NewSnowflakeSequencer("127.0.0.1:9333")
		if err != nil {
			panic(err)
		}
		seqs = []sequence.Sequencer{s}
	case "etcd":
		api := &fakeKeys{}
		dir := mc.TempDir("c13")
		var es []*sequence.EtcdSequencer
		for i := 0; i < 2; i++ {
			d := dir + "/m" + strconv.Itoa(i)
			os.MkdirAll(d, 0755)
			s, err := sequence.NewEtcdSequencerV(api, d)
			if err != nil {
				panic(err)
			}
			es = append(es, s)
			seqs = append(seqs, s)
		}
		cleanup = func() {
			for _, s := range es {
				s.CloseV()
			}
			os.RemoveAll(dir)
		}
	}
	ctr := 0
	done := 0
	n := len(sc.Threads)
	for ti, prog := range sc.Threads {
		ti, prog := ti, prog
		vsched.Go(func() {
			for oi, o := range prog {
				if sc.Seq == "snowflake" {
					// the clock may or may not tick between calls
					if vsched.Choose("tick", 2, 0) == 1 {
						vsched.Advance(time.Millisecond)
					}
				}
				e := event{thread: ti, idx: oi, op: o}
				ctr++
				e.call = ctr
				s := seqs[o.Inst%len(seqs)]
				if o.Kind == "N" {
					e.val = s.NextFileId(o.Arg)
				} else {
					s.SetMax(o.Arg)
				}
				ctr++
				e.ret = ctr
				if evs != nil {
					*evs = append(*evs, e)
				}
			}
			done++
		})
	}
	vsched.PointWhen("join", func() bool { return done == n })
	if cleanup != nil {
		cleanup()
	}
}

// ---- linearizable fake etcd v2 KeysAPI: every call is one scheduling point ----------

type fakeKeys struct {
	has bool
	val string
	client.KeysAPI
}

func (f *fakeKeys) Get(ctx context.Context, key string, opts *client.GetOptions) (*client.Response, error) {
	vsched.Point("etcd.get")
	if !f.has {
		return nil, client.Error{Code: client.ErrorCodeKeyNotFound, Message: "Key not found"}
	}
	return &client.Response{Action: "get", Node: &client.Node{Key: key, Value: f.val}}, nil
}

func (f *fakeKeys) Set(ctx context.Context, key, value string, opts *client.SetOptions) (*client.Response, error) {
	vsched.Point("etcd.set")
	if opts != nil && opts.PrevValue != "" {
		if !f.has {
			return nil, client.Error{Code: client.ErrorCodeKeyNotFound, Message: "Key not found"}
		}
		if f.val != opts.PrevValue {
			return nil, client.Error{Code: client.ErrorCodeTestFailed, Message: "Compare failed"}
		}
	}
	f.has, f.val = true, value
	return &client.Response{Action: "set", Node: &client.Node{Key: key, Value: value}}, nil
}

func (f *fakeKeys) Create(ctx context.Context, key, value string) (*client.Response, error) {
	vsched.Point("etcd.create")
	if f.has {
		return nil, client.Error{Code: client.ErrorCodeNodeExist, Message: "Key already exists"}
	}
	f.has, f.val = true, value
	return &client.Response{Action: "create", Node: &client.Node{Key: key, Value: value}}, nil
}
