// Package c12: capacity accounting.  The system, the reference model and the
// explorer are shared with C11 (package c11); only the invariant differs.
package c12

import "verif/checks/c11"

func Main() { c11.MainC12() }
