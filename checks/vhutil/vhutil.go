// Package vhutil: small HTTP helpers shared by the volhttp group's checks
// (plain net/http requests against the in-process cluster; no SeaweedFS client
// code, so that the client under test is never part of the oracle).
package vhutil

import (
	"bytes"
	"fmt"
	"io"
	"mime/multipart"
	"net/http"
	"net/textproto"
	"strings"
	"time"

	"github.com/chrislusf/seaweedfs/weed/storage"
	"github.com/chrislusf/seaweedfs/weed/storage/needle"
	"github.com/chrislusf/seaweedfs/weed/storage/types"
)

// Client is a keep-alive HTTP client that never follows redirects and never
// asks for compression by itself (Accept-Encoding is fully under the caller's control).
var Client = &http.Client{
	Transport: &http.Transport{DisableCompression: true, MaxIdleConnsPerHost: 64, IdleConnTimeout: 30 * time.Second},
	CheckRedirect: func(req *http.Request, via []*http.Request) error {
		return http.ErrUseLastResponse
	},
	Timeout: 60 * time.Second,
}

// Resp is a fully read response.
type Resp struct {
	Status int
	Header http.Header
	Body   []byte
	Err    error // transport error (connection refused, EOF after a handler panic …)
}

// Do issues a request with optional headers and body.
func Do(method, url string, hdr map[string]string, body []byte, contentType string) Resp {
	var rd io.Reader
	if body != nil {
		rd = bytes.NewReader(body)
	}
	req, err := http.NewRequest(method, url, rd)
	if err != nil {
		return Resp{Err: err}
	}
	if contentType != "" {
		req.Header.Set("Content-Type", contentType)
	}
	for k, v := range hdr {
		req.Header.Set(k, v)
	}
	resp, err := Client.Do(req)
	if err != nil {
		return Resp{Err: err}
	}
	defer resp.Body.Close()
	b, err := io.ReadAll(resp.Body)
	return Resp{Status: resp.StatusCode, Header: resp.Header, Body: b, Err: err}
}

// Part describes the file part of a multipart upload.
type Part struct {
	FileName        string
	Mime            string // Content-Type of the part ("" = none)
	ContentEncoding string // e.g. "gzip" ("" = none)
	Data            []byte
}

var quoteEscaper = strings.NewReplacer("\\", "\\\\", `"`, "\\\"")

// Multipart builds a multipart/form-data body the way operation.upload_content does.
func Multipart(p Part) (body []byte, contentType string) {
	var buf bytes.Buffer
	w := multipart.NewWriter(&buf)
	h := make(textproto.MIMEHeader)
	h.Set("Content-Disposition", fmt.Sprintf(`form-data; name="file"; filename="%s"`, quoteEscaper.Replace(p.FileName)))
	if p.Mime != "" {
		h.Set("Content-Type", p.Mime)
	}
	if p.ContentEncoding != "" {
		h.Set("Content-Encoding", p.ContentEncoding)
	}
	fw, _ := w.CreatePart(h)
	fw.Write(p.Data)
	w.Close()
	return buf.Bytes(), w.FormDataContentType()
}

// NeedleSnap is what a store holds for one needle id (read without cookie check).
type NeedleSnap struct {
	Found        bool
	Cookie       uint32
	Data         string
	Name         string
	Mime         string
	Pairs        string
	Flags        byte
	LastModified uint64
	Ttl          string
	AppendAtNs   uint64
}

// Snap reads needle key of volume vid straight from the store.
func Snap(s *storage.Store, vid uint32, key uint64) NeedleSnap {
	n := new(needle.Needle)
	n.Id = types.Uint64ToNeedleId(key)
	if _, err := s.ReadVolumeNeedle(needle.VolumeId(vid), n, nil); err != nil {
		return NeedleSnap{}
	}
	sn := NeedleSnap{Found: true, Cookie: uint32(n.Cookie), Data: string(n.Data), Name: string(n.Name), Mime: string(n.Mime),
		Pairs: string(n.Pairs), Flags: n.Flags, LastModified: n.LastModified, AppendAtNs: n.AppendAtNs}
	if n.Ttl != nil {
		sn.Ttl = n.Ttl.String()
	}
	return sn
}
