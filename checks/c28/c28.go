// Package c28: S3 objects and multipart uploads round-trip.
//
// Real gateway (one instance without identities, one with an admin identity for
// signed and streaming-signed requests) over the real filer and a real volume
// server (E7, default filer options, 1 MiB auto-chunking).  Enumerated:
//
//	mp      every set of <= 3 part numbers from {1,2,9,10,99,100,999,1000,9999,10000}
//	        uploaded in every order, completed, read back in full (and every byte
//	        range when uploaded in ascending order)
//	put     single PUT of every length 0..8, read back in full and for every range
//	        header of the grammar s-e | s- | -n
//	stream  streaming-signed PUT (chunk sizes 1 and 64 KiB) of several lengths
//	copy    CopyObject of a single-PUT and of a multipart object; UploadPartCopy
//	        with and without x-amz-copy-source-range
//	mpmix   multipart uploads mixing UploadPart and UploadPartCopy (whole / ranged
//	        source) per part, and the same part number written twice through either API
//	big     a 3-chunk object (2 MiB + 5) with ranges around the chunk boundaries
//	bdel    ONE batch-delete request listing every ordered pair / triple of keys of
//	        mixed depth (top-level, nested, same name at both depths, missing keys),
//	        Quiet on/off, from four starting bucket states
//	del     every small bucket tree x every set of keys named in a batch delete
//	        (and every single DELETE): the namespace afterwards is contents minus
//	        exactly the named keys
package c28

import (
	"bytes"
	"encoding/xml"
	"fmt"
	"sort"
	"strconv"
	"strings"
	"time"

	"verif/checks/s3env"
	"verif/checks/s3sign"
	"verif/cluster"
	"verif/mc"
)

func Main() {
	mc.Main("C28", "exploration",
		"complete products: mixed-API multipart uploads (part sets of size 2..3 of {1,2,3} x {UploadPart, UploadPartCopy whole, UploadPartCopy ranged} per part x ascending/descending order; same part written twice x API pair); part-number sets (<=3 of 10 boundary numbers, quick <=2) x upload order x full read + all ranges; single PUT lengths 0..8 x every range of the grammar {s-e, s-, -n}; streaming-signed PUT chunk size {1, 65536} x lengths; copy of single/multipart objects, UploadPartCopy x source ranges; 3-chunk object x boundary ranges; ordered batch deletes (every ordered pair/triple of 6 mixed-depth keys in one request x 4 bucket states x Quiet); bucket trees (subsets of 6 keys, <=3) x batch-delete key sets (<=2 named keys of 7) and single deletes; distinct = (kind, input class, outcome)",
		run)
}

const (
	host   = "gw.verif:8333"
	bucket = "rt"
	region = "us-east-1"
)

var cred = s3sign.Cred{Access: "AKC28ADMIN0000000001", Secret: "SKc28adminSecret000000000000000000000001"}

var partNumbers = []int{1, 2, 9, 10, 99, 100, 999, 1000, 9999, 10000}

type Case struct {
	Kind   string   `json:"kind"`
	Parts  []int    `json:"parts,omitempty"`  // mp: upload order
	Len    int      `json:"len,omitempty"`    // put/stream: body length
	Chunk  int      `json:"chunk,omitempty"`  // stream: chunk size
	Src    string   `json:"src,omitempty"`    // copy: source kind
	Tree   []string `json:"tree,omitempty"`   // del: keys present
	Delete []string `json:"delete,omitempty"` // del: keys named
	Single bool     `json:"single,omitempty"` // del: one DELETE request instead of a batch
	Writes []Write  `json:"writes,omitempty"` // mpmix: part writes in order
	State  []string `json:"state,omitempty"`  // bdel: keys the bucket holds (real top-level and nested keys)
	Keys   []string `json:"keys,omitempty"`   // bdel: keys listed in the request, in this order
	Quiet  bool     `json:"quiet,omitempty"`  // bdel
}

// Write is one write of a part through one of the two APIs.
type Write struct {
	Part int    `json:"part"`
	API  string `json:"api"` // upload | copy (UploadPartCopy of a whole object) | copyrange (UploadPartCopy with x-amz-copy-source-range)
}

type env struct {
	*s3env.Env
	auth    *cluster.S3
	seq     int
	recheck bool
}

func newEnv() *env {
	e := &env{Env: s3env.New(s3env.Options{MaxMB: 1})}
	e.auth = e.C.MustStartS3(e.F, cluster.S3Options{
		IdentitiesJSON: fmt.Sprintf(`{"identities":[{"name":"admin","credentials":[{"accessKey":%q,"secretKey":%q}],"actions":["Admin"]}]}`, cred.Access, cred.Secret)})
	if resp := e.req("PUT", "", nil, nil, nil); resp.Status != 200 {
		mc.Fatal("PutBucket: %d %s", resp.Status, resp.Body)
	}
	e.AddCollection(bucket)
	br := &s3sign.Req{Method: "PUT", Host: host, Path: "/" + bdBucket}
	if resp := e.Do(br); resp.Status != 200 {
		mc.Fatal("PutBucket %s: %d %s", bdBucket, resp.Status, resp.Body)
	}
	e.AddCollection(bdBucket)
	return e
}

func (e *env) req(method, key string, q []s3sign.KV, hdr []s3sign.KV, body []byte) s3env.Resp {
	r := &s3sign.Req{Method: method, Host: host, Path: "/" + bucket, Query: q, Header: hdr, Body: body}
	if key != "" {
		r.Path += "/" + key
	}
	return e.Do(r)
}

func (e *env) signed(r *s3sign.Req) s3env.Resp {
	req, err := r.HTTP()
	if err != nil {
		mc.Fatal("request: %v", err)
	}
	rec := e.auth.Do(req)
	return s3env.Resp{Status: rec.Code, Header: rec.Header(), Body: rec.Body.Bytes()}
}

// kase counts a case unless a re-check is running.
func (e *env) kase(r *mc.Run, class string) {
	if !e.recheck {
		r.Case(class)
	}
}

func (e *env) fresh(prefix string) string {
	e.seq++
	return fmt.Sprintf("%s%d", prefix, e.seq)
}

type verdict struct{ class, msg string }

// ---- ranges --------------------------------------------------------------------------

type rng struct {
	Hdr  string
	Form string
	// expectation per RFC 7233 for an object of length L
	Sat        bool
	Start, End int // inclusive, valid when Sat
	Feature    string
}

// allRanges: every single-range header of the grammar for an object of length L.
func allRanges(L int) []rng {
	var out []rng
	for s := 0; s <= L; s++ {
		for en := s; en <= L+1; en++ {
			r := rng{Hdr: fmt.Sprintf("bytes=%d-%d", s, en), Form: "s-e"}
			if s < L {
				r.Sat, r.Start, r.End = true, s, en
				if en >= L {
					r.End = L - 1
					r.Feature = "end-beyond"
				}
			} else {
				r.Feature = "start-at-or-beyond-end"
			}
			out = append(out, r)
		}
		r := rng{Hdr: fmt.Sprintf("bytes=%d-", s), Form: "s-"}
		if s < L {
			r.Sat, r.Start, r.End = true, s, L-1
		} else {
			r.Feature = "start-at-or-beyond-end"
		}
		out = append(out, r)
	}
	for n := 0; n <= L+1; n++ {
		r := rng{Hdr: fmt.Sprintf("bytes=-%d", n), Form: "-n"}
		switch {
		case n == 0 || L == 0:
			r.Feature = "zero-suffix-or-empty-object"
		case n >= L:
			r.Sat, r.Start, r.End = true, 0, L-1
			r.Feature = "suffix-covers-all"
		default:
			r.Sat, r.Start, r.End = true, L-n, L-1
		}
		out = append(out, r)
	}
	return out
}

// checkRanges reads key with every given range and compares with data.
func (e *env) checkRanges(r *mc.Run, kind, key string, data []byte, ranges []rng, objClass string) []verdict {
	var vs []verdict
	for _, ra := range ranges {
		resp := e.req("GET", key, nil, []s3sign.KV{{K: "Range", V: ra.Hdr}}, nil)
		outcome := "ok"
		if ra.Sat {
			want := data[ra.Start : ra.End+1]
			switch {
			case resp.Status == 206 && bytes.Equal(resp.Body, want):
				wantCR := fmt.Sprintf("bytes %d-%d/%d", ra.Start, ra.End, len(data))
				if cr := resp.Header.Get("Content-Range"); cr != wantCR {
					outcome = "wrong-content-range"
					vs = append(vs, verdict{fmt.Sprintf("range-wrong-content-range:obj=%s:form=%s:%s", objClass, ra.Form, ra.Feature),
						fmt.Sprintf("%s len=%d Range %q: Content-Range %q, want %q", key, len(data), ra.Hdr, cr, wantCR)})
				}
			case resp.Status == 200 && bytes.Equal(resp.Body, data) && len(want) == len(data):
				outcome = "200-whole"
			default:
				outcome = fmt.Sprintf("wrong-bytes-%d", resp.Status)
				vs = append(vs, verdict{fmt.Sprintf("range-wrong-bytes:obj=%s:form=%s:%s:status=%d", objClass, ra.Form, ra.Feature, resp.Status),
					fmt.Sprintf("%s len=%d Range %q: status %d body %.40q, want 206 %.40q", key, len(data), ra.Hdr, resp.Status, resp.Body, want)})
			}
		} else {
			// unsatisfiable by RFC 7233: there are no bytes to compare; the statement
			// demands nothing here.  A non-empty body would be bytes that were never asked for.
			outcome = fmt.Sprintf("unsat-%d", resp.Status)
			if (resp.Status == 206 || resp.Status == 200) && len(resp.Body) > 0 && !bytes.Equal(resp.Body, data) {
				outcome = "unsat-wrong-bytes"
				vs = append(vs, verdict{fmt.Sprintf("range-unsatisfiable-answered-with-wrong-bytes:obj=%s:form=%s:%s", objClass, ra.Form, ra.Feature),
					fmt.Sprintf("%s len=%d Range %q: status %d body %.40q", key, len(data), ra.Hdr, resp.Status, resp.Body)})
			}
		}
		e.kase(r, fmt.Sprintf("range|%s|%s|%s|%s|%s", kind, objClass, ra.Form, ra.Feature, outcome))
	}
	return vs
}

// ---- multipart ---------------------------------------------------------------------------

func partBody(n, idx int) []byte {
	return []byte(fmt.Sprintf("<%d>", n) + strings.Repeat(string(rune('a'+idx)), idx+1))
}

type mpResult struct {
	key  string
	want []byte
}

// multipart uploads the parts in the given order and completes.  bodies are indexed by position in sorted order.
func (e *env) multipart(order []int, viaCopyFrom string) (key string, want []byte, v *verdict) {
	key = e.fresh("mp-")
	sorted := append([]int(nil), order...)
	sort.Ints(sorted)
	bodies := map[int][]byte{}
	for i, n := range sorted {
		bodies[n] = partBody(n, i)
		want = append(want, bodies[n]...)
	}
	resp := e.req("POST", key, []s3sign.KV{{K: "uploads"}}, nil, nil)
	var init struct {
		UploadId string `xml:"UploadId"`
	}
	if resp.Status != 200 || xml.Unmarshal(resp.Body, &init) != nil || init.UploadId == "" {
		return key, want, &verdict{"multipart-initiate-fails", fmt.Sprintf("status %d %.200s", resp.Status, resp.Body)}
	}
	etags := map[int]string{}
	for _, n := range order {
		q := []s3sign.KV{{K: "partNumber", V: strconv.Itoa(n)}, {K: "uploadId", V: init.UploadId}}
		resp := e.req("PUT", key, q, nil, bodies[n])
		if resp.Status != 200 {
			return key, want, &verdict{fmt.Sprintf("multipart-upload-part-fails:digits=%d", len(strconv.Itoa(n))), fmt.Sprintf("part %d: status %d %.200s", n, resp.Status, resp.Body)}
		}
		etags[n] = resp.Header.Get("ETag")
	}
	var b strings.Builder
	b.WriteString("<CompleteMultipartUpload>")
	for _, n := range sorted {
		fmt.Fprintf(&b, "<Part><PartNumber>%d</PartNumber><ETag>%s</ETag></Part>", n, etags[n])
	}
	b.WriteString("</CompleteMultipartUpload>")
	resp = e.req("POST", key, []s3sign.KV{{K: "uploadId", V: init.UploadId}}, nil, []byte(b.String()))
	if resp.Status != 200 {
		return key, want, &verdict{"multipart-complete-fails", fmt.Sprintf("status %d %.200s", resp.Status, resp.Body)}
	}
	return key, want, nil
}

func digitsClass(parts []int) string {
	set := map[int]bool{}
	for _, n := range parts {
		set[len(strconv.Itoa(n))] = true
	}
	var ds []int
	for d := range set {
		ds = append(ds, d)
	}
	sort.Ints(ds)
	var ss []string
	for _, d := range ds {
		ss = append(ss, strconv.Itoa(d))
	}
	return strings.Join(ss, "+")
}

// mpmixCase: a multipart upload whose parts are written through UploadPart and
// UploadPartCopy in any mix, possibly the same part number more than once.  The
// object must be the concatenation, in ascending part number, of the LAST write of each part.
func (e *env) mpmixCase(r *mc.Run, c Case) []verdict {
	key := e.fresh("mix-")
	token := func(i int) []byte {
		return []byte(fmt.Sprintf("<w%d:p%d>", i, c.Writes[i].Part) + strings.Repeat(string(rune('a'+i)), i+1))
	}
	var apis []string
	seenAPI := map[string]bool{}
	for _, w := range c.Writes {
		if !seenAPI[w.API] {
			seenAPI[w.API] = true
			apis = append(apis, w.API)
		}
	}
	sort.Strings(apis)
	shape := fmt.Sprintf("apis=%s", strings.Join(apis, "+"))
	rewrite := false
	last := map[int]int{}
	for i, w := range c.Writes {
		if _, ok := last[w.Part]; ok {
			rewrite = true
		}
		last[w.Part] = i
	}
	if rewrite {
		shape += ":rewrite"
	}
	resp := e.req("POST", key, []s3sign.KV{{K: "uploads"}}, nil, nil)
	var init struct {
		UploadId string `xml:"UploadId"`
	}
	if resp.Status != 200 || xml.Unmarshal(resp.Body, &init) != nil || init.UploadId == "" {
		return []verdict{{"multipart-initiate-fails", fmt.Sprintf("status %d %.200s", resp.Status, resp.Body)}}
	}
	for i, w := range c.Writes {
		q := []s3sign.KV{{K: "partNumber", V: strconv.Itoa(w.Part)}, {K: "uploadId", V: init.UploadId}}
		tok := token(i)
		var resp s3env.Resp
		switch w.API {
		case "upload":
			resp = e.req("PUT", key, q, nil, tok)
		case "copy", "copyrange":
			src := e.fresh("mixsrc-")
			content := tok
			hdr := []s3sign.KV{{K: "X-Amz-Copy-Source", V: "/" + bucket + "/" + src}}
			if w.API == "copyrange" {
				content = append(append([]byte("PAD>"), tok...), []byte("<PAD")...)
				hdr = append(hdr, s3sign.KV{K: "X-Amz-Copy-Source-Range", V: fmt.Sprintf("bytes=4-%d", 4+len(tok)-1)})
			}
			if p := e.req("PUT", src, nil, nil, content); p.Status != 200 {
				return []verdict{{"put-fails:len=small", fmt.Sprintf("source for write %d: status %d", i, p.Status)}}
			}
			resp = e.req("PUT", key, q, hdr, nil)
		default:
			mc.Fatal("unknown api %q", w.API)
		}
		if resp.Status != 200 {
			e.kase(r, "mpmix|"+shape+"|part-write-fails")
			return []verdict{{"multipart-part-write-fails:api=" + w.API, fmt.Sprintf("write %d (%+v): status %d %.200s", i, w, resp.Status, resp.Body)}}
		}
	}
	var parts []int
	for p := range last {
		parts = append(parts, p)
	}
	sort.Ints(parts)
	var want []byte
	var b strings.Builder
	b.WriteString("<CompleteMultipartUpload>")
	for _, p := range parts {
		want = append(want, token(last[p])...)
		fmt.Fprintf(&b, "<Part><PartNumber>%d</PartNumber></Part>", p)
	}
	b.WriteString("</CompleteMultipartUpload>")
	if resp := e.req("POST", key, []s3sign.KV{{K: "uploadId", V: init.UploadId}}, nil, []byte(b.String())); resp.Status != 200 {
		return []verdict{{"multipart-complete-fails", fmt.Sprintf("status %d %.200s", resp.Status, resp.Body)}}
	}
	got := e.req("GET", key, nil, nil, nil)
	if got.Status == 200 && bytes.Equal(got.Body, want) {
		e.kase(r, "mpmix|"+shape+"|ok")
		if len(c.Writes) == 2 && len(parts) == 2 && c.Writes[0].Part < c.Writes[1].Part && (r.Thorough() || c.Writes[0].API != c.Writes[1].API && c.Writes[0].Part == 1 && c.Writes[1].Part == 2) {
			// every range, for the two-part ascending uploads (9 API combinations)
			return e.checkRanges(r, "mpmix", key, want, allRanges(len(want)), "mixed-multipart")
		}
		return nil
	}
	// which writes does the object consist of?
	rest := string(got.Body)
	var seq []int
	for len(rest) > 0 {
		found := false
		for i := range c.Writes {
			if t := string(token(i)); strings.HasPrefix(rest, t) {
				seq = append(seq, i)
				rest = rest[len(t):]
				found = true
				break
			}
		}
		if !found {
			break
		}
	}
	kind := "multipart-content-corrupt"
	if rest == "" && got.Status == 200 {
		stale, miss := false, false
		have := map[int]bool{}
		for _, i := range seq {
			have[i] = true
			if last[c.Writes[i].Part] != i {
				stale = true
			}
		}
		for _, i := range last {
			if !have[i] {
				miss = true
			}
		}
		switch {
		case stale:
			kind = "multipart-replaced-part-still-present"
		case miss:
			kind = "multipart-part-missing"
		default:
			kind = "multipart-parts-misordered"
		}
	}
	e.kase(r, "mpmix|"+shape+"|"+kind)
	return []verdict{{fmt.Sprintf("%s:%s", kind, shape),
		fmt.Sprintf("writes %s: object reads (status %d) as writes %v = %.100q, want %.100q", mc.JS(c.Writes), got.Status, seq, got.Body, want)}}
}

func (e *env) mpCase(r *mc.Run, c Case) []verdict {
	key, want, v := e.multipart(c.Parts, "")
	if v != nil {
		e.kase(r, "mp|"+v.class)
		return []verdict{*v}
	}
	resp := e.req("GET", key, nil, nil, nil)
	asc := sort.IntsAreSorted(c.Parts)
	if resp.Status != 200 || !bytes.Equal(resp.Body, want) {
		// is it a permutation of the parts?
		sorted := append([]int(nil), c.Parts...)
		sort.Ints(sorted)
		kind := "multipart-content-corrupt"
		rest := string(resp.Body)
		var got []int
		for len(rest) > 0 {
			found := false
			for i, n := range sorted {
				pb := string(partBody(n, i))
				if strings.HasPrefix(rest, pb) {
					got = append(got, n)
					rest = rest[len(pb):]
					found = true
					break
				}
			}
			if !found {
				break
			}
		}
		involved := c.Parts
		if rest == "" && len(got) == len(sorted) && resp.Status == 200 {
			kind = "multipart-parts-misordered"
			// the class names the digit counts of the parts that are out of order only
			set := map[int]bool{}
			for i := range got {
				for j := i + 1; j < len(got); j++ {
					if got[i] > got[j] {
						set[got[i]], set[got[j]] = true, true
					}
				}
			}
			involved = nil
			for n := range set {
				involved = append(involved, n)
			}
		}
		e.kase(r, fmt.Sprintf("mp|n=%d|digits=%s|asc=%v|%s", len(c.Parts), digitsClass(c.Parts), asc, kind))
		return []verdict{{fmt.Sprintf("%s:digits=%s", kind, digitsClass(involved)),
			fmt.Sprintf("parts %v uploaded in that order: object reads (status %d) as parts %v = %.80q, want ascending order %.80q", c.Parts, resp.Status, got, resp.Body, want)}}
	}
	e.kase(r, fmt.Sprintf("mp|n=%d|digits=%s|asc=%v|ok", len(c.Parts), digitsClass(c.Parts), asc))
	if asc && len(c.Parts) > 1 && (r.Thorough() || c.Parts[0] == 1 || c.Parts[0] == 9999) {
		return e.checkRanges(r, "mp", key, want, allRanges(len(want)), fmt.Sprintf("multipart%d", len(c.Parts)))
	}
	return nil
}

// ---- single put / streaming / copy / big ---------------------------------------------------

func body(n int) []byte {
	b := make([]byte, n)
	for i := range b {
		b[i] = byte('A' + i%23)
		if i%97 == 96 {
			b[i] = byte('0' + (i/97)%10)
		}
	}
	return b
}

func (e *env) putCase(r *mc.Run, c Case) []verdict {
	key := e.fresh("put-")
	data := body(c.Len)
	if resp := e.req("PUT", key, nil, nil, data); resp.Status != 200 {
		e.kase(r, "put|fails")
		return []verdict{{fmt.Sprintf("put-fails:len=%d", c.Len), fmt.Sprintf("status %d %.200s", resp.Status, resp.Body)}}
	}
	resp := e.req("GET", key, nil, nil, nil)
	if resp.Status != 200 || !bytes.Equal(resp.Body, data) {
		e.kase(r, fmt.Sprintf("put|len=%d|mismatch", c.Len))
		return []verdict{{fmt.Sprintf("put-roundtrip-mismatch:len=%s", lenClass(c.Len)), fmt.Sprintf("PUT %d bytes, GET status %d returns %d bytes %.40q", c.Len, resp.Status, len(resp.Body), resp.Body)}}
	}
	e.kase(r, fmt.Sprintf("put|len=%s|ok", lenClass(c.Len)))
	oc := "single"
	if c.Len == 0 {
		oc = "empty"
	}
	return e.checkRanges(r, "put", key, data, allRanges(c.Len), oc)
}

func lenClass(n int) string {
	switch {
	case n == 0:
		return "0"
	case n < 100:
		return "small"
	case n <= 1<<20:
		return "one-chunk"
	}
	return "multi-chunk"
}

func (e *env) streamCase(r *mc.Run, c Case) []verdict {
	key := e.fresh("st-")
	data := body(c.Len)
	req := &s3sign.Req{Method: "PUT", Host: host, Path: "/" + bucket + "/" + key, Body: data}
	s3sign.SignV4Streaming(req, cred, time.Now(), region, c.Chunk, -1)
	resp := e.signed(req)
	cl := fmt.Sprintf("len=%s:chunk=%d", lenClass(c.Len), c.Chunk)
	if resp.Status != 200 {
		e.kase(r, "stream|"+cl+"|put-fails")
		return []verdict{{"streaming-put-fails:" + cl, fmt.Sprintf("status %d %.200s", resp.Status, resp.Body)}}
	}
	g := &s3sign.Req{Method: "GET", Host: host, Path: "/" + bucket + "/" + key}
	s3sign.SignV4Header(g, cred, time.Now(), region)
	got := e.signed(g)
	if got.Status != 200 || !bytes.Equal(got.Body, data) {
		e.kase(r, "stream|"+cl+"|mismatch")
		return []verdict{{"streaming-roundtrip-mismatch:" + cl, fmt.Sprintf("streaming PUT of %d bytes in chunks of %d: GET status %d returns %d bytes %.60q", c.Len, c.Chunk, got.Status, len(got.Body), got.Body)}}
	}
	e.kase(r, "stream|"+cl+"|ok")
	// a corrupted chunk signature must not produce an object with the data
	key2 := e.fresh("stbad-")
	if c.Len > 0 {
		bad := &s3sign.Req{Method: "PUT", Host: host, Path: "/" + bucket + "/" + key2, Body: data}
		s3sign.SignV4Streaming(bad, cred, time.Now(), region, c.Chunk, 0)
		e.signed(bad)
		e.kase(r, "stream|"+cl+"|bad-chunk-signature-sent")
	}
	return nil
}

func (e *env) copyCase(r *mc.Run, c Case) []verdict {
	var src string
	var data []byte
	switch c.Src {
	case "single":
		src = e.fresh("cpsrc-")
		data = body(c.Len)
		if resp := e.req("PUT", src, nil, nil, data); resp.Status != 200 {
			return []verdict{{"put-fails:len=" + lenClass(c.Len), fmt.Sprintf("status %d", resp.Status)}}
		}
	case "multipart":
		var v *verdict
		src, data, v = e.multipart([]int{1, 2, 3}, "")
		if v != nil {
			return []verdict{*v}
		}
	}
	var vs []verdict
	dst := e.fresh("cpdst-")
	resp := e.req("PUT", dst, nil, []s3sign.KV{{K: "X-Amz-Copy-Source", V: "/" + bucket + "/" + src}}, nil)
	got := e.req("GET", dst, nil, nil, nil)
	if resp.Status != 200 || got.Status != 200 || !bytes.Equal(got.Body, data) {
		e.kase(r, "copy|"+c.Src+"|mismatch")
		vs = append(vs, verdict{fmt.Sprintf("copy-roundtrip-mismatch:src=%s:len=%s", c.Src, lenClass(len(data))),
			fmt.Sprintf("CopyObject of a %d-byte %s object: copy status %d, GET status %d returns %d bytes %.40q", len(data), c.Src, resp.Status, got.Status, len(got.Body), got.Body)})
	} else {
		e.kase(r, "copy|"+c.Src+"|ok")
	}
	// the source must be unchanged
	if again := e.req("GET", src, nil, nil, nil); again.Status != 200 || !bytes.Equal(again.Body, data) {
		vs = append(vs, verdict{"copy-damages-source:src=" + c.Src, fmt.Sprintf("source reads status %d %d bytes after the copy", again.Status, len(again.Body))})
	}
	// UploadPartCopy: part 1 = whole source, part 2 = a source range, part 3 = plain upload
	if len(data) >= 3 {
		key := e.fresh("cpmp-")
		resp := e.req("POST", key, []s3sign.KV{{K: "uploads"}}, nil, nil)
		var init struct {
			UploadId string `xml:"UploadId"`
		}
		if resp.Status != 200 || xml.Unmarshal(resp.Body, &init) != nil {
			return append(vs, verdict{"multipart-initiate-fails", fmt.Sprintf("status %d", resp.Status)})
		}
		q := func(n int) []s3sign.KV {
			return []s3sign.KV{{K: "partNumber", V: strconv.Itoa(n)}, {K: "uploadId", V: init.UploadId}}
		}
		cs := s3sign.KV{K: "X-Amz-Copy-Source", V: "/" + bucket + "/" + src}
		r1 := e.req("PUT", key, q(1), []s3sign.KV{cs}, nil)
		lo, hi := 1, len(data)-2
		r2 := e.req("PUT", key, q(2), []s3sign.KV{cs, {K: "X-Amz-Copy-Source-Range", V: fmt.Sprintf("bytes=%d-%d", lo, hi)}}, nil)
		r3 := e.req("PUT", key, q(3), nil, []byte("tail"))
		rc := e.req("POST", key, []s3sign.KV{{K: "uploadId", V: init.UploadId}}, nil, []byte("<CompleteMultipartUpload></CompleteMultipartUpload>"))
		want := append(append(append([]byte{}, data...), data[lo:hi+1]...), []byte("tail")...)
		got := e.req("GET", key, nil, nil, nil)
		if r1.Status != 200 || r2.Status != 200 || r3.Status != 200 || rc.Status != 200 || got.Status != 200 || !bytes.Equal(got.Body, want) {
			e.kase(r, "partcopy|"+c.Src+"|mismatch")
			vs = append(vs, verdict{fmt.Sprintf("upload-part-copy-mismatch:src=%s:len=%s", c.Src, lenClass(len(data))),
				fmt.Sprintf("UploadPartCopy(whole)+UploadPartCopy(bytes=%d-%d)+UploadPart of a %d-byte %s source: statuses %d %d %d %d, GET %d returns %d bytes %.60q, want %d bytes %.60q",
					lo, hi, len(data), c.Src, r1.Status, r2.Status, r3.Status, rc.Status, got.Status, len(got.Body), got.Body, len(want), want)})
		} else {
			e.kase(r, "partcopy|"+c.Src+"|ok")
		}
	}
	return vs
}

func (e *env) bigCase(r *mc.Run, c Case) []verdict {
	const M = 1 << 20
	L := 2*M + 5
	key := e.fresh("big-")
	data := body(L)
	if resp := e.req("PUT", key, nil, nil, data); resp.Status != 200 {
		return []verdict{{"put-fails:len=multi-chunk", fmt.Sprintf("status %d %.200s", resp.Status, resp.Body)}}
	}
	got := e.req("GET", key, nil, nil, nil)
	if got.Status != 200 || !bytes.Equal(got.Body, data) {
		e.kase(r, "big|mismatch")
		return []verdict{{"put-roundtrip-mismatch:len=multi-chunk", fmt.Sprintf("GET status %d returns %d bytes, want %d", got.Status, len(got.Body), L)}}
	}
	e.kase(r, "big|ok")
	var ranges []rng
	pts := []int{0, 1, M - 1, M, M + 1, 2*M - 1, 2 * M, 2*M + 1, L - 1}
	for _, s := range pts {
		for _, en := range pts {
			if en >= s {
				ranges = append(ranges, rng{Hdr: fmt.Sprintf("bytes=%d-%d", s, en), Form: "s-e", Sat: true, Start: s, End: en, Feature: "chunk-boundary"})
			}
		}
		ranges = append(ranges, rng{Hdr: fmt.Sprintf("bytes=%d-", s), Form: "s-", Sat: true, Start: s, End: L - 1, Feature: "chunk-boundary"})
	}
	for _, n := range []int{1, 5, 6, M, M + 5, M + 6, L} {
		ranges = append(ranges, rng{Hdr: fmt.Sprintf("bytes=-%d", n), Form: "-n", Sat: true, Start: L - n, End: L - 1, Feature: "chunk-boundary"})
	}
	return e.checkRanges(r, "big", key, data, ranges, "multichunk")
}

// ---- deletes --------------------------------------------------------------------------------

var delUniverse = []string{"a", "a/b", "a/b/c", "ab", "b", "a/bc"}
var delNames = []string{"a", "a/b", "a/b/c", "ab", "b", "a/bc", "zz"}

// ---- ordered batch deletes over keys of mixed depth ---------------------------------------

const bdBucket = "bd"

// readme / photos/readme share a name at two depths; zz and photos/zz never exist.
var bdUniverse = []string{"readme", "photos/readme", "photos/a", "zebra", "zz", "photos/zz"}
var bdStates = [][]string{
	{"readme", "photos/readme", "photos/a"},
	{"readme", "photos/a"},
	{"readme", "zebra", "photos/readme", "photos/a"},
	{"photos/readme", "photos/a"},
}

func (e *env) bdReq(method, key string, q []s3sign.KV, body []byte) s3env.Resp {
	r := &s3sign.Req{Method: method, Host: host, Path: "/" + bdBucket, Query: q, Body: body}
	if key != "" {
		r.Path += "/" + key
	}
	return e.Do(r)
}

func depthOf(k string) string {
	if strings.Contains(k, "/") {
		return "nested"
	}
	return "top"
}

func (e *env) bdelCase(r *mc.Run, c Case) []verdict {
	// the bucket is emptied at the filer between cases
	for _, top := range []string{"readme", "photos", "zebra", "zz"} {
		e.RemoveAll("/buckets/" + bdBucket + "/" + top)
	}
	if left := e.Snapshot("/buckets/" + bdBucket); len(left) > 0 {
		mc.Fatal("bucket %s is not empty before the case: %v", bdBucket, left)
	}
	for _, k := range c.State {
		if resp := e.bdReq("PUT", k, nil, []byte("data:"+k)); resp.Status != 200 {
			return []verdict{{"put-fails:len=small", fmt.Sprintf("PUT %s: status %d", k, resp.Status)}}
		}
	}
	var b strings.Builder
	b.WriteString("<Delete>")
	if c.Quiet {
		b.WriteString("<Quiet>true</Quiet>")
	}
	for _, k := range c.Keys {
		fmt.Fprintf(&b, "<Object><Key>%s</Key></Object>", k)
	}
	b.WriteString("</Delete>")
	resp := e.bdReq("POST", "", []s3sign.KV{{K: "delete"}}, []byte(b.String()))
	listed := map[string]bool{}
	var shape []string
	for _, k := range c.Keys {
		listed[k] = true
		shape = append(shape, depthOf(k))
	}
	order := strings.Join(shape, ">")
	var vs []verdict
	outcome := "exact"
	if resp.Status != 200 {
		outcome = fmt.Sprintf("status-%d", resp.Status)
		vs = append(vs, verdict{"batch-delete-fails:order=" + order, fmt.Sprintf("state %v, keys %v: status %d %.200s", c.State, c.Keys, resp.Status, resp.Body)})
	}
	for _, k := range c.State {
		got := e.bdReq("GET", k, nil, nil)
		still := got.Status == 200 && string(got.Body) == "data:"+k
		switch {
		case listed[k] && still:
			// which listed keys precede it?
			before := "first"
			for _, q := range c.Keys {
				if q == k {
					break
				}
				before = "after-" + depthOf(q)
			}
			outcome = "keeps-listed"
			vs = append(vs, verdict{fmt.Sprintf("batch-delete-keeps-listed-key:key=%s:%s", depthOf(k), before),
				fmt.Sprintf("bucket %v, one POST ?delete listing %v (quiet=%v): listed key %q is still readable", c.State, c.Keys, c.Quiet, k)})
		case !listed[k] && !still:
			same := "other-name"
			for q := range listed {
				if q[strings.LastIndex(q, "/")+1:] == k[strings.LastIndex(k, "/")+1:] {
					same = "same-name-as-a-listed-key"
				}
			}
			outcome = "removes-unlisted"
			vs = append(vs, verdict{fmt.Sprintf("batch-delete-removes-unlisted-key:victim=%s:%s:order=%s", depthOf(k), same, order),
				fmt.Sprintf("bucket %v, one POST ?delete listing %v (quiet=%v): unlisted key %q is gone (GET status %d)", c.State, c.Keys, c.Quiet, k, got.Status)})
		}
	}
	// the response names every listed key exactly once (Deleted or Error); in quiet mode only errors are listed
	if resp.Status == 200 {
		var dr struct {
			Deleted []struct {
				Key string `xml:"Key"`
			} `xml:"Deleted"`
			Errors []struct {
				Key string `xml:"Key"`
			} `xml:"Error"`
		}
		if err := xml.Unmarshal(resp.Body, &dr); err != nil {
			vs = append(vs, verdict{"batch-delete-response-unparsable", fmt.Sprintf("%v: %.200s", err, resp.Body)})
		} else {
			n := map[string]int{}
			for _, d := range dr.Deleted {
				n[d.Key]++
			}
			for _, d := range dr.Errors {
				n[d.Key]++
			}
			for k, cnt := range n {
				if !listed[k] {
					vs = append(vs, verdict{"batch-delete-response-names-unlisted-key", fmt.Sprintf("keys %v: response names %q", c.Keys, k)})
				} else if cnt > 1 {
					vs = append(vs, verdict{"batch-delete-response-names-key-twice", fmt.Sprintf("keys %v: response names %q %d times", c.Keys, k, cnt)})
				}
			}
			if !c.Quiet {
				for _, k := range c.Keys {
					if n[k] == 0 {
						vs = append(vs, verdict{"batch-delete-response-omits-key:key=" + depthOf(k), fmt.Sprintf("keys %v: response names neither Deleted nor Error for %q: %.300s", c.Keys, k, resp.Body)})
					}
				}
			} else if len(dr.Deleted) > 0 {
				vs = append(vs, verdict{"batch-delete-quiet-lists-deleted", fmt.Sprintf("keys %v quiet: response lists %d Deleted", c.Keys, len(dr.Deleted))})
			}
		}
	}
	e.kase(r, fmt.Sprintf("bdel|state=%d|order=%s|quiet=%v|%s", len(c.State), order, c.Quiet, outcome))
	return vs
}

func (e *env) delCase(r *mc.Run, c Case) []verdict {
	pfx := e.fresh("d") + "/"
	for _, k := range c.Tree {
		e.req("PUT", pfx+k, nil, nil, []byte("data:"+k))
	}
	present := map[string]bool{}
	for _, k := range c.Tree {
		if resp := e.req("GET", pfx+k, nil, nil, nil); resp.Status == 200 && string(resp.Body) == "data:"+k {
			present[k] = true
		}
	}
	named := map[string]bool{}
	for _, k := range c.Delete {
		named[k] = true
	}
	status := 0
	if c.Single {
		resp := e.req("DELETE", pfx+c.Delete[0], nil, nil, nil)
		status = resp.Status
	} else {
		var b strings.Builder
		b.WriteString("<Delete>")
		for _, k := range c.Delete {
			fmt.Fprintf(&b, "<Object><Key>%s</Key></Object>", pfx+k)
		}
		b.WriteString("</Delete>")
		resp := e.req("POST", "", []s3sign.KV{{K: "delete"}}, nil, []byte(b.String()))
		status = resp.Status
	}
	var survived, wronglyGone, notDeleted []string
	for _, k := range c.Tree {
		if !present[k] {
			continue
		}
		resp := e.req("GET", pfx+k, nil, nil, nil)
		still := resp.Status == 200 && string(resp.Body) == "data:"+k
		switch {
		case still && named[k]:
			notDeleted = append(notDeleted, k)
		case !still && !named[k]:
			wronglyGone = append(wronglyGone, k)
		case still:
			survived = append(survived, k)
		}
	}
	mode := "batch"
	if c.Single {
		mode = "single"
	}
	// how the wrongly removed keys relate to the named keys
	feat := "unrelated"
	for _, v := range wronglyGone {
		for k := range named {
			if strings.HasPrefix(v, k+"/") && feat == "unrelated" {
				feat = "named-key-is-a-directory-above-the-victim"
			}
			if strings.HasPrefix(k, v+"/") {
				feat = "victim-is-a-path-prefix-of-a-named-key"
			}
		}
	}
	outcome := "exact"
	var vs []verdict
	if len(wronglyGone) > 0 {
		outcome = "removes-unnamed"
		vs = append(vs, verdict{fmt.Sprintf("delete-removes-unnamed-key:mode=%s:%s", mode, feat),
			fmt.Sprintf("contents %v, %s delete of %v (status %d): unnamed keys %v are gone too", keys(present), mode, c.Delete, status, wronglyGone)})
	}
	if len(notDeleted) > 0 {
		outcome += "+keeps-named"
		vs = append(vs, verdict{fmt.Sprintf("delete-keeps-named-key:mode=%s", mode),
			fmt.Sprintf("contents %v, %s delete of %v (status %d): named keys %v are still readable", keys(present), mode, c.Delete, status, notDeleted)})
	}
	e.kase(r, fmt.Sprintf("del|%s|present=%d|named=%d|%s|%s", mode, len(present), len(c.Delete), feat, outcome))
	return vs
}

func keys(m map[string]bool) []string {
	var out []string
	for k := range m {
		out = append(out, k)
	}
	sort.Strings(out)
	return out
}

// ---- enumeration --------------------------------------------------------------------------------

func enumerate(r *mc.Run) []Case {
	var cases []Case
	for L := 0; L <= 8; L++ {
		cases = append(cases, Case{Kind: "put", Len: L})
	}
	maxParts := r.Pick(2, 3)
	n := len(partNumbers)
	mc.Subsets(n, func(mask int) bool {
		var set []int
		for i := 0; i < n; i++ {
			if mask&(1<<uint(i)) != 0 {
				set = append(set, partNumbers[i])
			}
		}
		if len(set) == 0 || len(set) > maxParts {
			return true
		}
		mc.Permutations(len(set), func(p []int) bool {
			order := make([]int, len(set))
			for i, x := range p {
				order[i] = set[x]
			}
			cases = append(cases, Case{Kind: "mp", Parts: order})
			return true
		})
		return true
	})
	lens := []int{0, 1, 5, 70000}
	if r.Thorough() {
		lens = append(lens, 65536, 65537, 200000)
	}
	for _, ch := range []int{1, 65536} {
		for _, L := range lens {
			if ch == 1 && L > 5 {
				continue // one-byte chunks of a large body: the same code path, 100 bytes of framing per byte
			}
			cases = append(cases, Case{Kind: "stream", Len: L, Chunk: ch})
		}
	}
	if r.Thorough() {
		cases = append(cases, Case{Kind: "stream", Len: 300, Chunk: 1})
	}
	for _, L := range []int{0, 1, 8, 70000} {
		cases = append(cases, Case{Kind: "copy", Src: "single", Len: L})
	}
	cases = append(cases, Case{Kind: "copy", Src: "multipart"})
	cases = append(cases, Case{Kind: "big"})
	// multipart uploads mixing UploadPart and UploadPartCopy: part sets of size 2..3 of
	// {1,2,3}, every API per part, written in ascending and in descending order
	apis := []string{"upload", "copy", "copyrange"}
	for _, set := range [][]int{{1, 2}, {1, 3}, {2, 3}, {1, 2, 3}} {
		sizes := make([]int, len(set))
		for i := range sizes {
			sizes[i] = len(apis)
		}
		mc.Product(sizes, func(ix []int) bool {
			asc := make([]Write, len(set))
			for i, p := range set {
				asc[i] = Write{p, apis[ix[i]]}
			}
			desc := make([]Write, len(set))
			for i := range asc {
				desc[len(asc)-1-i] = asc[i]
			}
			cases = append(cases, Case{Kind: "mpmix", Writes: asc}, Case{Kind: "mpmix", Writes: desc})
			return true
		})
	}
	// the same part number written twice (alone, and with another part written in between): the last write wins
	for _, a := range apis {
		for _, b := range apis {
			cases = append(cases,
				Case{Kind: "mpmix", Writes: []Write{{1, a}, {1, b}}},
				Case{Kind: "mpmix", Writes: []Write{{1, a}, {2, "upload"}, {1, b}}},
				Case{Kind: "mpmix", Writes: []Write{{2, a}, {1, "copy"}, {2, b}}})
		}
	}
	// ordered batch deletes: every ordered pair (and triple) of distinct keys of the
	// mixed-depth universe in ONE request, from each starting state, Quiet off/on
	// (quick: triples only from the first state, Quiet off)
	for si, st := range bdStates {
		for _, quiet := range []bool{false, true} {
			for n := 2; n <= 3; n++ {
				if n == 3 && r.Quick() && (si != 0 || quiet) {
					continue
				}
				mc.Sequences(len(bdUniverse), n, n, func(ix []int) bool {
					seen := map[int]bool{}
					var ks []string
					for _, x := range ix {
						if seen[x] {
							return true
						}
						seen[x] = true
						ks = append(ks, bdUniverse[x])
					}
					cases = append(cases, Case{Kind: "bdel", State: st, Keys: ks, Quiet: quiet})
					return true
				})
			}
		}
	}
	maxTree, maxNamed := 3, r.Pick(1, 2)
	mc.Subsets(len(delUniverse), func(mask int) bool {
		var tree []string
		for i, k := range delUniverse {
			if mask&(1<<uint(i)) != 0 {
				tree = append(tree, k)
			}
		}
		if len(tree) == 0 || len(tree) > maxTree {
			return true
		}
		mc.Subsets(len(delNames), func(m2 int) bool {
			var named []string
			for i, k := range delNames {
				if m2&(1<<uint(i)) != 0 {
					named = append(named, k)
				}
			}
			if len(named) == 0 || len(named) > maxNamed {
				return true
			}
			cases = append(cases, Case{Kind: "del", Tree: tree, Delete: named})
			if len(named) == 1 {
				cases = append(cases, Case{Kind: "del", Tree: tree, Delete: named, Single: true})
			}
			return true
		})
		return true
	})
	return cases
}

func (e *env) exec(r *mc.Run, c Case) []verdict {
	var vs []verdict
	switch c.Kind {
	case "put":
		vs = e.putCase(r, c)
	case "mp":
		vs = e.mpCase(r, c)
	case "mpmix":
		vs = e.mpmixCase(r, c)
	case "stream":
		vs = e.streamCase(r, c)
	case "copy":
		vs = e.copyCase(r, c)
	case "big":
		vs = e.bigCase(r, c)
	case "del":
		vs = e.delCase(r, c)
	case "bdel":
		vs = e.bdelCase(r, c)
	default:
		mc.Fatal("unknown case kind %q", c.Kind)
	}
	return vs
}

func (e *env) runCase(r *mc.Run, c Case, nviol map[string]int) {
	t0 := time.Now()
	vs := e.exec(r, c)
	r.Add("cpu_ms_"+c.Kind, time.Since(t0).Milliseconds())
	r.Add("cases_"+c.Kind, 1)
	r.Sample(c.Kind, map[string]interface{}{"case": c, "violations": len(vs)})
	seen := map[string]bool{}
	for _, v := range vs {
		if seen[v.class] {
			continue
		}
		seen[v.class] = true
		nviol[v.class]++
		var recheck func() bool
		if nviol[v.class] == 1 {
			v := v
			recheck = func() bool {
				e.recheck = true
				defer func() { e.recheck = false }()
				for _, a := range e.exec(r, c) {
					if a.class == v.class {
						return true
					}
				}
				return false
			}
		}
		r.Violate(v.class, v.msg, c, recheck)
	}
}

func run(r *mc.Run) {
	mc.QuietGlog()
	if r.Replay != "" {
		var c Case
		if err := r.ReplayCase(&c); err != nil {
			mc.Fatal("replay: %v", err)
		}
		e := newEnv()
		defer e.Close()
		e.runCase(r, c, map[string]int{})
		return
	}
	r.Assume("default filer options with 1 MiB auto-chunking; one volume; requests are sequential")
	r.Assume("for a range that is unsatisfiable by RFC 7233 nothing is demanded except that no foreign bytes are returned")
	r.Assume("contents of a delete case = keys readable through GET after the PUTs (file/directory clashes are not stored)")
	cases := enumerate(r)
	r.Set("cases", len(cases))
	r.Parallel("roundtrip", 16, func(shard, n int) {
		e := newEnv()
		defer e.Close()
		nviol := map[string]int{}
		for i, c := range cases {
			if i%n != shard {
				continue
			}
			if !r.Begin(c) {
				continue
			}
			e.runCase(r, c, nviol)
		}
	})
}
