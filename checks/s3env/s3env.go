// Package s3env builds, for the S3 checks (C27-C29), the E7 mini cluster with a
// real filer and the real S3 gateway, optionally with a recording front between
// gateway and filer, plus helpers to seed and snapshot the filer namespace.
package s3env

import (
	"bytes"
	"context"
	"crypto/sha1"
	"encoding/hex"
	"fmt"
	"io"
	"net"
	"net/http"
	"path"
	"sort"
	"strings"
	"sync"
	"time"

	"google.golang.org/grpc"

	"verif/checks/s3sign"
	"verif/cluster"
	"verif/mc"

	"github.com/chrislusf/seaweedfs/weed/pb/filer_pb"
	"github.com/chrislusf/seaweedfs/weed/util"
)

type Options struct {
	SaveToFilerLimit int64    // objects up to this size are stored inline in the filer entry (no volume needed)
	MaxMB            int      // filer auto-chunk size
	Collections      []string // a volume is created for each (bucket names; "" = default collection)
	Record           bool     // put the recording front between gateway and filer
	AllowEmptyFolder bool
	Identities       string
}

type Env struct {
	C   *cluster.Cluster
	F   *cluster.Filer
	S3  *cluster.S3
	Rec *Recorder

	nextVid uint32
}

func New(opt Options) *Env {
	c := cluster.MustNew(cluster.Options{VolumeServers: 1})
	e := &Env{C: c, nextVid: 1}
	for _, col := range opt.Collections {
		c.MustAddVolume(e.nextVid, col, "000", "")
		e.nextVid++
	}
	e.F = c.MustStartFiler(cluster.FilerOptions{SaveToFilerLimit: opt.SaveToFilerLimit, MaxMB: opt.MaxMB, NoDeletionLoop: true})
	so := cluster.S3Options{AllowEmptyFolder: opt.AllowEmptyFolder, IdentitiesJSON: opt.Identities}
	if opt.Record {
		r, err := newRecorder(e.F)
		if err != nil {
			mc.Fatal("recorder: %v", err)
		}
		e.Rec = r
		so.FilerAddr, so.FilerGrpcAddr = r.HTTPAddr, r.GrpcAddr
		c.OnClose(r.stop)
	}
	e.S3 = c.MustStartS3(e.F, so)
	return e
}

func (e *Env) Close() { e.C.Close() }

// AddCollection creates one more volume for a bucket and waits until the filer knows it.
func (e *Env) AddCollection(col string) {
	vid := e.nextVid
	e.nextVid++
	e.C.MustAddVolume(vid, col, "000", "")
	if err := e.F.WaitForVolumes(vid); err != nil {
		mc.Fatal("%v", err)
	}
}

// Resp is a recorded gateway response.
type Resp struct {
	Status int
	Header http.Header
	Body   []byte
}

// Do sends a request built with s3sign through the gateway's router.
func (e *Env) Do(r *s3sign.Req) Resp {
	req, err := r.HTTP()
	if err != nil {
		mc.Fatal("cannot parse generated request: %v\n%q", err, r.Raw())
	}
	rec := e.S3.Do(req)
	return Resp{rec.Code, rec.Header(), rec.Body.Bytes()}
}

// ---- direct filer access (seeding / observation; not through the gateway) -------------

func (e *Env) client(fn func(filer_pb.SeaweedFilerClient) error) {
	if err := e.F.WithClient(fn); err != nil {
		mc.Fatal("filer gRPC: %v", err)
	}
}

// Mkdir creates a directory entry (parents are created by the filer).
func (e *Env) Mkdir(p string, ext map[string][]byte) {
	dir, name := path.Split(p)
	dir = strings.TrimSuffix(dir, "/")
	if dir == "" {
		dir = "/"
	}
	e.client(func(c filer_pb.SeaweedFilerClient) error {
		return filer_pb.CreateEntry(c, &filer_pb.CreateEntryRequest{Directory: dir, Entry: &filer_pb.Entry{
			Name: name, IsDirectory: true, Extended: ext,
			Attributes: &filer_pb.FuseAttributes{Mtime: 1600000000, Crtime: 1600000000, FileMode: uint32(0777 | (1 << 31))},
		}})
	})
}

// PutInline creates a file whose content is stored in the entry itself.
func (e *Env) PutInline(p string, content []byte, ext map[string][]byte) {
	dir, name := path.Split(p)
	dir = strings.TrimSuffix(dir, "/")
	if dir == "" {
		dir = "/"
	}
	e.client(func(c filer_pb.SeaweedFilerClient) error {
		return filer_pb.CreateEntry(c, &filer_pb.CreateEntryRequest{Directory: dir, Entry: &filer_pb.Entry{
			Name: name, Content: content, Extended: ext,
			Attributes: &filer_pb.FuseAttributes{Mtime: 1600000000, Crtime: 1600000000, FileMode: 0660, FileSize: uint64(len(content))},
		}})
	})
}

// RemoveAll deletes an entry recursively (missing is fine).
func (e *Env) RemoveAll(p string) {
	dir, name := path.Split(p)
	dir = strings.TrimSuffix(dir, "/")
	if dir == "" {
		dir = "/"
	}
	e.client(func(c filer_pb.SeaweedFilerClient) error {
		resp, err := c.DeleteEntry(context.Background(), &filer_pb.DeleteEntryRequest{Directory: dir, Name: name, IsDeleteData: true, IsRecursive: true, IgnoreRecursiveError: true})
		if err != nil {
			if strings.Contains(err.Error(), filer_pb.ErrNotFound.Error()) {
				return nil
			}
			return err
		}
		if resp.Error != "" && !strings.Contains(resp.Error, filer_pb.ErrNotFound.Error()) {
			return fmt.Errorf("%s", resp.Error)
		}
		return nil
	})
}

// Info is the observable shape of one filer entry.
type Info struct {
	Dir    bool
	Size   uint64
	Chunks int
	Hash   string // of inline content
	Ext    string // sorted extended attributes
}

func (i Info) String() string {
	return fmt.Sprintf("dir=%v size=%d chunks=%d hash=%s ext=%s", i.Dir, i.Size, i.Chunks, i.Hash, i.Ext)
}

// Snapshot lists the whole namespace below root (root itself excluded), reading
// the real filer in-process.  Paths below any of the skip prefixes are left out.
func (e *Env) Snapshot(root string, skip ...string) map[string]Info {
	out := map[string]Info{}
	var walk func(dir string)
	walk = func(dir string) {
		entries, _, err := e.F.Filer.ListDirectoryEntries(context.Background(), util.FullPath(dir), "", false, 1000000, "", "", "")
		if err != nil {
			mc.Fatal("snapshot %s: %v", dir, err)
		}
	next:
		for _, entry := range entries {
			p := string(entry.FullPath)
			for _, s := range skip {
				if p == s || strings.HasPrefix(p, s+"/") {
					continue next
				}
			}
			var ks []string
			for k, v := range entry.Extended {
				ks = append(ks, k+"="+string(v))
			}
			sort.Strings(ks)
			h := ""
			if len(entry.Content) > 0 {
				s := sha1.Sum(entry.Content)
				h = hex.EncodeToString(s[:6])
			}
			out[p] = Info{Dir: entry.IsDirectory(), Size: entry.Size(), Chunks: len(entry.Chunks), Hash: h, Ext: strings.Join(ks, ",")}
			if entry.IsDirectory() {
				walk(p)
			}
		}
	}
	walk(root)
	return out
}

// RawKeys returns the raw key set of the filer's leveldb2 store (entries no
// directory walk reaches included).
func (e *Env) RawKeys() map[string]bool {
	out := map[string]bool{}
	if err := e.F.Store.ScanAllV(func(part int, k, v []byte) {
		out[fmt.Sprintf("%d:%x", part, k)] = true
	}); err != nil {
		mc.Fatal("scan store: %v", err)
	}
	return out
}

// PurgeRawExcept deletes every raw store key that is not in keep and returns how many it removed.
func (e *Env) PurgeRawExcept(keep map[string]bool) int {
	type pk struct {
		part int
		key  []byte
	}
	var del []pk
	if err := e.F.Store.ScanAllV(func(part int, k, v []byte) {
		if !keep[fmt.Sprintf("%d:%x", part, k)] {
			del = append(del, pk{part, k})
		}
	}); err != nil {
		mc.Fatal("scan store: %v", err)
	}
	for _, d := range del {
		if err := e.F.Store.DeleteRawV(d.part, d.key); err != nil {
			mc.Fatal("purge store: %v", err)
		}
	}
	return len(del)
}

// Diff returns the sorted paths whose Info differs between two snapshots
// ("+p" created, "-p" removed, "~p" changed).
func Diff(a, b map[string]Info) []string {
	var out []string
	for p, ia := range a {
		ib, ok := b[p]
		if !ok {
			out = append(out, "-"+p)
		} else if ia != ib {
			out = append(out, "~"+p)
		}
	}
	for p := range b {
		if _, ok := a[p]; !ok {
			out = append(out, "+"+p)
		}
	}
	sort.Strings(out)
	return out
}

// ---- recording front ---------------------------------------------------------------------

// Op is one request the gateway made to the filer.
type Op struct {
	Proto  string `json:"proto"`
	Op     string `json:"op"`
	Path   string `json:"path"`            // as received
	Path2  string `json:"path2,omitempty"` // second path (rename target)
	Status int    `json:"status,omitempty"`
}

type Recorder struct {
	HTTPAddr string
	GrpcAddr string
	mu       sync.Mutex
	ops      []*Op
	inflight int
	hs       *http.Server
	gs       *grpc.Server
}

func (r *Recorder) add(o Op) *Op {
	r.mu.Lock()
	p := &o
	r.ops = append(r.ops, p)
	r.mu.Unlock()
	return p
}

// Take waits until no HTTP request is being handled by the filer, then returns
// and clears the recorded operations.
func (r *Recorder) Take() []Op {
	for i := 0; ; i++ {
		r.mu.Lock()
		if r.inflight == 0 {
			break
		}
		r.mu.Unlock()
		if i > 400000 {
			mc.Fatal("recording front does not quiesce")
		}
		time.Sleep(20 * time.Microsecond)
	}
	defer r.mu.Unlock()
	out := make([]Op, len(r.ops))
	for i, o := range r.ops {
		out[i] = *o
	}
	r.ops = nil
	return out
}

type statusWriter struct {
	http.ResponseWriter
	r    *Recorder
	op   *Op
	done bool
}

func (s *statusWriter) set(c int) {
	if !s.done {
		s.done = true
		s.r.mu.Lock()
		s.op.Status = c
		s.r.mu.Unlock()
	}
}

func (s *statusWriter) WriteHeader(c int) { s.set(c); s.ResponseWriter.WriteHeader(c) }

func (s *statusWriter) Write(b []byte) (int, error) { s.set(200); return s.ResponseWriter.Write(b) }

func newRecorder(f *cluster.Filer) (*Recorder, error) {
	r := &Recorder{}
	hl, err := net.Listen("tcp", cluster.Host+":0")
	if err != nil {
		return nil, err
	}
	gl, err := net.Listen("tcp", cluster.Host+":0")
	if err != nil {
		return nil, err
	}
	r.HTTPAddr, r.GrpcAddr = hl.Addr().String(), gl.Addr().String()
	real := f.Handler() // the http.ServeMux NewFilerServer registers: path cleaning and redirects are the real ones
	r.hs = &http.Server{Handler: http.HandlerFunc(func(w http.ResponseWriter, q *http.Request) {
		r.mu.Lock()
		r.inflight++
		r.mu.Unlock()
		op := r.add(Op{Proto: "http", Op: q.Method, Path: q.URL.Path})
		sw := &statusWriter{ResponseWriter: w, r: r, op: op}
		real.ServeHTTP(sw, q)
		sw.set(200)
		r.mu.Lock()
		r.inflight--
		r.mu.Unlock()
	})}
	go r.hs.Serve(hl)
	r.gs = grpc.NewServer(
		grpc.UnaryInterceptor(func(ctx context.Context, req interface{}, info *grpc.UnaryServerInfo, h grpc.UnaryHandler) (interface{}, error) {
			r.recordMsg(info.FullMethod, req)
			return h(ctx, req)
		}),
		grpc.StreamInterceptor(func(srv interface{}, ss grpc.ServerStream, info *grpc.StreamServerInfo, h grpc.StreamHandler) error {
			return h(srv, &recStream{ServerStream: ss, r: r, method: info.FullMethod})
		}),
	)
	filer_pb.RegisterSeaweedFilerServer(r.gs, f.Server)
	go r.gs.Serve(gl)
	return r, nil
}

func (r *Recorder) stop() {
	r.hs.Close()
	r.gs.Stop()
}

type recStream struct {
	grpc.ServerStream
	r      *Recorder
	method string
}

func (s *recStream) RecvMsg(m interface{}) error {
	err := s.ServerStream.RecvMsg(m)
	if err == nil {
		s.r.recordMsg(s.method, m)
	}
	return err
}

func (r *Recorder) recordMsg(method string, m interface{}) {
	op := method[strings.LastIndex(method, "/")+1:]
	switch q := m.(type) {
	case *filer_pb.LookupDirectoryEntryRequest:
		r.add(Op{Proto: "grpc", Op: op, Path: q.Directory + "/" + q.Name})
	case *filer_pb.ListEntriesRequest:
		r.add(Op{Proto: "grpc", Op: op, Path: q.Directory})
	case *filer_pb.CreateEntryRequest:
		r.add(Op{Proto: "grpc", Op: op, Path: q.Directory + "/" + q.GetEntry().GetName()})
	case *filer_pb.UpdateEntryRequest:
		r.add(Op{Proto: "grpc", Op: op, Path: q.Directory + "/" + q.GetEntry().GetName()})
	case *filer_pb.AppendToEntryRequest:
		r.add(Op{Proto: "grpc", Op: op, Path: q.Directory + "/" + q.EntryName})
	case *filer_pb.DeleteEntryRequest:
		r.add(Op{Proto: "grpc", Op: op, Path: q.Directory + "/" + q.Name})
	case *filer_pb.AtomicRenameEntryRequest:
		r.add(Op{Proto: "grpc", Op: op, Path: q.OldDirectory + "/" + q.OldName, Path2: q.NewDirectory + "/" + q.NewName})
	case *filer_pb.DeleteCollectionRequest:
		r.add(Op{Proto: "grpc", Op: op, Path: "collection:" + q.Collection})
	case *filer_pb.SubscribeMetadataRequest:
		// the gateway's own configuration watcher, not caused by a request
	default:
		r.add(Op{Proto: "grpc", Op: op})
	}
}

// ReadAll is a small helper.
func ReadAll(rd io.Reader) []byte { b, _ := io.ReadAll(rd); return b }

var _ = bytes.NewReader
