// Package s3sign is an independent AWS request signer (Signature V2 header and
// query, Signature V4 header, query and streaming, browser POST policy) written
// from the AWS documentation.  It is the *client* side of the S3 checks and
// deliberately shares no code with weed/s3api.
//
//	V2:  docs.aws.amazon.com/AmazonS3/latest/userguide/RESTAuthentication.html
//	V4:  docs.aws.amazon.com/AmazonS3/latest/API/sig-v4-header-based-auth.html
//	     .../sigv4-query-string-auth.html  .../sigv4-streaming.html
//	     .../sigv4-HTTPPOSTConstructPolicy.html
package s3sign

import (
	"bufio"
	"bytes"
	"crypto/hmac"
	"crypto/sha1"
	"crypto/sha256"
	"encoding/base64"
	"encoding/hex"
	"encoding/json"
	"fmt"
	"net/http"
	"sort"
	"strconv"
	"strings"
	"time"
)

type Cred struct {
	Access string
	Secret string
}

// KV is an ordered key/value pair.
type KV struct{ K, V string }

// Req is an HTTP request under construction.  Path is the *decoded* object
// path ("/bucket/key with space"); the wire form percent-encodes each segment
// the way the AWS SDKs do.  RawPath, when non-empty, is sent verbatim instead.
type Req struct {
	Method  string
	Host    string
	Path    string
	RawPath string
	// VhostBucket is set for virtual-host style requests (bucket in the Host
	// header): Signature V2 then prefixes the resource with "/bucket".
	VhostBucket string
	Query       []KV // decoded; an empty value is sent as a bare key
	Header      []KV
	Body        []byte
}

func (r *Req) Clone() *Req {
	c := *r
	c.Query = append([]KV(nil), r.Query...)
	c.Header = append([]KV(nil), r.Header...)
	c.Body = append([]byte(nil), r.Body...)
	return &c
}

func (r *Req) Get(name string) string {
	for _, h := range r.Header {
		if strings.EqualFold(h.K, name) {
			return h.V
		}
	}
	return ""
}

func (r *Req) Has(name string) bool {
	for _, h := range r.Header {
		if strings.EqualFold(h.K, name) {
			return true
		}
	}
	return false
}

// Set replaces (or adds) a header.
func (r *Req) Set(name, value string) {
	for i, h := range r.Header {
		if strings.EqualFold(h.K, name) {
			r.Header[i].V = value
			return
		}
	}
	r.Header = append(r.Header, KV{name, value})
}

func (r *Req) Del(name string) {
	out := r.Header[:0]
	for _, h := range r.Header {
		if !strings.EqualFold(h.K, name) {
			out = append(out, h)
		}
	}
	r.Header = out
}

func (r *Req) SetQuery(k, v string) {
	for i, q := range r.Query {
		if q.K == k {
			r.Query[i].V = v
			return
		}
	}
	r.Query = append(r.Query, KV{k, v})
}

func (r *Req) QueryGet(k string) string {
	for _, q := range r.Query {
		if q.K == k {
			return q.V
		}
	}
	return ""
}

// UriEncode is the AWS UriEncode(): unreserved characters stay, everything else
// is %XX (upper case); '/' is kept when encodeSlash is false.
func UriEncode(s string, encodeSlash bool) string {
	var b strings.Builder
	for i := 0; i < len(s); i++ {
		c := s[i]
		switch {
		case 'A' <= c && c <= 'Z', 'a' <= c && c <= 'z', '0' <= c && c <= '9', c == '-', c == '_', c == '.', c == '~':
			b.WriteByte(c)
		case c == '/' && !encodeSlash:
			b.WriteByte(c)
		default:
			fmt.Fprintf(&b, "%%%02X", c)
		}
	}
	return b.String()
}

// WirePath is the request-target path.
func (r *Req) WirePath() string {
	if r.RawPath != "" {
		return r.RawPath
	}
	return UriEncode(r.Path, false)
}

// WireQuery is the request-target query (without '?').
func (r *Req) WireQuery() string {
	var parts []string
	for _, q := range r.Query {
		if q.V == "" {
			parts = append(parts, UriEncode(q.K, true))
		} else {
			parts = append(parts, UriEncode(q.K, true)+"="+UriEncode(q.V, true))
		}
	}
	return strings.Join(parts, "&")
}

func (r *Req) Target() string {
	t := r.WirePath()
	if q := r.WireQuery(); q != "" {
		t += "?" + q
	}
	return t
}

// Raw renders the request as HTTP/1.1 wire bytes.
func (r *Req) Raw() []byte {
	var b bytes.Buffer
	fmt.Fprintf(&b, "%s %s HTTP/1.1\r\n", r.Method, r.Target())
	fmt.Fprintf(&b, "Host: %s\r\n", r.Host)
	hasCL := false
	for _, h := range r.Header {
		if strings.EqualFold(h.K, "Content-Length") {
			hasCL = true
		}
		fmt.Fprintf(&b, "%s: %s\r\n", h.K, h.V)
	}
	if !hasCL && (len(r.Body) > 0 || r.Method == "PUT" || r.Method == "POST") {
		fmt.Fprintf(&b, "Content-Length: %d\r\n", len(r.Body))
	}
	b.WriteString("\r\n")
	b.Write(r.Body)
	return b.Bytes()
}

// HTTP parses the wire bytes the way net/http's server does.
func (r *Req) HTTP() (*http.Request, error) {
	req, err := http.ReadRequest(bufio.NewReader(bytes.NewReader(r.Raw())))
	if err != nil {
		return nil, err
	}
	req.RemoteAddr = "127.0.0.1:1"
	return req, nil
}

// ---- Signature V2 -------------------------------------------------------------

// sub-resources that are part of CanonicalizedResource (AWS list).
var v2SubResources = []string{
	"acl", "delete", "lifecycle", "location", "logging", "notification", "partNumber", "policy",
	"requestPayment", "response-cache-control", "response-content-disposition", "response-content-encoding",
	"response-content-language", "response-content-type", "response-expires", "tagging", "torrent",
	"uploadId", "uploads", "versionId", "versioning", "versions", "website",
}

func v2CanonicalResource(r *Req) string {
	res := r.WirePath()
	if r.VhostBucket != "" {
		res = "/" + r.VhostBucket + res
	}
	var subs []string
	for _, name := range v2SubResources { // already sorted
		for _, q := range r.Query {
			if q.K == name {
				if q.V == "" {
					subs = append(subs, name)
				} else {
					subs = append(subs, name+"="+q.V)
				}
				break
			}
		}
	}
	if len(subs) > 0 {
		res += "?" + strings.Join(subs, "&")
	}
	return res
}

func v2AmzHeaders(r *Req) string {
	m := map[string][]string{}
	for _, h := range r.Header {
		k := strings.ToLower(h.K)
		if strings.HasPrefix(k, "x-amz-") {
			m[k] = append(m[k], strings.TrimSpace(h.V))
		}
	}
	var keys []string
	for k := range m {
		keys = append(keys, k)
	}
	sort.Strings(keys)
	var b strings.Builder
	for _, k := range keys {
		b.WriteString(k + ":" + strings.Join(m[k], ",") + "\n")
	}
	return b.String()
}

func hmacSHA1B64(secret, s string) string {
	h := hmac.New(sha1.New, []byte(secret))
	h.Write([]byte(s))
	return base64.StdEncoding.EncodeToString(h.Sum(nil))
}

// SignV2Header adds Date and "Authorization: AWS key:signature".
func SignV2Header(r *Req, c Cred, t time.Time) {
	r.Set("Date", t.UTC().Format(http.TimeFormat))
	sts := r.Method + "\n" + r.Get("Content-MD5") + "\n" + r.Get("Content-Type") + "\n" + r.Get("Date") + "\n" +
		v2AmzHeaders(r) + v2CanonicalResource(r)
	r.Set("Authorization", "AWS "+c.Access+":"+hmacSHA1B64(c.Secret, sts))
}

// PresignV2 adds AWSAccessKeyId, Expires and Signature query parameters.
func PresignV2(r *Req, c Cred, expires time.Time) {
	exp := strconv.FormatInt(expires.Unix(), 10)
	sts := r.Method + "\n" + r.Get("Content-MD5") + "\n" + r.Get("Content-Type") + "\n" + exp + "\n" +
		v2AmzHeaders(r) + v2CanonicalResource(r)
	r.Query = append(r.Query, KV{"AWSAccessKeyId", c.Access}, KV{"Expires", exp}, KV{"Signature", hmacSHA1B64(c.Secret, sts)})
}

// ---- Signature V4 -------------------------------------------------------------

const (
	amzDate       = "20060102T150405Z"
	shortDate     = "20060102"
	EmptySHA256   = "e3b0c44298fc1c149afbf4c8996fb92427ae41e4649b934ca495991b7852b855"
	StreamingHash = "STREAMING-AWS4-HMAC-SHA256-PAYLOAD"
	Unsigned      = "UNSIGNED-PAYLOAD"
)

func hmac256(key []byte, s string) []byte {
	h := hmac.New(sha256.New, key)
	h.Write([]byte(s))
	return h.Sum(nil)
}

func sha256hex(b []byte) string {
	s := sha256.Sum256(b)
	return hex.EncodeToString(s[:])
}

func signingKey(secret string, t time.Time, region, service string) []byte {
	k := hmac256([]byte("AWS4"+secret), t.UTC().Format(shortDate))
	k = hmac256(k, region)
	k = hmac256(k, service)
	return hmac256(k, "aws4_request")
}

func scope(t time.Time, region string) string {
	return t.UTC().Format(shortDate) + "/" + region + "/s3/aws4_request"
}

func v4CanonicalQuery(q []KV) string {
	type p struct{ k, v string }
	var ps []p
	for _, kv := range q {
		ps = append(ps, p{UriEncode(kv.K, true), UriEncode(kv.V, true)})
	}
	sort.Slice(ps, func(i, j int) bool {
		if ps[i].k != ps[j].k {
			return ps[i].k < ps[j].k
		}
		return ps[i].v < ps[j].v
	})
	var parts []string
	for _, x := range ps {
		parts = append(parts, x.k+"="+x.v)
	}
	return strings.Join(parts, "&")
}

func trimAll(s string) string { return strings.Join(strings.Fields(s), " ") }

// v4CanonicalHeaders returns (canonical headers block, signed header list) for
// the named headers ("host" is taken from r.Host).
func v4CanonicalHeaders(r *Req, names []string) (string, string) {
	names = append([]string(nil), names...)
	for i := range names {
		names[i] = strings.ToLower(names[i])
	}
	sort.Strings(names)
	var b strings.Builder
	for _, n := range names {
		var vals []string
		if n == "host" {
			vals = []string{r.Host}
		} else {
			for _, h := range r.Header {
				if strings.ToLower(h.K) == n {
					vals = append(vals, trimAll(h.V))
				}
			}
		}
		b.WriteString(n + ":" + strings.Join(vals, ",") + "\n")
	}
	return b.String(), strings.Join(names, ";")
}

func v4Signature(r *Req, c Cred, t time.Time, region string, q []KV, signed []string, payloadHash string) (string, string) {
	ch, sh := v4CanonicalHeaders(r, signed)
	canonical := strings.Join([]string{r.Method, r.WirePath(), v4CanonicalQuery(q), ch, sh, payloadHash}, "\n")
	sts := "AWS4-HMAC-SHA256\n" + t.UTC().Format(amzDate) + "\n" + scope(t, region) + "\n" + sha256hex([]byte(canonical))
	return hex.EncodeToString(hmac256(signingKey(c.Secret, t, region, "s3"), sts)), sh
}

// signedHeaderNames: host, content-type / content-md5 when present, and every x-amz-* header.
func signedHeaderNames(r *Req) []string {
	names := []string{"host"}
	seen := map[string]bool{"host": true}
	for _, h := range r.Header {
		k := strings.ToLower(h.K)
		if seen[k] {
			continue
		}
		if strings.HasPrefix(k, "x-amz-") || k == "content-type" || k == "content-md5" {
			names = append(names, k)
			seen[k] = true
		}
	}
	return names
}

// SignV4Header adds x-amz-date, x-amz-content-sha256 (unless already set) and Authorization.
func SignV4Header(r *Req, c Cred, t time.Time, region string) {
	r.Set("X-Amz-Date", t.UTC().Format(amzDate))
	if !r.Has("X-Amz-Content-Sha256") {
		r.Set("X-Amz-Content-Sha256", sha256hex(r.Body))
	}
	sig, sh := v4Signature(r, c, t, region, r.Query, signedHeaderNames(r), r.Get("X-Amz-Content-Sha256"))
	r.Set("Authorization", fmt.Sprintf("AWS4-HMAC-SHA256 Credential=%s/%s, SignedHeaders=%s, Signature=%s", c.Access, scope(t, region), sh, sig))
}

// PresignV4 adds the X-Amz-* query parameters (payload UNSIGNED-PAYLOAD, host signed).
func PresignV4(r *Req, c Cred, t time.Time, expires time.Duration, region string) {
	r.Query = append(r.Query,
		KV{"X-Amz-Algorithm", "AWS4-HMAC-SHA256"},
		KV{"X-Amz-Credential", c.Access + "/" + scope(t, region)},
		KV{"X-Amz-Date", t.UTC().Format(amzDate)},
		KV{"X-Amz-Expires", strconv.Itoa(int(expires / time.Second))},
		KV{"X-Amz-SignedHeaders", "host"},
	)
	sig, _ := v4Signature(r, c, t, region, r.Query, []string{"host"}, Unsigned)
	r.Query = append(r.Query, KV{"X-Amz-Signature", sig})
}

// SignV4Streaming turns the body into aws-chunked form with chunk signatures
// (chunks of chunkSize bytes) and signs the seed request.  badChunk >= 0 corrupts
// the signature of that chunk.
func SignV4Streaming(r *Req, c Cred, t time.Time, region string, chunkSize int, badChunk int) {
	data := r.Body
	r.Set("X-Amz-Content-Sha256", StreamingHash)
	r.Set("X-Amz-Decoded-Content-Length", strconv.Itoa(len(data)))
	r.Set("Content-Encoding", "aws-chunked")
	r.Set("X-Amz-Date", t.UTC().Format(amzDate))
	seed, sh := v4Signature(r, c, t, region, r.Query, signedHeaderNames(r), StreamingHash)
	r.Set("Authorization", fmt.Sprintf("AWS4-HMAC-SHA256 Credential=%s/%s, SignedHeaders=%s, Signature=%s", c.Access, scope(t, region), sh, seed))
	key := signingKey(c.Secret, t, region, "s3")
	prev := seed
	var out bytes.Buffer
	emit := func(chunk []byte, idx int) {
		sts := "AWS4-HMAC-SHA256-PAYLOAD\n" + t.UTC().Format(amzDate) + "\n" + scope(t, region) + "\n" + prev + "\n" + EmptySHA256 + "\n" + sha256hex(chunk)
		sig := hex.EncodeToString(hmac256(key, sts))
		prev = sig
		if idx == badChunk {
			b := []byte(sig)
			if b[0] == '0' {
				b[0] = '1'
			} else {
				b[0] = '0'
			}
			sig = string(b)
		}
		fmt.Fprintf(&out, "%x;chunk-signature=%s\r\n", len(chunk), sig)
		out.Write(chunk)
		out.WriteString("\r\n")
	}
	idx := 0
	for off := 0; off < len(data); off += chunkSize {
		end := off + chunkSize
		if end > len(data) {
			end = len(data)
		}
		emit(data[off:end], idx)
		idx++
	}
	emit(nil, idx)
	r.Body = out.Bytes()
}

// ---- browser POST policy (V4) ---------------------------------------------------

// PostForm describes a browser-style upload.
type PostForm struct {
	Bucket     string
	Key        string
	File       []byte
	Expiration time.Time
	// PolicyBucket is the bucket named in the policy's conditions (normally = Bucket).
	PolicyBucket string
	// TamperPolicy replaces the policy document after it was signed.
	TamperPolicy bool
}

// PostPolicyV4 makes r a multipart/form-data POST to /<bucket> carrying a signed policy.
func PostPolicyV4(r *Req, c Cred, t time.Time, region string, f PostForm) {
	cred := c.Access + "/" + scope(t, region)
	date := t.UTC().Format(amzDate)
	mk := func(bucket string) string {
		pol := map[string]interface{}{
			"expiration": f.Expiration.UTC().Format("2006-01-02T15:04:05.000Z"),
			"conditions": []interface{}{
				map[string]string{"bucket": bucket},
				[]string{"starts-with", "$key", ""},
				map[string]string{"x-amz-algorithm": "AWS4-HMAC-SHA256"},
				map[string]string{"x-amz-credential": cred},
				map[string]string{"x-amz-date": date},
			},
		}
		b, _ := json.Marshal(pol)
		return base64.StdEncoding.EncodeToString(b)
	}
	pb := f.PolicyBucket
	if pb == "" {
		pb = f.Bucket
	}
	policy := mk(pb)
	sig := hex.EncodeToString(hmac256(signingKey(c.Secret, t, region, "s3"), policy))
	if f.TamperPolicy {
		policy = mk(f.Bucket + "-other")
	}
	fields := []KV{
		{"key", f.Key},
		{"policy", policy},
		{"x-amz-algorithm", "AWS4-HMAC-SHA256"},
		{"x-amz-credential", cred},
		{"x-amz-date", date},
		{"x-amz-signature", sig},
	}
	r.Body, r.Header = MultipartBody(fields, f.File, r.Header)
}

// MultipartBody renders form fields plus a "file" part; returns body and headers with Content-Type set.
func MultipartBody(fields []KV, file []byte, hdr []KV) ([]byte, []KV) {
	const boundary = "verifboundary7MA4YWxkTrZu0gW"
	var b bytes.Buffer
	for _, f := range fields {
		fmt.Fprintf(&b, "--%s\r\nContent-Disposition: form-data; name=\"%s\"\r\n\r\n%s\r\n", boundary, f.K, f.V)
	}
	fmt.Fprintf(&b, "--%s\r\nContent-Disposition: form-data; name=\"file\"; filename=\"f.bin\"\r\nContent-Type: application/octet-stream\r\n\r\n", boundary)
	b.Write(file)
	fmt.Fprintf(&b, "\r\n--%s--\r\n", boundary)
	out := append([]KV(nil), hdr...)
	set := false
	for i := range out {
		if strings.EqualFold(out[i].K, "Content-Type") {
			out[i].V = "multipart/form-data; boundary=" + boundary
			set = true
		}
	}
	if !set {
		out = append(out, KV{"Content-Type", "multipart/form-data; boundary=" + boundary})
	}
	return b.Bytes(), out
}
