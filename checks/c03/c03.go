// Package c03: a volume survives a crash at any point without serving wrong
// data.  Crash-image enumeration: a history is run on a real volume, then every
// (data-file length, index-file length) pair consistent with the write order is
// materialised and reopened through the real loading / recovery path.
package c03

import (
	"fmt"
	"os"
	"runtime"
	"runtime/debug"
	"strings"
	"time"

	"verif/checks/volkit"
	"verif/mc"

	"github.com/chrislusf/seaweedfs/weed/storage"
	"github.com/chrislusf/seaweedfs/weed/storage/needle"
)

func Main() {
	mc.Main("C03", "fault_enumeration",
		"histories = all sequences of length <= n over {write key1|key2 with payload empty|5B|20B (a write to a present key is an overwrite), delete key1|key2}; for each history every crash image whose data file ends inside (or at the end of) the last operation's record, byte by byte, x every index-file length (every byte, torn entries included) whose entries all have their record completely in the data file; each image is reopened through Store.MountVolume -> NewVolume -> CheckAndFixVolumeDataIntegrity in a worker subprocess, all keys are read, then a new key and an overwrite are written and read back",
		run)
}

// ---- histories ---------------------------------------------------------------------

type Op struct {
	Kind    string `json:"op"` // W D
	Key     uint64 `json:"key"`
	Payload int    `json:"payload,omitempty"` // 0 empty, 1 five bytes, 2 twenty bytes
}

func (o Op) String() string {
	if o.Kind == "D" {
		return fmt.Sprintf("D(k%d)", o.Key)
	}
	return fmt.Sprintf("W(k%d,p%d)", o.Key, o.Payload)
}

var alphabet = []Op{
	{"W", 1, 1}, {"W", 2, 1}, {"W", 1, 0}, {"W", 2, 0}, {"W", 1, 2}, {"W", 2, 2}, {"D", 1, 0}, {"D", 2, 0},
}

const cookie = 0x5a5a5a5a

// data written by the i-th operation of a history: distinct per position, so
// that every version of a key is told apart.
func data(o Op, i int) []byte {
	switch o.Payload {
	case 1:
		return []byte(fmt.Sprintf("%d:k%d.", i, o.Key))
	case 2:
		return []byte(fmt.Sprintf("%d:k%d.abcdefghijklmno", i, o.Key))
	}
	return []byte{}
}

var keys = []uint64{1, 2}

// live is the outcome of running a history without a crash.
type live struct {
	dat, idx, vif []byte
	datLen        []int               // data file length after op i (index 0 = fresh volume)
	idxLen        []int               // index file length after op i
	reads         []map[uint64]string // what each key reads as after op i ("!notfound", "!deleted" or "=data")
	noop          bool                // some operation appended nothing (the history equals a shorter one)
}

func readStr(e *volkit.Env, vid needle.VolumeId, k uint64) string {
	got, _ := e.Read(vid, k, cookie)
	if got.Err != "" {
		if got.Err == "notfound" || got.Err == "deleted" {
			return "!gone"
		}
		return "!" + got.Err
	}
	return "=" + got.Data
}

func fileLen(p string) int {
	st, err := os.Stat(p)
	if err != nil {
		mc.Fatal("stat %s: %v", p, err)
	}
	return int(st.Size())
}

func runLive(e *volkit.Env, h []Op) *live {
	vid := e.NewVolume("")
	defer e.Drop(vid)
	base := e.Base(vid)
	lv := &live{}
	snap := func() {
		lv.datLen = append(lv.datLen, fileLen(base+".dat"))
		lv.idxLen = append(lv.idxLen, fileLen(base+".idx"))
		m := map[uint64]string{}
		for _, k := range keys {
			m[k] = readStr(e, vid, k)
		}
		lv.reads = append(lv.reads, m)
	}
	snap()
	for i, o := range h {
		if o.Kind == "W" {
			if _, err := e.Write(vid, o.Key, cookie, volkit.Blob{Data: data(o, i), Name: "f", Mime: "a/b"}); err != nil {
				mc.Fatal("live write %v: %v", o, err)
			}
		} else {
			if out, _ := e.DeleteLikeHandler(vid, o.Key, cookie); strings.HasPrefix(out, "error") {
				mc.Fatal("live delete %v: %v", o, out)
			}
		}
		snap()
		n := len(lv.datLen)
		if lv.datLen[n-1] == lv.datLen[n-2] {
			lv.noop = true
		} else if lv.idxLen[n-1] != lv.idxLen[n-2]+16 {
			mc.Fatal("operation %v appended %d index bytes", o, lv.idxLen[n-1]-lv.idxLen[n-2])
		}
	}
	e.Unload(vid)
	var err error
	if lv.dat, err = os.ReadFile(base + ".dat"); err != nil {
		mc.Fatal("%v", err)
	}
	if lv.idx, err = os.ReadFile(base + ".idx"); err != nil {
		mc.Fatal("%v", err)
	}
	if lv.vif, err = os.ReadFile(base + ".vif"); err != nil {
		mc.Fatal("%v", err)
	}
	if len(lv.dat) != lv.datLen[len(h)] || len(lv.idx) != lv.idxLen[len(h)] {
		mc.Fatal("file lengths changed on close")
	}
	return lv
}

// ---- one crash image -----------------------------------------------------------------

type Case struct {
	History []Op `json:"history"`
	L       int  `json:"dat_len"`
	M       int  `json:"idx_len"`
	// features (computed, for the class)
	Feat string `json:"features,omitempty"`
}

// features of an image, from which finding classes are computed
type feat struct {
	torn     bool   // index ends inside an entry
	lastIdx  string // operation of the last complete index entry: none, write, write-empty, delete
	tail     string // data beyond the record of the last complete index entry: none, whole-records, partial-record, whole+partial
	unalign  bool   // data file length not a multiple of 8
	j, jdat  int
	ahead    bool   // the index holds an entry whose data record is not completely in the data file
	cut      string // for ahead: which record the data file ends in, and where in it
}

func opKind(o Op) string {
	if o.Kind == "D" {
		return "delete"
	}
	if o.Payload == 0 {
		return "write-empty"
	}
	return "write"
}

func features(h []Op, lv *live, L, M int) feat {
	f := feat{torn: M%16 != 0, j: M / 16, unalign: L%8 != 0}
	for i := 1; i <= len(h); i++ {
		if lv.datLen[i] <= L {
			f.jdat = i
		}
	}
	f.lastIdx = "none"
	if f.j > 0 {
		f.lastIdx = opKind(h[f.j-1])
	}
	if need := (M + 15) / 16; f.jdat < need {
		// index ahead of data: the record of index entry `need` (complete or torn) is not completely in the data file
		f.ahead = true
		rec := f.j // the last COMPLETE index entry decides what recovery looks at
		if rec == 0 {
			rec = 1
		}
		which := "last"
		if L < lv.datLen[rec-1] {
			which, rec = "second-to-last", rec-1
		}
		f.cut = which + "/" + cutPlace(lv, rec, L)
	}
	whole := f.jdat > f.j
	partial := L > lv.datLen[f.jdat]
	switch {
	case whole && partial:
		f.tail = "whole+partial"
	case whole:
		f.tail = "whole-records"
	case partial:
		f.tail = "partial-record"
	default:
		f.tail = "none"
	}
	return f
}

// cutPlace says where inside record rec (1-based) the data file ends.
func cutPlace(lv *live, rec, L int) string {
	start := lv.datLen[rec-1]
	o := L - start
	if o < 0 {
		return "before-record"
	}
	size := int(int32(uint32(lv.dat[start+12])<<24 | uint32(lv.dat[start+13])<<16 | uint32(lv.dat[start+14])<<8 | uint32(lv.dat[start+15])))
	switch {
	case o == 0:
		return "record-missing"
	case o < 16:
		return "in-header"
	case o < 16+size || (o == 16 && size > 0):
		return "in-body"
	case o < 16+size+4:
		return "in-checksum" // includes "right after the header" of a size-0 record
	case o < 16+size+12:
		return "in-timestamp"
	}
	return "in-padding"
}

func (f feat) String() string {
	if f.torn {
		// a torn entry is what recovery meets first; nothing else about the image matters to it
		return "idx=torn"
	}
	if f.ahead && f.lastIdx == "delete" {
		// recovery checks a tombstone entry against the END of the data file, wherever that is
		return "idx-ahead:last=delete"
	}
	if f.ahead {
		return fmt.Sprintf("idx-ahead:last=%s:dat-cut=%s", f.lastIdx, f.cut)
	}
	return fmt.Sprintf("idx=whole:last=%s:tail=%s", f.lastIdx, f.tail)
}

type verdict struct {
	class string
	msg   string
}

// checkImage materialises one image in the env's directory under a fresh
// volume id, reopens it and applies the oracle.
func checkImage(e *volkit.Env, h []Op, lv *live, L, M int) (outcome string, vs []verdict) {
	f := features(h, lv, L, M)
	vid := e.ReserveVid()
	base := e.Base(vid)
	defer e.RemoveFiles(vid)
	must := func(err error) {
		if err != nil {
			mc.Fatal("materialise: %v", err)
		}
	}
	must(os.WriteFile(base+".dat", lv.dat[:L], 0644))
	must(os.WriteFile(base+".idx", lv.idx[:M], 0644))
	must(os.WriteFile(base+".vif", lv.vif, 0644))

	if err, pv := loadRecovering(e, vid); pv != "" {
		// the loading path panicked on the calling goroutine: a volume server would have died at start-up
		return "reopen-panics", []verdict{{"reopen-panics:" + f.String(), pv}}
	} else if err != nil {
		return "reopen-fails", []verdict{{"reopen-fails:" + f.String(), fmt.Sprintf("MountVolume: %v", err)}}
	}
	defer e.Unload(vid)
	v := e.Store.GetVolume(vid)
	add := func(class, msg string) {
		if class != "empty-blob-lost" { // that one does not depend on the crash point at all
			class += ":" + f.String()
		}
		vs = append(vs, verdict{class, msg})
	}

	// every key reads as in some live state j' with j <= j' <= jdat
	before := map[uint64]string{}
	for _, k := range keys {
		got := readStr(e, vid, k)
		before[k] = got
		ok := false
		lo := f.j
		if f.jdat < lo {
			lo = f.jdat // operations lo+1..j have an index entry but no complete record
		}
		for jj := lo; jj <= f.jdat; jj++ {
			if lv.reads[jj][k] == got {
				ok = true
			}
		}
		if !ok && f.ahead && aheadAllowed(h, lv, k, lo, (M+15)/16, got) {
			ok = true
		}
		if ok {
			continue
		}
		want := lv.reads[lo][k]
		if f.ahead && strings.HasPrefix(got, "=") && foreign(h, lv, k, got) {
			add("foreign-data-after-recovery", fmt.Sprintf("key %d reads %q, which is data written under another key", k, got))
			continue
		}
		// name the deviation by what the key should have been and what came out
		sym := "wrong-content"
		switch {
		case strings.HasPrefix(got, "!gone") && want == "=":
			sym = "empty-blob-lost"
		case strings.HasPrefix(got, "!gone"):
			sym = "blob-lost"
		case strings.HasPrefix(got, "!"):
			sym = "read-error"
		case strings.HasPrefix(want, "!"):
			sym = "deleted-or-absent-key-readable"
		}
		add(sym, fmt.Sprintf("key %d reads %q; allowed: states %d..%d = %v", k, got, lo, f.jdat, allowed(lv, k, lo, f.jdat)))
	}
	ro := v.IsReadOnly()
	if ro {
		add("volume-read-only-after-recovery", "the reopened volume refuses writes (IsReadOnly)")
	}
	if f.ahead {
		aheadWrites(e, vid, h, lv, f, M, ro, before, add)
	}
	// a new key, then an overwrite of key 1, are accepted and served
	newData := []byte("after-crash-new")
	if _, err := e.Write(vid, 3, cookie, volkit.Blob{Data: newData}); err != nil {
		if !ro {
			add("new-write-rejected", fmt.Sprintf("write of a new key: %v", volkit.ErrClass(err)))
		}
	} else if got := readStr(e, vid, 3); got != "="+string(newData) {
		add("new-write-not-served", fmt.Sprintf("new key reads %q", got))
	}
	owData := []byte("after-crash-overwrite")
	owOK := false
	if _, err := e.Write(vid, 1, cookie, volkit.Blob{Data: owData}); err != nil {
		if !ro {
			add("overwrite-rejected", fmt.Sprintf("overwrite of key 1: %v", volkit.ErrClass(err)))
		}
	} else if got := readStr(e, vid, 1); got != "="+string(owData) {
		add("overwrite-not-served", fmt.Sprintf("key 1 reads %q after the overwrite", got))
	} else {
		owOK = true
	}
	// the new writes did not disturb what the other key reads as
	for _, k := range keys {
		if k == 1 && owOK {
			continue
		}
		if got := readStr(e, vid, k); got != before[k] {
			if lo := minInt(f.j, f.jdat); f.ahead && (aheadAllowed(h, lv, k, lo, (M+15)/16, got) || got == lv.reads[lo][k]) {
				continue // an index-ahead key may move between error and its own exact content
			}
			add("new-write-changes-other-key", fmt.Sprintf("key %d read %q before and %q after the new writes", k, before[k], got))
		}
	}
	outcome = "ok"
	if ro {
		outcome = "readonly"
	}
	if len(vs) > 0 {
		outcome = "deviates"
	}
	return outcome, vs
}

// loadRecovering is Env.Load; a panic raised by the loading path on this
// goroutine is turned into a verdict (the process keeps going; anything that
// cannot be recovered - glog.Fatal, a panic elsewhere, a hang - is left to the
// worker-process isolation).
func loadRecovering(e *volkit.Env, vid needle.VolumeId) (err error, panicked string) {
	defer func() {
		if p := recover(); p != nil {
			st := string(debug.Stack())
			// keep the innermost repository frames
			var frames []string
			for _, ln := range strings.Split(st, "\n") {
				if strings.HasPrefix(ln, "github.com/chrislusf/seaweedfs/") {
					fn := strings.TrimPrefix(ln, "github.com/chrislusf/seaweedfs/weed/")
					if i := strings.LastIndex(fn, "("); i > 0 {
						fn = fn[:i]
					}
					frames = append(frames, fn)
				}
			}
			if len(frames) > 3 {
				frames = frames[:3]
			}
			panicked = fmt.Sprintf("panic: %v in %s", p, strings.Join(frames, " <- "))
		}
	}()
	return e.Load(vid), ""
}

// aheadAllowed: key k is worked on by an operation lo+1..hi whose index entry
// survived while its record did not.  The statement asks for an error / not
// found / the previous fully written version (handled by the caller); the exact
// content that operation was writing is accepted too (every byte that matters
// of the record may be there, e.g. only padding is missing) - it is neither
// corrupted nor foreign.
func aheadAllowed(h []Op, lv *live, k uint64, lo, hi int, got string) bool {
	if !touched(h, k, lo, hi) {
		return false
	}
	if strings.HasPrefix(got, "!") {
		return true
	}
	for jj := lo + 1; jj <= hi && jj < len(lv.reads); jj++ {
		if h[jj-1].Key == k && lv.reads[jj][k] == got {
			return true
		}
	}
	return false
}

func minInt(a, b int) int {
	if a < b {
		return a
	}
	return b
}

// touched: some operation lo+1..hi works on key k.
func touched(h []Op, k uint64, lo, hi int) bool {
	for i := lo; i < hi && i < len(h); i++ {
		if h[i].Key == k {
			return true
		}
	}
	return false
}

// foreign: got is the data some operation wrote under a key other than k.
func foreign(h []Op, lv *live, k uint64, got string) bool {
	for i, o := range h {
		if o.Kind == "W" && o.Key != k && "="+string(data(o, i)) == got && len(data(o, i)) > 0 {
			return true
		}
	}
	return strings.HasPrefix(got, "=after-crash") || strings.HasPrefix(got, "=NEW")
}

// aheadWrites: after recovery of an index-ahead image a new key whose record has
// the SAME length as the torn record, and one with another length, are written;
// then EVERY key is read again.  A stale index entry that points at the new end
// of the data file would now serve the new blob under the old key.
func aheadWrites(e *volkit.Env, vid needle.VolumeId, h []Op, lv *live, f feat, M int, ro bool,
	before map[uint64]string, add func(class, msg string)) {
	torn := h[(M+15)/16-1] // the operation whose record is incomplete
	same := make([]byte, len(data(torn, 0)))
	for i := range same {
		same[i] = "NEW3-same-size-as-torn-record"[i%29]
	}
	blobs := map[uint64]volkit.Blob{
		3: {Data: same, Name: "f", Mime: "a/b"}, // same name/mime lengths as the history's writes: same record length
		4: {Data: []byte("NEW4-other-size"), Name: "other", Mime: "text/plain"},
	}
	for _, k := range []uint64{3, 4} {
		if _, err := e.Write(vid, k, cookie, blobs[k]); err != nil {
			if !ro {
				add("new-write-rejected", fmt.Sprintf("write of new key %d: %v", k, volkit.ErrClass(err)))
			}
			continue
		}
		if got := readStr(e, vid, k); got != "="+string(blobs[k].Data) {
			add("new-write-not-served", fmt.Sprintf("new key %d reads %q", k, got))
		}
	}
	for _, k := range keys {
		got := readStr(e, vid, k)
		lo := f.jdat
		if f.j < lo {
			lo = f.j
		}
		if got == before[k] || aheadAllowed(h, lv, k, lo, (M+15)/16, got) || got == lv.reads[lo][k] {
			continue
		}
		if strings.HasPrefix(got, "=NEW") {
			add("foreign-data-after-recovery", fmt.Sprintf("key %d read %q before and serves the new blob %q after new keys were written", k, before[k], got))
		} else {
			add("new-write-changes-other-key", fmt.Sprintf("key %d read %q before and %q after new keys were written", k, before[k], got))
		}
	}
}

func allowed(lv *live, k uint64, j, jdat int) []string {
	var out []string
	for jj := j; jj <= jdat; jj++ {
		out = append(out, lv.reads[jj][k])
	}
	return out
}

// ---- enumeration -----------------------------------------------------------------------

func histories(maxLen int, withLarge bool, f func(h []Op)) {
	mc.Sequences(len(alphabet), 1, maxLen, func(seq []int) bool {
		h := make([]Op, len(seq))
		for i, x := range seq {
			h[i] = alphabet[x]
			if !withLarge && h[i].Payload == 2 {
				return true // quick tier: payloads empty and 5 bytes only
			}
		}
		f(h)
		return true
	})
}

// images calls f for every (L, M) of the history's last operation.
func images(h []Op, lv *live, tornAll bool, f func(L, M int)) {
	n := len(h)
	for L := lv.datLen[n-1] + 1; L <= lv.datLen[n]; L++ {
		maxEntries := n - 1
		if L == lv.datLen[n] {
			maxEntries = n
		}
		for M := 0; M <= 16*maxEntries; M++ {
			if r := M % 16; !tornAll && r != 0 && r != 1 && r != 8 && r != 15 {
				continue
			}
			f(L, M)
		}
	}
}

// watchdog ends the worker process when one image takes absurdly long (a
// recovery that never returns); the parent attributes the death to the case.
func watchdog(c Case) *time.Timer {
	return time.AfterFunc(60*time.Second, func() {
		buf := make([]byte, 1<<16)
		n := runtime.Stack(buf, true)
		fmt.Fprintf(os.Stderr, "WATCHDOG: case %s still running after 60s\n%s\n", mc.JS(c), buf[:n])
		os.Exit(3)
	})
}

// imagesAhead calls f for every image of the history in which the index is
// AHEAD of the data (the two files are persisted independently): the index
// holds all n entries (or the last one torn after 8 bytes) while the data file
// ends anywhere inside the last record - before its first byte, in the header,
// the body, the checksum, the timestamp, the padding - or inside the
// second-to-last record with the last one missing entirely.  Shorter indexes
// are the images of the shorter history.
func imagesAhead(h []Op, lv *live, f func(L, M int)) {
	n := len(h)
	from := 8
	if n >= 2 {
		from = lv.datLen[n-2]
	}
	for L := from; L < lv.datLen[n]; L++ {
		f(L, 16*n)
		f(L, 16*(n-1)+8) // last entry torn: the entry before it (if any) is the last complete one
	}
}

func crashClass(caseJSON, tail string) (string, string) {
	// the features were journalled with the case
	i := strings.Index(caseJSON, `"features":"`)
	if i < 0 {
		return "", ""
	}
	rest := caseJSON[i+len(`"features":"`):]
	j := strings.IndexByte(rest, '"')
	if j < 0 {
		return "", ""
	}
	kind := "recovery-terminates-process"
	if strings.Contains(tail, "WATCHDOG:") {
		kind = "recovery-hangs"
	} else if strings.Contains(tail, "panic:") {
		kind = "recovery-panics-off-thread"
	}
	return kind + ":" + rest[:j], "the worker process died while reopening / using this image"
}

func run(r *mc.Run) {
	volkit.Quiet()
	if r.Replay != "" {
		var c Case
		if err := r.ReplayCase(&c); err != nil {
			mc.Fatal("replay: %v", err)
		}
		e := volkit.NewEnv("c03", storage.NeedleMapInMemory)
		defer e.Close()
		lv := runLive(e, c.History)
		_, vs := checkImage(e, c.History, lv, c.L, c.M)
		r.Case("replay")
		for _, v := range vs {
			r.Violate(v.class, v.msg, c, nil)
		}
		return
	}
	maxLen := r.Pick(2, 3)
	r.Set("max_history_length", maxLen)
	allBytesUpTo := r.Pick(1, 2)
	r.Set("index_lengths", fmt.Sprintf("histories of length <= %d: every byte; longer ones: every whole entry count and torn entries cut after 1, 8 and 15 bytes", allBytesUpTo))
	r.Assume("the needle map is the in-memory kind; a surviving .ldb directory is governed by an mtime comparison that a copied image cannot reproduce faithfully")
	r.Assume("images whose data file ends before the last operation's record are the images of the shorter history, which is enumerated too")
	r.Assume("reference = what each key read as on the live volume after each operation of the same history (no crash), so the oracle is independent of the blob-store semantics checked by C01")

	const shards = 16
	r.ParallelC("images", shards, func(shard, n int) {
		runtime.GOMAXPROCS(2)
		volkit.PaceGC(256)
		e := volkit.NewEnv("c03", storage.NeedleMapInMemory)
		defer e.Close()
		hi := 0
		rechecked := map[string]int{}
		histories(maxLen, r.Thorough(), func(h []Op) {
			mine := hi%n == shard
			hi++
			if !mine {
				return
			}
			lv := runLive(e, h)
			if lv.noop {
				r.Case("history-with-an-operation-that-appends-nothing|skipped")
				return
			}
			r.Add("histories", 1)
			one := func(L, M int) {
				f := features(h, lv, L, M)
				c := Case{History: h, L: L, M: M, Feat: f.String()}
				if !r.Begin(c) {
					return
				}
				wd := watchdog(c)
				outcome, vs := checkImage(e, h, lv, L, M)
				wd.Stop()
				r.Case(f.String() + "|" + outcome)
				for _, v := range vs {
					hh, LL, MM := append([]Op{}, h...), L, M
					cls := v.class
					rechecked[cls]++
					if rechecked[cls] > 2 {
						r.Violate(v.class, v.msg, c, nil)
						continue
					}
					r.Violate(v.class, v.msg, c, func() bool {
						lv2 := runLive(e, hh)
						_, vs2 := checkImage(e, hh, lv2, LL, MM)
						for _, x := range vs2 {
							if x.class == cls {
								return true
							}
						}
						return false
					})
				}
			}
			images(h, lv, len(h) <= allBytesUpTo, one)
			imagesAhead(h, lv, func(L, M int) {
				r.Add("images_index_ahead_of_data", 1)
				one(L, M)
			})
		})
	}, crashClass)
	r.Sample("image", Case{History: []Op{{"W", 1, 1}, {"D", 1, 0}}, L: 80, M: 17, Feat: "idx=torn:last=write:tail=whole-records"})
}
