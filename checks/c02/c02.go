// Package c02: the needle on-disk encoding round-trips and is self-checking.
//
// Seam: needle.Needle.Append to a real backend.DiskFile, Needle.ReadData,
// needle.ReadNeedleHeader + Needle.ReadNeedleBody, storage.ScanVolumeFileFrom.
// Space: the complete product versions x all 2^7 flag combinations x boundary
// data lengths x name/mime lengths x pairs lengths x ttl x last-modified; every
// block of that product is one multi-record file that is scanned; all sequences
// of up to 3/4 records over a representative record set are scanned as well;
// for every record with <= 64 data bytes every single-bit flip of every data
// byte must make ReadData fail.
package c02

import (
	"bytes"
	"fmt"
	"io"
	"os"
	"path/filepath"
	"runtime"
	"runtime/debug"
	"sync"

	"verif/mc"

	"github.com/chrislusf/seaweedfs/weed/storage"
	"github.com/chrislusf/seaweedfs/weed/storage/backend"
	"github.com/chrislusf/seaweedfs/weed/storage/needle"
	"github.com/chrislusf/seaweedfs/weed/storage/super_block"
	"github.com/chrislusf/seaweedfs/weed/storage/types"
)

func Main() {
	mc.Main("C02", "exploration",
		"complete product version{2,3} x all 128 combinations of the 7 defined flag bits x data length x name length x mime length x pairs length x ttl{none,3m} x lastModified, each record appended to a real DiskFile and read back by ReadData, by ReadNeedleHeader+ReadNeedleBody and by ScanVolumeFileFrom over the multi-record block file; all record sequences up to length 3 (quick) / 4 (thorough) over a representative record set scanned; every single-bit flip of every data byte of every record with <= 64 data bytes (in memory through ReadBytes for all, on the file through ReadData for the metadata-free ones); distinct = (phase, version, flag-count class, data-length class, name/mime/pairs class, outcome)",
		run)
}

type w = map[string]interface{}

// violate forwards the first 3 failing cases of a class (per process) to
// r.Violate (which keeps 3 witnesses per class anyway) and only counts the rest,
// so that a large failing family does not pay the 5x recheck per case.
var (
	vmu    sync.Mutex
	vcount = map[string]int{}
)

func violate(r *mc.Run, class, msg string, wit interface{}, recheck func() bool) {
	vmu.Lock()
	vcount[class]++
	c := vcount[class]
	vmu.Unlock()
	r.Add("failing_cases", 1)
	if c > 3 {
		return
	}
	r.Violate(class, msg, wit, recheck)
}

// P is one input shape; it is also the replay witness.
type P struct {
	Version  int    `json:"version"`
	Flags    int    `json:"flags"`
	DataLen  int    `json:"data_len"`
	NameLen  int    `json:"name_len"`
	MimeLen  int    `json:"mime_len"`
	PairsLen int    `json:"pairs_len"`
	Ttl      int    `json:"ttl"` // 0 none, 1 = 3 minutes
	LM       uint64 `json:"last_modified"`
	// only in witnesses
	Phase string `json:"phase,omitempty"`
	Seq   []P    `json:"seq,omitempty"`
	Byte  int    `json:"byte,omitempty"`
	Xor   int    `json:"xor,omitempty"`
}

var flagBits = []int{needle.FlagIsCompressed, needle.FlagHasName, needle.FlagHasMime, needle.FlagHasLastModifiedDate,
	needle.FlagHasTtl, needle.FlagHasPairs, needle.FlagIsChunkManifest}

func flagsOf(ix int) int {
	f := 0
	for b, bit := range flagBits {
		if ix&(1<<uint(b)) != 0 {
			f |= bit
		}
	}
	return f
}

type domains struct {
	versions []int
	dataLens []int
	nmLens   []int
	pairLens []int
	ttls     []int
	lms      []uint64
}

func doms(r *mc.Run) domains {
	d := domains{
		versions: []int{3, 2},
		dataLens: []int{0, 1, 7, 8, 9, 255, 256, 4095, 4096, 4097},
		nmLens:   []int{0, 1, 7, 8, 9, 254, 255},
		pairLens: []int{0, 1, 65535},
		ttls:     []int{0, 1},
		lms:      []uint64{0, 1<<40 - 1},
	}
	if !r.Quick() {
		d.dataLens = nil
		for i := 0; i <= 16; i++ { // every length residue mod 8, twice
			d.dataLens = append(d.dataLens, i)
		}
		d.dataLens = append(d.dataLens, 31, 32, 33, 63, 64, 65, 255, 256, 4095, 4096, 4097, 65535, 65536, 65537)
		d.lms = []uint64{0, 1 << 32, 1<<40 - 1}
	}
	return d
}

var (
	fillMu    sync.Mutex
	fillCache = map[[2]int][]byte{}
)

// fill returns n position-dependent bytes (cached; callers never modify them).
func fill(n int, salt int) []byte {
	fillMu.Lock()
	defer fillMu.Unlock()
	if b, ok := fillCache[[2]int{n, salt}]; ok {
		return b
	}
	b := fillRaw(n, salt)
	fillCache[[2]int{n, salt}] = b
	return b
}

func fillRaw(n int, salt int) []byte {
	b := make([]byte, n)
	for i := range b {
		b[i] = byte(i*131 + salt*17 + n + (i >> 8))
	}
	return b
}

var ttl3m = &needle.TTL{Count: 3, Unit: needle.Minute}

func idOf(p P) types.NeedleId {
	// ids spread over the whole 64-bit range, never 0
	x := uint64(p.Flags)<<56 | uint64(p.DataLen)<<32 | uint64(p.NameLen)<<24 | uint64(p.MimeLen)<<16 | uint64(p.PairsLen&0xff)<<8 | uint64(p.Ttl)<<1 | 1
	return types.NeedleId(x)
}

func build(p P) *needle.Needle {
	n := &needle.Needle{}
	n.Id = idOf(p)
	n.Cookie = types.Cookie(uint32(p.Flags)<<24 | uint32(p.DataLen&0xffff)<<8 | 0x5a)
	n.Data = fill(p.DataLen, 1)
	n.Flags = byte(p.Flags)
	n.Name = fill(p.NameLen, 2)
	n.Mime = fill(p.MimeLen, 3)
	n.Pairs = fill(p.PairsLen, 4)
	n.PairsSize = uint16(p.PairsLen)
	n.LastModified = p.LM
	if p.Ttl == 1 {
		n.Ttl = ttl3m
	} else {
		n.Ttl = needle.EMPTY_TTL
	}
	n.Checksum = needle.NewCRC(n.Data)
	n.AppendAtNs = 0x0102030405060708
	return n
}

func lenClass(n int) string {
	switch {
	case n == 0:
		return "0"
	case n < 8:
		return "<8"
	case n == 8:
		return "8"
	case n < 254:
		return "<254"
	case n < 256:
		return "254-255"
	case n < 4096:
		return "<4096"
	case n == 4096:
		return "4096"
	case n < 65535:
		return "<64K"
	default:
		return ">=64K-1"
	}
}

func popcount(x int) int {
	c := 0
	for ; x != 0; x &= x - 1 {
		c++
	}
	return c
}

// compare checks that `got` (decoded) is the blob `want` (encoded).  It returns
// a violation class + message, or "".
func compare(p P, want, got *needle.Needle, how string) (string, string) {
	if got.Id != want.Id || got.Cookie != want.Cookie {
		return "id-cookie-mismatch:" + how, fmt.Sprintf("id/cookie %x/%x decoded as %x/%x", want.Id, want.Cookie, got.Id, got.Cookie)
	}
	if p.DataLen == 0 && p.Flags != 0 {
		// the family of the empty blob that carries flags / metadata
		lost := got.Flags != want.Flags ||
			(want.HasName() && !bytes.Equal(got.Name, want.Name)) ||
			(want.HasMime() && !bytes.Equal(got.Mime, want.Mime)) ||
			(want.HasPairs() && !bytes.Equal(got.Pairs, want.Pairs)) ||
			(want.HasLastModifiedDate() && got.LastModified != want.LastModified) ||
			(want.HasTtl() && !ttlEq(got.Ttl, want.Ttl))
		if lost {
			return "empty-data-drops-flags-and-metadata", fmt.Sprintf("blob with empty data and flags %#x (name %d B, mime %d B, pairs %d B) decodes with flags %#x name %d B mime %d B pairs %d B (%s)",
				want.Flags, p.NameLen, p.MimeLen, p.PairsLen, got.Flags, len(got.Name), len(got.Mime), len(got.Pairs), how)
		}
		return "", ""
	}
	if !bytes.Equal(got.Data, want.Data) {
		return "data-mismatch:" + how, fmt.Sprintf("data of %d bytes decoded as %d bytes", len(want.Data), len(got.Data))
	}
	if p.DataLen > 0 && got.DataSize != uint32(p.DataLen) {
		return "datasize-mismatch:" + how, fmt.Sprintf("DataSize %d want %d", got.DataSize, p.DataLen)
	}
	if got.Flags != want.Flags {
		return "flags-mismatch:" + how, fmt.Sprintf("flags %#x decoded as %#x", want.Flags, got.Flags)
	}
	if want.HasName() && !bytes.Equal(got.Name, want.Name) {
		return "name-mismatch:" + how, fmt.Sprintf("name of %d bytes decoded as %d bytes", len(want.Name), len(got.Name))
	}
	if want.HasMime() && !bytes.Equal(got.Mime, want.Mime) {
		return "mime-mismatch:" + how, fmt.Sprintf("mime of %d bytes decoded as %d bytes", len(want.Mime), len(got.Mime))
	}
	if want.HasPairs() && !bytes.Equal(got.Pairs, want.Pairs) {
		return "pairs-mismatch:" + how, fmt.Sprintf("pairs of %d bytes decoded as %d bytes", len(want.Pairs), len(got.Pairs))
	}
	if want.HasLastModifiedDate() && got.LastModified != want.LastModified {
		return "lastmodified-mismatch:" + how, fmt.Sprintf("lastModified %d decoded as %d", want.LastModified, got.LastModified)
	}
	if want.HasTtl() && !ttlEq(got.Ttl, want.Ttl) {
		return "ttl-mismatch:" + how, fmt.Sprintf("ttl %v decoded as %v", want.Ttl, got.Ttl)
	}
	return "", ""
}

func ttlEq(a, b *needle.TTL) bool {
	if a == nil || b == nil {
		return (a == nil || a.Count == 0) && (b == nil || b.Count == 0)
	}
	return a.Count == b.Count && a.Unit == b.Unit
}

// volFile is one scratch volume data file.
type volFile struct {
	f    *os.File
	df   *backend.DiskFile
	path string
}

const superBlockSize = 8

func newVolFile(dir, name string) *volFile {
	path := filepath.Join(dir, name)
	f, err := os.OpenFile(path, os.O_RDWR|os.O_CREATE|os.O_TRUNC, 0644)
	if err != nil {
		mc.Fatal("create %s: %v", path, err)
	}
	v := &volFile{f: f, path: path}
	v.reset()
	return v
}

// reset truncates to a file holding only 8 super-block bytes.
func (v *volFile) reset() {
	if err := v.f.Truncate(0); err != nil {
		mc.Fatal("truncate: %v", err)
	}
	if _, err := v.f.WriteAt(make([]byte, superBlockSize), 0); err != nil {
		mc.Fatal("write super block: %v", err)
	}
	v.df = backend.NewDiskFile(v.f)
}

func (v *volFile) close() {
	v.f.Close()
	os.Remove(v.path)
}

type rec struct {
	p      P
	n      *needle.Needle
	offset int64
	size   types.Size
	actual int64
}

// appendOne appends the record and applies the alignment part of the oracle.
func appendOne(r *mc.Run, v *volFile, p P) (rec, bool) {
	n := build(p)
	before, _, _ := v.df.GetStat()
	off, dsize, actual, err := n.Append(v.df, needle.Version(p.Version))
	after, _, _ := v.df.GetStat()
	rc := rec{p: p, n: n, offset: int64(off), size: n.Size, actual: actual}
	switch {
	case err != nil:
		violate(r, "append-error", fmt.Sprintf("Append: %v", err), p, nil)
		return rc, false
	case int64(off) != before || off%8 != 0:
		violate(r, "record-offset-not-aligned", fmt.Sprintf("record at offset %d (file end was %d)", off, before), p, nil)
		return rc, false
	case actual%8 != 0 || after-before != actual || after%8 != 0:
		violate(r, "record-length-not-aligned", fmt.Sprintf("record length %d, file grew %d -> %d", actual, before, after), p, nil)
		return rc, false
	case int(dsize) != p.DataLen:
		violate(r, "append-returned-size", fmt.Sprintf("Append returned data size %d for %d data bytes", dsize, p.DataLen), p, nil)
		return rc, false
	case actual != needle.GetActualSize(n.Size, needle.Version(p.Version)):
		violate(r, "record-length-vs-size-field", fmt.Sprintf("record length %d but header size %d implies %d", actual, n.Size, needle.GetActualSize(n.Size, needle.Version(p.Version))), p, nil)
		return rc, false
	}
	return rc, true
}

// readBack applies the decode part of the oracle through both read paths.
func readBack(r *mc.Run, v *volFile, rc rec, headerBody bool) string {
	p := rc.p
	ver := needle.Version(p.Version)
	got := new(needle.Needle)
	if err := got.ReadData(v.df, rc.offset, rc.size, ver); err != nil {
		violate(r, "readdata-error", fmt.Sprintf("ReadData(offset %d, size %d): %v", rc.offset, rc.size, err), p, nil)
		return "readdata-error"
	}
	if c, m := compare(p, rc.n, got, "ReadData"); c != "" {
		violate(r, c, m, p, func() bool { return recheckShape(p, c) })
		return c
	}
	if !headerBody {
		return "ok"
	}
	hn, _, bodyLen, err := needle.ReadNeedleHeader(v.df, ver, rc.offset)
	if err != nil || hn == nil {
		violate(r, "readheader-error", fmt.Sprintf("ReadNeedleHeader(%d): %v", rc.offset, err), p, nil)
		return "readheader-error"
	}
	if hn.Id != rc.n.Id || hn.Cookie != rc.n.Cookie || hn.Size != rc.size || bodyLen != rc.actual-types.NeedleHeaderSize {
		violate(r, "header-mismatch", fmt.Sprintf("header id %x cookie %x size %d body %d, want %x %x %d %d", hn.Id, hn.Cookie, hn.Size, bodyLen, rc.n.Id, rc.n.Cookie, rc.size, rc.actual-types.NeedleHeaderSize), p, nil)
		return "header-mismatch"
	}
	if _, err := hn.ReadNeedleBody(v.df, ver, rc.offset+types.NeedleHeaderSize, bodyLen); err != nil {
		violate(r, "readbody-error", fmt.Sprintf("ReadNeedleBody: %v", err), p, nil)
		return "readbody-error"
	}
	if c, m := compare(p, rc.n, hn, "ReadNeedleBody"); c != "" {
		violate(r, c, m, p, func() bool { return recheckShape(p, c) })
		return c
	}
	return "ok"
}

// recheckShape re-executes one shape in a private file and reports whether it
// fails with the same class.
func recheckShape(p P, class string) bool {
	dir := mc.TempDir("c02r")
	defer os.RemoveAll(dir)
	v := newVolFile(dir, "r.dat")
	defer v.close()
	n := build(p)
	off, _, _, err := n.Append(v.df, needle.Version(p.Version))
	if err != nil {
		return false
	}
	got := new(needle.Needle)
	if err := got.ReadData(v.df, int64(off), n.Size, needle.Version(p.Version)); err != nil {
		return false
	}
	c, _ := compare(p, n, got, "ReadData")
	if c == class {
		return true
	}
	hn, _, bodyLen, err := needle.ReadNeedleHeader(v.df, needle.Version(p.Version), int64(off))
	if err != nil {
		return false
	}
	hn.ReadNeedleBody(v.df, needle.Version(p.Version), int64(off)+types.NeedleHeaderSize, bodyLen)
	c, _ = compare(p, n, hn, "ReadNeedleBody")
	return c == class
}

// scanner collects what ScanVolumeFileFrom visits.
type visit struct {
	id     types.NeedleId
	offset int64
	size   types.Size
	n      *needle.Needle
}
type scanner struct {
	visits []visit
	body   bool
}

func (s *scanner) VisitSuperBlock(super_block.SuperBlock) error { return nil }
func (s *scanner) ReadNeedleBody() bool                          { return s.body }
func (s *scanner) VisitNeedle(n *needle.Needle, offset int64, h, b []byte) error {
	s.visits = append(s.visits, visit{n.Id, offset, n.Size, n})
	return nil
}

// scanAndCompare scans the file and requires exactly the appended records in order.
func scanAndCompare(r *mc.Run, v *volFile, version int, recs []rec, wit interface{}, modes ...bool) string {
	if len(modes) == 0 {
		modes = []bool{true, false}
	}
	for _, body := range modes {
		sc := &scanner{body: body}
		if err := storage.ScanVolumeFileFrom(needle.Version(version), v.df, superBlockSize, sc); err != nil {
			violate(r, "scan-error", fmt.Sprintf("ScanVolumeFileFrom: %v", err), wit, nil)
			return "scan-error"
		}
		if len(sc.visits) != len(recs) {
			violate(r, "scan-visit-count", fmt.Sprintf("scan visited %d records, %d were appended", len(sc.visits), len(recs)), wit, nil)
			return "scan-visit-count"
		}
		for i, vi := range sc.visits {
			rc := recs[i]
			if vi.id != rc.n.Id || vi.offset != rc.offset || vi.size != rc.size {
				violate(r, "scan-visit-mismatch", fmt.Sprintf("visit %d is (id %x, offset %d, size %d), appended (id %x, offset %d, size %d)", i, vi.id, vi.offset, vi.size, rc.n.Id, rc.offset, rc.size), wit, nil)
				return "scan-visit-mismatch"
			}
			if body {
				if c, m := compare(rc.p, rc.n, vi.n, "scan"); c != "" && c != "empty-data-drops-flags-and-metadata" {
					violate(r, c, fmt.Sprintf("visit %d: %s", i, m), wit, nil)
					return c
				}
			}
		}
	}
	return "ok"
}

// flips: every single-bit flip of every data byte must make the read fail.
func flips(r *mc.Run, v *volFile, rc rec) {
	p := rc.p
	if p.DataLen == 0 || p.DataLen > 64 {
		return
	}
	ver := needle.Version(p.Version)
	blob, err := needle.ReadNeedleBlob(v.df, rc.offset, rc.size, ver)
	if err != nil {
		violate(r, "readblob-error", fmt.Sprintf("ReadNeedleBlob: %v", err), p, nil)
		return
	}
	dataStart := types.NeedleHeaderSize + 4
	xors := []int{1, 2, 4, 8, 16, 32, 64, 128}
	if !r.Quick() && p.DataLen <= 9 && p.NameLen == 0 && p.MimeLen == 0 && p.PairsLen == 0 {
		// thorough: every one of the 255 alterations of every data byte, on the records without optional field bytes
		xors = xors[:0]
		for x := 1; x < 256; x++ {
			xors = append(xors, x)
		}
	}
	bad := 0
	for i := 0; i < p.DataLen; i++ {
		for _, x := range xors {
			blob[dataStart+i] ^= byte(x)
			got := new(needle.Needle)
			err := got.ReadBytes(blob, rc.offset, rc.size, ver)
			blob[dataStart+i] ^= byte(x)
			if err == nil {
				bad++
				wp := p
				wp.Phase, wp.Byte, wp.Xor = "flip", i, x
				violate(r, "altered-data-byte-returned", fmt.Sprintf("data byte %d xor %#x: ReadBytes returned %d data bytes without error", i, x, len(got.Data)), wp, nil)
			}
		}
	}
	n := int64(p.DataLen * len(xors))
	r.Cases(n)
	r.Add("data_byte_alterations", n)
	// on the file itself, for the records without optional fields
	onFile := p.NameLen == 0 && p.MimeLen == 0 && p.PairsLen == 0
	if onFile {
		one := make([]byte, 1)
		for i := 0; i < p.DataLen; i++ {
			pos := rc.offset + int64(dataStart+i)
			for bit := 0; bit < 8; bit++ {
				v.df.ReadAt(one, pos)
				orig := one[0]
				one[0] ^= 1 << uint(bit)
				v.f.WriteAt(one, pos)
				got := new(needle.Needle)
				err := got.ReadData(v.df, rc.offset, rc.size, ver)
				one[0] = orig
				v.f.WriteAt(one, pos)
				if err == nil {
					bad++
					wp := p
					wp.Phase, wp.Byte, wp.Xor = "flip-file", i, 1<<uint(bit)
					violate(r, "altered-data-byte-returned", fmt.Sprintf("data byte %d bit %d flipped in the file: ReadData returned %d data bytes without error", i, bit, len(got.Data)), wp, nil)
				}
			}
		}
		r.Cases(int64(p.DataLen * 8))
		r.Add("data_bit_flips_on_file", int64(p.DataLen*8))
	}
	out := "all-detected"
	if bad > 0 {
		out = "undetected"
	}
	r.Distinct(fmt.Sprintf("flip|v%d|data=%d|meta=%v|%s", p.Version, p.DataLen, !onFile, out))
}

func caseClass(p P, out string) string {
	return fmt.Sprintf("rt|v%d|nflags=%d|data=%s|name=%s|mime=%s|pairs=%s|%s", p.Version, popcount(p.Flags), lenClass(p.DataLen),
		lenClass(p.NameLen*(p.Flags&needle.FlagHasName)/needle.FlagHasName), lenClass(p.MimeLen*(p.Flags&needle.FlagHasMime)/needle.FlagHasMime),
		lenClass(p.PairsLen*(p.Flags&needle.FlagHasPairs)/needle.FlagHasPairs), out)
}

// block runs one (version, flags, dataLen) block of the product in one file.
func block(r *mc.Run, v *volFile, d domains, version, flags, dataLen int) {
	v.reset()
	var recs []rec
	for _, nl := range d.nmLens {
		for _, ml := range d.nmLens {
			for _, pl := range d.pairLens {
				for _, t := range d.ttls {
					for _, lm := range d.lms {
						p := P{Version: version, Flags: flags, DataLen: dataLen, NameLen: nl, MimeLen: ml, PairsLen: pl, Ttl: t, LM: lm}
						rc, ok := appendOne(r, v, p)
						if !ok {
							r.Case(caseClass(p, "append-failed"))
							return // the file is no longer well-formed
						}
						out := readBack(r, v, rc, false) // header+body decoding of every record is checked by the block scan below
						r.Case(caseClass(p, out))
						flips(r, v, rc)
						recs = append(recs, rc)
					}
				}
			}
		}
	}
	out := scanAndCompare(r, v, version, recs, w{"phase": "block-scan", "version": version, "flags": flags, "data_len": dataLen}, true)
	r.Case(fmt.Sprintf("blockscan|v%d|records=%d|%s", version, len(recs), out))
	r.Add("records_scanned_in_block_files", int64(len(recs)))
}

// representative records for the sequence scans: every size residue mod 8 and
// every optional field.
func repSet() []P {
	var s []P
	for dl := 0; dl <= 8; dl++ {
		s = append(s, P{Flags: 0, DataLen: dl})
	}
	all := 0
	for _, b := range flagBits {
		all |= b
	}
	s = append(s,
		P{Flags: needle.FlagHasName, DataLen: 0, NameLen: 3},
		P{Flags: needle.FlagHasName, DataLen: 1, NameLen: 255},
		P{Flags: needle.FlagHasMime | needle.FlagHasLastModifiedDate, DataLen: 3, MimeLen: 9, LM: 1<<40 - 1},
		P{Flags: needle.FlagHasTtl, DataLen: 2, Ttl: 1},
		P{Flags: needle.FlagHasPairs, DataLen: 5, PairsLen: 300},
		P{Flags: all, DataLen: 9, NameLen: 7, MimeLen: 8, PairsLen: 1, Ttl: 1, LM: 1},
		P{Flags: all, DataLen: 256, NameLen: 254, MimeLen: 255, PairsLen: 65535, Ttl: 1, LM: 1<<40 - 1},
	)
	return s
}

func seqCase(r *mc.Run, v *volFile, version int, rs []P, seq []int) {
	v.reset()
	var recs []rec
	var ps []P
	for _, i := range seq {
		p := rs[i]
		p.Version = version
		ps = append(ps, p)
	}
	wit := P{Phase: "seq", Version: version, Seq: ps}
	for _, p := range ps {
		rc, ok := appendOne(r, v, p)
		if !ok {
			r.Case(fmt.Sprintf("seq|v%d|len=%d|append-failed", version, len(seq)))
			return
		}
		recs = append(recs, rc)
	}
	out := scanAndCompare(r, v, version, recs, wit)
	// every record must still read back after later records were appended
	for _, rc := range recs {
		got := new(needle.Needle)
		if err := got.ReadData(v.df, rc.offset, rc.size, needle.Version(version)); err != nil {
			violate(r, "readdata-error", fmt.Sprintf("ReadData(offset %d, size %d) in a %d-record file: %v", rc.offset, rc.size, len(recs), err), wit, nil)
			out = "readdata-error"
		} else if c, m := compare(rc.p, rc.n, got, "ReadData"); c != "" && c != "empty-data-drops-flags-and-metadata" {
			violate(r, c, m, wit, nil)
			out = c
		}
	}
	resid := 0
	for _, rc := range recs {
		resid = resid*8 + int(rc.size%8)
	}
	r.Case(fmt.Sprintf("seq|v%d|len=%d|sizes-mod8=%o|%s", version, len(seq), resid, out))
}

// tuneWorker: the decoders allocate a fresh buffer per record (64 KiB with the
// largest pairs); with one OS process per shard the default GC settings spend
// most of the time in collector threads.  Performance only.
func tuneWorker() {
	if os.Getenv("VERIF_CHILD_PHASE") != "" {
		runtime.GOMAXPROCS(1)
		debug.SetGCPercent(25) // a small, cache-warm heap: measured 3x less system time than the default
	}
}

func run(r *mc.Run) {
	d := doms(r)
	if r.Replay != "" {
		replay(r, d)
		return
	}
	r.Assume("records are written through backend.DiskFile on tmpfs; other BackendStorageFile implementations are not driven")
	r.Assume("the blob is (id, cookie, data, flags, and each optional field whose flag is set); AppendAtNs and Checksum are not part of the blob")
	r.Assume("a set HasTtl flag always comes with a non-nil TTL value (EMPTY_TTL or 3m), as every constructor in the tree does")
	r.Set("data_lengths", d.dataLens)
	r.Set("name_mime_lengths", d.nmLens)
	r.Set("pairs_lengths", d.pairLens)

	// phase 1: the product, sharded by block
	type blk struct{ version, flags, dataLen int }
	var blocks []blk
	for _, ver := range d.versions {
		for fi := 0; fi < 1<<uint(len(flagBits)); fi++ {
			for _, dl := range d.dataLens {
				blocks = append(blocks, blk{ver, flagsOf(fi), dl})
			}
		}
	}
	const shards = 32
	r.Parallel("product", shards, func(shard, n int) {
		tuneWorker()
		dir := mc.TempDir("c02") // inside the body: a worker process exits right after it
		defer os.RemoveAll(dir)
		v := newVolFile(dir, fmt.Sprintf("p%d.dat", shard))
		defer v.close()
		for i, b := range blocks {
			if i%n != shard {
				continue
			}
			if !r.Begin(w{"phase": "block", "version": b.version, "flags": b.flags, "data_len": b.dataLen}) {
				continue
			}
			block(r, v, d, b.version, b.flags, b.dataLen)
		}
	})

	// phase 2: record sequences
	rs := repSet()
	maxLen := r.Pick(3, 4)
	r.Set("sequence_alphabet", len(rs))
	r.Set("sequence_max_len", maxLen)
	r.Parallel("sequences", 16, func(shard, n int) {
		tuneWorker()
		dir := mc.TempDir("c02")
		defer os.RemoveAll(dir)
		v := newVolFile(dir, fmt.Sprintf("s%d.dat", shard))
		defer v.close()
		idx := 0
		for _, ver := range d.versions {
			mc.Sequences(len(rs), 0, maxLen, func(seq []int) bool {
				idx++
				if idx%n != shard {
					return true
				}
				if !r.Begin(w{"phase": "seq", "version": ver, "seq": seq}) {
					return true
				}
				seqCase(r, v, ver, rs, seq)
				return true
			})
		}
	})
	r.Sample("record", P{Version: 3, Flags: 0xbf, DataLen: 9, NameLen: 255, MimeLen: 254, PairsLen: 65535, Ttl: 1, LM: 1<<40 - 1})
	r.Sample("record", P{Version: 3, Flags: needle.FlagHasName, DataLen: 0, NameLen: 1})
	r.Sample("sequence", P{Phase: "seq", Version: 3, Seq: []P{rs[0], rs[1], rs[len(rs)-1]}})
	r.Sample("flip", P{Phase: "flip", Version: 3, Flags: 0, DataLen: 9, Byte: 8, Xor: 128})
}

func replay(r *mc.Run, d domains) {
	var raw map[string]interface{}
	if err := r.ReplayCase(&raw); err != nil {
		mc.Fatal("replay: %v", err)
	}
	dir := mc.TempDir("c02")
	defer os.RemoveAll(dir)
	v := newVolFile(dir, "replay.dat")
	defer v.close()
	num := func(k string) int {
		f, _ := raw[k].(float64)
		return int(f)
	}
	switch raw["phase"] {
	case "block", "block-scan":
		block(r, v, d, num("version"), num("flags"), num("data_len"))
	case "seq":
		var p P
		if err := r.ReplayCase(&p); err != nil {
			mc.Fatal("replay: %v", err)
		}
		if len(p.Seq) == 0 { // crash journal form: indexes into the representative set
			rs := repSet()
			var seq []int
			if l, ok := raw["seq"].([]interface{}); ok {
				for _, x := range l {
					f, _ := x.(float64)
					seq = append(seq, int(f))
				}
			}
			seqCase(r, v, p.Version, rs, seq)
			return
		}
		rs := p.Seq
		seq := make([]int, len(rs))
		for i := range seq {
			seq[i] = i
		}
		seqCase(r, v, p.Version, rs, seq)
	default: // a single shape (round trip or flip)
		var p P
		if err := r.ReplayCase(&p); err != nil {
			mc.Fatal("replay: %v", err)
		}
		p.Phase, p.Byte, p.Xor = "", 0, 0
		rc, ok := appendOne(r, v, p)
		if !ok {
			return
		}
		r.Case(caseClass(p, readBack(r, v, rc, true)))
		flips(r, v, rc)
		scanAndCompare(r, v, p.Version, []rec{rc}, p)
	}
	_ = io.EOF
}
