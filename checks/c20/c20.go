// Package c20: chunk garbage collection never deletes referenced data (see checks/fsys).
package c20

import (
	"verif/checks/fsys"
	"verif/mc"
)

var paths = []string{"/a", "/a/b", "/d", "/a/d"}

func Main() {
	mc.Main("C20", "model_checking",
		"explicit-state search (breadth first, replay from the empty store) over all histories of create/overwrite (plain and manifest chunk) / update (replace, add chunk) / append / hard link (the Dir.Link request pair) / rename / delete (recursive x deleteData) on the paths {/a,/a/b,/d,/a/d}, executed on the real FilerServer gRPC methods; plus, outside the search, recursive deletes (deleteData) of directories with PaginationSize-1 / PaginationSize / PaginationSize+1 / 2x / 2x+1 one-chunk children (and a sub-directory sorting last); after every event the deletion queue is drained and the BatchDelete calls at the volume-server stand-in are read; distinct = (operation, flags, kind of source, kind of target, outcome, store changed)",
		func(r *mc.Run) {
			fsys.Run(r, &fsys.Config{
				ID: "C20",
				Alpha: fsys.Alphabet{Paths: paths, NoMvIntoOwnSubtree: true, Ops: map[string]bool{
					"mkfile": true, "mkman": true, "updrepl": true, "updadd": true, "append": true, "del": true, "mv": true, "ln": true}},
				Judge: func(s *fsys.Step, acc *fsys.Acc) *fsys.Verdict {
					v, ls := fsys.JudgeC20(s)
					acc.Leaked, acc.Scheduled = ls.Leaked, ls.Scheduled
					return v
				},
				DepthQ:      4,
				DepthT:      5,
				Unmerged:    2,
				CrashBudget: 1,
				SyncTree:    true,
				Pagination:  true,
				Assumptions: []string{"renames of a directory into its own subtree are not part of this alphabet (they never return; decided by C18)"},
			})
		})
}
