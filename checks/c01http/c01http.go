// Package c01http is the HTTP part of C01 (volume blob store): the cookie
// clause and read-your-writes through the real volume server handlers
// (PostHandler, DeleteHandler, GetOrHeadHandler) of an in-process volume server.
//
// It is not a check of its own (ids are fixed): the C01 owner calls
//
//	c01http.Run(r)            // inside C01's run(), exploration mode
//	c01http.IsWitness(raw)    // in replay mode: does this replay file belong to c01http?
//	c01http.Replay(r)         // ... then re-execute it
//
// Space: every sequence of length 1..d (quick 3, thorough 4) over the alphabet
// {write(key 1|2, cookie A|B, payload 1 byte | 9 bytes | empty), delete(key,
// cookie A|B)}; after every event every key is read (GET and HEAD) with both
// cookies.  Oracle: reference map key -> (cookie, data) | absent, updated by what
// the API reported (2xx = successful):
//   - a GET/HEAD with a cookie different from the stored one is not answered 2xx/304
//     and carries none of the blob's bytes / etag;
//   - a DELETE with a different cookie is not answered 2xx and changes nothing
//     (store-level snapshot of the needle before/after);
//   - a GET with the stored cookie returns exactly the data of the last successful
//     write, 404 after a successful delete or when nothing was written.
//
// All violation classes start with "http:" and name the payload family, so that
// the known empty-blob defects of C01 stay separate from everything else.
package c01http

import (
	"encoding/json"
	"fmt"
	"os"
	"strings"

	"verif/checks/vhutil"
	"verif/cluster"
	"verif/mc"
)

type Event struct {
	Op      string `json:"op"` // W | D
	Key     int    `json:"key"`
	Cookie  int    `json:"cookie"`
	Payload int    `json:"payload,omitempty"` // 1 one byte, 2 nine bytes, 0 empty
}

func (e Event) String() string {
	if e.Op == "W" {
		return fmt.Sprintf("W(k%d,c%c,p%d)", e.Key, 'A'+rune(e.Cookie), e.Payload)
	}
	return fmt.Sprintf("D(k%d,c%c)", e.Key, 'A'+rune(e.Cookie))
}

type witness struct {
	HTTP   bool    `json:"c01http"`
	Events []Event `json:"events"`
}

var cookies = []uint32{0x11111111, 0x22222222}

func payload(e Event) []byte {
	switch e.Payload {
	case 1:
		return []byte{byte('a' + e.Key*2 + e.Cookie)}
	case 2:
		return []byte(fmt.Sprintf("k%dc%d-56789", e.Key, e.Cookie))[:9]
	}
	return []byte{}
}

func alphabet() []Event {
	var a []Event
	for _, p := range []int{1, 2, 0} { // simplest first; the empty payload last
		for k := 1; k <= 2; k++ {
			for c := 0; c < 2; c++ {
				a = append(a, Event{"W", k, c, p})
			}
		}
	}
	for k := 1; k <= 2; k++ {
		for c := 0; c < 2; c++ {
			a = append(a, Event{Op: "D", Key: k, Cookie: c})
		}
	}
	return a
}

type ref struct {
	written bool // some write succeeded earlier
	present bool
	cookie  int
	data    []byte
}

func family(d []byte) string {
	if len(d) == 0 {
		return "empty-blob"
	}
	return "nonempty-blob"
}

type env struct {
	c    *cluster.Cluster
	base uint64
}

func (e *env) url(base uint64, key, cookie int) string {
	return e.c.Servers[0].HttpUrl(cluster.Fid(1, base+uint64(key), cookies[cookie]))
}

type verdict struct{ class, msg string }

// runSeq executes one sequence on fresh needle keys and returns the violations (one per class).
func runSeq(r *mc.Run, e *env, base uint64, seq []Event, count bool) (out []verdict) {
	seen := map[string]bool{}
	add := func(v verdict) {
		if !seen[v.class] {
			seen[v.class] = true
			out = append(out, v)
		}
	}
	model := map[int]*ref{1: {}, 2: {}}
	store := e.c.Servers[0].Store
	for i, ev := range seq {
		m := model[ev.Key]
		before := vhutil.Snap(store, 1, base+uint64(ev.Key))
		var resp vhutil.Resp
		if ev.Op == "W" {
			body, ct := vhutil.Multipart(vhutil.Part{FileName: "", Mime: "application/octet-stream", Data: payload(ev)})
			resp = vhutil.Do("POST", e.url(base, ev.Key, ev.Cookie), nil, body, ct)
		} else {
			resp = vhutil.Do("DELETE", e.url(base, ev.Key, ev.Cookie), nil, nil, "")
		}
		if resp.Err != nil {
			add(verdict{"http:transport-error:" + ev.Op, fmt.Sprintf("step %d %s: %v", i, ev, resp.Err)})
			return out
		}
		ok := resp.Status >= 200 && resp.Status < 300
		after := vhutil.Snap(store, 1, base+uint64(ev.Key))
		mismatch := m.present && m.cookie != ev.Cookie
		fam := family(m.data)
		if count {
			r.Case(fmt.Sprintf("http|%s|present=%v|cookie-mismatch=%v|%s|status=%d", ev.Op, m.present, mismatch, fam, resp.Status))
		}
		switch ev.Op {
		case "D":
			if mismatch {
				if ok {
					add(verdict{"http:delete-with-wrong-cookie-accepted:" + fam, fmt.Sprintf("step %d %s answered %d although the stored cookie is %c", i, ev, resp.Status, 'A'+rune(m.cookie))})
				}
				if before != after {
					add(verdict{"http:delete-with-wrong-cookie-changed-needle:" + fam, fmt.Sprintf("step %d %s answered %d and the needle changed: %+v -> %+v", i, ev, resp.Status, before, after)})
				}
			} else if ok && m.present {
				m.present = false
			} else if !ok && before != after {
				// a rejected delete is merely "not successful"; it must not change anything
				add(verdict{"http:rejected-delete-changed-needle:" + fam, fmt.Sprintf("step %d %s answered %d and the needle changed: %+v -> %+v", i, ev, resp.Status, before, after)})
			}
		case "W":
			if ok {
				m.written, m.present, m.cookie, m.data = true, true, ev.Cookie, payload(ev)
			} else if before != after {
				// a rejected write (e.g. "mismatching cookie", also against the cookie kept by a
				// tombstone) is merely "not successful"; it must not change what reads return
				add(verdict{"http:rejected-write-changed-needle:" + fam, fmt.Sprintf("step %d %s answered %d and the needle changed", i, ev, resp.Status)})
			}
		}
		// read everything with both cookies
		for k := 1; k <= 2; k++ {
			mk := model[k]
			for c := 0; c < 2; c++ {
				for _, method := range []string{"GET", "HEAD"} {
					rr := vhutil.Do(method, e.url(base, k, c), nil, nil, "")
					if rr.Err != nil {
						add(verdict{"http:transport-error:" + method, fmt.Sprintf("after step %d: %s k%d c%c: %v", i, method, k, 'A'+rune(c), rr.Err)})
						return out
					}
					succ := rr.Status >= 200 && rr.Status < 300 || rr.Status == 304
					fam := family(mk.data)
					if count {
						r.Case(fmt.Sprintf("http|%s|present=%v|cookie-match=%v|%s|status=%d", method, mk.present, mk.present && mk.cookie == c, fam, rr.Status))
					}
					path := fmt.Sprintf("after %v: %s key %d cookie %c", seq[:i+1], method, k, 'A'+rune(c))
					switch {
					case !mk.present:
						if succ {
							why := "never-written"
							if mk.written {
								why = "deleted"
							}
							add(verdict{"http:read-of-absent-succeeds:" + why + ":" + fam, fmt.Sprintf("%s answered %d (%d bytes)", path, rr.Status, len(rr.Body))})
						}
					case mk.cookie != c:
						if succ {
							add(verdict{"http:read-with-wrong-cookie-succeeds:" + fam, fmt.Sprintf("%s answered %d with %d bytes although the stored cookie is %c", path, rr.Status, len(rr.Body), 'A'+rune(mk.cookie))})
						}
						if len(mk.data) > 0 && strings.Contains(string(rr.Body), string(mk.data)) {
							add(verdict{"http:read-with-wrong-cookie-leaks-data:" + fam, fmt.Sprintf("%s answered %d but the body carries the blob", path, rr.Status)})
						}
					default:
						if !succ {
							add(verdict{"http:read-with-right-cookie-fails:" + fam, fmt.Sprintf("%s answered %d", path, rr.Status)})
						} else if method == "GET" && string(rr.Body) != string(mk.data) {
							add(verdict{"http:read-returns-other-data:" + fam, fmt.Sprintf("%s returned %q, last successful write was %q", path, trunc(rr.Body), mk.data)})
						}
					}
				}
			}
		}
	}
	return out
}

func trunc(b []byte) string {
	if len(b) > 80 {
		return string(b[:80])
	}
	return string(b)
}

func newEnv() *env {
	c := cluster.MustNew(cluster.Options{})
	c.MustAddVolume(1, "", "000", "")
	return &env{c: c}
}

// Run explores the HTTP clause; counts and violations go to r.
func Run(r *mc.Run) {
	depth := r.Pick(3, 4)
	al := alphabet()
	r.Assume("c01http: HTTP clause on one real in-process volume server (volume 1, no replication, no JWT); a write/delete is successful iff answered 2xx")
	var seqs [][]Event
	mc.Sequences(len(al), 1, depth, func(ix []int) bool {
		s := make([]Event, len(ix))
		for i, x := range ix {
			s[i] = al[x]
		}
		seqs = append(seqs, s)
		return true
	})
	const shards = 16
	r.Parallel("c01http", shards, func(shard, n int) {
		e := newEnv()
		defer e.c.Close()
		kept := map[string]int{}
		for i, s := range seqs {
			if i%n != shard {
				continue
			}
			if !r.Begin(witness{true, s}) {
				continue
			}
			base := uint64(i+1) * 4
			for _, v := range runSeq(r, e, base, s, true) {
				v := v
				if kept[v.class] < 3 {
					kept[v.class]++
					s := s
					r.Violate(v.class, v.msg, witness{true, s}, func() bool {
						e.base += 4
						for _, v2 := range runSeq(r, e, uint64(len(seqs)+8)*4+e.base, s, false) {
							if v2.class == v.class {
								return true
							}
						}
						return false
					})
				} else {
					r.Add("violating_cases_not_kept", 1)
				}
			}
		}
	})
	r.Set("c01http_depth", depth)
	r.Set("c01http_sequences", len(seqs))
}

// IsWitness reports whether the replay file named by r.Replay was written by this package.
func IsWitness(r *mc.Run) bool {
	b, err := os.ReadFile(r.Replay)
	if err != nil {
		return false
	}
	var f struct {
		Case witness `json:"case"`
	}
	return json.Unmarshal(b, &f) == nil && f.Case.HTTP
}

// Replay re-executes one recorded sequence.
func Replay(r *mc.Run) {
	var w witness
	if err := r.ReplayCase(&w); err != nil {
		mc.Fatal("c01http replay: %v", err)
	}
	e := newEnv()
	defer e.c.Close()
	for _, v := range runSeq(r, e, 4, w.Events, true) {
		r.Violate(v.class, v.msg, w, nil)
	}
}
