// Package c23: path-specific storage rules resolve by longest matching prefix.
//
// Every sequence of AddLocationConf / DeleteLocationConf operations up to a
// depth over a small universe of nested and sibling prefixes and partially
// filled rules is applied to the real FilerConf; after the sequence every path
// over {a,b,/} up to a length is resolved with the real MatchStorageRule and
// compared with a reference resolver (field-wise last-set over the matching
// prefixes ordered by length) built from the rules that should be live.
package c23

import (
	"fmt"
	"sort"
	"strings"

	"verif/checks/flib"
	"verif/mc"

	"github.com/chrislusf/seaweedfs/weed/filer"
	"github.com/chrislusf/seaweedfs/weed/pb/filer_pb"
)

func Main() {
	mc.Main("C23", "exploration",
		"all operation sequences (add rule | delete prefix) up to depth d over 6 prefixes {/,/a,/a/,/a/b,/ab,/b} x 6 field profiles (each field unset/v1/v2, booleans unset/true, uniform and staggered) + 6 deletes; after each sequence all paths over {a,b,/}^<=5 starting with '/'; oracle: field-wise last-set over matching prefixes by length; distinct = (ops, live rules, nesting, outcome)",
		run)
}

var prefixes = []string{"/", "/a", "/a/", "/a/b", "/ab", "/b"}

const nProfiles = 6

// op: Kind "add" (Prefix, Profile) or "del" (Prefix)
type op struct {
	Kind    string `json:"kind"`
	Prefix  string `json:"prefix"`
	Profile int    `json:"profile,omitempty"`
}

type caseT struct {
	Ops []op `json:"ops"`
}

// field values: index 0 = unset
var (
	strVals  = [3]string{"", "v1", "v2"}
	replVals = [3]string{"", "001", "010"}
	ttlVals  = [3]string{"", "1d", "2d"}
	diskVals = [3]string{"", "ssd", "hdd"}
)

// fieldIdx gives, for a profile, the value index (0..2) of field j (0..6).
func fieldIdx(profile, j int) int {
	if profile < 3 {
		return profile // uniform: every field unset / v1 / v2
	}
	return (profile + j) % 3 // staggered: neighbouring fields differ
}

func makeRule(prefix string, profile int) *filer_pb.FilerConf_PathConf {
	return &filer_pb.FilerConf_PathConf{
		LocationPrefix:    prefix,
		Collection:        strVals[fieldIdx(profile, 0)],
		Replication:       replVals[fieldIdx(profile, 1)],
		Ttl:               ttlVals[fieldIdx(profile, 2)],
		DiskType:          diskVals[fieldIdx(profile, 3)],
		Fsync:             fieldIdx(profile, 4) != 0,
		VolumeGrowthCount: uint32(fieldIdx(profile, 5)),
		ReadOnly:          fieldIdx(profile, 6) != 0,
	}
}

type resolved struct {
	Collection, Replication, Ttl, DiskType string
	Fsync                                  bool
	Growth                                 uint32
	ReadOnly                               bool
}

func (r resolved) String() string {
	return fmt.Sprintf("{col=%q repl=%q ttl=%q disk=%q fsync=%t growth=%d ro=%t}", r.Collection, r.Replication, r.Ttl, r.DiskType, r.Fsync, r.Growth, r.ReadOnly)
}

// reference resolver
func resolve(model map[string]int, path string) resolved {
	var ps []string
	for p := range model {
		if strings.HasPrefix(path, p) {
			ps = append(ps, p)
		}
	}
	sort.Slice(ps, func(i, j int) bool { return len(ps[i]) < len(ps[j]) })
	var out resolved
	for _, p := range ps {
		r := makeRule(p, model[p])
		if r.Collection != "" {
			out.Collection = r.Collection
		}
		if r.Replication != "" {
			out.Replication = r.Replication
		}
		if r.Ttl != "" {
			out.Ttl = r.Ttl
		}
		if r.DiskType != "" {
			out.DiskType = r.DiskType
		}
		if r.Fsync {
			out.Fsync = true
		}
		if r.VolumeGrowthCount > 0 {
			out.Growth = r.VolumeGrowthCount
		}
		if r.ReadOnly {
			out.ReadOnly = true
		}
	}
	return out
}

func fromPb(c *filer_pb.FilerConf_PathConf) resolved {
	return resolved{c.Collection, c.Replication, c.Ttl, c.DiskType, c.Fsync, c.VolumeGrowthCount, c.ReadOnly}
}

var paths []string

func init() {
	alpha := []string{"a", "b", "/"}
	mc.Sequences(3, 0, 4, func(seq []int) bool {
		s := "/"
		for _, i := range seq {
			s += alpha[i]
		}
		paths = append(paths, s)
		return true
	})
}

type verdict struct {
	class string
	msg   string
}

func modelString(model map[string]int) string {
	var ks []string
	for k := range model {
		ks = append(ks, k)
	}
	sort.Strings(ks)
	var sb strings.Builder
	for _, k := range ks {
		fmt.Fprintf(&sb, "%s=p%d ", k, model[k])
	}
	return strings.TrimSpace(sb.String())
}

// runCase applies the operations to a fresh FilerConf and compares every path.
// It returns the coverage class of the case and the failures (at most one per class).
func runCase(ops []op) (string, []verdict) {
	var vs []verdict
	add := func(class, msg string) {
		for _, v := range vs {
			if v.class == class {
				return
			}
		}
		vs = append(vs, verdict{class, msg})
	}
	fc := filer.NewFilerConf()
	model := map[string]int{}
	var deleted []string // prefixes deleted while live (in order)
	adds, dels, overrides, noopDels := 0, 0, 0, 0
	divergentAtDelete := false // some DeleteLocationConf ran while two live prefixes diverged (neither a prefix of the other)
	crashed := func() (p interface{}) {
		defer func() { p = recover() }()
		for _, o := range ops {
			switch o.Kind {
			case "add":
				adds++
				if _, ok := model[o.Prefix]; ok {
					overrides++
				}
				if err := fc.AddLocationConf(makeRule(o.Prefix, o.Profile)); err != nil {
					add("add-error", fmt.Sprintf("AddLocationConf(%s): %v", o.Prefix, err))
				}
				model[o.Prefix] = o.Profile
			case "del":
				dels++
				for p := range model {
					for q := range model {
						if !strings.HasPrefix(p, q) && !strings.HasPrefix(q, p) {
							divergentAtDelete = true
						}
					}
				}
				if _, ok := model[o.Prefix]; ok {
					deleted = append(deleted, o.Prefix)
				} else {
					noopDels++
				}
				fc.DeleteLocationConf(o.Prefix)
				delete(model, o.Prefix)
			}
		}
		return nil
	}()
	if crashed != nil {
		add("panic-in-conf-update", fmt.Sprintf("panic: %v", crashed))
		return fmt.Sprintf("adds=%d|dels=%d|panic", adds, dels), vs
	}
	maxMatch := 0
	for _, p := range paths {
		want := resolve(model, p)
		nm := 0
		for q := range model {
			if strings.HasPrefix(p, q) {
				nm++
			}
		}
		if nm > maxMatch {
			maxMatch = nm
		}
		var got resolved
		if pn := func() (pn interface{}) {
			defer func() { pn = recover() }()
			got = fromPb(fc.MatchStorageRule(p))
			return nil
		}(); pn != nil {
			add("panic-in-match", fmt.Sprintf("MatchStorageRule(%q) panics: %v (live rules: %s)", p, pn, modelString(model)))
			continue
		}
		if got == want {
			continue
		}
		class, why := classify(model, deleted, dels, divergentAtDelete, p, got)
		add(class, fmt.Sprintf("MatchStorageRule(%q) = %v, want %v; live rules: %s; %s", p, got, want, modelString(model), why))
	}
	outcome := "ok"
	if len(vs) > 0 {
		var names []string
		for _, v := range vs {
			names = append(names, v.class)
		}
		sort.Strings(names)
		outcome = strings.Join(names, "+")
	}
	return fmt.Sprintf("adds=%d|dels=%d|noopdels=%d|overrides=%d|live=%d|maxmatch=%d|divdel=%t|%s", adds, dels, noopDels, overrides, len(model), maxMatch, divergentAtDelete, outcome), vs
}

// classify names a mismatch by the features of the history and by what the real resolver behaves like.
func classify(model map[string]int, deleted []string, dels int, divergentAtDelete bool, path string, got resolved) (string, string) {
	explain := "no single-rule explanation"
	kind := "other"
	for q := range model {
		if !strings.HasPrefix(path, q) {
			continue
		}
		m2 := copyModel(model)
		delete(m2, q)
		if resolve(m2, path) == got {
			kind, explain = "matching-rule-ignored", fmt.Sprintf("behaves as if the live matching rule %q did not exist", q)
		}
	}
	switch {
	case divergentAtDelete:
		// DeleteLocationConf rebuilt the trie while two live prefixes diverged below a common stem
		return "rules-corrupted-by-delete-with-divergent-live-prefixes", explain + fmt.Sprintf(" (DeleteLocationConf calls: %d, effective: %v)", dels, deleted)
	case dels > 0:
		return "mismatch-after-delete:" + kind, explain + fmt.Sprintf(" (effective deletes: %v)", deleted)
	}
	return "mismatch-without-delete:" + kind, explain
}

func copyModel(m map[string]int) map[string]int {
	out := map[string]int{}
	for k, v := range m {
		out[k] = v
	}
	return out
}

var alphabet []op

func init() {
	for _, p := range prefixes {
		for pr := 0; pr < nProfiles; pr++ {
			alphabet = append(alphabet, op{"add", p, pr})
		}
	}
	for _, p := range prefixes {
		alphabet = append(alphabet, op{Kind: "del", Prefix: p})
	}
}

func run(r *mc.Run) {
	flib.QuietGlog()
	if r.Replay != "" {
		var c caseT
		if err := r.ReplayCase(&c); err != nil {
			mc.Fatal("replay: %v", err)
		}
		for _, o := range c.Ops {
			if (o.Kind != "add" && o.Kind != "del") || o.Prefix == "" || o.Profile < 0 || o.Profile >= nProfiles {
				mc.Fatal("replay: bad op %+v", o)
			}
		}
		_, vs := runCase(c.Ops)
		for _, v := range vs {
			r.Violate(v.class, v.msg, c, nil)
		}
		r.Case("replay")
		return
	}
	r.Assume("'prefixes the path' is plain string prefix (rule /a matches /ab), as MatchPrefix implements and the statement words it")
	r.Assume("a boolean or numeric field counts as set when it is true / non-zero (proto3 has no presence for scalars)")
	depth := r.Pick(3, 4)
	K := len(alphabet)
	r.Set("depth", depth)
	r.Set("alphabet", K)
	r.Set("paths_per_case", len(paths))
	// shard by the first operation
	type pend struct {
		v verdict
		c caseT
	}
	pends := make([][]pend, K)
	tallies := make([]flib.Tally, K)
	r.Go(K, 16, func(first int) {
		t := flib.Tally{}
		seen := map[string]bool{}
		for d := 1; d <= depth; d++ {
			sizes := make([]int, d-1)
			for i := range sizes {
				sizes[i] = K
			}
			each := func(ix []int) bool {
				ops := make([]op, 0, d)
				ops = append(ops, alphabet[first])
				for _, i := range ix {
					ops = append(ops, alphabet[i])
				}
				class, vs := runCase(ops)
				t.Add(class)
				for _, v := range vs {
					if !seen[v.class] {
						seen[v.class] = true
						pends[first] = append(pends[first], pend{v, caseT{ops}})
					}
				}
				return true
			}
			if d == 1 {
				each(nil)
			} else {
				mc.Product(sizes, each)
			}
		}
		tallies[first] = t
	})
	total := flib.Tally{}
	for _, t := range tallies {
		for k, v := range t {
			total[k] += v
		}
	}
	for _, k := range total.SortedKeys() {
		r.Case(k)
		r.Cases(total[k] - 1)
	}
	// shortest witnesses first
	var all []pend
	for _, ps := range pends {
		all = append(all, ps...)
	}
	sort.SliceStable(all, func(i, j int) bool { return len(all[i].c.Ops) < len(all[j].c.Ops) })
	for _, p := range all {
		p := p
		r.Violate(p.v.class, p.v.msg, p.c, func() bool {
			_, vs := runCase(p.c.Ops)
			for _, v := range vs {
				if v.class == p.v.class {
					return true
				}
			}
			return false
		})
	}
	r.Sample("sequence", caseT{[]op{{"add", "/a", 1}, {"add", "/a/b", 5}, {"del", "/a", 0}}})
	r.Sample("sequence", caseT{[]op{{"add", "/", 2}, {"add", "/ab", 3}}})
}
