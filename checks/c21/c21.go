// Package c21: hard links share one file (see checks/fsys).
package c21

import (
	"verif/checks/fsys"
	"verif/mc"
)

var paths = []string{"/a", "/d", "/d/b", "/d/c", "/d/c/a"}

func Main() {
	mc.Main("C21", "model_checking",
		"explicit-state search (breadth first, replay from the empty store) over all histories of create/overwrite / update through a name (replace content, add chunk, chmod) / append / hard link (the Dir.Link request pair) / rename / delete (recursive x deleteData) on the paths {/a,/d,/d/b,/d/c,/d/c/a} (a hard-linked name can sit two levels below a directory that is deleted recursively), executed on the real FilerServer gRPC methods; link membership is tracked by a reference tree; distinct = (operation, flags, kind of source, kind of target, outcome, store changed)",
		func(r *mc.Run) {
			fsys.Run(r, &fsys.Config{
				ID: "C21",
				Alpha: fsys.Alphabet{Paths: paths, NoMvIntoOwnSubtree: true, Ops: map[string]bool{
					"mkfile": true, "updrepl": true, "updadd": true, "chmod": true, "append": true, "del": true, "mv": true, "ln": true}},
				Judge:       func(s *fsys.Step, acc *fsys.Acc) *fsys.Verdict { return fsys.JudgeC21(s) },
				DepthQ:      4,
				DepthT:      6,
				Unmerged:    2,
				CrashBudget: 1,
				SyncTree:    true,
				Assumptions: []string{"renames of a directory into its own subtree are not part of this alphabet (they never return; decided by C18)"},
			})
		})
}
