// Package c32: volume server range requests return exactly the requested bytes.
//
// Real code driven: GetOrHeadHandler -> writeResponseContent ->
// processRangeRequest / parseRange of a real in-process volume server, over
// loopback TCP with a plain net/http client (no automatic Accept-Encoding).
//
// Space (complete products): blobs {plain of every size 0..S, a small and a
// 2 KiB compressible blob stored gzipped} x Accept-Encoding {none, gzip} x
// Range header {every single spec a-b, a-, -n over the value set; every ordered
// pair of specs; every triple over a 4-spec alphabet; a fixed list of malformed
// / oddly spaced headers}.  The value set is 0..V for plain blobs and the
// boundaries of both representations (gzip bytes, decoded bytes) for stored-
// gzipped blobs.
//
// Oracle: RFC 7233 evaluated by an independent few-line evaluator on the
// representation the response announces (gzip bytes if Content-Encoding: gzip,
// decoded bytes otherwise): the answer must be (a) 206 whose part(s) carry
// Content-Range s-e/size with exactly bytes s..e and together cover exactly the
// satisfiable requested ranges, (b) 416 only if no requested range is
// satisfiable or the header is malformed, or (c) 200 with the complete content.
// Content-Encoding: gzip only if the request accepted gzip.
package c32

import (
	"bytes"
	"compress/gzip"
	"fmt"
	"io"
	"mime"
	"mime/multipart"
	"sort"
	"strconv"
	"strings"

	"verif/checks/vhutil"
	"verif/cluster"
	"verif/mc"
)

func Main() {
	mc.Main("C32", "exploration",
		"complete product: blobs (plain sizes 0..S, two stored-gzipped) x Accept-Encoding {none,gzip} x Range headers (all single specs, all ordered pairs, all triples over 4 specs, 40 malformed/odd headers) against an independent RFC 7233 evaluator on the announced representation",
		run)
}

type w = map[string]interface{}

// ---- blobs -------------------------------------------------------------------

type blob struct {
	Name    string
	Decoded []byte
	Stored  []byte // gzip bytes when Gz
	Gz      bool
	key     uint64
}

func gz(b []byte) []byte {
	var buf bytes.Buffer
	zw, _ := gzip.NewWriterLevel(&buf, gzip.BestCompression)
	zw.Write(b)
	zw.Close()
	return buf.Bytes()
}

func blobs(r *mc.Run) []blob {
	var out []blob
	maxSize := r.Pick(3, 6)
	for n := 0; n <= maxSize; n++ {
		d := []byte("abcdefgh")[:n]
		out = append(out, blob{Name: fmt.Sprintf("plain%d", n), Decoded: d, Stored: d})
	}
	small := []byte("abcdef")
	out = append(out, blob{Name: "gzsmall", Decoded: small, Stored: gz(small), Gz: true})
	big := bytes.Repeat([]byte("0123456789abcdef"), 128) // 2 KiB
	out = append(out, blob{Name: "gz2k", Decoded: big, Stored: gz(big), Gz: true})
	for i := range out {
		out[i].key = uint64(i + 1)
	}
	return out
}

// values is the set of numbers used in range specs for a blob.
func values(r *mc.Run, b blob) []int64 {
	if !b.Gz {
		n := int64(r.Pick(4, 8))
		var v []int64
		for i := int64(0); i <= n; i++ {
			v = append(v, i)
		}
		return v
	}
	set := map[int64]bool{0: true, 1: true}
	add := func(n int64) {
		for _, d := range []int64{-1, 0, 1} {
			if n+d >= 0 {
				set[n+d] = true
			}
		}
	}
	if r.Quick() {
		set[int64(len(b.Stored))] = true
		set[int64(len(b.Stored))-1] = true
		set[int64(len(b.Decoded))] = true
		set[int64(len(b.Decoded))-1] = true
	} else {
		add(int64(len(b.Stored)))
		add(int64(len(b.Decoded)))
	}
	var v []int64
	for k := range set {
		v = append(v, k)
	}
	sort.Slice(v, func(i, j int) bool { return v[i] < v[j] })
	return v
}

// ---- range header grammar -------------------------------------------------------

// spec is one byte-range-spec: a-b (A,B>=0), a- (B=-1), -n (A=-1).
type spec struct{ A, B int64 }

func (s spec) String() string {
	switch {
	case s.A < 0:
		return "-" + strconv.FormatInt(s.B, 10)
	case s.B < 0:
		return strconv.FormatInt(s.A, 10) + "-"
	}
	return strconv.FormatInt(s.A, 10) + "-" + strconv.FormatInt(s.B, 10)
}

func allSpecs(vals []int64) []spec {
	var out []spec
	for _, a := range vals { // simplest first: a-, -n, a-b
		out = append(out, spec{a, -1})
	}
	for _, n := range vals {
		out = append(out, spec{-1, n})
	}
	for _, a := range vals {
		for _, b := range vals {
			out = append(out, spec{a, b})
		}
	}
	return out
}

func header(specs []spec) string {
	var ss []string
	for _, s := range specs {
		ss = append(ss, s.String())
	}
	return "bytes=" + strings.Join(ss, ",")
}

// malformed / oddly written headers; "valid" says whether RFC 7233 grammar
// (with optional white space around list elements) accepts it, and specs gives
// its meaning then.
type odd struct {
	H     string
	Valid bool
	Specs []spec
}

var odds = []odd{
	{"bytes=", false, nil},
	{"bytes=,", false, nil},
	{"bytes= ", false, nil},
	{"bytes=0-0,", true, []spec{{0, 0}}},
	{"bytes=,0-0", true, []spec{{0, 0}}},
	{"bytes=0-0,,1-1", true, []spec{{0, 0}, {1, 1}}},
	{"bytes=0-0, 1-1", true, []spec{{0, 0}, {1, 1}}},
	{"bytes= 0-0", true, []spec{{0, 0}}},
	{"bytes=0-0 ", true, []spec{{0, 0}}},
	{"bytes=0 - 0", false, nil},
	{"bytes =0-0", false, nil},
	{"Bytes=0-0", false, nil},
	{"BYTES=0-0", false, nil},
	{"items=0-0", false, nil},
	{"0-0", false, nil},
	{"bytes", false, nil},
	{"bytes=0", false, nil},
	{"bytes=-", false, nil},
	{"bytes=--1", false, nil},
	{"bytes=--5", false, nil},
	{"bytes=-1-", false, nil},
	{"bytes=0-1-2", false, nil},
	{"bytes=1-0", false, nil},
	{"bytes=2-1,0-0", false, nil},
	{"bytes=a-b", false, nil},
	{"bytes=0-x", false, nil},
	{"bytes=x-", false, nil},
	{"bytes=-x", false, nil},
	{"bytes=+1-2", false, nil},
	{"bytes=0x1-0x2", false, nil},
	{"bytes=0-99999999999999999999", false, nil},
	{"bytes=99999999999999999999-", false, nil},
	{"bytes=-99999999999999999999", false, nil},
	{"bytes=0-9223372036854775807", true, []spec{{0, 9223372036854775807}}},
	{"bytes=9223372036854775807-", true, []spec{{9223372036854775807, -1}}},
	{"bytes=-9223372036854775807", true, []spec{{-1, 9223372036854775807}}},
	{"bytes=0-0;1-1", false, nil},
	{"bytes=00-01", true, []spec{{0, 1}}},
}

// long (valid) lists, run after the pairs and triples so that shorter witnesses come first
var longOdds = []odd{
	{"bytes=0-0,1-1,2-2,3-3,4-4,5-5,6-6,7-7", true, []spec{{0, 0}, {1, 1}, {2, 2}, {3, 3}, {4, 4}, {5, 5}, {6, 6}, {7, 7}}},
	{"bytes=0-,0-,0-,0-", true, []spec{{0, -1}, {0, -1}, {0, -1}, {0, -1}}},
}

// lenient gives, for some malformed headers, the obvious meaning a lenient
// parser may assign; a 206 that serves exactly that is accepted.
var lenient = map[string][]spec{
	"bytes=0 - 0": {{0, 0}},
	"bytes=+1-2":  {{1, 2}},
}

// ---- the oracle ---------------------------------------------------------------------

type rng struct{ s, e int64 } // inclusive

// satisfiable evaluates RFC 7233 §2.1 for a syntactically valid spec list on a
// representation of the given size.
func satisfiable(specs []spec, size int64) (out []rng, syntaxOK bool) {
	for _, sp := range specs {
		switch {
		case sp.A < 0: // suffix
			if sp.B > 0 && size > 0 {
				n := sp.B
				if n > size {
					n = size
				}
				out = append(out, rng{size - n, size - 1})
			}
		case sp.B < 0:
			if sp.A < size {
				out = append(out, rng{sp.A, size - 1})
			}
		default:
			if sp.B < sp.A {
				return nil, false // invalid byte-range-spec: the whole header is invalid
			}
			if sp.A < size {
				e := sp.B
				if e > size-1 {
					e = size - 1
				}
				out = append(out, rng{sp.A, e})
			}
		}
	}
	return out, true
}

type part struct {
	cr   string
	body []byte
}

func parseContentRange(cr string) (s, e, total int64, ok bool) {
	if !strings.HasPrefix(cr, "bytes ") {
		return
	}
	rest := cr[len("bytes "):]
	i := strings.IndexByte(rest, '/')
	j := strings.IndexByte(rest, '-')
	if i < 0 || j <= 0 || j > i {
		return
	}
	var e1, e2, e3 error
	s, e1 = strconv.ParseInt(rest[:j], 10, 64)
	e, e2 = strconv.ParseInt(rest[j+1:i], 10, 64)
	total, e3 = strconv.ParseInt(rest[i+1:], 10, 64)
	ok = e1 == nil && e2 == nil && e3 == nil
	return
}

// serverView computes what the range list amounts to when every spec is
// clamped the way a simple parser does: the sum of lengths and whether some
// spec is empty (starts exactly at the end, or "-0").
func serverView(specs []spec, size int64) (sum int64, beyond bool) {
	for _, sp := range specs {
		switch {
		case sp.A < 0:
			n := sp.B
			if n > size {
				n = size
			}
			sum += n
		case sp.B < 0:
			if sp.A <= size {
				sum += size - sp.A
			} else {
				beyond = true
			}
		default:
			e := sp.B
			if e > size-1 {
				e = size - 1
			}
			if sp.A <= e {
				sum += e - sp.A + 1
			}
			if sp.A > size {
				beyond = true
			}
		}
	}
	return
}

func nClass(n int) string {
	if n == 1 {
		return "single"
	}
	return "multi"
}

// judge returns "" or (class, message).
func judge(b blob, acceptGzip bool, hdr string, specs []spec, valid bool, resp vhutil.Resp) (class, msg, outcome string) {
	if resp.Err != nil {
		return "transport-error", fmt.Sprintf("request failed: %v", resp.Err), "err"
	}
	ce := resp.Header.Get("Content-Encoding")
	rep := b.Decoded
	repName := "decoded"
	if ce != "" {
		if ce != "gzip" {
			return "unknown-content-encoding", "Content-Encoding " + ce, "ce?"
		}
		if !acceptGzip {
			return "gzip-encoding-not-accepted", fmt.Sprintf("status %d has Content-Encoding: gzip although the request had no Accept-Encoding", resp.Status), "ce-unaccepted"
		}
		if !b.Gz {
			return "gzip-encoding-on-plain-blob", "Content-Encoding: gzip for a blob stored uncompressed", "ce-plain"
		}
		rep, repName = b.Stored, "gzip"
	}
	size := int64(len(rep))
	if !valid {
		if l, ok := lenient[hdr]; ok && resp.Status == 206 {
			specs, valid = l, true // judged against the lenient meaning
		}
	}
	sat, syntaxOK := satisfiable(specs, size)
	valid = valid && syntaxOK
	outcome = fmt.Sprintf("%d|%s|valid=%v|sat=%d", resp.Status, repName, valid, minInt(len(sat), 3))
	hname := "malformed-header:" + strings.ReplaceAll(hdr, " ", "_")

	switch resp.Status {
	case 200:
		if bytes.Equal(resp.Body, rep) {
			return "", "", outcome
		}
		if len(resp.Body) == 0 {
			cause := "other"
			sum, _ := serverView(specs, size)
			switch {
			case len(specs) == 0:
				cause = "empty-range-list"
			case !valid:
				cause = hname
			case sum > size:
				cause = "range-sum-exceeds-size"
			}
			return "empty-200:" + cause, fmt.Sprintf("200 with an empty body instead of the %d content bytes", size), outcome
		}
		return "200-with-wrong-content:" + nClass(len(specs)), fmt.Sprintf("200 with %d bytes, content has %d", len(resp.Body), size), outcome
	case 416:
		if !valid || len(sat) == 0 {
			return "", "", outcome
		}
		cause := "other"
		if _, beyond := serverView(specs, size); beyond {
			cause = "another-range-starts-beyond-the-end"
		}
		return "416-although-satisfiable:" + cause, fmt.Sprintf("416 although %d of the %d requested ranges are satisfiable (size %d)", len(sat), len(specs), size), outcome
	case 206:
		var parts []part
		ct := resp.Header.Get("Content-Type")
		mt, params, _ := mime.ParseMediaType(ct)
		if mt == "multipart/byteranges" {
			mr := multipart.NewReader(bytes.NewReader(resp.Body), params["boundary"])
			for {
				p, err := mr.NextPart()
				if err == io.EOF {
					break
				}
				if err != nil {
					return "206-unparsable-multipart", fmt.Sprintf("multipart body: %v", err), outcome
				}
				pb, err := io.ReadAll(p)
				if err != nil {
					return "206-unparsable-multipart", fmt.Sprintf("multipart part: %v", err), outcome
				}
				parts = append(parts, part{p.Header.Get("Content-Range"), pb})
			}
		} else {
			parts = []part{{resp.Header.Get("Content-Range"), resp.Body}}
		}
		if !valid {
			cause := hname
			if strings.HasPrefix(hdr, "bytes=--") {
				cause = "malformed-header:negative-suffix"
			}
			return "206-for-" + cause, fmt.Sprintf("206 (%d part(s), first Content-Range %q, %d body bytes) for a header that has no meaning", len(parts), firstCR(parts), len(resp.Body)), outcome
		}
		covered := map[int64]bool{}
		emptyParts, emptyCR := 0, ""
		for _, p := range parts {
			s, e, total, ok := parseContentRange(p.cr)
			if ok && total == size && e == s-1 && len(p.body) == 0 {
				// A part without bytes for a range that starts at the end (or "-0").  Such a
				// range is unsatisfiable; the part delivers nothing, so it does not change
				// which bytes were delivered -- only judged when nothing else was satisfiable.
				emptyParts++
				emptyCR = p.cr
				continue
			}
			if !ok || total != size || s < 0 || e >= size || s > e {
				return "206-bad-content-range:" + nClass(len(parts)), fmt.Sprintf("part Content-Range %q for a representation of %d bytes", p.cr, size), outcome
			}
			if !bytes.Equal(p.body, rep[s:e+1]) {
				return "206-wrong-bytes:" + nClass(len(parts)), fmt.Sprintf("part %q carries %q, content there is %q", p.cr, trunc(p.body), trunc(rep[s:e+1])), outcome
			}
			for i := s; i <= e; i++ {
				covered[i] = true
			}
		}
		if len(sat) == 0 {
			cause := "other"
			if emptyParts > 0 && len(covered) == 0 {
				cause = "empty-range-served"
			}
			return "206-although-nothing-satisfiable:" + cause, fmt.Sprintf("206 with %d part(s) (Content-Range %q, no bytes) although no requested range is satisfiable in a representation of %d bytes: a range that starts at the end, or a zero suffix, is unsatisfiable", len(parts), emptyCR, size), outcome
		}
		want := map[int64]bool{}
		for _, g := range sat {
			for i := g.s; i <= g.e; i++ {
				want[i] = true
			}
		}
		if len(covered) != len(want) {
			return "206-not-the-requested-bytes:" + nClass(len(specs)), fmt.Sprintf("parts cover %d bytes, the satisfiable ranges %d", len(covered), len(want)), outcome
		}
		for i := range want {
			if !covered[i] {
				return "206-not-the-requested-bytes:" + nClass(len(specs)), fmt.Sprintf("byte %d requested but not delivered", i), outcome
			}
		}
		if mt != "multipart/byteranges" {
			if cl := resp.Header.Get("Content-Length"); cl != "" && cl != strconv.Itoa(len(resp.Body)) {
				return "206-content-length-mismatch", "Content-Length " + cl, outcome
			}
		}
		return "", "", outcome
	}
	return fmt.Sprintf("unexpected-status-%d:%s", resp.Status, nClass(len(specs))), fmt.Sprintf("status %d body %q", resp.Status, trunc(resp.Body)), outcome
}

func firstCR(p []part) string {
	if len(p) == 0 {
		return ""
	}
	return p[0].cr
}

func trunc(b []byte) string {
	if len(b) > 40 {
		return string(b[:40]) + "…"
	}
	return string(b)
}

// ---- driver ---------------------------------------------------------------------------

type kase struct {
	Blob   string `json:"blob"`
	Gzip   bool   `json:"accept_gzip"`
	Header string `json:"range"`
	Specs  []spec `json:"specs"`
	Valid  bool   `json:"valid"`
	NoHdr  bool   `json:"no_range_header,omitempty"`
}

type env struct {
	c *cluster.Cluster
}

const cookie = 0x0badcafe

func setup(bs []blob) *env {
	c := cluster.MustNew(cluster.Options{})
	c.MustAddVolume(1, "", "000", "")
	for _, b := range bs {
		p := vhutil.Part{FileName: "", Mime: "application/octet-stream", Data: b.Stored}
		if b.Gz {
			p.ContentEncoding = "gzip"
		}
		body, ct := vhutil.Multipart(p)
		resp := vhutil.Do("POST", c.Servers[0].HttpUrl(cluster.Fid(1, b.key, cookie)), nil, body, ct)
		if resp.Err != nil || resp.Status != 201 {
			mc.Fatal("c32 setup: upload %s: %v %d %s", b.Name, resp.Err, resp.Status, resp.Body)
		}
	}
	return &env{c}
}

func (e *env) exec(b blob, k kase) vhutil.Resp {
	hdr := map[string]string{}
	if !k.NoHdr {
		hdr["Range"] = k.Header
	}
	if k.Gzip {
		hdr["Accept-Encoding"] = "gzip"
	}
	return vhutil.Do("GET", e.c.Servers[0].HttpUrl(cluster.Fid(1, b.key, cookie)), hdr, nil, "")
}

func one(r *mc.Run, e *env, b blob, k kase) {
	resp := e.exec(b, k)
	if k.NoHdr {
		// baseline: no Range header -> 200 with the whole content
		class, msg, out := judge(b, k.Gzip, "", nil, false, resp)
		r.Case("norange|" + b.Name + "|" + out)
		if resp.Status != 200 && class == "" {
			class, msg = "no-range-not-200", fmt.Sprintf("status %d without a Range header", resp.Status)
		}
		if class != "" {
			r.Violate("no-range-header:"+class+":"+blobClass(b), msg, k, nil)
		}
		return
	}
	class, msg, out := judge(b, k.Gzip, k.Header, k.Specs, k.Valid, resp)
	r.Case(fmt.Sprintf("%s|gz=%v|n=%d|%s", blobClass(b), k.Gzip, minInt(len(k.Specs), 3), out))
	if class != "" {
		r.Violate(class, fmt.Sprintf("blob %s (%d decoded bytes, stored-gzipped=%v), Accept-Encoding gzip=%v, Range %q: %s", b.Name, len(b.Decoded), b.Gz, k.Gzip, k.Header, msg), k,
			func() bool {
				c2, _, _ := judge(b, k.Gzip, k.Header, k.Specs, k.Valid, e.exec(b, k))
				return c2 == class
			})
	}
}

func blobClass(b blob) string {
	switch {
	case b.Gz:
		return "stored-gzipped"
	case len(b.Decoded) == 0:
		return "empty"
	}
	return "plain"
}

func run(r *mc.Run) {
	bs := blobs(r)
	r.Assume("a malformed Range header may be answered 416 or ignored (200 with the complete content); the statement does not say which")
	r.Assume("when the response carries Content-Encoding: gzip the ranges are judged on the stored gzip bytes (the selected representation), otherwise on the decoded bytes")
	if r.Replay != "" {
		var k kase
		if err := r.ReplayCase(&k); err != nil {
			mc.Fatal("replay: %v", err)
		}
		e := setup(bs)
		defer e.c.Close()
		for _, b := range bs {
			if b.Name == k.Blob {
				one(r, e, b, k)
				return
			}
		}
		mc.Fatal("replay: unknown blob %q (tier?)", k.Blob)
	}
	r.Parallel("blob", len(bs), func(shard, n int) {
		e := setup(bs)
		defer e.c.Close()
		b := bs[shard]
		vals := values(r, b)
		specs := allSpecs(vals)
		tri := []spec{{0, 0}, {0, -1}, {-1, 1}, {1, 1}}
		for _, g := range []bool{false, true} {
			do := func(k kase) {
				k.Blob, k.Gzip = b.Name, g
				if r.Begin(k) {
					one(r, e, b, k)
				}
			}
			do(kase{NoHdr: true})
			for _, s := range specs {
				do(kase{Header: header([]spec{s}), Specs: []spec{s}, Valid: true})
			}
			for _, o := range odds {
				do(kase{Header: o.H, Specs: o.Specs, Valid: o.Valid})
			}
			for _, s1 := range specs {
				for _, s2 := range specs {
					do(kase{Header: header([]spec{s1, s2}), Specs: []spec{s1, s2}, Valid: true})
				}
			}
			mc.Sequences(len(tri), 3, 3, func(seq []int) bool {
				ss := []spec{tri[seq[0]], tri[seq[1]], tri[seq[2]]}
				do(kase{Header: header(ss), Specs: ss, Valid: true})
				return true
			})
			for _, o := range longOdds {
				do(kase{Header: o.H, Specs: o.Specs, Valid: o.Valid})
			}
		}
		r.Sample("blob", w{"blob": b.Name, "values": vals, "single_specs": len(specs)})
	})
	r.Set("blobs", len(bs))
}

func minInt(a, b int) int {
	if a < b {
		return a
	}
	return b
}
