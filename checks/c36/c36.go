// Package c36: replication and sync mirror exactly the watched subtree.
//
// A model of the source filer's file tree generates every history of change
// events (create, update, delete, rename within / into / out of / outside the
// watched directory /data) up to a depth over a path universe with adversarial
// siblings (/data2, /dat).  Every history is fed, event by event and encoded
// exactly as Filer.NotifyUpdateEvent encodes it, to
//   - replication.Replicator.Replicate           (filer.replicate)
//   - command.genProcessFunction                  (filer.sync, filer.backup)
//
// each with a reference sink that records the calls and interprets them on a
// tree, and with the real LocalSink writing into a scratch directory.  Oracle:
// after every event the sink's tree equals the image of the source subtree
// under the target directory; events outside the subtree, and events that came
// from the target cluster, cause no sink call at all.
package c36

import (
	"context"
	"fmt"
	"os"
	"path/filepath"
	"sort"
	"strings"

	"verif/checks/flib"
	"verif/mc"

	"github.com/chrislusf/seaweedfs/weed/command"
	"github.com/chrislusf/seaweedfs/weed/pb/filer_pb"
	"github.com/chrislusf/seaweedfs/weed/replication"
	"github.com/chrislusf/seaweedfs/weed/replication/sink"
	"github.com/chrislusf/seaweedfs/weed/replication/sink/localsink"
	"github.com/chrislusf/seaweedfs/weed/replication/source"
	"github.com/chrislusf/seaweedfs/weed/util"
)

func Main() {
	mc.Main("C36", "exploration",
		"all histories of <=d change events (create, update, delete, rename to any absent path; optionally flagged as coming from the other cluster) over files {/data/x,/data/s/x,/data2/x,/dat/x,/other/x} plus histories with explicit directories (mkdir, recursive delete, file where a directory was), source directory /data, target directory /backup; seams {Replicator.Replicate, genProcessFunction} x sinks {reference recording sink named 'filer', same named 'other', real LocalSink}, plus filer.sync end to end (doSubscribeFilerMetaChanges + FilerSink + real target filer over gRPC, scripted source); oracle after every event: sink tree = mapped source subtree, no call for outside / other-cluster events; distinct = (seam, sink, event kind, path classes, outcome)",
		run)
}

const (
	srcDir = "/data"
	dstDir = "/backup"
)

var universe = []string{"/data/x", "/data/s/x", "/data2/x", "/dat/x", "/other/x"}

// ---- events ------------------------------------------------------------------------------------

type event struct {
	Kind  string `json:"kind"` // create | update | delete | rename
	Path  string `json:"path"`
	To    string `json:"to,omitempty"`
	Other bool   `json:"other,omitempty"` // the change was applied on this filer by a replicator from the target cluster
	Dir   bool   `json:"dir,omitempty"`   // the entry is a directory (create = mkdir, delete = removal of the emptied directory)
}

type caseT struct {
	Seam   string  `json:"seam"` // replicate | process
	Sink   string  `json:"sink"` // ref-filer | ref-other | local
	Events []event `json:"events"`
}

func inside(p string) bool { return strings.HasPrefix(p, srcDir+"/") }

func pathClass(p string) string {
	switch {
	case p == "":
		return "-"
	case strings.HasPrefix(p, srcDir+"/s/"):
		return "inside-nested"
	case inside(p):
		return "inside"
	case strings.HasPrefix(p, srcDir):
		return "sibling-with-same-name-prefix"
	case strings.HasPrefix(srcDir, filepath.Dir(p)) && filepath.Dir(p) != "/":
		return "shorter-name"
	}
	return "outside"
}

func mapped(p string) string { return dstDir + p[len(srcDir):] }

const (
	sourceSignature = 111
	targetSignature = 222
)

func pbEntry(path string, version int) *filer_pb.Entry {
	return &filer_pb.Entry{
		Name: filepath.Base(path),
		Attributes: &filer_pb.FuseAttributes{
			Mtime:    1600000000 + int64(version),
			Crtime:   1600000000,
			FileMode: 0644,
			FileSize: 0,
		},
	}
}

func pbEntryOf(e event, path string, version int) *filer_pb.Entry {
	en := pbEntry(path, version)
	if e.Dir {
		en.IsDirectory = true
		en.Attributes.FileMode = uint32(os.ModeDir | 0755)
	}
	return en
}

// encode builds the notification exactly as Filer.NotifyUpdateEvent / logMetaEvent do.
func encode(e event, version int) (key string, msg *filer_pb.EventNotification, resp *filer_pb.SubscribeMetadataResponse) {
	msg = &filer_pb.EventNotification{Signatures: []int32{sourceSignature}}
	if e.Other {
		msg.IsFromOtherCluster = true
		msg.Signatures = []int32{targetSignature, sourceSignature}
	}
	switch e.Kind {
	case "create":
		key = e.Path
		msg.NewEntry = pbEntryOf(e, e.Path, version)
		msg.NewParentPath = filepath.Dir(e.Path)
	case "update":
		key = e.Path
		msg.OldEntry = pbEntry(e.Path, version-1)
		msg.NewEntry = pbEntry(e.Path, version)
		msg.NewParentPath = filepath.Dir(e.Path)
	case "delete":
		key = e.Path
		msg.OldEntry = pbEntryOf(e, e.Path, version)
		msg.DeleteChunks = true
	case "rename":
		key = e.Path
		msg.OldEntry = pbEntry(e.Path, version)
		msg.NewEntry = pbEntry(e.To, version)
		msg.NewParentPath = filepath.Dir(e.To)
	}
	resp = &filer_pb.SubscribeMetadataResponse{Directory: filepath.Dir(key), EventNotification: msg, TsNs: 1600000000000000000 + int64(version)}
	return
}

// ---- reference sink ---------------------------------------------------------------------------------

type call struct {
	Op            string
	Key           string
	NewParentPath string
	NewName       string
	Signatures    []int32
}

func (c call) String() string {
	if c.Op == "update" {
		return fmt.Sprintf("UpdateEntry(%s -> %s/%s)", c.Key, c.NewParentPath, c.NewName)
	}
	return fmt.Sprintf("%sEntry(%s)", strings.Title(c.Op), c.Key)
}

// refSink records the calls and interprets them on a set of paths the way the ReplicationSink
// contract is used by its callers and by FilerSink: CreateEntry makes key exist; DeleteEntry removes
// it; UpdateEntry reports whether key exists and, if so, stores the new entry under
// newParentPath/newEntry.Name (removing key if that is another path).
type refSink struct {
	name  string
	tree  map[string]bool
	calls []call
}

func (s *refSink) GetName() string                                      { return s.name }
func (s *refSink) Initialize(c util.Configuration, prefix string) error { return nil }
func (s *refSink) GetSinkToDirectory() string                           { return dstDir }
func (s *refSink) SetSourceFiler(*source.FilerSource)                   {}
func (s *refSink) IsIncremental() bool                                  { return false }
func (s *refSink) DeleteEntry(key string, isDirectory, deleteIncludeChunks bool, signatures []int32) error {
	s.calls = append(s.calls, call{Op: "delete", Key: key, Signatures: signatures})
	delete(s.tree, key)
	return nil
}
func (s *refSink) CreateEntry(key string, entry *filer_pb.Entry, signatures []int32) error {
	s.calls = append(s.calls, call{Op: "create", Key: key, Signatures: signatures})
	s.tree[key] = entry.IsDirectory
	return nil
}
func (s *refSink) UpdateEntry(key string, oldEntry *filer_pb.Entry, newParentPath string, newEntry *filer_pb.Entry, deleteIncludeChunks bool, signatures []int32) (bool, error) {
	s.calls = append(s.calls, call{Op: "update", Key: key, NewParentPath: newParentPath, NewName: newEntry.Name, Signatures: signatures})
	if _, ok := s.tree[key]; !ok {
		return false, nil
	}
	delete(s.tree, key)
	s.tree[string(util.NewFullPath(newParentPath, newEntry.Name))] = newEntry.IsDirectory
	return true, nil
}

var _ sink.ReplicationSink = &refSink{}

// ---- system under test ---------------------------------------------------------------------------------

type sut struct {
	seam, sinkKind string
	ref            *refSink
	local          *localsink.LocalSink
	localRoot      string // scratch root; the local sink's directory is localRoot + dstDir
	replicate      func(key string, m *filer_pb.EventNotification) error
	process        func(resp *filer_pb.SubscribeMetadataResponse) error
}

func newSut(seam, sinkKind, scratch string) *sut {
	s := &sut{seam: seam, sinkKind: sinkKind}
	var sk sink.ReplicationSink
	target := dstDir
	switch sinkKind {
	case "ref-filer":
		s.ref = &refSink{name: "filer", tree: map[string]bool{}}
		sk = s.ref
	case "ref-other":
		s.ref = &refSink{name: "other", tree: map[string]bool{}}
		sk = s.ref
	case "local":
		s.localRoot = scratch
		target = scratch + dstDir
		if err := os.MkdirAll(target, 0755); err != nil {
			mc.Fatal("mkdir: %v", err)
		}
		s.local = &localsink.LocalSink{}
		if err := s.local.Initialize(flib.Conf{"sink.local.directory": target}, "sink.local."); err != nil {
			mc.Fatal("local sink: %v", err)
		}
		sk = s.local
	default:
		mc.Fatal("unknown sink %q", sinkKind)
	}
	switch seam {
	case "replicate":
		rp := replication.NewReplicator(flib.Conf{"source.filer.grpcAddress": "localhost:18888", "source.filer.directory": srcDir}, "source.filer.", sk)
		s.replicate = func(key string, m *filer_pb.EventNotification) error {
			return rp.Replicate(context.Background(), key, m)
		}
	case "process":
		fsrc := &source.FilerSource{}
		fsrc.DoInitialize("localhost:8888", "localhost:18888", srcDir, false)
		sk.SetSourceFiler(fsrc)
		s.process = command.GenProcessFunctionV(srcDir, target, sk, false)
	default:
		mc.Fatal("unknown seam %q", seam)
	}
	return s
}

// tree returns the sink's files and directories (absolute paths for the reference sink,
// scratch-root-relative ones for the local sink: both start with dstDir when all is well).
func (s *sut) tree() (files, dirs []string) {
	if s.ref != nil {
		for p, isDir := range s.ref.tree {
			if isDir {
				dirs = append(dirs, p)
			} else {
				files = append(files, p) // absolute: anything outside dstDir must show
			}
		}
	} else {
		filepath.Walk(s.localRoot, func(p string, info os.FileInfo, err error) error {
			if err != nil {
				return nil
			}
			rel := p[len(s.localRoot):]
			if !info.IsDir() {
				files = append(files, rel)
			} else if rel != "" && rel != dstDir {
				dirs = append(dirs, rel)
			}
			return nil
		})
	}
	sort.Strings(files)
	sort.Strings(dirs)
	return
}

// seed puts an entry into the sink without an event (the target already has it).
func (s *sut) seed(p string, present, isDir bool) {
	if s.ref != nil {
		if present {
			s.ref.tree[p] = isDir
		} else {
			delete(s.ref.tree, p)
		}
		return
	}
	fp := s.localRoot + p
	switch {
	case present && isDir:
		os.MkdirAll(fp, 0755)
	case present:
		os.MkdirAll(filepath.Dir(fp), 0755)
		os.WriteFile(fp, nil, 0644)
	default:
		os.Remove(fp)
	}
}

func (s *sut) feed(e event, version int) (err error, pn interface{}, calls []call) {
	defer func() {
		if p := recover(); p != nil {
			pn = p
		}
	}()
	key, msg, resp := encode(e, version)
	if s.ref != nil {
		s.ref.calls = nil
	}
	if s.seam == "replicate" {
		err = s.replicate(key, msg)
	} else {
		err = s.process(resp)
	}
	if s.ref != nil {
		calls = s.ref.calls
	}
	return
}

// ---- judging ------------------------------------------------------------------------------------------

type verdict struct{ class, msg string }

func eventKind(e event) string {
	if e.Dir {
		return e.Kind + "-directory"
	}
	if e.Kind != "rename" {
		return e.Kind
	}
	switch {
	case inside(e.Path) && inside(e.To):
		return "rename-within"
	case inside(e.Path):
		return "rename-out"
	case inside(e.To):
		return "rename-in"
	}
	return "rename-outside"
}

// skipExpected: the seam is documented to ignore this event because it came from the target cluster.
func skipExpected(seam, sinkKind string, e event) bool {
	return seam == "replicate" && sinkKind == "ref-filer" && e.Other
}

// runHistory feeds the history to a fresh system and judges after every event.
// It returns the coverage classes of the events and the first failure (the rest of the history
// is not fed after a failure: the trees have diverged).
func runHistory(seam, sinkKind string, events []event, scratch string) (classes []string, v *verdict) {
	s := newSut(seam, sinkKind, scratch)
	model := map[string]int{} // source tree: path -> version (files), -1 (directories)
	version := 0
	for i, e := range events {
		version++
		applyModel(model, e, version) // the source filer applies the change
		wantFiles, wantDirs := wantedTree(model, mapped)
		skip := skipExpected(seam, sinkKind, e)
		if skip {
			// the change originated on the target side: the target already has it
			if inside(e.Path) {
				s.seed(mapped(e.Path), e.Kind == "create" || e.Kind == "update", e.Dir)
			}
			if e.Kind == "rename" && inside(e.To) {
				s.seed(mapped(e.To), true, false)
			}
		}
		err, pn, calls := s.feed(e, version)
		feat := fmt.Sprintf("%s|%s|%s|%s>%s|other=%t", seam, sinkKind, eventKind(e), pathClass(e.Path), pathClass(e.To), e.Other)
		desc := func() string {
			return fmt.Sprintf("seam %s sink %s history %s, event %d", seam, sinkKind, historyString(events), i+1)
		}
		fail := func(symptom, detail string) (cl []string, vv *verdict) {
			return append(classes, feat+"|"+symptom), &verdict{classify(seam, sinkKind, e, symptom), fmt.Sprintf("%s: %s [%s]", desc(), detail, symptom)}
		}
		if pn != nil {
			return fail("panic", fmt.Sprintf("panic %v", pn))
		}
		if err != nil {
			return fail("error", fmt.Sprintf("error %v", err))
		}
		touches := inside(e.Path) || (e.Kind == "rename" && inside(e.To))
		if s.ref != nil {
			if (!touches || skip) && len(calls) > 0 {
				return fail("sink-called-for-ignored-event", fmt.Sprintf("sink calls %v, want none", calls))
			}
			for _, c := range calls {
				if !strings.HasPrefix(c.Key, dstDir+"/") || (c.Op == "update" && c.NewParentPath != dstDir && !strings.HasPrefix(c.NewParentPath, dstDir+"/")) {
					return fail("sink-call-outside-target-directory", fmt.Sprintf("sink calls %v", calls))
				}
				if !sameSigs(c.Signatures, encodeSigs(e)) {
					return fail("signatures-not-forwarded", fmt.Sprintf("call %v carries signatures %v, event has %v", c, c.Signatures, encodeSigs(e)))
				}
			}
		}
		gotFiles, gotDirs := s.tree()
		if strings.Join(gotFiles, " ") != strings.Join(wantFiles, " ") {
			return fail("tree-differs", fmt.Sprintf("sink files %v, want %v (calls %v)", gotFiles, wantFiles, calls))
		}
		// directories: the sink may lack a directory the source has (sinks create them lazily), but it
		// must not keep one the source does not have
		for _, d := range gotDirs {
			if !wantDirs[d] {
				return fail("sink-keeps-directory-missing-in-source", fmt.Sprintf("sink has directory %s; source directories map to %v (calls %v)", d, keys(wantDirs), calls))
			}
		}
		classes = append(classes, feat+"|ok")
	}
	return classes, nil
}

// applyModel applies an event to the source tree model.  Creating or moving an entry makes its
// ancestor directories exist (the filer creates them).
func applyModel(model map[string]int, e event, version int) {
	put := func(p string, v int) {
		model[p] = v
		for d := filepath.Dir(p); d != "/" && d != "."; d = filepath.Dir(d) {
			if _, ok := model[d]; !ok {
				model[d] = -1
			}
		}
	}
	switch e.Kind {
	case "create", "update":
		if e.Dir {
			put(e.Path, -1)
		} else {
			put(e.Path, version)
		}
	case "delete":
		delete(model, e.Path)
	case "rename":
		delete(model, e.Path)
		put(e.To, version)
	}
}

// wantedTree: the files the sink must have (exactly) and the directories it may have.
func wantedTree(model map[string]int, mp func(string) string) (files []string, dirs map[string]bool) {
	dirs = map[string]bool{}
	for p, v := range model {
		if !inside(p) {
			continue
		}
		if v > 0 {
			files = append(files, mp(p))
		} else {
			dirs[mp(p)] = true
		}
	}
	sort.Strings(files)
	return
}

func keys(m map[string]bool) []string {
	var out []string
	for k := range m {
		out = append(out, k)
	}
	sort.Strings(out)
	return out
}

func encodeSigs(e event) []int32 {
	if e.Other {
		return []int32{targetSignature, sourceSignature}
	}
	return []int32{sourceSignature}
}

func sameSigs(a, b []int32) bool {
	if len(a) != len(b) {
		return false
	}
	for i := range a {
		if a[i] != b[i] {
			return false
		}
	}
	return true
}

// classify names the family of a failing event from its own features.
func classify(seam, sinkKind string, e event, symptom string) string {
	kind := eventKind(e)
	sib := pathClass(e.Path) == "sibling-with-same-name-prefix" || pathClass(e.To) == "sibling-with-same-name-prefix"
	sk := "reference-sink"
	switch sinkKind {
	case "local":
		sk = "local-sink"
	case "filer-sink":
		sk = "filer-sink"
	}
	ev := kind
	if e.Kind == "rename" {
		// the zones of both ends matter: a sibling like /data2 and a real outside path fail differently
		ev = fmt.Sprintf("rename[%s>%s]", zone(e.Path), zone(e.To))
	}
	if sib && !inside(e.Path) && !(e.Kind == "rename" && inside(e.To)) && symptom != "panic" && symptom != "error" {
		// an event that only touches a sibling whose name starts with the source directory's name
		return fmt.Sprintf("sibling-name-prefix-treated-as-inside:%s", seam)
	}
	return fmt.Sprintf("%s:%s:%s:%s", seam, sk, ev, symptom)
}

// zone: in = inside the source directory, sib = a sibling whose name starts with the source
// directory's name (/data2), out = anything else.
func zone(p string) string {
	switch pathClass(p) {
	case "inside", "inside-nested":
		return "in"
	case "sibling-with-same-name-prefix":
		return "sib"
	}
	return "out"
}

func historyString(events []event) string {
	var parts []string
	for _, e := range events {
		s := e.Kind + " " + e.Path
		if e.Dir {
			s = e.Kind + " directory " + e.Path
		}
		if e.Kind == "rename" {
			s += " -> " + e.To
		}
		if e.Other {
			s += " (from other cluster)"
		}
		parts = append(parts, s)
	}
	return "[" + strings.Join(parts, "; ") + "]"
}

// ---- enumeration -----------------------------------------------------------------------------------------

// enabled lists the events possible in a source tree, simplest first.
func enabled(model map[string]bool, withOther bool) []event {
	var out []event
	others := []bool{false}
	if withOther {
		others = []bool{false, true}
	}
	for _, o := range others {
		for _, p := range universe {
			if !model[p] {
				out = append(out, event{Kind: "create", Path: p, Other: o})
			}
		}
		for _, p := range universe {
			if model[p] {
				out = append(out, event{Kind: "update", Path: p, Other: o})
				out = append(out, event{Kind: "delete", Path: p, Other: o})
				for _, q := range universe {
					if !model[q] {
						out = append(out, event{Kind: "rename", Path: p, To: q, Other: o})
					}
				}
			}
		}
	}
	return out
}

func histories(depth int, withOther bool, f func([]event)) {
	var rec func(model map[string]bool, prefix []event)
	rec = func(model map[string]bool, prefix []event) {
		if len(prefix) > 0 {
			f(prefix)
		}
		if len(prefix) == depth {
			return
		}
		for _, e := range enabled(model, withOther) {
			m2 := map[string]bool{}
			for k, v := range model {
				m2[k] = v
			}
			switch e.Kind {
			case "create":
				m2[e.Path] = true
			case "delete":
				delete(m2, e.Path)
			case "rename":
				delete(m2, e.Path)
				m2[e.To] = true
			}
			rec(m2, append(append([]event(nil), prefix...), e))
		}
	}
	rec(map[string]bool{}, nil)
}

// hist is a history with the index at which its last user action starts (everything before is a
// history of its own and is judged there).
type hist struct {
	events    []event
	lastStart int
}

var (
	dirUniverse     = []string{"/data/s", "/data/x"}
	dirFileUniverse = []string{"/data/s/x", "/data/x/f", "/data/x"}
)

// dirHistories enumerates user actions on a tree with explicit directories: mkdir, create file (the
// filer first emits the creation of a missing parent directory), delete file, recursive delete of a
// directory (the filer emits the deletion of the children first, then of the directory itself with
// IsDirectory set).  /data/x can be a directory (with the file /data/x/f) or a file.
func dirHistories(depth int, f func(h hist)) {
	type state map[string]byte // 'f' file, 'd' directory
	var rec func(st state, prefix []event, lastStart, n int)
	rec = func(st state, prefix []event, lastStart, n int) {
		if n > 0 {
			f(hist{append([]event(nil), prefix...), lastStart})
		}
		if n == depth {
			return
		}
		clone := func() state {
			c := state{}
			for k, v := range st {
				c[k] = v
			}
			return c
		}
		next := func(st2 state, evs ...event) {
			rec(st2, append(append([]event(nil), prefix...), evs...), len(prefix), n+1)
		}
		for _, d := range dirUniverse {
			if st[d] == 0 {
				c := clone()
				c[d] = 'd'
				next(c, event{Kind: "create", Path: d, Dir: true})
			}
		}
		for _, p := range dirFileUniverse {
			parent := filepath.Dir(p)
			if st[p] != 0 || st[parent] == 'f' {
				continue
			}
			c := clone()
			var evs []event
			if c[parent] == 0 {
				c[parent] = 'd'
				evs = append(evs, event{Kind: "create", Path: parent, Dir: true})
			}
			c[p] = 'f'
			next(c, append(evs, event{Kind: "create", Path: p})...)
		}
		for _, p := range dirFileUniverse {
			if st[p] == 'f' {
				c := clone()
				delete(c, p)
				next(c, event{Kind: "delete", Path: p})
			}
		}
		for _, d := range dirUniverse {
			if st[d] != 'd' {
				continue
			}
			c := clone()
			var evs []event
			for _, p := range dirFileUniverse {
				if filepath.Dir(p) == d && st[p] == 'f' {
					delete(c, p)
					evs = append(evs, event{Kind: "delete", Path: p})
				}
			}
			delete(c, d)
			next(c, append(evs, event{Kind: "delete", Path: d, Dir: true})...)
		}
	}
	rec(state{}, nil, 0, 0)
}

type pend struct {
	v verdict
	c caseT
}

func validCase(c caseT) bool {
	if c.Seam == "sync" && c.Sink == "filer-sink" {
		return len(c.Events) > 0
	}
	if c.Seam != "replicate" && c.Seam != "process" {
		return false
	}
	if c.Sink != "ref-filer" && c.Sink != "ref-other" && c.Sink != "local" {
		return false
	}
	for _, e := range c.Events {
		if !strings.HasPrefix(e.Path, "/") || (e.Kind == "rename" && !strings.HasPrefix(e.To, "/")) {
			return false
		}
	}
	return len(c.Events) > 0
}

func run(r *mc.Run) {
	flib.QuietGlog()
	scratchRoot := mc.TempDir("c36")
	defer os.RemoveAll(scratchRoot)
	if r.Replay != "" {
		var c caseT
		if err := r.ReplayCase(&c); err != nil || !validCase(c) {
			mc.Fatal("replay: bad case (%v)", err)
		}
		var v *verdict
		if c.Seam == "sync" {
			rig := newSyncRig()
			_, v = runSyncHistory(rig, c.Events)
			rig.close()
		} else {
			_, v = runHistory(c.Seam, c.Sink, c.Events, filepath.Join(scratchRoot, "replay"))
		}
		if v != nil {
			r.Violate(v.class, v.msg, c, nil)
		}
		r.Case("replay")
		return
	}
	r.Assume("events are encoded as Filer.NotifyUpdateEvent/logMetaEvent encode them (key = old path if any, NewParentPath = directory of the new entry, Directory = directory of the key)")
	r.Assume("the reference sink interprets UpdateEntry(key, old, newParentPath, new) as FilerSink does: if key exists, the new entry is stored under newParentPath/new.Name")
	r.Assume("files carry no chunks (content transfer needs a volume server and is not part of the mapping property); directories are implied by their files")
	r.Assume("'came from the target cluster' is IsFromOtherCluster for filer.replicate with a sink named filer, and the target filer's signature in the event for filer.sync (filter in doSubscribeFilerMetaChanges, exercised in the sync domain)")
	r.Assume("sync domain: the source filer is scripted (one subscription per event, every event delivered unfiltered); the target is a real Filer + FilerServer over leveldb2 reached through gRPC on loopback")
	r.Assume("directory histories: a recursive delete is emitted as the filer emits it (children first, then the directory with IsDirectory set) and never carries the other-cluster flag; a sink may lack a directory the source has (sinks create directories lazily) but must not keep one the source does not have")
	depth := r.Pick(3, 4)
	r.Set("depth", depth)
	type unit struct {
		seam, sink string
		withOther  bool
	}
	units := []unit{
		{"replicate", "ref-filer", true}, {"replicate", "ref-other", true}, {"replicate", "local", false},
		{"process", "ref-filer", true}, {"process", "local", false},
	}
	// collect the histories once per signature mode (they are cheap to hold at these depths)
	histsOf := map[bool][]hist{}
	for _, wo := range []bool{false, true} {
		d := depth
		if wo && d > 3 {
			d = 3 // with the other-cluster flag the alphabet doubles; depth 3 there
		}
		histories(d, wo, func(h []event) {
			histsOf[wo] = append(histsOf[wo], hist{append([]event(nil), h...), len(h) - 1})
		})
	}
	r.Set("histories_plain", len(histsOf[false]))
	r.Set("histories_with_other_cluster_flag", len(histsOf[true]))
	// histories with explicit directories (mkdir, recursive delete, file where a directory was)
	nDir := 0
	dirHistories(r.Pick(3, 4), func(h hist) {
		nDir++
		histsOf[false] = append(histsOf[false], h)
		histsOf[true] = append(histsOf[true], h)
	})
	r.Set("histories_with_directories", nDir)
	// work items: unit x 4 slices
	type item struct {
		u unit
		k int
	}
	var items []item
	for _, u := range units {
		for k := 0; k < 4; k++ {
			items = append(items, item{u, k})
		}
	}
	tallies := make([]flib.Tally, len(items))
	pends := make([][]pend, len(items))
	r.Go(len(items), 16, func(i int) {
		it := items[i]
		t := flib.Tally{}
		seen := map[string]int{}
		hs := histsOf[it.u.withOther]
		scratch := filepath.Join(scratchRoot, fmt.Sprintf("w%d", i))
		for j := it.k; j < len(hs); j += 4 {
			sc := ""
			if it.u.sink == "local" {
				sc = filepath.Join(scratch, fmt.Sprintf("h%d", j))
			}
			h := hs[j]
			// only the events of the last action are new: the prefixes are histories of their own
			classes, v := runHistory(it.u.seam, it.u.sink, h.events, sc)
			for x := h.lastStart; x < len(classes); x++ {
				t.Add(classes[x])
			}
			if sc != "" {
				os.RemoveAll(sc)
			}
			if v != nil && len(classes) > h.lastStart {
				// keep the shortest witness of each class
				if k, ok := seen[v.class]; !ok {
					seen[v.class] = len(pends[i])
					pends[i] = append(pends[i], pend{*v, caseT{it.u.seam, it.u.sink, h.events}})
				} else if len(h.events) < len(pends[i][k].c.Events) {
					pends[i][k] = pend{*v, caseT{it.u.seam, it.u.sink, h.events}}
				}
			}
		}
		tallies[i] = t
	})
	// filer.sync end to end: scripted source, real FilerSink, real target filer (4 rigs in parallel)
	syncDepth := r.Pick(2, 3)
	var syncHist []hist
	histories(syncDepth, true, func(h []event) { syncHist = append(syncHist, hist{append([]event(nil), h...), len(h) - 1}) })
	dirHistories(syncDepth, func(h hist) { syncHist = append(syncHist, h) })
	r.Set("sync_depth", syncDepth)
	r.Set("sync_histories", len(syncHist))
	const rigs = 4
	syncTallies := make([]flib.Tally, rigs)
	syncPends := make([][]pend, rigs)
	// filer_sync.go prints "skipping ..." lines with fmt.Printf: keep them off this check's stdout
	realStdout := os.Stdout
	if devnull, err := os.OpenFile(os.DevNull, os.O_WRONLY, 0); err == nil {
		os.Stdout = devnull
	}
	r.Go(rigs, rigs, func(k int) {
		rig := newSyncRig()
		defer rig.close()
		t := flib.Tally{}
		seen := map[string]int{}
		for j := k; j < len(syncHist); j += rigs {
			h := syncHist[j]
			classes, v := runSyncHistory(rig, h.events)
			for x := h.lastStart; x < len(classes); x++ {
				t.Add(classes[x])
			}
			if v != nil && len(classes) > h.lastStart {
				c := caseT{"sync", "filer-sink", h.events}
				if x, ok := seen[v.class]; !ok {
					seen[v.class] = len(syncPends[k])
					syncPends[k] = append(syncPends[k], pend{*v, c})
				} else if len(h.events) < len(syncPends[k][x].c.Events) {
					syncPends[k][x] = pend{*v, c}
				}
			}
		}
		syncTallies[k] = t
	})
	os.Stdout = realStdout
	tallies = append(tallies, syncTallies...)
	pends = append(pends, syncPends...)
	var recheckRig *syncRig
	defer func() {
		if recheckRig != nil {
			recheckRig.close()
		}
	}()

	total := flib.Tally{}
	for _, t := range tallies {
		for k, v := range t {
			total[k] += v
		}
	}
	for _, k := range total.SortedKeys() {
		r.Case(k)
		r.Cases(total[k] - 1)
	}
	var all []pend
	for _, ps := range pends {
		all = append(all, ps...)
	}
	sort.SliceStable(all, func(i, j int) bool { return len(all[i].c.Events) < len(all[j].c.Events) })
	n := 0
	for _, p := range all {
		p := p
		n++
		sc := filepath.Join(scratchRoot, fmt.Sprintf("recheck%d", n))
		r.Violate(p.v.class, p.v.msg, p.c, func() bool {
			if p.c.Seam == "sync" {
				if recheckRig == nil {
					recheckRig = newSyncRig()
				}
				keep := os.Stdout
				if devnull, err := os.OpenFile(os.DevNull, os.O_WRONLY, 0); err == nil {
					os.Stdout = devnull
					defer func() { devnull.Close(); os.Stdout = keep }()
				}
				_, v := runSyncHistory(recheckRig, p.c.Events)
				return v != nil && v.class == p.v.class
			}
			defer os.RemoveAll(sc)
			_, v := runHistory(p.c.Seam, p.c.Sink, p.c.Events, sc)
			return v != nil && v.class == p.v.class
		})
	}
	r.Sample("history", caseT{"replicate", "ref-filer", []event{{Kind: "create", Path: "/data/x"}, {Kind: "rename", Path: "/data/x", To: "/data/s/x"}}})
	r.Sample("history", caseT{"process", "local", []event{{Kind: "create", Path: "/data2/x"}}})
}
