package c36

// The filer.sync domain: the real doSubscribeFilerMetaChanges (one direction of
// filer.sync: signature exchange, metadata subscription, the signature filter,
// genProcessFunction, the real FilerSink) runs against
//   * a scripted source filer (gRPC): answers GetFilerConfiguration / KvGet / KvPut and
//     streams the events of the history, one subscription per event, then closes the stream;
//   * a REAL target filer: filer.Filer + FilerServer (gRPC) over leveldb2 in a scratch dir.
// After every event the target's file tree under the target directory must equal the
// mapped source subtree; an event that carries the target's signature must not reach the
// target's CreateEntry/UpdateEntry/DeleteEntry at all.

import (
	"context"
	"fmt"
	"net"
	"os"
	"sort"
	"strings"
	"sync"
	"sync/atomic"

	"verif/checks/flib"
	"verif/mc"

	"github.com/chrislusf/seaweedfs/weed/command"
	"github.com/chrislusf/seaweedfs/weed/filer"
	"github.com/chrislusf/seaweedfs/weed/pb"
	"github.com/chrislusf/seaweedfs/weed/pb/filer_pb"
	weed_server "github.com/chrislusf/seaweedfs/weed/server"
	"github.com/chrislusf/seaweedfs/weed/util"
	"google.golang.org/grpc"
)

// scripted source filer
type scriptedSource struct {
	filer_pb.UnimplementedSeaweedFilerServer
	mu     sync.Mutex
	events []*filer_pb.SubscribeMetadataResponse
}

func (s *scriptedSource) GetFilerConfiguration(ctx context.Context, req *filer_pb.GetFilerConfigurationRequest) (*filer_pb.GetFilerConfigurationResponse, error) {
	return &filer_pb.GetFilerConfigurationResponse{Signature: sourceSignature}, nil
}
func (s *scriptedSource) KvGet(ctx context.Context, req *filer_pb.KvGetRequest) (*filer_pb.KvGetResponse, error) {
	return &filer_pb.KvGetResponse{}, nil
}
func (s *scriptedSource) KvPut(ctx context.Context, req *filer_pb.KvPutRequest) (*filer_pb.KvPutResponse, error) {
	return &filer_pb.KvPutResponse{}, nil
}
func (s *scriptedSource) SubscribeMetadata(req *filer_pb.SubscribeMetadataRequest, stream filer_pb.SeaweedFiler_SubscribeMetadataServer) error {
	s.mu.Lock()
	evs := s.events
	s.mu.Unlock()
	for _, e := range evs {
		if err := stream.Send(e); err != nil {
			return err
		}
	}
	return nil // end of stream: the subscriber returns
}

type syncRig struct {
	srcAddr, dstAddr string // host:port as filer.sync takes them (gRPC port = port + 10000)
	src              *scriptedSource
	dstFiler         *filer.Filer
	dstStoreDir      string
	mutations        int64 // CreateEntry/UpdateEntry/DeleteEntry/AtomicRenameEntry calls that reached the target
	servers          []*grpc.Server
	serial           int
}

func listen() (net.Listener, string) {
	for i := 0; i < 50; i++ {
		l, err := net.Listen("tcp", "127.0.0.1:0")
		if err != nil {
			mc.Fatal("listen: %v", err)
		}
		port := l.Addr().(*net.TCPAddr).Port
		if port > 10000 {
			return l, fmt.Sprintf("127.0.0.1:%d", port-10000)
		}
		l.Close()
	}
	mc.Fatal("no usable port")
	return nil, ""
}

func newSyncRig() *syncRig {
	r := &syncRig{src: &scriptedSource{}}
	// source
	ls, addr := listen()
	r.srcAddr = addr
	gs := pb.NewGrpcServer()
	filer_pb.RegisterSeaweedFilerServer(gs, r.src)
	go gs.Serve(ls)
	// target: a real filer
	ld, daddr := listen()
	r.dstAddr = daddr
	r.dstStoreDir = mc.TempDir("c36sync")
	store, err := flib.OpenStore("leveldb2", r.dstStoreDir)
	if err != nil {
		mc.Fatal("target store: %v", err)
	}
	f := filer.NewFiler(nil, grpc.WithInsecure(), "127.0.0.1", 0, "", "", "", func() {})
	f.SetStore(store)
	f.Signature = targetSignature
	f.DirBucketsPath = "/buckets"
	f.LoadBuckets()
	r.dstFiler = f
	fsrv := weed_server.NewFilerServerV(f, &weed_server.FilerOption{}, grpc.WithInsecure(), false)
	gd := pb.NewGrpcServer(grpc.UnaryInterceptor(func(ctx context.Context, req interface{}, info *grpc.UnaryServerInfo, handler grpc.UnaryHandler) (interface{}, error) {
		for _, m := range []string{"/CreateEntry", "/UpdateEntry", "/DeleteEntry", "/AtomicRenameEntry", "/AppendToEntry"} {
			if strings.HasSuffix(info.FullMethod, m) {
				atomic.AddInt64(&r.mutations, 1)
			}
		}
		return handler(ctx, req)
	}))
	filer_pb.RegisterSeaweedFilerServer(gd, fsrv)
	go gd.Serve(ld)
	r.servers = []*grpc.Server{gs, gd}
	return r
}

func (r *syncRig) close() {
	for _, s := range r.servers {
		s.Stop()
	}
	r.dstFiler.Store.Shutdown()
	os.RemoveAll(r.dstStoreDir)
}

// targetTree lists every file on the target filer (absolute paths), except the corners /t<k> of
// other histories: anything written outside the target directory shows up.
func (r *syncRig) targetTree(root string) (files, dirs []string) {
	var walk func(d string)
	walk = func(d string) {
		entries, _, err := r.dstFiler.ListDirectoryEntries(context.Background(), util.FullPath(d), "", false, 100000, "", "", "")
		if err != nil {
			mc.Fatal("list target %s: %v", d, err)
		}
		for _, e := range entries {
			p := string(e.FullPath)
			if d == "/" && strings.HasPrefix(p, "/t") && p != root {
				continue
			}
			if e.IsDirectory() {
				if p != root && p != root+dstDir {
					dirs = append(dirs, p)
				}
				walk(p)
			} else {
				files = append(files, p)
			}
		}
	}
	walk("/")
	sort.Strings(files)
	sort.Strings(dirs)
	return
}

// seedTarget makes the target already contain (or not contain) a file, without any event.
func (r *syncRig) seedTarget(path string, present, isDir bool) {
	ctx := context.Background()
	if present {
		e := filer.FromPbEntry(string(util.FullPath(path)[:strings.LastIndex(path, "/")]), pbEntryOf(event{Dir: isDir}, path, 0))
		if err := r.dstFiler.CreateEntry(ctx, e, false, false, nil); err != nil {
			mc.Fatal("seed %s: %v", path, err)
		}
	} else {
		r.dstFiler.DeleteEntryMetaAndData(ctx, util.FullPath(path), false, true, false, false, nil)
	}
}

// runSyncHistory feeds the history event by event (one subscription each) and judges after every event.
func runSyncHistory(r *syncRig, events []event) (classes []string, v *verdict) {
	r.serial++
	root := fmt.Sprintf("/t%d", r.serial) // a fresh corner of the target filer per history
	target := root + dstDir
	mp := func(p string) string { return target + p[len(srcDir):] }
	model := map[string]int{}
	version := 0
	for i, e := range events {
		version++
		applyModel(model, e, version)
		want, wantDirs := wantedTree(model, mp)
		if e.Other {
			// the change came from the target cluster: the target already has it
			if inside(e.Path) {
				r.seedTarget(mp(e.Path), e.Kind == "create" || e.Kind == "update", e.Dir)
			}
			if e.Kind == "rename" && inside(e.To) {
				r.seedTarget(mp(e.To), true, false)
			}
		}
		_, _, resp := encode(e, version)
		r.src.mu.Lock()
		r.src.events = []*filer_pb.SubscribeMetadataResponse{resp}
		r.src.mu.Unlock()
		before := atomic.LoadInt64(&r.mutations)
		var err error
		var pn interface{}
		func() {
			defer func() { pn = recover() }()
			err = command.DoSubscribeFilerMetaChangesV(grpc.WithInsecure(), r.srcAddr, srcDir, false, r.dstAddr, target, "", "", 0, false, "", false)
		}()
		muts := atomic.LoadInt64(&r.mutations) - before
		feat := fmt.Sprintf("sync|filer-sink+real-filer|%s|%s>%s|other=%t", eventKind(e), pathClass(e.Path), pathClass(e.To), e.Other)
		fail := func(symptom, detail string) ([]string, *verdict) {
			return append(classes, feat+"|"+symptom), &verdict{classify("sync", "filer-sink", e, symptom), fmt.Sprintf("seam sync (doSubscribeFilerMetaChanges + FilerSink + real target filer) history %s, event %d: %s [%s]", historyString(events), i+1, detail, symptom)}
		}
		if pn != nil {
			return fail("panic", fmt.Sprintf("panic %v", pn))
		}
		if err != nil {
			return fail("error", fmt.Sprintf("sync pass returns error: %v", err))
		}
		touches := inside(e.Path) || (e.Kind == "rename" && inside(e.To))
		if (e.Other || !touches) && muts > 0 {
			return fail("target-mutated-for-ignored-event", fmt.Sprintf("%d mutating calls reached the target filer, want none", muts))
		}
		got, gotDirs := r.targetTree(root)
		if strings.Join(got, " ") != strings.Join(want, " ") {
			return fail("tree-differs", fmt.Sprintf("target files %v, want %v", got, want))
		}
		for _, d := range gotDirs {
			if !wantDirs[d] {
				return fail("sink-keeps-directory-missing-in-source", fmt.Sprintf("target has directory %s; source directories map to %v", d, keys(wantDirs)))
			}
		}
		classes = append(classes, feat+"|ok")
	}
	return classes, nil
}
