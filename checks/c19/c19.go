// Package c19: directory listings are exact, ordered and paginate completely.
//
// Every directory content over a 6-name universe (with 0-2 entries expired) is
// placed in each embedded store (leveldb, leveldb2, leveldb3) and in an
// in-harness store without native prefix listing; every request of a small
// grammar (start, inclusive, limit, prefix | pattern, exclusion) is issued
// through the real Filer.StreamListDirectoryEntries, and every filter/limit
// combination is paginated through the real Filer.ListDirectoryEntries by
// following the last returned name.  Oracle: sorted reference filter.
package c19

import (
	"context"
	"fmt"
	"os"
	"path/filepath"
	"runtime/pprof"
	"sort"
	"strings"
	"sync"
	"time"

	"verif/checks/flib"
	"verif/mc"

	"github.com/chrislusf/seaweedfs/weed/filer"
	"github.com/chrislusf/seaweedfs/weed/util"
)

func Main() {
	mc.Main("C19", "exploration",
		"stores {leveldb,leveldb2,leveldb3,in-harness store without prefix listing} x directories {/d,/buckets/b1,/buckets/b1/d} x all subsets of {a,aa,ab,b,ba,c} with 0-2 expired entries x requests start{'',6 names,ac} x inclusive x limit 1..4 x (prefix{'',a,ab,b,z} | pattern{a*,?a,*b,ab,a?,?a*}) x exclude{'',a*}; plus pagination of every filter x limit by following the last name; oracle: sorted reference filter; distinct = (store class, request features, outcome)",
		run)
}

var universe = []string{"a", "aa", "ab", "b", "ba", "c"}

type request struct {
	Start     string `json:"start"`
	Inclusive bool   `json:"inclusive"`
	Limit     int    `json:"limit"`
	Prefix    string `json:"prefix"`
	Pattern   string `json:"pattern"`
	Exclude   string `json:"exclude"`
}

type caseT struct {
	Store    string   `json:"store"`
	Dir      string   `json:"dir"`
	Members  []string `json:"members"`
	Expired  []string `json:"expired"`
	Paginate bool     `json:"paginate"` // follow the last returned name from Req.Start until an empty page
	Req      request  `json:"req"`
}

type filterT struct {
	prefix, pattern string
	judged          bool // membership is judged (prefix and pattern are documented as mutually exclusive)
}

var (
	starts  = []string{"", "a", "aa", "ab", "b", "ba", "c", "ac"}
	filters = []filterT{
		{"", "", true}, {"a", "", true}, {"ab", "", true}, {"b", "", true}, {"z", "", true},
		{"", "a*", true}, {"", "?a", true}, {"", "*b", true}, {"", "ab", true}, {"", "a?", true}, {"", "?a*", true},
		{"a", "*b", false}, {"b", "?a", false},
	}
	excludes = []string{"", "a*"}
)

// ---- reference ------------------------------------------------------------------------------

func live(members, expired []string) []string {
	ex := map[string]bool{}
	for _, e := range expired {
		ex[e] = true
	}
	var out []string
	for _, m := range members {
		if !ex[m] {
			out = append(out, m)
		}
	}
	sort.Strings(out)
	return out
}

func matches(name string, q request) bool {
	if q.Prefix != "" && !strings.HasPrefix(name, q.Prefix) {
		return false
	}
	if q.Pattern != "" {
		if ok, err := filepath.Match(q.Pattern, name); err != nil || !ok {
			return false
		}
	}
	if q.Exclude != "" {
		if ok, err := filepath.Match(q.Exclude, name); err == nil && ok {
			return false
		}
	}
	return true
}

// reference: all matches after the start position, in name order (not cut to the limit).
func reference(liveNames []string, q request) []string {
	var out []string
	for _, n := range liveNames {
		if q.Start != "" && (n < q.Start || (n == q.Start && !q.Inclusive)) {
			continue
		}
		if matches(n, q) {
			out = append(out, n)
		}
	}
	return out
}

func cut(l []string, n int) []string {
	if len(l) > n {
		return l[:n]
	}
	return l
}

// ---- the system under test -------------------------------------------------------------------

type sut struct {
	mu    sync.Mutex // serialises users of a shared sut (rechecks, replays)
	kind  string
	dir   string // scratch dir of the store
	store filer.FilerStore
	mem   *flib.MemStore
	keep  *keepStore
	f     *filer.Filer
	// current content of the directories under test, as placed
	cur map[string]int // dir+"\x00"+name -> 0 absent, 1 live, 2 expired
	// directories that already have their decoys
	decoyed map[string]bool
}

// keepStore passes everything to the real store, except that while "frozen" it only
// records DeleteEntry calls instead of performing them.  A listing deletes the expired
// entries it meets; with thousands of requests per directory state that side effect
// would have to be undone before every request, and the delete/re-insert churn makes a
// LevelDB iterator crawl through hundreds of thousands of dead versions.  The listing
// path itself (ListDirectory[Prefixed]Entries of the real store) is untouched.
type keepStore struct {
	filer.FilerStore
	frozen  bool
	deleted []string
	calls   int // listing calls of the current request
}

const callBudget = 300 // listing calls one request may make before it is declared non-terminating

var errCallBudget = fmt.Errorf("harness: more than %d store listing calls for one request", callBudget)

func (k *keepStore) ListDirectoryEntries(ctx context.Context, dirPath util.FullPath, startFileName string, includeStartFile bool, limit int64, eachEntryFunc filer.ListEachEntryFunc) (string, error) {
	if k.calls++; k.calls > callBudget {
		return "", errCallBudget
	}
	return k.FilerStore.ListDirectoryEntries(ctx, dirPath, startFileName, includeStartFile, limit, eachEntryFunc)
}

func (k *keepStore) ListDirectoryPrefixedEntries(ctx context.Context, dirPath util.FullPath, startFileName string, includeStartFile bool, limit int64, prefix string, eachEntryFunc filer.ListEachEntryFunc) (string, error) {
	if k.calls++; k.calls > callBudget {
		return "", errCallBudget
	}
	return k.FilerStore.ListDirectoryPrefixedEntries(ctx, dirPath, startFileName, includeStartFile, limit, prefix, eachEntryFunc)
}

func (k *keepStore) DeleteEntry(ctx context.Context, p util.FullPath) error {
	if k.frozen {
		k.deleted = append(k.deleted, string(p))
		return nil
	}
	return k.FilerStore.DeleteEntry(ctx, p)
}

var ctx = context.Background()

func openSut(kind string) *sut {
	s := &sut{kind: kind, cur: map[string]int{}, decoyed: map[string]bool{}}
	if kind != "memstore-noprefix" {
		s.dir = mc.TempDir("c19")
	}
	st, err := flib.OpenStore(kind, s.dir)
	if err != nil {
		mc.Fatal("open store %s: %v", kind, err)
	}
	s.store = st
	if m, ok := st.(*flib.MemStore); ok {
		s.mem = m
	}
	s.keep = &keepStore{FilerStore: st}
	s.f = &filer.Filer{Store: filer.NewFilerStoreWrapper(s.keep)}
	return s
}

func (s *sut) close() {
	s.store.Shutdown()
	if s.dir != "" {
		os.RemoveAll(s.dir)
	}
}

// shared suts for rechecks and replays (opening a LevelDB store costs ~0.4 s here)
var (
	sharedMu   sync.Mutex
	sharedSuts = map[string]*sut{}
)

func sharedSut(kind, dir string) *sut {
	sharedMu.Lock()
	defer sharedMu.Unlock()
	key := kind + ":" + dir // one store per tested directory: the decoys of one directory may live in another tested one
	if s, ok := sharedSuts[key]; ok {
		return s
	}
	s := openSut(kind)
	sharedSuts[key] = s
	return s
}

func closeShared() {
	sharedMu.Lock()
	defer sharedMu.Unlock()
	for k, s := range sharedSuts {
		s.close()
		delete(sharedSuts, k)
	}
}

func mkEntry(dir, name string, expired bool) *filer.Entry {
	e := &filer.Entry{FullPath: util.NewFullPath(dir, name)}
	e.Attr.Mtime = time.Unix(1600000000, 0)
	e.Attr.Crtime = time.Unix(1600000000, 0)
	e.Attr.Mode = 0644
	if expired {
		e.Attr.Crtime = time.Unix(946684800, 0) // 2000-01-01: expired for ever
		e.Attr.TtlSec = 1
	}
	return e
}

// decoys: entries of neighbouring directories that must never show up
func (s *sut) decoys(dir string) {
	if s.decoyed[dir] {
		return
	}
	s.decoyed[dir] = true
	parent, _ := util.FullPath(dir).DirAndName()
	for _, p := range []string{dir + "2", dir + "/sub", dir + "/a", parent, "/zz"} {
		for _, n := range []string{"a", "ab", "zz"} {
			if err := s.f.Store.InsertEntry(ctx, mkEntry(p, n, false)); err != nil {
				mc.Fatal("decoy: %v", err)
			}
		}
	}
}

// place makes the directory contain exactly members, the expired ones being expired.
func (s *sut) place(dir string, members, expired []string) {
	s.keep.frozen = false
	defer func() { s.keep.frozen = os.Getenv("C19_NOFREEZE") == "" }() // C19_NOFREEZE: replay aid, let the listing really delete expired entries
	want := map[string]int{}
	for _, m := range members {
		want[m] = 1
	}
	for _, e := range expired {
		want[e] = 2
	}
	for _, n := range universe {
		w := want[n]
		switch {
		case w == 0 && s.cur[dir+"\x00"+n] != 0:
			if err := s.f.Store.DeleteEntry(ctx, util.NewFullPath(dir, n)); err != nil {
				mc.Fatal("delete: %v", err)
			}
		case w != 0 && s.cur[dir+"\x00"+n] != w:
			if err := s.f.Store.InsertEntry(ctx, mkEntry(dir, n, w == 2)); err != nil {
				mc.Fatal("insert: %v", err)
			}
		}
		s.cur[dir+"\x00"+n] = w
	}
}

func (s *sut) list(dir string, q request) (names []string, err error, pn interface{}) {
	defer func() {
		if p := recover(); p != nil {
			pn = p
		}
	}()
	s.keep.calls, s.keep.deleted = 0, s.keep.deleted[:0]
	_, err = s.f.StreamListDirectoryEntries(ctx, util.FullPath(dir), q.Start, q.Inclusive, int64(q.Limit), q.Prefix, q.Pattern, q.Exclude, func(e *filer.Entry) bool {
		d, n := e.FullPath.DirAndName()
		if d != dir {
			n = string(e.FullPath) // an entry of another directory: keep the full path so that it cannot match
		}
		names = append(names, n)
		return true
	})
	return
}

func (s *sut) page(dir string, q request) (names []string, err error, pn interface{}) {
	defer func() {
		if p := recover(); p != nil {
			pn = p
		}
	}()
	s.keep.calls, s.keep.deleted = 0, s.keep.deleted[:0]
	entries, _, err := s.f.ListDirectoryEntries(ctx, util.FullPath(dir), q.Start, q.Inclusive, int64(q.Limit), q.Prefix, q.Pattern, q.Exclude)
	for _, e := range entries {
		d, n := e.FullPath.DirAndName()
		if d != dir {
			n = string(e.FullPath)
		}
		names = append(names, n)
	}
	return
}

// ---- judging ----------------------------------------------------------------------------------

type verdict struct {
	class, msg string
}

func nativePrefix(kind string) bool { return kind != "memstore-noprefix" }

func patternKind(p string) string {
	switch {
	case p == "":
		return "none"
	case !strings.ContainsAny(p, "*?"):
		return "literal"
	case strings.Contains(p, "*") && strings.Contains(p, "?") && strings.Index(p, "?") < strings.Index(p, "*"):
		return "question-before-star"
	case strings.HasPrefix(p, "*") || strings.HasPrefix(p, "?"):
		return "leading-wildcard"
	}
	return "literal-head"
}

// headPrefix is the literal head of a pattern (up to its first wildcard), "" for a pattern
// without wildcard.  It is used only to NAME request families.
func headPrefix(pattern string) string {
	if i := strings.IndexAny(pattern, "*?"); i > 0 {
		return pattern[:i]
	}
	return ""
}

// namePrefix is the name prefix a request implies (explicit prefix, or the literal head of the pattern).
func namePrefix(q request) string {
	if h := headPrefix(q.Pattern); h != "" {
		return h
	}
	return q.Prefix
}

func hasFilterBeyondPrefix(q request) bool {
	if q.Exclude != "" {
		return true
	}
	if q.Pattern == "" {
		return false
	}
	// something is left of the pattern after its literal head
	return strings.ContainsAny(q.Pattern, "*?")
}

// reqFeatures is the coverage class of a request (not used for violations).
func reqFeatures(kind string, q request, expired []string) string {
	st := "generic-prefix-filter"
	if nativePrefix(kind) {
		st = "native-prefix"
	}
	startRel := "no-start"
	if q.Start != "" {
		np := namePrefix(q)
		switch {
		case np == "":
			startRel = "start"
		case strings.HasPrefix(q.Start, np):
			startRel = "start-inside-prefix"
		case q.Start < np:
			startRel = "start-before-prefix"
		default:
			startRel = "start-after-prefix"
		}
	}
	pf := "no-prefix"
	if q.Prefix != "" {
		pf = "prefix"
	}
	ex := "no-exclude"
	if q.Exclude != "" {
		ex = "exclude"
	}
	exp := "no-expired"
	if len(expired) > 0 {
		exp = "expired"
	}
	return fmt.Sprintf("%s|%s|pattern=%s|%s|%s|%s", st, pf, patternKind(q.Pattern), ex, startRel, exp)
}

// family names the request family of a FAILING case from the case's own features, most
// specific first.  Each family is one input family; a failure outside every family is
// "unexplained" and carries its full features, so that nothing new hides behind a known class.
func family(kind string, q request, expired []string, paginate bool) string {
	np := namePrefix(q)
	switch {
	case patternKind(q.Pattern) == "literal":
		return "pattern-without-wildcard"
	case patternKind(q.Pattern) == "question-before-star":
		return "pattern-question-mark-before-star"
	case !nativePrefix(kind) && np != "":
		return "name-prefix-on-store-without-prefix-listing"
	case nativePrefix(kind) && np != "" && q.Start != "" && q.Start < np && !strings.HasPrefix(q.Start, np) && !paginate:
		return "start-before-name-prefix-on-store-with-prefix-listing"
	case len(expired) > 0 && hasFilterBeyondPrefix(q):
		return "expired-entry-with-pattern-or-exclusion"
	}
	return ""
}

func relation(got, want []string) string {
	if strings.Join(got, ",") == strings.Join(want, ",") {
		return "equal"
	}
	seen := map[string]bool{}
	dup, unsorted := false, false
	for i, g := range got {
		if seen[g] {
			dup = true
		}
		seen[g] = true
		if i > 0 && got[i-1] > g {
			unsorted = true
		}
	}
	w := map[string]bool{}
	for _, x := range want {
		w[x] = true
	}
	extra, missing := false, false
	for _, g := range got {
		if !w[g] {
			extra = true
		}
	}
	for _, x := range want {
		if !seen[x] {
			missing = true
		}
	}
	var parts []string
	if dup {
		parts = append(parts, "duplicates")
	}
	if unsorted {
		parts = append(parts, "unsorted")
	}
	if extra {
		parts = append(parts, "extra")
	}
	if missing {
		parts = append(parts, "missing")
	}
	if len(parts) == 0 {
		parts = append(parts, "reordered")
	}
	return strings.Join(parts, "+")
}

func judged(q request) bool { return q.Prefix == "" || q.Pattern == "" }

func violation(kind string, q request, expired []string, paginate bool, symptom, feat string) string {
	if f := family(kind, q, expired, paginate); f != "" {
		return f
	}
	mode := "single"
	if paginate {
		mode = "paginate"
	}
	return "unexplained|" + mode + "|" + feat + "|" + symptom
}

// checkSingle issues one request and judges it.
func checkSingle(s *sut, dir string, members, expired, liveNames []string, q request) (string, *verdict) {
	feat := reqFeatures(s.kind, q, expired)
	got, err, pn := s.list(dir, q)
	desc := func() string {
		return fmt.Sprintf("store %s dir %s members %v expired %v request %+v", s.kind, dir, members, expired, q)
	}
	fail := func(symptom, detail string) (string, *verdict) {
		return feat + "|" + symptom, &verdict{violation(s.kind, q, expired, false, symptom, feat), fmt.Sprintf("%s: %s [%s]", desc(), detail, symptom)}
	}
	if pn != nil {
		return fail("panic", fmt.Sprintf("panic %v", pn))
	}
	if err != nil {
		if err == errCallBudget {
			return fail("no-termination", err.Error())
		}
		return fail("error", fmt.Sprintf("error %v", err))
	}
	all := reference(liveNames, q)
	want := cut(all, q.Limit)
	if judged(q) {
		rel := relation(got, want)
		if rel == "equal" {
			short := "full-page"
			if len(want) < q.Limit {
				short = "short-page"
			}
			return feat + "|" + short + "|ok", nil
		}
		return fail(rel, fmt.Sprintf("got %v, want %v", got, want))
	}
	// prefix and pattern together: only order, uniqueness, limit, membership in the directory and start are judged
	if bad := structural(got, liveNames, q); bad != "" {
		return fail("combined-"+bad, fmt.Sprintf("got %v", got))
	}
	return feat + "|combined|ok", nil
}

func structural(got, liveNames []string, q request) string {
	lv := map[string]bool{}
	for _, n := range liveNames {
		lv[n] = true
	}
	for i, g := range got {
		if !lv[g] {
			return "not-a-live-child"
		}
		if i > 0 && got[i-1] >= g {
			return "not-strictly-increasing"
		}
		if q.Start != "" && (g < q.Start || (g == q.Start && !q.Inclusive)) {
			return "before-start"
		}
	}
	if len(got) > q.Limit {
		return "over-limit"
	}
	return ""
}

// checkPaginate follows the last returned name until an empty page.
func checkPaginate(s *sut, dir string, members, expired, liveNames []string, q request) (string, *verdict) {
	feat := reqFeatures(s.kind, q, expired)
	desc := func() string {
		return fmt.Sprintf("store %s dir %s members %v expired %v paginate %+v", s.kind, dir, members, expired, q)
	}
	fail := func(symptom, detail string) (string, *verdict) {
		return feat + "|paginate|" + symptom, &verdict{violation(s.kind, q, expired, true, symptom, feat), fmt.Sprintf("%s: %s [%s]", desc(), detail, symptom)}
	}
	var all []string
	cur := q
	pages := 0
	for {
		got, err, pn := s.page(dir, cur)
		if pn != nil {
			return fail("panic", fmt.Sprintf("page from %q: panic %v", cur.Start, pn))
		}
		if err != nil {
			if err == errCallBudget {
				return fail("no-termination", fmt.Sprintf("page from %q: %v", cur.Start, err))
			}
			return fail("error", fmt.Sprintf("page from %q: error %v", cur.Start, err))
		}
		if len(got) == 0 {
			break
		}
		if len(got) > q.Limit {
			return fail("over-limit", fmt.Sprintf("page from %q has %v", cur.Start, got))
		}
		all = append(all, got...)
		cur.Start, cur.Inclusive = got[len(got)-1], false
		pages++
		if pages > 12 {
			return fail("endless-pages", fmt.Sprintf("more than 12 non-empty pages: %v", all))
		}
	}
	if judged(q) {
		want := reference(liveNames, q)
		if rel := relation(all, want); rel != "equal" {
			return fail(rel, fmt.Sprintf("pages give %v, want %v", all, want))
		}
		return fmt.Sprintf("%s|paginate|pages=%d|ok", feat, pages), nil
	}
	qq := q
	qq.Limit = len(all) + 1
	if bad := structural(all, liveNames, qq); bad != "" {
		return fail("combined-"+bad, fmt.Sprintf("pages give %v", all))
	}
	return feat + "|paginate|combined|ok", nil
}

// ---- enumeration -------------------------------------------------------------------------------

type stateT struct{ members, expired []string }

func states(maxExpired int) []stateT {
	var out []stateT
	mc.Subsets(len(universe), func(mask int) bool {
		var mem []string
		for i, n := range universe {
			if mask&(1<<uint(i)) != 0 {
				mem = append(mem, n)
			}
		}
		out = append(out, stateT{mem, nil})
		if maxExpired >= 1 {
			for i := range mem {
				out = append(out, stateT{mem, []string{mem[i]}})
			}
		}
		if maxExpired >= 2 {
			for i := range mem {
				for j := i + 1; j < len(mem); j++ {
					out = append(out, stateT{mem, []string{mem[i], mem[j]}})
				}
			}
		}
		return true
	})
	return out
}

type unit struct {
	kind, dir string
}

type pend struct {
	v verdict
	c caseT
}

func runUnit(r *mc.Run, u unit, sts []stateT, limits []int, starts []string, t flib.Tally, pends *[]pend) {
	s := openSut(u.kind)
	defer s.close()
	s.decoys(u.dir)
	seen := map[string]bool{}
	note := func(v *verdict, c caseT) {
		if v != nil && !seen[v.class] {
			seen[v.class] = true
			*pends = append(*pends, pend{*v, c})
		}
	}
	for _, st := range sts {
		s.place(u.dir, st.members, st.expired)
		lv := live(st.members, st.expired)
		for _, f := range filters {
			for _, ex := range excludes {
				for _, lim := range limits {
					for _, start := range starts {
						for _, inc := range []bool{false, true} {
							if start == "" && inc {
								continue // same request as start "" exclusive
							}
							q := request{start, inc, lim, f.prefix, f.pattern, ex}
							class, v := checkSingle(s, u.dir, st.members, st.expired, lv, q)
							t.Add(class)
							note(v, caseT{u.kind, u.dir, st.members, st.expired, false, q})
						}
					}
					q := request{"", false, lim, f.prefix, f.pattern, ex}
					class, v := checkPaginate(s, u.dir, st.members, st.expired, lv, q)
					t.Add(class)
					note(v, caseT{u.kind, u.dir, st.members, st.expired, true, q})
				}
			}
		}
	}
}

func replay(r *mc.Run) {
	var c caseT
	if err := r.ReplayCase(&c); err != nil {
		mc.Fatal("replay: %v", err)
	}
	ok := false
	for _, k := range flib.StoreKinds {
		if k == c.Store {
			ok = true
		}
	}
	if !ok || !strings.HasPrefix(c.Dir, "/") || c.Req.Limit < 1 {
		mc.Fatal("replay: bad case")
	}
	s := sharedSut(c.Store, c.Dir)
	defer closeShared()
	s.decoys(c.Dir)
	s.place(c.Dir, c.Members, c.Expired)
	lv := live(c.Members, c.Expired)
	var v *verdict
	if c.Paginate {
		_, v = checkPaginate(s, c.Dir, c.Members, c.Expired, lv, c.Req)
	} else {
		_, v = checkSingle(s, c.Dir, c.Members, c.Expired, lv, c.Req)
	}
	if v != nil {
		r.Violate(v.class, v.msg, c, nil)
	}
	r.Case("replay")
}

func run(r *mc.Run) {
	flib.QuietGlog()
	if r.Replay != "" {
		replay(r)
		return
	}
	r.Assume("an entry is expired when TtlSec>0 and Crtime+TtlSec is in the past; expired entries are created with Crtime 2000-01-01 and TtlSec 1, all others with TtlSec 0, so no verdict depends on the clock")
	r.Assume("name prefix and name pattern are documented as mutually exclusive (filer_search.go): requests that carry both are judged only for order, uniqueness, limit, start and membership in the directory")
	r.Assume("a name pattern has path/filepath.Match semantics over the whole name (a pattern without wildcard matches only that name)")
	var units []unit
	if r.Quick() {
		units = []unit{{"leveldb", "/d"}, {"leveldb2", "/d"}, {"leveldb3", "/buckets/b1"}, {"memstore-noprefix", "/d"}}
	} else {
		for _, k := range flib.StoreKinds {
			for _, d := range []string{"/d", "/buckets/b1", "/buckets/b1/d"} {
				units = append(units, unit{k, d})
			}
		}
	}
	if f := os.Getenv("C19_UNITS"); f != "" { // development aid
		r.NotExhaustive("C19_UNITS filter set")
		var keep []unit
		for _, u := range units {
			if strings.Contains(","+f+",", ","+u.kind+":"+u.dir+",") {
				keep = append(keep, u)
			}
		}
		units = keep
	}
	if pf := os.Getenv("C19_PROF"); pf != "" {
		if f, err := os.Create(pf); err == nil {
			pprof.StartCPUProfile(f)
			defer pprof.StopCPUProfile()
		}
	}
	sts := states(r.Pick(1, 2))
	limits := []int{1, 2, 3, 4}
	useStarts := starts
	if r.Quick() {
		limits = []int{1, 2, 4}
		useStarts = []string{"", "a", "ab", "b", "ac"}
	}
	r.Set("directory_states", len(sts))
	r.Set("store_directory_units", len(units))
	// work items: (store, directory) x half of the states; each item opens its own store (a LevelDB open costs ~0.4 s here)
	type item struct {
		u   unit
		sts []stateT
	}
	var items []item
	for _, u := range units {
		for k := 0; k < 2; k++ {
			var part []stateT
			for i := k; i < len(sts); i += 2 {
				part = append(part, sts[i])
			}
			items = append(items, item{u, part})
		}
	}
	tallies := make([]flib.Tally, len(items))
	pends := make([][]pend, len(items))
	r.Go(len(items), 16, func(i int) {
		tallies[i] = flib.Tally{}
		runUnit(r, items[i].u, items[i].sts, limits, useStarts, tallies[i], &pends[i])
	})
	total := flib.Tally{}
	for _, t := range tallies {
		for k, v := range t {
			total[k] += v
		}
	}
	for _, k := range total.SortedKeys() {
		r.Case(k)
		r.Cases(total[k] - 1)
	}
	var all []pend
	for _, ps := range pends {
		all = append(all, ps...)
	}
	// simplest witnesses first: fewest members, then fewest expired
	sort.SliceStable(all, func(i, j int) bool {
		a, b := all[i].c, all[j].c
		if len(a.Members) != len(b.Members) {
			return len(a.Members) < len(b.Members)
		}
		return len(a.Expired) < len(b.Expired)
	})
	for _, p := range all {
		p := p
		r.Violate(p.v.class, p.v.msg, p.c, func() bool {
			s := sharedSut(p.c.Store, p.c.Dir)
			s.mu.Lock()
			defer s.mu.Unlock()
			s.decoys(p.c.Dir)
			s.place(p.c.Dir, p.c.Members, p.c.Expired)
			lv := live(p.c.Members, p.c.Expired)
			var v *verdict
			if p.c.Paginate {
				_, v = checkPaginate(s, p.c.Dir, p.c.Members, p.c.Expired, lv, p.c.Req)
			} else {
				_, v = checkSingle(s, p.c.Dir, p.c.Members, p.c.Expired, lv, p.c.Req)
			}
			return v != nil && v.class == p.v.class
		})
	}
	closeShared()
	r.Sample("single", caseT{"leveldb", "/d", []string{"a", "ab", "b"}, []string{"ab"}, false, request{"a", false, 2, "", "", ""}})
	r.Sample("paginate", caseT{"memstore-noprefix", "/d", []string{"a", "aa", "b", "ba"}, nil, true, request{"", false, 1, "b", "", ""}})
}
