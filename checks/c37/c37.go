// Package c37: incremental volume backup converges to the source.
//
// Real code driven.  Source: a volume of a real in-process volume server;
// writes/deletes through Store.WriteVolumeNeedle / DeleteVolumeNeedle,
// compaction through the server's gRPC VacuumVolumeCompact + VacuumVolumeCommit.
// Backup: exactly the procedure of weed/command/backup.go runBackup, with the
// real APIs -- operation.GetVolumeSyncStatus (gRPC VolumeSyncStatus),
// storage.NewVolume in the backup dir, Compact2 + CommitCompact + revision bump
// when the local compaction revision is behind, Destroy + recreate when the
// local .dat is larger than the source, Volume.IncrementalBackup (gRPC
// VolumeIncrementalCopy -> BinarySearchByAppendAtNs on the server, then
// ScanVolumeFileFrom on the client).
//
// Search: explicit-state BFS (mc.BFS, replay from the initial state on a fresh
// source volume and a fresh backup dir): every event sequence over {write key k
// with payload a|b, delete key k, compact source, run backup} unmerged to depth
// d0, then merged on a canonical state to depth d1.
//
// Oracle: after every "run backup" event, for every key the backup volume (both
// the object that just ran IncrementalBackup and the volume re-opened from the
// files) reads exactly what the source reads: same content, or not found.
package c37

import (
	"fmt"
	"os"
	"sort"
	"strings"
	"sync/atomic"

	"verif/cluster"
	"verif/mc"

	"github.com/chrislusf/seaweedfs/weed/operation"
	"github.com/chrislusf/seaweedfs/weed/pb/volume_server_pb"
	"github.com/chrislusf/seaweedfs/weed/storage"
	"github.com/chrislusf/seaweedfs/weed/storage/idx"
	"github.com/chrislusf/seaweedfs/weed/storage/needle"
	"github.com/chrislusf/seaweedfs/weed/storage/super_block"
	"github.com/chrislusf/seaweedfs/weed/storage/types"
	"golang.org/x/net/context"
)

func Main() {
	mc.Main("C37", "model_checking",
		"explicit-state BFS by replay over {write k in 1..K payload a|b, delete k, compact+commit source (gRPC), run backup (runBackup's procedure over gRPC)}: all sequences unmerged to depth d0, merged on (reference map, source and backup index shape with append-time ranks, compaction revisions, .dat size relation) to depth d1; after every backup all keys are read from source and backup",
		run)
}

type w = map[string]interface{}

const cookie = 0x37c0ffee

// a and c have the same stored size (an overwrite a->c changes the bytes but not the size); b is longer
var payloads = map[string][]byte{"a": []byte("aaa"), "b": []byte("bbbbbbbbbbb"), "c": []byte("ccc")}

// ---- the system -------------------------------------------------------------------

type sys struct {
	r    *mc.Run
	c    *cluster.Cluster
	keys int
	pls  []string // payload names in the alphabet (for every key)
	xev  []string // extra write events (a payload restricted to one key, e.g. "w1c")
	dels int      // keys 1..dels can be deleted (0 = all)

	vid             uint32
	n               *int64 // instance counter shared by every sys on this cluster
	bkDir           string
	model           map[uint64]string // key -> "a" | "b" | "del" ; missing = never written
	compact         int               // source compactions so far
	compactAtBackup int               // ... at the time of the previous backup run
	backups         int               // backup runs so far
	wrote           bool              // source written since the last compaction
	hist            []string
	lastErr         string
	branch          string // which runBackup branches the last backup took
}

func (s *sys) Reset() {
	id := atomic.AddInt64(s.n, 1)
	s.vid = uint32(id)
	s.c.MustAddVolume(s.vid, "", "000", "")
	s.bkDir = s.c.SubDir(fmt.Sprintf("bk%d", id))
	s.model = map[uint64]string{}
	s.compact, s.compactAtBackup, s.backups, s.wrote = 0, 0, 0, false
	s.hist = nil
}

func (s *sys) Close() {
	if err := s.c.Servers[0].Store.DeleteVolume(needle.VolumeId(s.vid)); err != nil {
		mc.Fatal("c37: delete source volume: %v", err)
	}
	os.RemoveAll(s.bkDir)
}

func (s *sys) Events() []string {
	var ev []string
	for _, p := range s.pls {
		for k := 1; k <= s.keys; k++ {
			ev = append(ev, fmt.Sprintf("w%d%s", k, p))
		}
	}
	ev = append(ev, s.xev...)
	for k := 1; k <= s.keys && (s.dels == 0 || k <= s.dels); k++ {
		ev = append(ev, fmt.Sprintf("d%d", k))
	}
	return append(ev, "compact", "backup")
}

func (s *sys) src() *storage.Store { return s.c.Servers[0].Store }

func (s *sys) Apply(ev string) string {
	s.hist = append(s.hist, ev)
	switch {
	case ev[0] == 'w':
		k := uint64(ev[1] - '0')
		n := &needle.Needle{Id: types.Uint64ToNeedleId(k), Cookie: types.Uint32ToCookie(cookie), Data: payloads[ev[2:]]}
		n.Checksum = needle.NewCRC(n.Data)
		if _, err := s.src().WriteVolumeNeedle(needle.VolumeId(s.vid), n, false); err != nil {
			mc.Fatal("c37: source write: %v", err)
		}
		s.model[k] = ev[2:]
		s.wrote = true
	case ev[0] == 'd':
		k := uint64(ev[1] - '0')
		n := &needle.Needle{Id: types.Uint64ToNeedleId(k), Cookie: types.Uint32ToCookie(cookie)}
		if _, err := s.src().DeleteVolumeNeedle(needle.VolumeId(s.vid), n); err != nil {
			mc.Fatal("c37: source delete: %v", err)
		}
		if _, ok := s.model[k]; ok {
			s.model[k] = "del"
		}
	case ev == "compact":
		err := s.c.Servers[0].WithClient(func(cl volume_server_pb.VolumeServerClient) error {
			if _, err := cl.VacuumVolumeCompact(context.Background(), &volume_server_pb.VacuumVolumeCompactRequest{VolumeId: s.vid}); err != nil {
				return err
			}
			_, err := cl.VacuumVolumeCommit(context.Background(), &volume_server_pb.VacuumVolumeCommitRequest{VolumeId: s.vid})
			return err
		})
		if err != nil {
			mc.Fatal("c37: source compaction: %v", err)
		}
		s.compact++
		s.wrote = false
	case ev == "backup":
		return s.backupAndCompare()
	}
	return ""
}

// runBackup follows weed/command/backup.go; it returns the volume object after
// IncrementalBackup (still open) or an error.
func (s *sys) runBackup() (*storage.Volume, error) {
	server := s.c.Servers[0].Url()
	vid := needle.VolumeId(s.vid)
	stats, err := operation.GetVolumeSyncStatus(server, s.c.GrpcDialOption, s.vid)
	if err != nil || stats == nil {
		return nil, fmt.Errorf("sync status: %v", err)
	}
	ttl, err := needle.ReadTTL(stats.Ttl)
	if err != nil {
		return nil, err
	}
	replication, err := super_block.NewReplicaPlacementFromString(stats.Replication)
	if err != nil {
		return nil, err
	}
	v, err := storage.NewVolume(s.bkDir, s.bkDir, "", vid, storage.NeedleMapInMemory, replication, ttl, 0, 0)
	if err != nil {
		return nil, fmt.Errorf("open backup volume: %v", err)
	}
	s.branch = "plain"
	if dat, _, _ := v.FileStat(); dat <= 8 {
		s.branch = "fresh"
	}
	if v.SuperBlock.CompactionRevision < uint16(stats.CompactRevision) {
		s.branch += "+local-compact"
		// runBackup preallocates 30 GiB here; irrelevant to the logic and ruinous on tmpfs
		if err = v.Compact2(0, 0); err != nil {
			return v, fmt.Errorf("local compact: %v", err)
		}
		if err = v.CommitCompact(); err != nil {
			return v, fmt.Errorf("local commit compact: %v", err)
		}
		v.SuperBlock.CompactionRevision = uint16(stats.CompactRevision)
		v.DataBackend.WriteAt(v.SuperBlock.Bytes(), 0)
	}
	datSize, _, _ := v.FileStat()
	if datSize > stats.TailOffset {
		s.branch += "+discard"
		v.Destroy()
		v, err = storage.NewVolume(s.bkDir, s.bkDir, "", vid, storage.NeedleMapInMemory, replication, ttl, 0, 0)
		if err != nil {
			return nil, fmt.Errorf("recreate backup volume: %v", err)
		}
	}
	if err := v.IncrementalBackup(server, s.c.GrpcDialOption); err != nil {
		return v, fmt.Errorf("incremental backup: %v", err)
	}
	return v, nil
}

func closeVol(v *storage.Volume) {
	if v != nil {
		v.Close()
		v.StopWorkerV()
	}
}

func readVol(v *storage.Volume, k uint64) string {
	n := &needle.Needle{Id: types.Uint64ToNeedleId(k)}
	if _, err := v.ReadNeedleV(n, nil); err != nil {
		return "-"
	}
	return string(n.Data)
}

func (s *sys) readSrc(k uint64) string {
	n := &needle.Needle{Id: types.Uint64ToNeedleId(k)}
	if _, err := s.src().ReadVolumeNeedle(needle.VolumeId(s.vid), n, nil); err != nil {
		return "-"
	}
	return string(n.Data)
}

func (s *sys) openBackup() *storage.Volume {
	if _, err := os.Stat(fmt.Sprintf("%s/%d.dat", s.bkDir, s.vid)); err != nil {
		return nil
	}
	rp, _ := super_block.NewReplicaPlacementFromString("000")
	v, err := storage.NewVolume(s.bkDir, s.bkDir, "", needle.VolumeId(s.vid), storage.NeedleMapInMemory, rp, needle.EMPTY_TTL, 0, 0)
	if err != nil {
		return nil
	}
	return v
}

func (s *sys) backupAndCompare() string {
	prior := s.backups
	s.backups++
	v, err := s.runBackup()
	feat := fmt.Sprintf("source-compacted-since-last-backup=%v:incremental=%v", s.compact > s.compactAtBackup, prior > 0)
	s.compactAtBackup = s.compact
	if err != nil {
		closeVol(v)
		s.lastErr = err.Error()
		return "backup-fails:" + errClass(err) + ":" + feat + "|" + err.Error()
	}
	var diffs []string
	kind := ""
	for k := uint64(1); k <= uint64(s.keys); k++ {
		src := s.readSrc(k)
		if got := readVol(v, k); got != src {
			diffs = append(diffs, fmt.Sprintf("key %d: source %q backup %q", k, src, got))
			kind = worse(kind, diffKind(src, got))
		}
	}
	closeVol(v)
	if len(diffs) > 0 {
		return "backup-" + kind + ":" + feat + "|" + strings.Join(diffs, "; ")
	}
	// the volume as a later reader (or the next backup run) loads it
	v2 := s.openBackup()
	if v2 == nil {
		return "backup-unreadable-after-reopen:" + feat + "|cannot reopen the backup volume"
	}
	for k := uint64(1); k <= uint64(s.keys); k++ {
		src := s.readSrc(k)
		if got := readVol(v2, k); got != src {
			diffs = append(diffs, fmt.Sprintf("key %d: source %q reopened backup %q", k, src, got))
			kind = worse(kind, diffKind(src, got))
		}
	}
	closeVol(v2)
	if len(diffs) > 0 {
		return "reopened-backup-" + kind + ":" + feat + "|" + strings.Join(diffs, "; ")
	}
	if s.r != nil {
		s.r.Distinct("backup-ok|" + s.branch + "|" + feat)
	}
	return ""
}

func diffKind(src, got string) string {
	switch {
	case src == "-":
		return "serves-deleted-blob"
	case got == "-":
		return "misses-live-blob"
	}
	return "serves-stale-content"
}

func worse(a, b string) string {
	if a == "" || b < a {
		return b
	}
	return a
}

func errClass(err error) string {
	e := err.Error()
	switch {
	case strings.Contains(e, "ReadNeedleHeader") || strings.Contains(e, "ReadNeedleBody"):
		return "needle-read-error"
	case strings.Contains(e, "locate by appendAtNs"):
		return "server-search-error"
	case strings.Contains(e, "incremental backup"):
		return "incremental-copy-error"
	}
	return "other"
}

// ---- canonical state ---------------------------------------------------------------------

type entry struct {
	key  uint64
	kind string // payload name or "tomb"
	ns   uint64
}

func idxEntries(idxPath string, v *storage.Volume) []entry {
	f, err := os.Open(idxPath)
	if err != nil {
		return nil
	}
	defer f.Close()
	var out []entry
	idx.WalkIndexFile(f, func(key types.NeedleId, offset types.Offset, size types.Size) error {
		e := entry{key: uint64(key), kind: "tomb"}
		if size > 0 && size.IsValid() {
			e.kind = fmt.Sprint(int(size))
		}
		if n, _, bodyLen, err := needle.ReadNeedleHeader(v.DataBackend, v.Version(), offset.ToActualOffset()); err == nil {
			if _, err := n.ReadNeedleBody(v.DataBackend, v.Version(), offset.ToActualOffset()+types.NeedleHeaderSize, bodyLen); err == nil {
				e.ns = n.AppendAtNs
			}
		}
		out = append(out, e)
		return nil
	})
	return out
}

func (s *sys) Canon() string {
	var b strings.Builder
	for k := uint64(1); k <= uint64(s.keys); k++ {
		st, ok := s.model[k]
		if !ok {
			st = "-"
		}
		fmt.Fprintf(&b, "%d=%s ", k, st)
	}
	sv := s.src().GetVolume(needle.VolumeId(s.vid))
	se := idxEntries(sv.FileName(".idx"), sv)
	var be []entry
	bkRev, bkDat := -1, uint64(0)
	if bv := s.openBackup(); bv != nil {
		be = idxEntries(bv.FileName(".idx"), bv)
		bkRev = int(bv.SuperBlock.CompactionRevision)
		bkDat, _, _ = bv.FileStat()
		closeVol(bv)
	}
	// ranks of append times over both volumes
	set := map[uint64]bool{}
	for _, e := range append(append([]entry{}, se...), be...) {
		set[e.ns] = true
	}
	var all []uint64
	for ns := range set {
		all = append(all, ns)
	}
	sort.Slice(all, func(i, j int) bool { return all[i] < all[j] })
	rank := map[uint64]int{}
	for i, ns := range all {
		rank[ns] = i
	}
	pr := func(es []entry) {
		for _, e := range es {
			fmt.Fprintf(&b, "%d:%s@%d,", e.key, e.kind, rank[e.ns])
		}
	}
	srcDat, _, _ := sv.FileStat()
	fmt.Fprintf(&b, "| src rev=%d [", sv.SuperBlock.CompactionRevision)
	pr(se)
	fmt.Fprintf(&b, "] | bk rev=%d [", bkRev)
	pr(be)
	rel := "="
	if bkDat > srcDat {
		rel = ">"
	} else if bkDat < srcDat {
		rel = "<"
	}
	fmt.Fprintf(&b, "] dat%s", rel)
	return b.String()
}

// ---- driver ---------------------------------------------------------------------------------

type witness struct {
	Keys   int      `json:"keys"`
	Events []string `json:"events"`
}

func newSys(r *mc.Run, keys int, pls []string, xev ...string) *sys {
	c := cluster.MustNew(cluster.Options{MaxVolumesPerServer: 1000000})
	return &sys{r: r, c: c, keys: keys, pls: pls, xev: xev, n: new(int64)}
}

// replay runs a history on its own instance (its own source volume and backup dir) of the same cluster.
func replay(s0 *sys, events []string) string {
	s := &sys{r: s0.r, c: s0.c, keys: s0.keys, pls: s0.pls, xev: s0.xev, dels: s0.dels, n: s0.n}
	s.Reset()
	defer s.Close()
	for _, ev := range events {
		if v := s.Apply(ev); v != "" {
			return v
		}
	}
	return ""
}

func run(r *mc.Run) {
	r.Assume("append timestamps come from the real clock (time.Now().UnixNano() in doWriteRequest): strictly increasing for sequential operations; ties between two appends are not explored")
	r.Assume("payloads are non-empty (3 and 11 bytes); the empty-blob defects belong to C01")
	if r.Replay != "" {
		var wt witness
		if err := r.ReplayCase(&wt); err != nil {
			mc.Fatal("replay: %v", err)
		}
		s := newSys(r, wt.Keys, []string{"a", "b"})
		defer s.c.Close()
		if v := replay(s, wt.Events); v != "" {
			class, msg := split(v)
			r.Violate(class, msg, wt, nil)
		}
		r.AddStates(1)
		r.AddTransitions(int64(len(wt.Events)))
		return
	}
	type pass struct {
		keys   int
		pls    []string
		xev    []string // "w1c": key 1 can be overwritten with different bytes of the same stored size
		dels   int      // deletable keys (0 = all)
		d0, d1 int
	}
	passes := []pass{{2, []string{"a"}, []string{"w1c"}, 1, 3, 5}}
	if r.Thorough() {
		passes = []pass{
			{2, []string{"a"}, []string{"w1c"}, 0, 3, 6},
			{2, []string{"a", "b"}, nil, 0, 3, 5},
			{3, []string{"a"}, nil, 0, 2, 5},
		}
	}
	seenClass := map[string]int{}
	for _, p := range passes {
		s := newSys(r, p.keys, p.pls, p.xev...)
		s.dels = p.dels
		res := bfs(r, s, p.d0, p.d1, func(path []string, msg string) {
			class, m := split(msg)
			r.Distinct("violation|" + class)
			if seenClass[class] >= 3 {
				r.Add("violating_cases_not_kept", 1)
				return
			}
			seenClass[class]++
			pp := append([]string{}, path...)
			r.Violate(class, fmt.Sprintf("%v: %s", pp, m), witness{p.keys, pp}, func() bool {
				c2, _ := split(replay(s, pp))
				return c2 == class
			})
		})
		s.c.Close()
		r.AddStates(res.States)
		r.AddTransitions(res.Transitions)
		r.Cases(res.Transitions)
		r.Set(fmt.Sprintf("pass_keys%d_payloads%d_extra%d_depth%d", p.keys, len(p.pls), len(p.xev), p.d1), w{"unmerged_depth": p.d0, "max_depth": res.MaxDepth, "target_depth": p.d1, "states": res.States, "transitions": res.Transitions})
		if !res.Complete {
			r.NotExhaustive(fmt.Sprintf("keys=%d: time budget reached after depth %d of %d", p.keys, res.MaxDepth, p.d1))
		}
	}
	r.Sample("history", w{"events": []string{"w1a", "backup", "compact", "w2b", "backup"}})
}

// bfs is mc.BFS (replay-from-initial explicit-state search, unmerged to d0,
// merged on Canon to d1) with the transitions of one level executed by a pool
// of workers, each on its own source volume / backup dir of the same cluster;
// results are merged in path order, so the search is deterministic.
func bfs(r *mc.Run, s0 *sys, d0, d1 int, onViolation func(path []string, msg string)) mc.BFSResult {
	const workers = 16
	// one cluster per worker: the gRPC connection cache of weed/pb is keyed by
	// server address and a failing call closes the shared connection, which would
	// make one worker's error fail its neighbours' calls
	pool := make(chan *sys, workers)
	var all []*sys
	for i := 0; i < workers; i++ {
		ws := newSys(r, s0.keys, s0.pls, s0.xev...)
		ws.dels = s0.dels
		all = append(all, ws)
		pool <- ws
	}
	defer func() {
		for _, ws := range all {
			ws.c.Close()
		}
	}()
	res := mc.BFSResult{Complete: true}
	seen := map[string]struct{}{}
	s0.Reset()
	seen[s0.Canon()] = struct{}{}
	evs := s0.Events()
	s0.Close()
	res.States = 1
	frontier := [][]string{{}}
	type out struct{ viol, canon string }
	for depth := 0; depth < d1 && len(frontier) > 0; depth++ {
		if r.Expired() {
			res.Complete = false
			break
		}
		outs := make([]out, len(frontier)*len(evs))
		r.Go(len(outs), workers, func(i int) {
			s := <-pool
			defer func() { pool <- s }()
			path, ev := frontier[i/len(evs)], evs[i%len(evs)]
			s.Reset()
			defer s.Close()
			for _, e := range path {
				s.Apply(e)
			}
			if v := s.Apply(ev); v != "" {
				outs[i].viol = v
				return
			}
			outs[i].canon = s.Canon()
		})
		var next [][]string
		for i, o := range outs {
			res.Transitions++
			np := append(append([]string{}, frontier[i/len(evs)]...), evs[i%len(evs)])
			if o.viol != "" {
				onViolation(np, o.viol)
				continue
			}
			_, old := seen[o.canon]
			if !old {
				seen[o.canon] = struct{}{}
				res.States++
			}
			if depth+1 <= d0 || !old {
				next = append(next, np)
			}
		}
		frontier = next
		res.MaxDepth = depth + 1
	}
	return res
}

func split(v string) (class, msg string) {
	if i := strings.Index(v, "|"); i >= 0 {
		return v[:i], v[i+1:]
	}
	return v, ""
}
