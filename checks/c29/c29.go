// Package c29: S3 keys never escape their bucket.
//
// Real gateway (no identities: authentication is not the subject) over the real
// filer of the E7 mini cluster, with a recording front between them.  Every
// route registered on the real router (found by walking it) is sent hostile
// object keys / upload ids / copy sources / batch-delete keys / POST-policy keys:
// every sequence of <= 3 segments over {a, .., ., "", %2F, %2e%2e, .uploads,
// <other bucket>}, as raw request targets (URL.RawPath kept, no client-side
// normalisation; additionally over a raw TCP connection).  The filer namespace is
// seeded with sentinels outside the bucket and inside the bucket's upload area.
//
// Oracle after every request: (1) the full-namespace diff is confined to
// /buckets/bk/ (bucket-level routes may touch /buckets/bk itself; ordinary object
// routes must not touch /buckets/bk/.uploads/); (2) the response contains no
// sentinel from outside the bucket (or from the upload area for ordinary object
// routes); (3) no path the filer was asked to act on, after the filer's own
// normalisation, lies outside the bucket (copy sources: outside the bucket the
// source names).
package c29

import (
	"bytes"
	"fmt"
	"net/url"
	"os"
	"path"
	"sort"
	"strings"
	"time"

	"verif/checks/s3env"
	"verif/checks/s3routes"
	"verif/checks/s3sign"
	"verif/cluster"
	"verif/mc"
)

func Main() {
	mc.Main("C29", "exploration",
		"complete product: every route of the real router x field {object key in the request target, uploadId, x-amz-copy-source, batch-delete key, POST-policy key} x every sequence of 1..3 (quick: 1..2) segments over {a, .., ., empty, %2F, %2e%2e, .uploads, other bucket} x transport {ServeHTTP with raw target, raw TCP}; after each request: namespace diff, response scan for sentinels, recorded filer paths; distinct = (route, field, mechanism, outcome)",
		run)
}

const (
	B  = "bk"
	B2 = "bk2"
)

type Case struct {
	Route     string   `json:"route"`
	Field     string   `json:"field"` // key | uploadId | copy-source | delete-key | post-key
	Segs      []string `json:"segs"`
	Transport string   `json:"transport"` // servehttp | tcp
}

var (
	keySegs  = []string{"a", "..", ".", "", "%2F", "%2e%2e", ".uploads", B2}
	copySegs = []string{B, B2, "a", "..", "", "%2F", "%2e%2e", ".uploads"}
)

// sentinels: content -> where it lives
var outsideSentinels = []string{"SENTINEL-ROOT", "SENTINEL-BUCKETS", "SENTINEL-BK2", "SENTINEL-PART2", "SENTINEL-ETC"}

const (
	partSentinel = "SENTINEL-PART-BK"
	insideData   = "INSIDE-BK"
)

type env struct {
	*s3env.Env
	routes   []s3routes.Route
	baseline map[string]s3env.Info
	rawBase  map[string]bool
	ghosts   int
	dirty    bool
	tcpAddr  string
	s3auth   *cluster.S3 // a second gateway over the same filer with one admin identity (POST policy needs a signature)
}

var postCred = s3sign.Cred{Access: "AKC29ADMIN0000000001", Secret: "SKc29adminSecret000000000000000000000001"}

var skipDirs = []string{"/topics", "/etc/seaweedfs", "/etc/iam"}

type seedEntry struct {
	Path    string
	Dir     bool
	Content string
	Ext     map[string][]byte
}

// parents before children
var seedTable = []seedEntry{
	{Path: "/a", Content: "SENTINEL-ROOT"},
	{Path: "/etc/a", Content: "SENTINEL-ETC"},
	{Path: "/buckets", Dir: true},
	{Path: "/buckets/a", Content: "SENTINEL-BUCKETS"},
	{Path: "/buckets/" + B, Dir: true},
	{Path: "/buckets/" + B + "/a", Content: insideData},
	{Path: "/buckets/" + B + "/d", Dir: true},
	{Path: "/buckets/" + B + "/d/a", Content: insideData + "-2"},
	{Path: "/buckets/" + B + "/.uploads", Dir: true},
	{Path: "/buckets/" + B + "/.uploads/a", Dir: true, Ext: map[string][]byte{"key": []byte("a")}},
	{Path: "/buckets/" + B + "/.uploads/a/0001.part", Content: partSentinel},
	{Path: "/buckets/" + B2, Dir: true},
	{Path: "/buckets/" + B2 + "/a", Content: "SENTINEL-BK2"},
	{Path: "/buckets/" + B2 + "/.uploads", Dir: true},
	{Path: "/buckets/" + B2 + "/.uploads/a", Dir: true, Ext: map[string][]byte{"key": []byte("a")}},
	{Path: "/buckets/" + B2 + "/.uploads/a/0001.part", Content: "SENTINEL-PART2"},
}

func (e *env) put(se seedEntry) {
	if se.Dir {
		e.Mkdir(se.Path, se.Ext)
	} else {
		e.PutInline(se.Path, []byte(se.Content), se.Ext)
	}
}

// seed (re)establishes the seeded namespace: driven by the difference to the
// baseline, so that the common case (one object created inside the bucket) is cheap.
func (e *env) seed() {
	if e.baseline == nil {
		for _, se := range seedTable {
			e.put(se)
		}
		e.baseline = e.Snapshot("/", skipDirs...)
		e.rawBase = e.RawKeys()
		e.dirty = false
		return
	}
	now := e.Snapshot("/", skipDirs...)
	diff := s3env.Diff(e.baseline, now)
	// remove what was added (top-most first; children vanish with their parents)
	for _, d := range diff {
		if d[0] == '+' {
			if _, still := e.Snapshot(path.Dir(d[1:]), skipDirs...)[d[1:]]; still {
				e.RemoveAll(d[1:])
			}
		}
	}
	// re-create what was removed or changed, parents first
	for _, se := range seedTable {
		for _, d := range diff {
			if d[1:] == se.Path && d[0] != '+' {
				if d[0] == '~' {
					e.RemoveAll(se.Path)
					// children went with it
					for _, ch := range seedTable {
						if strings.HasPrefix(ch.Path, se.Path+"/") {
							diff = append(diff, "-"+ch.Path)
						}
					}
				}
				e.put(se)
				break
			}
		}
	}
	// store records under non-canonical directories ("/buckets/bk/..") or with
	// names like "." are reached by no directory walk / no delete request but
	// would influence later cases: remove them at the store level
	e.ghosts += e.PurgeRawExcept(e.rawBase)
	if d := s3env.Diff(e.baseline, e.Snapshot("/", skipDirs...)); len(d) > 0 {
		mc.Fatal("cannot restore the seeded namespace: %v", d)
	}
	e.dirty = false
}

func newEnv() *env {
	e := &env{Env: s3env.New(s3env.Options{SaveToFilerLimit: 1 << 20, Collections: []string{"", B, B2}, Record: true})}
	e.routes = s3routes.Discover(e.S3.Router, false)
	addr, err := e.S3.ServeTCP()
	if err != nil {
		mc.Fatal("tcp: %v", err)
	}
	e.tcpAddr = addr
	e.s3auth = e.C.MustStartS3(e.F, cluster.S3Options{
		IdentitiesJSON: fmt.Sprintf(`{"identities":[{"name":"admin","credentials":[{"accessKey":%q,"secretKey":%q}],"actions":["Admin"]}]}`, postCred.Access, postCred.Secret),
		FilerAddr:      e.Rec.HTTPAddr, FilerGrpcAddr: e.Rec.GrpcAddr})
	e.seed()
	return e
}

func (e *env) route(name string) *s3routes.Route {
	for i := range e.routes {
		if e.routes[i].Name == name {
			return &e.routes[i]
		}
	}
	return nil
}

func opBody(op string) []byte {
	switch op {
	case "PutObject", "PutObjectPart":
		return []byte("PAYLOAD-C29")
	case "PutObjectTagging":
		return []byte(`<Tagging xmlns="http://s3.amazonaws.com/doc/2006-03-01/"><TagSet><Tag><Key>k</Key><Value>v</Value></Tag></TagSet></Tagging>`)
	case "CompleteMultipartUpload":
		return []byte(`<CompleteMultipartUpload><Part><PartNumber>1</PartNumber><ETag>"x"</ETag></Part></CompleteMultipartUpload>`)
	}
	return nil
}

func xmlEscape(s string) string {
	var b bytes.Buffer
	for _, c := range s {
		switch c {
		case '<':
			b.WriteString("&lt;")
		case '>':
			b.WriteString("&gt;")
		case '&':
			b.WriteString("&amp;")
		default:
			b.WriteRune(c)
		}
	}
	return b.String()
}

// build renders the request of a case.
func build(rt *s3routes.Route, c Case) *s3sign.Req {
	r := s3routes.BaseReq(rt.Probe, B, B)
	if rt.Probe.Hdr != "form" {
		r.Body = opBody(rt.Op.Name)
	}
	joined := strings.Join(c.Segs, "/")
	switch c.Field {
	case "key":
		r.RawPath = "/" + B + "/" + joined
	case "uploadId":
		r.SetQuery("uploadId", joined)
	case "copy-source":
		r.Set("X-Amz-Copy-Source", "/"+joined)
	case "delete-key":
		r.Body = []byte(`<Delete><Object><Key>` + xmlEscape(joined) + `</Key></Object></Delete>`)
	case "post-key":
		r.Header = nil
		now := time.Now()
		s3sign.PostPolicyV4(r, postCred, now, "us-east-1", s3sign.PostForm{Bucket: B, Key: joined, File: []byte("PAYLOAD-C29-FORM"), Expiration: now.Add(time.Hour)})
	}
	if c.Transport == "tcp" {
		r.Set("Connection", "close")
	}
	return r
}

// cleaned is the filer's own normalisation of a path it is given (util.NewFullPath
// / JoinPath use filepath.Join, the HTTP mux cleans the URL path).
func cleaned(p string) string {
	if p == "" {
		return ""
	}
	return path.Clean("/" + p)
}

func under(p, dir string) bool { return strings.HasPrefix(p, dir+"/") }

func mechanism(segs []string) string {
	has := func(x string) bool {
		for _, s := range segs {
			if s == x {
				return true
			}
		}
		return false
	}
	switch {
	case has(".."):
		return "dotdot"
	case has("%2e%2e"):
		return "enc-dotdot"
	case has(".uploads"):
		return "uploads-name"
	case has(""):
		return "empty-seg"
	case has("%2F"):
		return "enc-slash"
	case has("."):
		return "dot"
	}
	return "plain"
}

type verdict struct{ class, msg string }

type observation struct {
	Status int
	Eff    string
	Diff   []string
	Kinds  map[string]string // diff path -> directory-created | file-created | existing-entry-content-changed | existing-entry-deleted
	Ops    []s3env.Op
	Body   string
}

// effectKinds names what happened to each path of a namespace diff.
func effectKinds(diff []string, after map[string]s3env.Info) map[string]string {
	out := map[string]string{}
	for _, d := range diff {
		p := d[1:]
		switch d[0] {
		case '+':
			if after[p].Dir {
				out[p] = "directory-created"
			} else {
				out[p] = "file-created"
			}
		case '~':
			out[p] = "existing-entry-content-changed"
		case '-':
			out[p] = "existing-entry-deleted"
		}
	}
	return out
}

// effectOf summarises the kinds of the given diff paths: a created directory that is
// only the parent of something else created is not named, one deletion stands for a
// whole removed subtree.
func effectOf(paths []string, kinds map[string]string) string {
	set := map[string]bool{}
	for _, p := range paths {
		k := kinds[p]
		if k == "directory-created" {
			parent := false
			for _, q := range paths {
				if strings.HasPrefix(q, p+"/") {
					parent = true
				}
			}
			if parent {
				continue
			}
		}
		set[k] = true
	}
	var ks []string
	for k := range set {
		ks = append(ks, k)
	}
	sort.Strings(ks)
	return strings.Join(ks, "+")
}

// concreteRoute: the operation, with PutObject split by whether the key ends in
// "/" (the handler then creates a directory over gRPC instead of uploading).
func concreteRoute(op string, c Case) string {
	if op == "PutObject" && c.Field == "key" {
		j := strings.ReplaceAll(strings.Join(c.Segs, "/"), "%2F", "/")
		if strings.HasSuffix(j, "/") {
			return "PutObject-dir"
		}
	}
	return op
}

func (e *env) exec(c Case) (observation, []verdict) {
	if e.dirty {
		e.seed()
	}
	rt := e.route(c.Route)
	if rt == nil {
		mc.Fatal("route %q is not registered", c.Route)
	}
	req := build(rt, c)
	eff := s3routes.Dispatch(e.S3.Router, e.routes, req)
	e.Rec.Take()
	var status int
	var body []byte
	if c.Transport == "tcp" {
		resp, b, err := e.S3.RawTCP(req.Raw(), req.Method)
		if err != nil {
			// the HTTP server refused the request line: nothing reached the gateway
			status, body = 0, []byte(err.Error())
		} else {
			status, body = resp.StatusCode, b
		}
	} else if c.Field == "post-key" {
		hr, err := req.HTTP()
		if err != nil {
			mc.Fatal("request: %v", err)
		}
		rec := e.s3auth.Do(hr)
		status, body = rec.Code, rec.Body.Bytes()
	} else {
		resp := e.Do(req)
		status, body = resp.Status, resp.Body
	}
	ops := e.Rec.Take()
	after := e.Snapshot("/", skipDirs...)
	diff := s3env.Diff(e.baseline, after)
	if len(diff) > 0 {
		e.dirty = true
	}
	for _, fo := range ops {
		if fo.Proto == "grpc" && fo.Op != "LookupDirectoryEntry" && fo.Op != "ListEntries" || fo.Proto == "http" && fo.Op != "GET" && fo.Op != "HEAD" {
			e.dirty = true // may have left invisible store records behind
		}
	}
	o := observation{Status: status, Diff: diff, Kinds: effectKinds(diff, after), Ops: ops, Body: string(body)}
	if eff == nil {
		o.Eff = "none"
		if len(ops) > 0 || len(diff) > 0 {
			return o, []verdict{{"effect-without-route", fmt.Sprintf("no route matched but diff=%v ops=%s", diff, mc.JS(ops))}}
		}
		return o, nil
	}
	o.Eff = eff.Op.Name
	if v := judge(eff, c, o); v != nil {
		return o, []verdict{*v}
	}
	return o, nil
}

// family groups the routes for the finding classes.
func family(op string) string {
	switch op {
	case "GetObject", "HeadObject":
		return "object-read"
	case "PutObject", "CopyObject":
		return "object-write"
	case "DeleteObject":
		return "object-delete"
	case "GetObjectTagging", "PutObjectTagging", "DeleteObjectTagging":
		return "tagging"
	case "NewMultipartUpload", "PutObjectPart", "CopyObjectPart", "CompleteMultipartUpload", "AbortMultipartUpload", "ListObjectParts":
		return "multipart"
	case "DeleteMultipleObjects":
		return "batch-delete"
	case "PostPolicy":
		return "post-policy"
	}
	return "bucket"
}

// copySourceBucket: the bucket an x-amz-copy-source value names according to the
// S3 API (URL-decoded, first path segment), "" if that is not a plain name.
func copySourceBucket(v string) string {
	if d, err := url.QueryUnescape(v); err == nil {
		v = d
	}
	v = strings.TrimPrefix(v, "/")
	first := strings.SplitN(v, "/", 2)[0]
	if first == "" || first == "." || first == ".." {
		return ""
	}
	return first
}

// judge returns the most serious violation of one executed case (nil: contained).
func judge(eff *s3routes.Route, c Case, o observation) *verdict {
	op := eff.Op.Name
	if eff.Op.Service {
		return nil
	}
	tag := fmt.Sprintf(":routes=%s:field=%s:mech=%s", family(op), c.Field, mechanism(c.Segs))
	bdir := "/buckets/" + B
	mk := func(effect, format string, a ...interface{}) *verdict {
		return &verdict{effect + tag, fmt.Sprintf("%s %s: ", op, mc.JS(c.Segs)) + fmt.Sprintf(format, a...)}
	}
	// the three write classes name the concrete route and what happened to the entries
	wtag := fmt.Sprintf(":route=%s:field=%s:mech=%s", concreteRoute(op, c), c.Field, mechanism(c.Segs))
	mkw := func(effect string, paths []string, format string, a ...interface{}) *verdict {
		return &verdict{effect + wtag + ":effect=" + effectOf(paths, o.Kinds), fmt.Sprintf("%s %s: ", op, mc.JS(c.Segs)) + fmt.Sprintf(format, a...)}
	}
	// legitimate copy-source region: the bucket the source names
	srcDir := ""
	if eff.Op.SrcRead {
		b := B
		if c.Field == "copy-source" {
			b = copySourceBucket("/" + strings.Join(c.Segs, "/"))
		}
		if b != "" {
			srcDir = "/buckets/" + b
		}
	}
	// (1) namespace diff
	var outside, bucketDir, uploadArea []string
	for _, d := range o.Diff {
		p := d[1:]
		switch {
		case p == bdir:
			if family(op) != "bucket" {
				bucketDir = append(bucketDir, p)
			}
		case under(p, bdir):
			if (p == bdir+"/.uploads" || under(p, bdir+"/.uploads")) && family(op) != "multipart" && family(op) != "bucket" {
				uploadArea = append(uploadArea, p)
			}
		default:
			outside = append(outside, p)
		}
	}
	if len(outside) > 0 {
		return mkw("escape-write", outside, "changed entries outside %s/: diff %v", bdir, o.Diff)
	}
	if len(bucketDir) > 0 {
		return mkw("bucket-dir-changed", bucketDir, "changed the bucket directory itself (diff %v)", o.Diff)
	}
	if len(uploadArea) > 0 {
		return mkw("upload-area-modified", uploadArea, "an ordinary-object route changed the multipart upload area: diff %v", o.Diff)
	}
	// (2) response content
	for _, s := range outsideSentinels {
		if strings.Contains(o.Body, s) {
			return mk("escape-read", "the response (status %d) contains %s", o.Status, s)
		}
	}
	if family(op) != "multipart" && family(op) != "bucket" && (strings.Contains(o.Body, partSentinel) || strings.Contains(o.Body, "0001.part")) {
		return mk("upload-area-read", "the response of an ordinary-object route (status %d) exposes the upload area: %.100q", o.Status, o.Body)
	}
	// (3) recorded filer paths
	for _, fo := range o.Ops {
		if fo.Proto == "http" && fo.Status >= 300 && fo.Status < 400 {
			continue // the filer's mux answered with a redirect: nothing was touched under this path
		}
		for _, raw := range []string{fo.Path, fo.Path2} {
			if raw == "" {
				continue
			}
			if strings.HasPrefix(raw, "collection:") {
				if raw != "collection:"+B {
					return mk("foreign-collection", "asked the filer for %s %s", fo.Op, raw)
				}
				continue
			}
			p := cleaned(raw)
			if p == bdir || under(p, bdir) {
				continue
			}
			if srcDir != "" && (p == srcDir || under(p, srcDir)) {
				if under(p, srcDir+"/.uploads") {
					return mk("upload-area-read", "copy source made the filer read %s, inside an upload area", p)
				}
				continue
			}
			return mk("filer-path-outside", "made the filer act on %s %s (normalised %s)", fo.Op, raw, p)
		}
	}
	return nil
}

func keyRoutes(e *env) (objectRoutes, uploadRoutes, copyRoutes []string, del, post string) {
	for _, rt := range e.routes {
		if rt.Probe.Path == "object" {
			objectRoutes = append(objectRoutes, rt.Name)
		}
		for _, q := range rt.Probe.Query {
			if q.K == "uploadId" {
				uploadRoutes = append(uploadRoutes, rt.Name)
			}
		}
		if rt.Probe.Hdr == "copy" {
			copyRoutes = append(copyRoutes, rt.Name)
		}
		if rt.Op.Name == "DeleteMultipleObjects" {
			del = rt.Name
		}
		if rt.Op.Name == "PostPolicy" {
			post = rt.Name
		}
	}
	return
}

func seqs(alpha []string, maxLen int) [][]string {
	var out [][]string
	mc.Sequences(len(alpha), 1, maxLen, func(ix []int) bool {
		s := make([]string, len(ix))
		for i, x := range ix {
			s[i] = alpha[x]
		}
		out = append(out, s)
		return true
	})
	return out
}

func enumerate(e *env, r *mc.Run) []Case {
	objectRoutes, uploadRoutes, copyRoutes, del, post := keyRoutes(e)
	maxLen := r.Pick(2, 3)
	var cases []Case
	ks := seqs(keySegs, maxLen)
	tcpRoutes := map[string]bool{"GetObject": true, "DeleteObject": true}
	for _, rt := range objectRoutes {
		for _, s := range ks {
			cases = append(cases, Case{rt, "key", s, "servehttp"})
			if r.Thorough() || tcpRoutes[rt] {
				cases = append(cases, Case{rt, "key", s, "tcp"})
			}
		}
	}
	// the one key the grammar cannot spell: an existing part file inside the upload area
	for _, rt := range objectRoutes {
		cases = append(cases, Case{rt, "key", []string{".uploads", "a", "0001.part"}, "servehttp"})
	}
	us := seqs([]string{"a", "..", ".", "", ".uploads", B2, "x"}, maxLen)
	for _, rt := range uploadRoutes {
		for _, s := range us {
			cases = append(cases, Case{rt, "uploadId", s, "servehttp"})
		}
	}
	cs := seqs(copySegs, r.Pick(2, 4))
	for _, rt := range copyRoutes {
		for _, s := range cs {
			cases = append(cases, Case{rt, "copy-source", s, "servehttp"})
		}
	}
	ds := seqs([]string{"a", "..", ".", "", ".uploads", B2}, maxLen)
	if del != "" {
		for _, s := range ds {
			cases = append(cases, Case{del, "delete-key", s, "servehttp"})
			cases = append(cases, Case{del, "delete-key", append([]string{""}, s...), "servehttp"}) // leading '/'
		}
	}
	if post != "" {
		for _, s := range ds {
			cases = append(cases, Case{post, "post-key", s, "servehttp"})
			cases = append(cases, Case{post, "post-key", append([]string{""}, s...), "servehttp"})
		}
	}
	return cases
}

func (e *env) runCase(r *mc.Run, c Case, nviol map[string]int) {
	t0 := time.Now()
	o, vs := e.exec(c)
	if r.Replay != "" {
		fmt.Printf("observation: eff=%s status=%d diff=%v\nfiler ops: %s\nbody: %.300q\n", o.Eff, o.Status, o.Diff, mc.JS(o.Ops), o.Body)
	}
	if os.Getenv("C29_TIMING") != "" {
		fmt.Printf("T %v %s\n", time.Since(t0), mc.JS(c))
	}
	outcome := "contained"
	if len(vs) > 0 {
		var cl []string
		for _, v := range vs {
			cl = append(cl, strings.SplitN(v.class, ":", 2)[0])
		}
		sort.Strings(cl)
		outcome = strings.Join(cl, "+")
	}
	r.Case(fmt.Sprintf("%s|%s|%s|%s|status=%d|changed=%v|%s", o.Eff, c.Field, mechanism(c.Segs), c.Transport, o.Status/100, len(o.Diff) > 0, outcome))
	if len(o.Diff) > 0 {
		r.Add("requests_changing_namespace", 1)
	}
	r.Sample(c.Field+":"+outcome, map[string]interface{}{"case": c, "status": o.Status, "diff": o.Diff, "filer_ops": o.Ops})
	for _, v := range vs {
		v := v
		nviol[v.class]++
		var recheck func() bool
		if nviol[v.class] <= 1 {
			recheck = func() bool {
				_, again := e.exec(c)
				for _, a := range again {
					if a.class == v.class {
						return true
					}
				}
				return false
			}
		}
		r.Violate(v.class, v.msg, c, recheck)
	}
}

func run(r *mc.Run) {
	mc.QuietGlog()
	if r.Replay != "" {
		var c Case
		if err := r.ReplayCase(&c); err != nil {
			mc.Fatal("replay: %v", err)
		}
		e := newEnv()
		defer e.Close()
		e.runCase(r, c, map[string]int{})
		return
	}
	r.Assume("authentication is disabled (no identities): the property is about path handling")
	r.Assume("the filer stores small files inline (saveToFilerLimit 1 MiB) so that a write succeeds wherever it lands, without a volume of a matching collection")
	r.Assume("normalisation of recorded filer paths is path.Clean, which is what util.NewFullPath/JoinPath and the filer's http.ServeMux apply")
	r.Parallel("keys", 16, func(shard, n int) {
		e := newEnv()
		defer e.Close()
		cases := enumerate(e, r)
		if shard == 0 {
			r.Set("cases", len(cases))
			var names []string
			for _, rt := range e.routes {
				names = append(names, rt.Name)
			}
			r.Set("routes_walked", names)
		}
		nviol := map[string]int{}
		for i, c := range cases {
			if i%n != shard {
				continue
			}
			if !r.Begin(c) {
				continue
			}
			e.runCase(r, c, nviol)
		}
		r.Add("invisible_store_records_purged", int64(e.ghosts))
	})
}
