// Package c10: new volumes are placed according to their replication setting.
// E1 over configurations x RNG answers: the real findEmptySlotsForOneVolume runs
// on every topology of a bounded universe, for every replication string and
// preference, and for EVERY answer of every rand.Int63n the code asks for
// (math/rand replaced by a scripted shim; map iteration made deterministic by
// sorted-key iteration, with node names permuted to cover several orders).
package c10

import (
	"fmt"
	"os"

	"verif/mc"
	"verif/shim/vrand"

	"github.com/chrislusf/seaweedfs/weed/pb/master_pb"
	"github.com/chrislusf/seaweedfs/weed/sequence"
	"github.com/chrislusf/seaweedfs/weed/storage/needle"
	"github.com/chrislusf/seaweedfs/weed/storage/super_block"
	"github.com/chrislusf/seaweedfs/weed/storage/types"
	"github.com/chrislusf/seaweedfs/weed/topology"
)

func Main() {
	mc.Main("C10", "model_checking",
		"all topologies with <=2 (thorough 3) data centers x <=2 racks x <=2 (one shape 3) servers, per-server state from a small menu of (max, used, ecShards) per disk type, x all feasible-looking replication strings x preferences {none, dc, dc+rack, dc+rack+node} x requested disk type, and for each such case the complete tree of answers of every rand.Int63n call (DFS over the answer sequence). Oracle: a returned placement has exactly 1+x+y+z distinct servers each with a free slot (max+remote-volumes-ceil(ec/10) >= 1), z+1 in one rack, y in y other racks of the same DC, x in x other DCs, preferences honoured; if brute force finds no valid set the call must fail. Failing although a set exists is only counted. distinct = (shape, replication, preference kind, verdict)",
		run)
}

type nodeState struct {
	Max, Used, Ec   int // for the default (hdd) disk type
	SsdMax, SsdUsed int
}

type shape struct {
	Racks [][]int // per DC: per rack: number of nodes
}

type cas struct {
	Shape   [][]int     `json:"shape"`
	States  []nodeState `json:"states"`
	Rp      string      `json:"rp"`
	Pref    []string    `json:"pref"` // dc, rack, node ("" = none)
	Disk    string      `json:"disk"`
	Perm    int         `json:"perm"`             // naming permutation (iteration order)
	Adjust  bool        `json:"adjust,omitempty"` // servers register with max-1 per disk type and reach their max through a later heartbeat (AdjustMaxVolumeCounts)
	Answers []int       `json:"answers,omitempty"`
}

type nodeRef struct {
	dc, rack, name string
	st             nodeState
}

func names(perm int, kind string, i int) string {
	// two namings so that sorted iteration visits children in both orders
	if perm == 0 {
		return fmt.Sprintf("%s%d", kind, i)
	}
	return fmt.Sprintf("%s%d", kind, 9-i)
}

func build(c cas) (*topology.Topology, []nodeRef) {
	topo := topology.NewTopology("t", sequence.NewMemorySequencer(), 1024*1024, 5, false)
	var refs []nodeRef
	k := 0
	vid := uint32(1)
	for di, racks := range c.Shape {
		dcName := names(c.Perm, "dc", di)
		dc := topo.GetOrCreateDataCenter(dcName)
		for ri, nn := range racks {
			rackName := names(c.Perm, "rack", di*3+ri)
			rack := dc.GetOrCreateRack(rackName)
			for ni := 0; ni < nn; ni++ {
				st := c.States[k]
				ip := nodeIP(c.Perm, di, ri, ni)
				maxes := map[string]uint32{"": uint32(st.Max)}
				if st.SsdMax > 0 {
					maxes["ssd"] = uint32(st.SsdMax)
				}
				first := maxes
				if c.Adjust {
					first = map[string]uint32{}
					for k, v := range maxes {
						if v > 0 {
							v--
						}
						first[k] = v
					}
				}
				dn := rack.GetOrCreateDataNode(ip, 8080, "", first)
				var vols []*master_pb.VolumeInformationMessage
				for u := 0; u < st.Used; u++ {
					vols = append(vols, &master_pb.VolumeInformationMessage{Id: vid, Size: 1, Version: 3})
					vid++
				}
				for u := 0; u < st.SsdUsed; u++ {
					vols = append(vols, &master_pb.VolumeInformationMessage{Id: vid, Size: 1, Version: 3, DiskType: "ssd"})
					vid++
				}
				topo.SyncDataNodeRegistration(vols, dn)
				if st.Ec > 0 {
					topo.SyncDataNodeEcShards([]*master_pb.VolumeEcShardInformationMessage{{Id: 900 + uint32(k), EcIndexBits: uint32(1<<uint(st.Ec)) - 1}}, dn)
				}
				if c.Adjust {
					dn.AdjustMaxVolumeCounts(maxes)
				}
				refs = append(refs, nodeRef{dcName, rackName, string(dn.Id()), st})
				k++
			}
		}
	}
	return topo, refs
}

func free(st nodeState, disk string) int {
	if disk == "ssd" {
		return st.SsdMax - st.SsdUsed
	}
	f := st.Max - st.Used
	if st.Ec > 0 {
		f -= (st.Ec + 9) / 10
	}
	return f
}

// exists: is there any valid placement (brute force over subsets)?
func exists(refs []nodeRef, x, y, z int, pref []string, disk string) bool {
	n := len(refs)
	want := 1 + x + y + z
	for mask := 0; mask < 1<<uint(n); mask++ {
		var sel []nodeRef
		for i := 0; i < n; i++ {
			if mask>>uint(i)&1 == 1 {
				sel = append(sel, refs[i])
			}
		}
		if len(sel) != want {
			continue
		}
		if validSet(sel, x, y, z, pref, disk, -1) == "" {
			return true
		}
	}
	return false
}

// validSet returns "" if sel is a valid placement, else the reason.  mainIdx >= 0
// pins the main server (preference on a node means the main server is that node).
func validSet(sel []nodeRef, x, y, z int, pref []string, disk string, mainIdx int) string {
	if len(sel) != 1+x+y+z {
		return fmt.Sprintf("wrong-count:%d", len(sel))
	}
	seen := map[string]bool{}
	for _, s := range sel {
		if seen[s.name] {
			return "duplicate-server"
		}
		seen[s.name] = true
		if free(s.st, disk) < 1 {
			return "server-without-free-slot"
		}
	}
	// group by dc / rack
	byDc := map[string][]nodeRef{}
	for _, s := range sel {
		byDc[s.dc] = append(byDc[s.dc], s)
	}
	if len(byDc) != x+1 {
		return "wrong-dc-spread"
	}
	// exactly one DC holds 1+y+z servers, the others one each
	mainDc := ""
	for dc, l := range byDc {
		if len(l) == 1+y+z && (mainDc == "" || (pref[0] != "" && dc == pref[0])) {
			if mainDc != "" && len(byDc[mainDc]) == 1+y+z && pref[0] != dc {
				continue
			}
			mainDc = dc
		}
	}
	if mainDc == "" {
		return "wrong-dc-spread"
	}
	for dc, l := range byDc {
		if dc != mainDc && len(l) != 1 {
			return "wrong-dc-spread"
		}
	}
	if 1+y+z == 1 && pref[0] != "" {
		// every DC holds one server: the main DC must be the preferred one if present
		if _, ok := byDc[pref[0]]; !ok {
			return "preferred-dc-ignored"
		}
		mainDc = pref[0]
	}
	if pref[0] != "" && mainDc != pref[0] {
		return "preferred-dc-ignored"
	}
	byRack := map[string][]nodeRef{}
	for _, s := range byDc[mainDc] {
		byRack[s.rack] = append(byRack[s.rack], s)
	}
	if len(byRack) != y+1 {
		return "wrong-rack-spread"
	}
	mainRack := ""
	for rk, l := range byRack {
		if len(l) == z+1 {
			if mainRack == "" || rk == pref[1] {
				mainRack = rk
			}
		}
	}
	if mainRack == "" {
		return "wrong-rack-spread"
	}
	for rk, l := range byRack {
		if rk != mainRack && len(l) != 1 {
			return "wrong-rack-spread"
		}
	}
	if pref[1] != "" && mainRack != pref[1] {
		return "preferred-rack-ignored"
	}
	if pref[2] != "" {
		ok := false
		for _, s := range byRack[mainRack] {
			if s.name == pref[2] {
				ok = true
			}
		}
		if !ok {
			return "preferred-server-ignored"
		}
	}
	return ""
}

// runAll executes f for every answer sequence of the scripted RNG.
func runAll(f func(), each func(answers []int)) int {
	var choices, ns []int
	n := 0
	for {
		pos := 0
		ns = ns[:0]
		vrand.Script = func(bound int64) int64 {
			reps := vrand.Reps(bound)
			if pos >= len(choices) {
				choices = append(choices, 0)
			}
			if choices[pos] >= len(reps) {
				mc.Fatal("C10: nondeterministic RNG tree: %d alternatives at call %d, choice %d", len(reps), pos, choices[pos])
			}
			ns = append(ns, len(reps))
			a := reps[choices[pos]]
			pos++
			return a
		}
		f()
		choices = choices[:pos]
		each(choices)
		n++
		i := len(choices) - 1
		for ; i >= 0; i-- {
			if choices[i]+1 < ns[i] {
				break
			}
		}
		if i < 0 {
			break
		}
		choices = choices[:i+1]
		choices[i]++
	}
	vrand.Script = nil
	return n
}

func oneCase(r *mc.Run, c cas) {
	rp, err := super_block.NewReplicaPlacementFromString(c.Rp)
	if err != nil {
		mc.Fatal("rp %s: %v", c.Rp, err)
	}
	x, y, z := rp.DiffDataCenterCount, rp.DiffRackCount, rp.SameRackCount
	topo, refs := build(c)
	byName := map[string]nodeRef{}
	for _, rf := range refs {
		byName[rf.name] = rf
	}
	can := exists(refs, x, y, z, c.Pref, c.Disk)
	opt := &topology.VolumeGrowOption{ReplicaPlacement: rp, Ttl: needle.EMPTY_TTL, DiskType: types.ToDiskType(c.Disk),
		DataCenter: c.Pref[0], Rack: c.Pref[1], DataNode: c.Pref[2]}
	vg := topology.NewDefaultVolumeGrowth()
	var servers []*topology.DataNode
	var ferr error
	succ, fail := 0, 0
	runs := runAll(func() { servers, ferr = topology.SchedFindEmptySlotsV(vg, topo, opt) }, func(answers []int) {
		if ferr != nil {
			fail++
			return
		}
		succ++
		var sel []nodeRef
		for _, s := range servers {
			sel = append(sel, byName[string(s.Id())])
		}
		reason := validSet(sel, x, y, z, c.Pref, c.Disk, -1)
		if reason == "" && !can {
			reason = "placement-although-oracle-finds-none" // oracle inconsistency: must not happen
		}
		if reason != "" {
			w := c
			w.Answers = append([]int{}, answers...)
			var got []string
			for _, s := range sel {
				got = append(got, s.dc+"/"+s.rack+"/"+s.name)
			}
			r.Violate("bad-placement:"+reason+":rp="+shapeOfRp(x, y, z), fmt.Sprintf("rp %s pref %v disk %q -> %v", c.Rp, c.Pref, c.Disk, got), w, nil)
		}
	})
	r.Cases(int64(runs))
	r.AddTransitions(int64(runs))
	verdict := "ok"
	switch {
	case !can && succ > 0:
		verdict = "BAD"
	case !can:
		verdict = "infeasible-fails"
	case succ == 0:
		verdict = "feasible-but-always-fails"
		r.Add("feasible_but_never_placed", 1)
	case fail > 0:
		verdict = "feasible-sometimes-fails"
		r.Add("feasible_but_some_rng_paths_fail", 1)
	}
	prefKind := 0
	for _, p := range c.Pref {
		if p != "" {
			prefKind++
		}
	}
	r.Distinct(fmt.Sprintf("shape=%v|rp=%s|pref=%d|disk=%s|%s", c.Shape, c.Rp, prefKind, c.Disk, verdict))
	r.AddStates(1)
	if succ > 0 {
		r.Sample("placed", map[string]interface{}{"case": c, "rng_paths": runs, "placed": succ, "failed": fail})
	}
}

func shapeOfRp(x, y, z int) string { return fmt.Sprintf("%d%d%d", x, y, z) }

func run(r *mc.Run) {
	mc.QuietGlog()
	r.Assume("Go map iteration order is replaced by sorted-key iteration over node ids (vrewrite sorted_range); every topology is run under two namings so that children are visited in both orders")
	r.Assume("rand.Int63n(n) answers: all of 0..n-1 for n<=8, else 8 representatives")
	if r.Replay != "" {
		var c cas
		if err := r.ReplayCase(&c); err != nil {
			mc.Fatal("replay: %v", err)
		}
		oneCase(r, c)
		return
	}
	menu := []nodeState{{1, 1, 0, 0, 0}, {1, 0, 0, 0, 0}, {2, 0, 0, 0, 0}}
	ecMenu := []nodeState{{1, 0, 0, 0, 0}, {2, 0, 11, 0, 0}, {2, 0, 10, 0, 0}, {1, 0, 1, 0, 0}, {0, 0, 0, 1, 0}, {1, 1, 0, 1, 0}}
	shapes := [][][]int{{{1}}, {{2}}, {{3}}, {{1, 1}}, {{2, 1}}, {{2, 2}}, {{1}, {1}}, {{2}, {1}}, {{1, 1}, {1}}, {{2, 1}, {1}}, {{1, 1}, {1, 1}}}
	if r.Thorough() {
		shapes = append(shapes, [][]int{{2, 2}, {1}}, [][]int{{2, 2}, {2}}, [][]int{{1}, {1}, {1}}, [][]int{{2}, {1}, {1}}, [][]int{{1, 1}, {1}, {1}})
	}
	// lazy generation: each worker walks the same deterministic enumeration and builds only its own cases
	forEach := func(f func(idx int, mk func() cas)) int {
		idx := 0
		for _, sh := range shapes {
			sh := sh
			nn := 0
			for _, racks := range sh {
				for _, k := range racks {
					nn += k
				}
			}
			for _, m := range [][]nodeState{menu, ecMenu} {
				m := m
				isEc := len(m) == len(ecMenu)
				if isEc && nn > 3 {
					continue
				}
				if isEc && nn == 3 && r.Quick() {
					m = []nodeState{ecMenu[0], ecMenu[3], ecMenu[1]} // quick: one free / one EC shard eats the slot / 11 shards
				}
				if !isEc && nn >= 4 && (r.Quick() || nn >= 5) {
					m = m[:2] // larger shapes with states {full, one free} only
				}
				sizes := make([]int, nn)
				for i := range sizes {
					sizes[i] = len(m)
				}
				disks := []string{""}
				if isEc {
					disks = []string{"", "ssd"}
				}
				mc.Product(sizes, func(ix []int) bool {
					for _, disk := range disks {
						for x := 0; x <= len(sh)-1 && x <= 2; x++ {
							for y := 0; y <= 1; y++ {
								for z := 0; z <= 2; z++ {
									if 1+x+y+z > nn+1 {
										continue
									}
									for perm := 0; perm < 2; perm++ {
										for _, pf := range prefsOf(sh, perm) {
											for adj := 0; adj < 2; adj++ {
												if adj == 1 && !isEc {
													continue // the later-heartbeat variant only where servers have two disk types in the menu
												}
												disk, x, y, z, perm, pf, adj := disk, x, y, z, perm, pf, adj
												f(idx, func() cas {
													st := make([]nodeState, nn)
													for i, v := range ix {
														st[i] = m[v]
													}
													return cas{Shape: sh, States: st, Rp: fmt.Sprintf("%d%d%d", x, y, z), Disk: disk, Perm: perm, Pref: pf, Adjust: adj == 1}
												})
												idx++
											}
										}
									}
								}
							}
						}
					}
					return true
				})
			}
		}
		return idx
	}
	if r.ChildPhase() == "" {
		n := forEach(func(int, func() cas) {})
		r.Set("cases", n)
		if os.Getenv("VERIF_COUNT") != "" {
			fmt.Println("cases:", n)
		}
	}
	r.Parallel("enum", 16, func(shard, n int) {
		expired := false
		forEach(func(i int, mk func() cas) {
			if i%n != shard || expired {
				return
			}
			c := mk()
			if !r.Begin(c) {
				return
			}
			if r.Expired() {
				r.NotExhaustive("wall-clock budget")
				expired = true
				return
			}
			oneCase(r, c)
		})
	})
}

var prefCache = map[string][][]string{}

// prefsOf: preferences none, each dc, first rack of each dc, first node of each dc, last node.
func prefsOf(sh [][]int, perm int) [][]string {
	key := fmt.Sprint(sh, perm)
	if p, ok := prefCache[key]; ok {
		return p
	}
	nn := 0
	for _, racks := range sh {
		for _, k := range racks {
			nn += k
		}
	}
	_, refs := buildRefs(cas{Shape: sh, Perm: perm, States: make([]nodeState, nn)})
	prefs := [][]string{{"", "", ""}}
	seenDc := map[string]bool{}
	for _, rf := range refs {
		if !seenDc[rf.dc] {
			seenDc[rf.dc] = true
			prefs = append(prefs, []string{rf.dc, "", ""}, []string{rf.dc, rf.rack, ""}, []string{rf.dc, rf.rack, rf.name})
		}
	}
	last := refs[len(refs)-1]
	prefs = append(prefs, []string{last.dc, last.rack, last.name})
	prefCache[key] = prefs
	return prefs
}

// buildRefs computes the node names of a case without building the topology.
func buildRefs(c cas) (struct{}, []nodeRef) {
	var refs []nodeRef
	k := 0
	for di, racks := range c.Shape {
		for ri, nn := range racks {
			for ni := 0; ni < nn; ni++ {
				refs = append(refs, nodeRef{names(c.Perm, "dc", di), names(c.Perm, "rack", di*3+ri), nodeIP(c.Perm, di, ri, ni) + ":8080", c.States[k]})
				k++
			}
		}
	}
	return struct{}{}, refs
}

func nodeIP(perm, di, ri, ni int) string {
	last := 1 + ni
	if perm != 0 {
		last = 9 - ni
	}
	return fmt.Sprintf("10.%d.%d.%d", di, ri, last)
}
