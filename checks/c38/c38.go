// Package c38: concurrent volume operations are linearizable per file id.
// E1+E2: every interleaving (preemption bounded) of 2-3 threads doing
// write/delete/read on a real storage.Volume through the immediate path and
// the batched (fsync, async worker) path.  Sequential reference = the real
// volume itself run sequentially in every program-order-respecting order.
package c38

import (
	"fmt"
	"os"
	"sort"
	"strconv"
	"strings"

	"verif/mc"
	"verif/shim/vsched"

	"github.com/chrislusf/seaweedfs/weed/storage"
	"github.com/chrislusf/seaweedfs/weed/storage/needle"
	"github.com/chrislusf/seaweedfs/weed/storage/super_block"
	"github.com/chrislusf/seaweedfs/weed/storage/types"
)

func Main() {
	mc.Main("C38", "model_checking",
		"E1/E2 stateless DFS: all interleavings at lock / channel / goroutine-start points of 2-3 threads x <=2 ops from {write k1 a, write k1 b, delete k1, read k1, write k2 a, read k2} on one real Volume (in-memory needle map), from the empty volume and from a volume already holding k1; immediate path and batched path (fsync -> async worker thread); preemption bound per tier. Oracle: brute-force linearizability against the real volume run sequentially: some order of the ops that respects real-time order gives the same per-op results and the same final contents. distinct = (path, pre-state, op shape, number of distinct outcomes)",
		run)
}

type vop struct {
	Kind string `json:"k"` // W D R
	Key  uint64 `json:"key"`
	Data string `json:"d,omitempty"`
}

func (o vop) String() string { return fmt.Sprintf("%s%d%s", o.Kind, o.Key, o.Data) }

type scenario struct {
	Batched bool    `json:"batched"`
	Pre     bool    `json:"pre"` // k1 already written with "p"
	Threads [][]vop `json:"threads"`
	Choices []int   `json:"choices,omitempty"`
}

var alphabet = []vop{{"W", 1, "a"}, {"W", 1, "bb"}, {"D", 1, ""}, {"R", 1, ""}, {"W", 2, "a"}, {"R", 2, ""}}

type event struct {
	thread, idx int
	call, ret   int
	res         string
}

var scratch string

func newVolume() *storage.Volume {
	os.RemoveAll(scratch)
	os.MkdirAll(scratch, 0755)
	v, err := storage.NewVolume(scratch, scratch, "", 1, storage.NeedleMapInMemory, &super_block.ReplicaPlacement{}, needle.EMPTY_TTL, 0, 0)
	if err != nil {
		panic(fmt.Sprintf("NewVolume: %v", err))
	}
	return v
}

const cookie = 0x1234

func doOp(v *storage.Volume, o vop, batched bool) string {
	switch o.Kind {
	case "W", "I": // I = a write through the immediate path even in a batched scenario (mixed traffic)
		if o.Kind == "I" {
			batched = false
		}
		n := &needle.Needle{Id: types.NeedleId(o.Key), Cookie: cookie, Data: []byte(o.Data)}
		n.Checksum = needle.NewCRC(n.Data)
		_, _, unchanged, err := v.SchedWriteV(n, batched)
		if err != nil {
			return "err:" + err.Error()
		}
		return fmt.Sprintf("ok unchanged=%v", unchanged)
	case "D":
		n := &needle.Needle{Id: types.NeedleId(o.Key), Cookie: cookie}
		size, err := v.SchedDeleteV(n)
		if err != nil {
			return "err:" + err.Error()
		}
		if size > 0 {
			return "deleted"
		}
		return "deleted-nothing"
	case "R":
		n := &needle.Needle{Id: types.NeedleId(o.Key), Cookie: cookie}
		_, err := v.SchedReadV(n, nil)
		if err != nil {
			return "err:" + err.Error()
		}
		return "data:" + string(n.Data)
	}
	panic("op")
}

func finalState(v *storage.Volume) string {
	var parts []string
	for _, k := range []uint64{1, 2} {
		parts = append(parts, fmt.Sprintf("%d=%s", k, doOp(v, vop{"R", k, ""}, false)))
	}
	parts = append(parts, fmt.Sprintf("files=%d deleted=%d", v.FileCount(), v.DeletedCount()))
	return strings.Join(parts, " ")
}

// sequential reference: run the ops in the given order on a fresh real volume.
func sequential(sc scenario, order [][2]int) (res map[[2]int]string, final string) {
	// run under the scheduler too (one thread, default choices): no free-running
	// goroutine of the volume may survive into the next scheduled execution
	x, _ := mc.RunOne(nil, nil, 20000, nil, func() {
		v := newVolume()
		if sc.Pre {
			doOp(v, vop{"W", 1, "p"}, false)
		}
		res = map[[2]int]string{}
		for _, ti := range order {
			res[ti] = doOp(v, sc.Threads[ti[0]][ti[1]], sc.Batched)
		}
		final = finalState(v)
		v.Destroy()
	})
	if x.Sched.Outcome != "" {
		mc.Fatal("sequential reference run did not complete: %s", x.Sched.Outcome)
	}
	return res, final
}

type seqOutcome struct {
	order [][2]int
	res   map[[2]int]string
	final string
}

func allOrders(sc scenario) [][][2]int {
	var out [][][2]int
	pos := make([]int, len(sc.Threads))
	total := 0
	for _, t := range sc.Threads {
		total += len(t)
	}
	var cur [][2]int
	var rec func()
	rec = func() {
		if len(cur) == total {
			out = append(out, append([][2]int{}, cur...))
			return
		}
		for t := range sc.Threads {
			if pos[t] < len(sc.Threads[t]) {
				cur = append(cur, [2]int{t, pos[t]})
				pos[t]++
				rec()
				pos[t]--
				cur = cur[:len(cur)-1]
			}
		}
	}
	rec()
	return out
}

func concurrent(sc scenario, evs *[]event, final *string) {
	v := newVolume()
	if sc.Pre {
		doOp(v, vop{"W", 1, "p"}, false)
	}
	ctr, done := 0, 0
	for ti, prog := range sc.Threads {
		ti, prog := ti, prog
		vsched.Go(func() {
			for oi, o := range prog {
				e := event{thread: ti, idx: oi}
				ctr++
				e.call = ctr
				e.res = doOp(v, o, sc.Batched)
				ctr++
				e.ret = ctr
				*evs = append(*evs, e)
			}
			done++
		})
	}
	vsched.PointWhen("join", func() bool { return done == len(sc.Threads) })
	*final = finalState(v)
	v.Destroy()
}

// linearizable: is there a sequential outcome consistent with evs?
func linearizable(ref []seqOutcome, evs []event, final string) bool {
	byOp := map[[2]int]event{}
	for _, e := range evs {
		byOp[[2]int{e.thread, e.idx}] = e
	}
next:
	for _, so := range ref {
		if so.final != final {
			continue
		}
		for i, a := range so.order {
			ea := byOp[a]
			if so.res[a] != ea.res {
				continue next
			}
			// real-time order: nothing placed after a may have returned before a was called
			for _, b := range so.order[i+1:] {
				if byOp[b].ret < ea.call {
					continue next
				}
			}
		}
		return true
	}
	return false
}

func programs(maxLen int) [][]vop {
	var out [][]vop
	mc.Sequences(len(alphabet), 1, maxLen, func(seq []int) bool {
		p := make([]vop, len(seq))
		for i, s := range seq {
			p[i] = alphabet[s]
		}
		out = append(out, p)
		return true
	})
	return out
}

func interesting(threads [][]vop) bool {
	// at least two threads touch the same key and at least one of those ops mutates
	for k := uint64(1); k <= 2; k++ {
		touch, mut := 0, false
		for _, t := range threads {
			tt := false
			for _, o := range t {
				if o.Key == k {
					tt = true
					if o.Kind != "R" {
						mut = true
					}
				}
				if o.Kind == "I" {
					return true // mixed immediate/batched traffic shares the data file even on different keys
				}
			}
			if tt {
				touch++
			}
		}
		if touch >= 2 && mut {
			return true
		}
	}
	return false
}

func scenarios(progs [][]vop, k int) [][][]vop {
	var out [][][]vop
	var rec func(start int, cur [][]vop)
	rec = func(start int, cur [][]vop) {
		if len(cur) == k {
			if interesting(cur) {
				out = append(out, append([][]vop{}, cur...))
			}
			return
		}
		for i := start; i < len(progs); i++ {
			rec(i, append(cur, progs[i]))
		}
	}
	rec(0, nil)
	return out
}

func run(r *mc.Run) {
	mc.QuietGlog()
	defer mc.StartProfile()()
	scratch = mc.TempDir("c38")
	defer os.RemoveAll(scratch)
	if r.Replay != "" {
		var sc scenario
		if err := r.ReplayCase(&sc); err != nil {
			mc.Fatal("replay: %v", err)
		}
		ref := reference(sc)
		var evs []event
		var final string
		x, _ := mc.RunOne(sc.Choices, nil, 20000, nil, func() { evs = nil; concurrent(sc, &evs, &final) })
		if x.Sched.Outcome != "" {
			r.Violate("sched-"+strings.SplitN(x.Sched.Outcome, ":", 2)[0], x.Sched.Outcome, sc, nil)
		} else if !linearizable(ref, evs, final) {
			r.Violate(classOf(sc), describe(sc, evs, final), sc, nil)
		}
		return
	}
	bound := r.Pick(2, 3)
	var all []scenario
	if r.Quick() {
		// quick: 2 threads, <=3 ops in total, all on key 1 (forced collision)
		al := alphabet[:4]
		var p1, p2 [][]vop
		for _, a := range al {
			p1 = append(p1, []vop{a})
			for _, b := range al {
				p2 = append(p2, []vop{a, b})
			}
		}
		var ths [][][]vop
		for i := range p1 {
			for j := i; j < len(p1); j++ {
				ths = append(ths, [][]vop{p1[i], p1[j]})
			}
			for _, q := range p2 {
				ths = append(ths, [][]vop{p1[i], q})
			}
		}
		for _, batched := range []bool{false, true} {
			for _, pre := range []bool{false, true} {
				for _, th := range ths {
					if interesting(th) {
						all = append(all, scenario{Batched: batched, Pre: pre, Threads: th})
					}
				}
			}
		}
		all = append(all, mixedScenarios()...)
	} else {
		all = append(all, mixedScenarios()...)
		two := scenarios(programs(2), 2)
		three1 := scenarios(programs(1), 3)
		for _, batched := range []bool{false, true} {
			for _, pre := range []bool{false, true} {
				for _, th := range two {
					all = append(all, scenario{Batched: batched, Pre: pre, Threads: th})
				}
				for _, th := range three1 {
					all = append(all, scenario{Batched: batched, Pre: pre, Threads: th})
				}
			}
		}
	}
	if r.Thorough() {
		// 3 threads: two with <=2 ops, one with 1 op
		p2, p1 := programs(2), programs(1)
		for _, batched := range []bool{false, true} {
			for i := 0; i < len(p2); i++ {
				for j := i; j < len(p2); j++ {
					for _, c := range p1 {
						th := [][]vop{p2[i], p2[j], c}
						if len(p2[i])+len(p2[j]) == 4 && interesting(th) && p2[i][0].Key == 1 && p2[j][0].Key == 1 {
							all = append(all, scenario{Batched: batched, Pre: true, Threads: th})
						}
					}
				}
			}
		}
	}
	r.Set("preemption_bound", fmt.Sprintf("%d for scenarios with <=2 ops, %d for larger ones", bound, bound-1))
	r.Set("scenarios", len(all))
	r.WorkerProcs = 1
	r.Parallel("sched", 16, func(shard, n int) {
		for i, sc := range all {
			if i%n != shard {
				continue
			}
			if !r.Begin(sc) {
				continue
			}
			if r.Expired() {
				r.NotExhaustive("wall-clock budget: not all scenarios explored")
				break
			}
			b := bound
			if nops(sc) > 2 {
				b = bound - 1 // larger scenarios one preemption less
			}
			explore(r, sc, b, i == shard)
		}
	})
}

// mixedScenarios: a batched (fsync) write applied by the worker goroutine racing an
// immediate write / delete on the same data file, same key and other key.
func mixedScenarios() []scenario {
	var out []scenario
	t0s := [][]vop{{{"W", 1, "a"}}, {{"W", 1, "a"}, {"R", 1, ""}}}
	t1s := [][]vop{{{"I", 2, "a"}}, {{"I", 2, "a"}, {"R", 2, ""}}, {{"I", 1, "bb"}}, {{"I", 2, "a"}, {"D", 1, ""}}, {{"D", 1, ""}, {"I", 2, "a"}}}
	for _, pre := range []bool{false, true} {
		for _, a := range t0s {
			for _, b := range t1s {
				out = append(out, scenario{Batched: true, Pre: pre, Threads: [][]vop{a, b}})
			}
		}
	}
	return out
}

func nops(sc scenario) int {
	n := 0
	for _, t := range sc.Threads {
		n += len(t)
	}
	return n
}

func reference(sc scenario) []seqOutcome {
	var ref []seqOutcome
	for _, o := range allOrders(sc) {
		res, fin := sequential(sc, o)
		ref = append(ref, seqOutcome{o, res, fin})
	}
	return ref
}

func classOf(sc scenario) string {
	path := "immediate"
	if sc.Batched {
		path = "batched"
	}
	return "not-linearizable:" + path + ":" + opShape(sc)
}

func opShape(sc scenario) string {
	var parts []string
	for _, t := range sc.Threads {
		s := ""
		for _, o := range t {
			s += o.Kind
		}
		parts = append(parts, s)
	}
	sort.Strings(parts)
	return strings.Join(parts, ",")
}

func describe(sc scenario, evs []event, final string) string {
	var parts []string
	for _, e := range evs {
		parts = append(parts, fmt.Sprintf("T%d %s [%d,%d] -> %s", e.thread, sc.Threads[e.thread][e.idx], e.call, e.ret, e.res))
	}
	return strings.Join(parts, "; ") + " | final: " + final
}

func explore(r *mc.Run, sc scenario, bound int, selfTest bool) {
	ref := reference(sc)
	var evs []event
	var final string
	if selfTest {
		var a, b []event
		var fa, fb string
		x1, _ := mc.RunOne([]int{1}, nil, 20000, nil, func() { a = nil; concurrent(sc, &a, &fa) })
		mc.RunOne(x1.Choices, x1.Ns, 20000, nil, func() { b = nil; concurrent(sc, &b, &fb) })
		if fmt.Sprint(a) != fmt.Sprint(b) || fa != fb {
			mc.Fatal("determinism self-test failed: %v | %v", a, b)
		}
	}
	outcomes := map[string]bool{}
	st := mc.Explore(bound, 20000, nil,
		func() { evs = nil; concurrent(sc, &evs, &final) },
		func(x *mc.Exec) {
			w := sc
			w.Choices = append([]int{}, x.Choices...)
			if x.Sched.Outcome != "" {
				r.Violate("sched-"+strings.SplitN(x.Sched.Outcome, ":", 2)[0]+":"+opShape(sc), x.Sched.Outcome, w, nil)
				return
			}
			var rs []string
			for _, e := range evs {
				rs = append(rs, fmt.Sprintf("%d.%d=%s", e.thread, e.idx, e.res))
			}
			sort.Strings(rs)
			outcomes[strings.Join(rs, ";")+"|"+final] = true
			if !linearizable(ref, evs, final) {
				r.Violate(classOf(sc), describe(sc, evs, final), w, func() bool {
					var e2 []event
					var f2 string
					mc.RunOne(w.Choices, nil, 20000, nil, func() { e2 = nil; concurrent(sc, &e2, &f2) })
					return !linearizable(ref, e2, f2)
				})
			}
		}, r.Expired)
	if !st.Complete {
		r.NotExhaustive("wall-clock budget inside a scenario")
	}
	r.Cases(st.Executions)
	r.AddStates(st.Executions)
	r.AddTransitions(st.Points + st.Executions)
	for k, v := range st.ByCost {
		r.Add("executions_with_"+strconv.Itoa(k)+"_deviations", v)
	}
	r.Add("sequential_reference_orders", int64(len(ref)))
	r.Distinct(fmt.Sprintf("batched=%v|pre=%v|%s|outcomes=%d", sc.Batched, sc.Pre, opShape(sc), len(outcomes)))
	r.Sample(fmt.Sprintf("batched=%v", sc.Batched), map[string]interface{}{"threads": fmt.Sprint(sc.Threads), "pre": sc.Pre, "executions": st.Executions, "distinct_outcomes": len(outcomes), "max_choice_points": st.MaxLen})
}
