// Package c16: ec.balance (dry run) never loses, duplicates or overfills shards.
// Exhaustive over bounded EC layouts through the real planning code; the printed
// moves are replayed on a reference model and the planner's final EcNode
// bookkeeping is compared with the layout it started from.
package c16

import (
	"fmt"
	"math/bits"
	"os"
	"regexp"
	"runtime/debug"
	"sort"
	"strconv"
	"strings"
	"syscall"

	"github.com/chrislusf/seaweedfs/weed/pb/master_pb"
	"github.com/chrislusf/seaweedfs/weed/shell"

	"verif/mc"
)

const rule = "complete product: rack/server shapes (1..3 racks x 1..2 servers) x per-server spare volume slots {0,1} x layouts of the 14 shards of EC volume 1 from a family (all on one server, round-robin, contiguous blocks, 10+rest, 7/7, one rack only) x {0,1,2} duplicated shards x an optional second EC volume; plus, on 2 racks / 3 servers, two EC volumes each cut into three contiguous runs at every pair of cut points (nearly-full servers with 0..9 free shard slots); every snapshot through ec.balance dry run (EACH_COLLECTION); every printed move replayed on a reference model; final EcNode bookkeeping compared shard by shard with the initial layout; distinct = (shape class, plan length class, outcome)"

func Main() { mc.Main("C16", "exploration", rule, run) }

const totalShards = 14

type Server struct {
	Rack  string            `json:"rack"`
	Id    string            `json:"id"`
	Spare int               `json:"spare"` // volume slots beyond what its shards need
	Ec    map[uint32]uint32 `json:"ec"`    // vid -> shard bits
}

type Snapshot struct {
	Servers []Server `json:"servers"`
}

func (s *Server) shardCount() int {
	n := 0
	for _, b := range s.Ec {
		n += bits.OnesCount32(b)
	}
	return n
}

// slots: max volume count so that free EC slots = slots*10 - shards >= 0
func (s *Server) slots() int { return (s.shardCount()+9)/10 + s.Spare }

func (sn *Snapshot) TopologyInfo() *master_pb.TopologyInfo {
	t := &master_pb.TopologyInfo{Id: "topo"}
	dc := &master_pb.DataCenterInfo{Id: "dc1"}
	t.DataCenterInfos = append(t.DataCenterInfos, dc)
	racks := map[string]*master_pb.RackInfo{}
	for i := range sn.Servers {
		s := &sn.Servers[i]
		rk := racks[s.Rack]
		if rk == nil {
			rk = &master_pb.RackInfo{Id: s.Rack}
			racks[s.Rack] = rk
			dc.RackInfos = append(dc.RackInfos, rk)
		}
		di := &master_pb.DiskInfo{Type: "", MaxVolumeCount: uint64(s.slots())}
		var vids []int
		for v := range s.Ec {
			vids = append(vids, int(v))
		}
		sort.Ints(vids)
		for _, v := range vids {
			if s.Ec[uint32(v)] != 0 {
				di.EcShardInfos = append(di.EcShardInfos, &master_pb.VolumeEcShardInformationMessage{Id: uint32(v), Collection: "", EcIndexBits: s.Ec[uint32(v)], DiskType: ""})
			}
		}
		di.FreeVolumeCount = di.MaxVolumeCount
		rk.DataNodeInfos = append(rk.DataNodeInfos, &master_pb.DataNodeInfo{Id: s.Id, DiskInfos: map[string]*master_pb.DiskInfo{"": di}})
	}
	return t
}

// ---------------------------------------------------------------------------
// stdout capture (the planner prints its moves with fmt.Printf)

type capture struct {
	r, w *os.File // r is kept so that its finalizer does not close the descriptor
	rfd  int
	buf  []byte
}

func newCapture() *capture {
	r, w, err := os.Pipe()
	if err != nil {
		mc.Fatal("pipe: %v", err)
	}
	rfd := int(r.Fd())
	if err := syscall.SetNonblock(rfd, true); err != nil {
		mc.Fatal("nonblock: %v", err)
	}
	// the pipe must hold a whole plan: enlarge it to 1 MiB
	const F_SETPIPE_SZ = 1031
	syscall.Syscall(syscall.SYS_FCNTL, w.Fd(), F_SETPIPE_SZ, 1<<20)
	return &capture{r: r, w: w, rfd: rfd, buf: make([]byte, 1<<20)}
}

func (c *capture) do(f func()) string {
	saved := os.Stdout
	os.Stdout = c.w
	f()
	os.Stdout = saved
	var out []byte
	for {
		n, err := syscall.Read(c.rfd, c.buf)
		if n > 0 {
			out = append(out, c.buf[:n]...)
		}
		if err == syscall.EAGAIN || err == syscall.EWOULDBLOCK || n == 0 {
			break
		}
		if err != nil {
			mc.Fatal("capture read: %v", err)
		}
	}
	return string(out)
}

// ---------------------------------------------------------------------------

type move struct {
	Src, Dst string
	Vid      uint32
	Shard    uint
}

var (
	moveRe   = regexp.MustCompile(`^(\S+) moves ec (shards?) (\d+)\.(\d+) to (\S+)$`)
	ignoreRe = regexp.MustCompile(`^(balanceEcVolumes .*|balanceEcVolumes|ec shard \d+\.\d+ has \d+ copies, keeping \S+|ec shard \d+\.\d+ at \S+ can not find a destination rack|\S+ has \d+ overlimit, moving ec shard \d+\.\d+)$`)
)

type refNode struct {
	rack string
	free int
	ec   map[uint32]uint32
}

// evaluate runs ec.balance (dry run) on the snapshot.  It returns the class of the
// first violated clause ("" = none), a message and an outcome note.
func evaluate(cp *capture, sn *Snapshot) (class, msg, note string) {
	topo := sn.TopologyInfo()
	var before, after []shell.EcNodeTopoV
	var err error
	stdout := cp.do(func() { before, after, err = shell.EcBalanceTopoV(topo, "EACH_COLLECTION", []string{""}, "") })
	// reference model from the planner's own view before planning (free slots as it computed them)
	ref := map[string]*refNode{}
	rackSet := map[string]bool{}
	for _, b := range before {
		ec := map[uint32]uint32{}
		for v, x := range b.Shards {
			ec[v] = x
		}
		ref[b.Id] = &refNode{rack: b.Rack, free: b.FreeEcSlot, ec: ec}
		rackSet[b.Rack] = true
	}
	// sanity: the planner's starting view is the snapshot
	for i := range sn.Servers {
		s := &sn.Servers[i]
		r := ref[s.Id]
		if r == nil {
			mc.Fatal("C16: server %s missing from the planner's view", s.Id)
		}
		for v, x := range s.Ec {
			if r.ec[v] != x {
				mc.Fatal("C16: planner's starting view differs from the snapshot on %s volume %d", s.Id, v)
			}
		}
		if r.free != s.slots()*10-s.shardCount() {
			mc.Fatal("C16: free slot computation differs on %s: planner %d, snapshot %d", s.Id, r.free, s.slots()*10-s.shardCount())
		}
	}
	if err != nil {
		if strings.HasPrefix(err.Error(), "no free ec shard slots") {
			return "", "", "refused:no-free-slots"
		}
		return "", "", "planner-error"
	}
	target := (totalShards + len(rackSet) - 1) / len(rackSet)
	copies := func(nodes map[string]*refNode, vid uint32, sh uint) int {
		n := 0
		for _, r := range nodes {
			if r.ec[vid]>>sh&1 == 1 {
				n++
			}
		}
		return n
	}
	rackCount := func(vid uint32, rack string) int {
		n := 0
		for _, r := range ref {
			if r.rack == rack {
				n += bits.OnesCount32(r.ec[vid])
			}
		}
		return n
	}
	ini := map[string]*refNode{}
	for i := range sn.Servers {
		ini[sn.Servers[i].Id] = &refNode{ec: sn.Servers[i].Ec}
	}
	var moves []move
	// A shard that silently drops out of the bookkeeping also corrupts the planner's free-slot
	// and per-rack counts, so later moves of the same plan may look overfull only because of
	// that; the bookkeeping verdict (computed last) therefore takes precedence over step verdicts.
	var stepClass, stepMsg string
	fail := func(c, m string) {
		if stepClass == "" {
			stepClass, stepMsg = c, m
		}
	}
	failBook := func(c, m string) {
		if class == "" {
			class, msg = c, m
		}
	}
	for _, ln := range strings.Split(stdout, "\n") {
		if ln == "" || ignoreRe.MatchString(ln) {
			continue
		}
		m := moveRe.FindStringSubmatch(ln)
		if m == nil {
			mc.Fatal("C16: unparseable planner line %q", ln)
		}
		vid, _ := strconv.Atoi(m[3])
		sh, _ := strconv.Atoi(m[4])
		mv := move{Src: m[1], Dst: m[5], Vid: uint32(vid), Shard: uint(sh)}
		// "moves ec shard" is printed by pickOneEcNodeAndMoveOneShard (spreading one volume across /
		// within racks), "moves ec shards" by doBalanceEcRack (evening out total shard counts in a rack)
		stage := "volume-spreading-stage"
		if m[2] == "shards" {
			stage = "rack-evening-stage"
		}
		moves = append(moves, mv)
		src, dst := ref[mv.Src], ref[mv.Dst]
		if src == nil || dst == nil {
			mc.Fatal("C16: move %v names an unknown server", mv)
		}
		bit := uint32(1) << mv.Shard
		step := fmt.Sprintf("move %d of plan: shard %d.%d %s => %s", len(moves), mv.Vid, mv.Shard, mv.Src, mv.Dst)
		if src.ec[mv.Vid]&bit == 0 {
			fail("move-of-shard-the-source-does-not-hold", step)
		}
		if dst.ec[mv.Vid]&bit != 0 {
			how := "single-copy-shard"
			if copies(ini, mv.Vid, mv.Shard) > 1 {
				how = "shard-duplicated-in-the-snapshot"
			}
			fail("shard-planned-onto-server-that-holds-it:"+how, step)
		} else if dst.free < 1 {
			fail("shard-planned-onto-server-without-free-slot:"+stage, fmt.Sprintf("%s (free slots there: %d)", step, dst.free))
		}
		had := src.ec[mv.Vid]&bit != 0
		if had {
			src.ec[mv.Vid] &^= bit
			src.free++
		}
		if dst.ec[mv.Vid]&bit == 0 {
			dst.ec[mv.Vid] |= bit
			dst.free--
		}
		if src.rack != dst.rack {
			if c := rackCount(mv.Vid, dst.rack); c > target {
				fail("rack-above-even-spread-target", fmt.Sprintf("%s: rack %s now holds %d shards of volume %d, target ceil(14/%d)=%d", step, dst.rack, c, mv.Vid, len(rackSet), target))
			}
		}
	}
	// final bookkeeping versus the initial layout, shard by shard
	fin := map[string]*refNode{}
	for _, a := range after {
		fin[a.Id] = &refNode{rack: a.Rack, free: a.FreeEcSlot, ec: a.Shards}
	}
	vids := map[uint32]bool{}
	for _, s := range sn.Servers {
		for v := range s.Ec {
			vids[v] = true
		}
	}
	var vl []int
	for v := range vids {
		vl = append(vl, int(v))
	}
	sort.Ints(vl)
	diverged, dropped := false, false
	for _, v := range vl {
		for sh := uint(0); sh < totalShards; sh++ {
			b, a, rf := copies(ini, uint32(v), sh), copies(fin, uint32(v), sh), copies(ref, uint32(v), sh)
			if a == 0 && b > 0 {
				why := "no-destination-server-found"
				if strings.Contains(stdout, "can not find a destination rack") {
					why = "no-destination-rack-found"
				}
				failBook("shard-lost-from-bookkeeping:"+why, fmt.Sprintf("shard %d.%d had %d cop(ies) before planning and is on no server in the final EcNode bookkeeping (the printed moves leave it on %d)", v, sh, b, rf))
			}
			if a > b {
				failBook("shard-multiplied-in-bookkeeping", fmt.Sprintf("shard %d.%d had %d cop(ies) before planning and %d after", v, sh, b, a))
			}
			if a != rf {
				diverged = true
			}
			if a < rf {
				dropped = true
			}
		}
	}
	if class == "" {
		class, msg = stepClass, stepMsg
		const nf = "shard-planned-onto-server-without-free-slot"
		if strings.HasPrefix(class, nf) && dropped {
			// the planner removed a shard copy from a server's bookkeeping without planning a move
			// for it (pickNEcShardsToMoveFrom + no destination), which inflates that server's free count
			class = nf + ":free-count-inflated-by-shard-copy-dropped-from-bookkeeping"
		}
	}
	n := "0"
	switch {
	case len(moves) == 1:
		n = "1"
	case len(moves) > 1 && len(moves) <= 4:
		n = "2-4"
	case len(moves) > 4:
		n = "5+"
	}
	note = "moves=" + n
	if diverged {
		note += "|bookkeeping-differs-from-printed-moves"
	}
	if strings.Contains(stdout, "can not find a destination rack") {
		note += "|no-destination-rack"
	}
	if class != "" {
		msg += " | moves: " + fmt.Sprint(len(moves))
	}
	return
}

// ---------------------------------------------------------------------------
// enumeration

type layoutT struct {
	name string
	f    func(n int, racks []string) []int // shard -> server index (nil: not applicable)
}

func layouts() []layoutT {
	var out []layoutT
	for i := 0; i < 6; i++ {
		i := i
		out = append(out, layoutT{fmt.Sprintf("all-on-s%d", i+1), func(n int, _ []string) []int {
			if i >= n {
				return nil
			}
			a := make([]int, totalShards)
			for k := range a {
				a[k] = i
			}
			return a
		}})
	}
	out = append(out, layoutT{"round-robin", func(n int, _ []string) []int {
		if n < 2 {
			return nil
		}
		a := make([]int, totalShards)
		for k := range a {
			a[k] = k % n
		}
		return a
	}})
	out = append(out, layoutT{"blocks", func(n int, _ []string) []int {
		if n < 2 {
			return nil
		}
		per := (totalShards + n - 1) / n
		a := make([]int, totalShards)
		for k := range a {
			a[k] = k / per
		}
		return a
	}})
	out = append(out, layoutT{"10+rest", func(n int, _ []string) []int {
		if n < 2 {
			return nil
		}
		a := make([]int, totalShards)
		for k := range a {
			if k >= 10 {
				a[k] = 1 + (k-10)%(n-1)
			}
		}
		return a
	}})
	out = append(out, layoutT{"7/7-first-two", func(n int, _ []string) []int {
		if n < 3 {
			return nil
		}
		a := make([]int, totalShards)
		for k := range a {
			a[k] = k / 7
		}
		return a
	}})
	out = append(out, layoutT{"7/7-first-last", func(n int, _ []string) []int {
		if n < 3 {
			return nil
		}
		a := make([]int, totalShards)
		for k := range a {
			a[k] = (k / 7) * (n - 1)
		}
		return a
	}})
	out = append(out, layoutT{"first-rack-only", func(n int, racks []string) []int {
		var in []int
		for i, r := range racks {
			if r == racks[0] {
				in = append(in, i)
			}
		}
		if len(in) < 2 || len(in) == n {
			return nil
		}
		a := make([]int, totalShards)
		for k := range a {
			a[k] = in[k%len(in)]
		}
		return a
	}})
	return out
}

type bounds struct {
	shapes  [][]int // rack -> number of servers
	dups    []int
	second  []string // layouts of the optional second volume ("" = none)
	spareOf []int
}

func enumerate(b bounds, shard, nShards int, f func(sn *Snapshot, desc string)) {
	ls := layouts()
	byName := map[string]layoutT{}
	for _, l := range ls {
		byName[l.name] = l
	}
	outer := 0
	for _, sh := range b.shapes {
		var racks []string
		var ids []string
		k := 0
		for r, cnt := range sh {
			for i := 0; i < cnt; i++ {
				k++
				racks = append(racks, fmt.Sprintf("r%d", r+1))
				ids = append(ids, fmt.Sprintf("s%d", k))
			}
		}
		n := len(ids)
		sizes := make([]int, n)
		for i := range sizes {
			sizes[i] = len(b.spareOf)
		}
		mc.Product(sizes, func(sp []int) bool {
			for _, l := range ls {
				a := l.f(n, racks)
				if a == nil {
					continue
				}
				for _, d := range b.dups {
					if d > 0 && n < 2 {
						continue
					}
					for _, second := range b.second {
						var a2 []int
						if second != "" {
							a2 = byName[second].f(n, racks)
							if a2 == nil {
								continue
							}
						}
						outer++
						if outer%nShards != shard {
							continue
						}
						sn := &Snapshot{}
						for i := range ids {
							sn.Servers = append(sn.Servers, Server{Rack: racks[i], Id: ids[i], Spare: b.spareOf[sp[i]], Ec: map[uint32]uint32{}})
						}
						for shd, srv := range a {
							sn.Servers[srv].Ec[1] |= 1 << uint(shd)
							if shd < d {
								// duplicated shard: a second copy on the next server (the second duplicate two servers on)
								sn.Servers[(srv+1+shd)%n].Ec[1] |= 1 << uint(shd)
							}
						}
						for shd, srv := range a2 {
							sn.Servers[srv].Ec[2] |= 1 << uint(shd)
						}
						f(sn, fmt.Sprintf("racks=%d|%s|dups=%d|second=%v", len(sh), layoutClass(l.name), d, second != ""))
					}
				}
			}
			return true
		})
	}
}

// enumerateCuts: 2 racks / 3 servers (s1,s2 in r1, s3 in r2), two EC volumes, each split into
// three contiguous runs [0,a) on s1, [a,b) on s2, [b,14) on s3 for every a<=b from cuts.  With
// spare 0 a server's free shard slots are 10*ceil(shards/10)-shards, i.e. every value 0..9 occurs
// (a partial third EC volume shifts that value): nearly-full servers whose real room (snapshot +
// planned moves, never the planner's own freeEcSlot after the start) can contradict the plan.
func enumerateCuts(cuts []int, spareOf []int, shard, nShards int, f func(sn *Snapshot, desc string)) {
	racks := []string{"r1", "r1", "r2"}
	ids := []string{"s1", "s2", "s3"}
	outer := 0
	split := func(sn *Snapshot, vid uint32, a, b int) {
		for k := 0; k < totalShards; k++ {
			srv := 2
			if k < a {
				srv = 0
			} else if k < b {
				srv = 1
			}
			sn.Servers[srv].Ec[vid] |= 1 << uint(k)
		}
	}
	for _, a1 := range cuts {
		for _, b1 := range cuts {
			if b1 < a1 {
				continue
			}
			for _, a2 := range cuts {
				for _, b2 := range cuts {
					if b2 < a2 {
						continue
					}
					outer++
					if outer%nShards != shard {
						continue
					}
					// spare slots only on s3 (s1 and s2 stay as tight as their shards allow); a third,
					// partial EC volume 3 optionally adds 5 (4 on s3) more shards to a server so that its
					// free shard slots take every small value independently of how volumes 1 and 2 are cut
					mc.Product([]int{len(spareOf), 2, 2, 2}, func(sp []int) bool {
						sn := &Snapshot{}
						for i := range ids {
							spare := 0
							if i == 2 {
								spare = spareOf[sp[0]]
							}
							sn.Servers = append(sn.Servers, Server{Rack: racks[i], Id: ids[i], Spare: spare, Ec: map[uint32]uint32{}})
						}
						split(sn, 1, a1, b1)
						split(sn, 2, a2, b2)
						fill := []uint32{0x1f, 0x1f << 5, 0xf << 10}
						for i := range ids {
							if sp[1+i] == 1 {
								sn.Servers[i].Ec[3] = fill[i]
							}
						}
						minFree := 99
						for i := range sn.Servers {
							if fr := sn.Servers[i].slots()*10 - sn.Servers[i].shardCount(); fr < minFree {
								minFree = fr
							}
						}
						tight := "roomy"
						if minFree <= 5 {
							tight = "nearly-full"
						}
						f(sn, "cuts|racks=2|"+tight)
						return true
					})
				}
			}
		}
	}
}

func layoutClass(n string) string {
	if strings.HasPrefix(n, "all-on-") {
		return "all-on-one"
	}
	return n
}

func run(r *mc.Run) {
	r.Assume("one data center; every server has an hdd disk; free EC slots of a server = 10 x max volume count - shards on it (no normal volumes), never negative in a snapshot")
	r.Assume("even-spread target of a volume per rack = ceil(14 / number of racks), as the planner defines it; checked for every printed move that crosses racks")
	r.Assume("'present exactly once per source of truth' is read as: in the final EcNode bookkeeping no shard id of a volume has fewer copies than before unless it had several (never zero), and none has more copies than before (dry run does not apply its own de-duplication)")
	r.Assume("Go map iteration order inside the planner is not enumerated; a reported case must reproduce within 400 re-plans of the same snapshot")
	debug.SetGCPercent(400)
	cp := newCapture()
	if r.Replay != "" {
		var sn Snapshot
		if err := r.ReplayCase(&sn); err != nil {
			mc.Fatal("replay: %v", err)
		}
		// the planner walks Go maps: re-plan until a violation shows or 400 plans held
		for i := 0; i < 400; i++ {
			if c, _, _ := evaluate(cp, &sn); c != "" || i == 399 {
				one(r, cp, &sn, "replay", map[string]int{})
				return
			}
		}
		return
	}
	b := bounds{
		shapes:  [][]int{{1}, {2}, {1, 1}, {2, 1}, {2, 2}, {1, 1, 1}, {2, 1, 1}, {2, 2, 1}},
		dups:    []int{0, 1, 2},
		second:  []string{"", "all-on-s1", "round-robin"},
		spareOf: []int{0, 1},
	}
	if r.Thorough() {
		b.shapes = append(b.shapes, []int{2, 2, 2})
		b.second = append(b.second, "all-on-s2", "blocks")
		b.spareOf = []int{0, 1, 2}
	}
	r.Parallel("plan", 16, func(shard, n int) {
		seen := map[string]int{}
		enumerate(b, shard, n, func(sn *Snapshot, desc string) {
			if !r.Begin(sn) {
				return
			}
			one(r, cp, sn, desc, seen)
		})
	})
	cuts := []int{0, 5, 7, 8, 10, 14}
	if r.Thorough() {
		cuts = []int{0, 1, 2, 3, 4, 5, 6, 7, 8, 9, 10, 11, 12, 13, 14}
	}
	r.Parallel("cuts", 16, func(shard, n int) {
		seen := map[string]int{}
		var cnt int64
		enumerateCuts(cuts, []int{0, 1}, shard, n, func(sn *Snapshot, desc string) {
			if !r.Begin(sn) {
				return
			}
			cnt++
			one(r, cp, sn, desc, seen)
		})
		r.Add("cases:cuts", cnt)
	})
}

func one(r *mc.Run, cp *capture, sn *Snapshot, desc string, seen map[string]int) {
	class, msg, note := evaluate(cp, sn)
	if class == "" {
		r.Case(desc + "|" + note)
		if strings.HasPrefix(note, "moves=2") || strings.HasPrefix(note, "moves=5") {
			r.Sample(note, sn)
		}
		return
	}
	r.Case(desc + "|VIOLATION:" + class)
	r.Add("violating_cases", 1)
	seen[class]++
	if seen[class] > 2 {
		return
	}
	cc := *sn
	// Every observed plan is a real behaviour of the planner, whatever order the runtime picked
	// for its map walks, so the verdict stands on its own.  Reproduction is attempted and recorded
	// (a rare order may not come back), but a failure to reproduce is not an infrastructure error.
	again := -1
	for i := 1; i <= 400; i++ {
		if c2, _, _ := evaluate(cp, &cc); c2 == class {
			again = i
			break
		}
	}
	if again > 0 {
		msg += fmt.Sprintf(" | reproduced after %d re-plan(s)", again)
	} else {
		msg += " | not reproduced in 400 re-plans (depends on Go map iteration order inside the planner)"
		r.Add("violations_not_reproduced_in_400_replans", 1)
	}
	r.Violate(class, msg, cc, nil)
}
