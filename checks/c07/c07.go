// Package c07: deleting from an EC volume / a sorted index marks exactly that
// needle.
//
// Seam: erasure_coding.WriteSortedFileFromIdx, NewEcVolume, DeleteNeedleFromEcx,
// FindNeedleFromEcx, RebuildEcxFile, WriteIdxFileFromEcIndex and
// storage.NewSortedFileNeedleMap Get/Delete, on scratch files.
// Space: every sorted index over every subset of a 6-key universe; every key of
// the universe (present or absent) deleted, and every ordered pair (and triple on
// the full index, thorough); both offset widths.
package c07

import (
	"bytes"
	"fmt"
	"os"
	"path/filepath"
	"sort"
	"strings"
	"sync"

	"verif/mc"

	"github.com/chrislusf/seaweedfs/weed/storage"
	"github.com/chrislusf/seaweedfs/weed/storage/erasure_coding"
	"github.com/chrislusf/seaweedfs/weed/storage/idx"
	"github.com/chrislusf/seaweedfs/weed/storage/needle_map"
	"github.com/chrislusf/seaweedfs/weed/storage/types"
)

func Main() {
	mc.Main("C07", "exploration",
		"every sorted index over every subset of a 6-key universe (plus one 20-entry index with every key deleted alone) {1,2,3(size 0),255,2^32+1,2^40} (64 indexes, 0..6 entries, written from an unsorted .idx that also holds an overwritten and a deleted key) x every deletion sequence: each universe key alone, every ordered pair (quick: on the indexes with >=5 entries; thorough: on all), every ordered triple on the full index (thorough); every pair and (full index) triple again with the EC volume closed and reopened before the last deletion; after every deletion the .ecx bytes, every FindNeedleFromEcx answer and the .ecj journal are compared with a reference; then reopen, RebuildEcxFile on the original index + journal, WriteIdxFileFromEcIndex, and the same deletions through SortedFileNeedleMap; 4-byte and 5-byte offset builds; distinct = (build, index size, deletion shape by presence/position, outcome)",
		run)
}

type w = map[string]interface{}

// C is one case (and the replay witness).
type C struct {
	Build string   `json:"build"`
	Mask  int      `json:"index_mask"` // subset of the universe present in the index
	Dels  []uint64 `json:"deletions"`
	Big   bool     `json:"big_index,omitempty"` // the 20-entry index (keys 10,20,..,200), all present
	// Reopen > 0: the EC volume is closed and opened again (unmount / mount) before deletion number Reopen (0-based)
	Reopen int `json:"reopen_before,omitempty"`
}

// keys is the key universe of the case.
func (c C) keys() []uint64 {
	if !c.Big {
		return universe
	}
	ks := make([]uint64, 20)
	for i := range ks {
		ks[i] = uint64(10 * (i + 1))
	}
	return ks
}

func (c C) has(i int) bool { return c.Big || c.Mask&(1<<uint(i)) != 0 }

func (c C) newRef() *refState {
	s := &refState{present: map[uint64]ent{}, deleted: map[uint64]bool{}}
	for i, k := range c.keys() {
		if c.has(i) {
			s.present[k] = c.entry(i)
		}
	}
	return s
}

func (c C) entry(i int) ent {
	if !c.Big {
		return entryOf(i)
	}
	e := ent{off: int64(8 * (i + 2)), size: int32(10 + i)}
	if types.OffsetSize == 5 && i%2 == 1 {
		e.off += 1 << 35
	}
	return e
}

var universe = []uint64{1, 2, 3, 255, 1<<32 + 1, 1 << 40}

type ent struct {
	off  int64
	size int32
}

func entryOf(i int) ent {
	e := ent{off: int64(8 * (i + 2)), size: int32(10 + i)}
	if universe[i] == 3 {
		e.size = 0 // an empty blob's entry
	}
	if types.OffsetSize == 5 && i%2 == 1 {
		e.off += 1 << 35 // needs the fifth offset byte
	}
	return e
}

func build() string {
	if types.OffsetSize == 5 {
		return "5byte"
	}
	return "4byte"
}

var (
	vmu    sync.Mutex
	vcount = map[string]int{}
)

func violate(r *mc.Run, class, msg string, c C) {
	vmu.Lock()
	vcount[class]++
	n := vcount[class]
	vmu.Unlock()
	r.Add("failing_cases", 1)
	if n > 3 {
		return
	}
	r.Violate(class, msg, c, func() bool {
		dir := mc.TempDir("c07r")
		defer os.RemoveAll(dir)
		for _, v := range oneCase(dir, c) {
			if v.class == class {
				return true
			}
		}
		if len(c.Dels) <= 2 && c.Reopen == 0 {
			for _, v := range sortedMapCase(dir, c) {
				if v.class == class {
					return true
				}
			}
		}
		return false
	})
}

type viol struct{ class, msg string }

func entryBytes(k uint64, e ent) []byte {
	return needle_map.ToBytes(types.NeedleId(k), types.ToOffset(e.off), types.Size(e.size))
}

// writeIdx writes an unsorted .idx: the present keys in a scrambled order, one of
// them overwritten (an older entry first), plus a foreign key put and deleted.
func writeIdx(path string, c C) {
	var buf []byte
	ks := c.keys()
	// scrambled order: odd positions descending, then even positions ascending
	var order []int
	for i := len(ks) - 1; i >= 0; i-- {
		if i%2 == 1 {
			order = append(order, i)
		}
	}
	for i := 0; i < len(ks); i += 2 {
		order = append(order, i)
	}
	first := true
	for _, i := range order {
		if !c.has(i) {
			continue
		}
		if first {
			// an older version of the first key, later overwritten
			buf = append(buf, entryBytes(ks[i], ent{off: 8 * 100, size: 99})...)
			buf = append(buf, entryBytes(7, ent{off: 8 * 101, size: 5})...)
			first = false
		}
		buf = append(buf, entryBytes(ks[i], c.entry(i))...)
	}
	// key 7 deleted
	buf = append(buf, needle_map.ToBytes(types.NeedleId(7), types.ToOffset(8*102), types.TombstoneFileSize)...)
	if err := os.WriteFile(path, buf, 0644); err != nil {
		mc.Fatal("write idx: %v", err)
	}
}

// reference state
type refState struct {
	present map[uint64]ent
	deleted map[uint64]bool
}

func (s *refState) sortedKeys() []uint64 {
	var ks []uint64
	for k := range s.present {
		ks = append(ks, k)
	}
	sort.Slice(ks, func(i, j int) bool { return ks[i] < ks[j] })
	return ks
}

// expected bytes of the sorted index
func (s *refState) ecxBytes() []byte {
	var buf []byte
	for _, k := range s.sortedKeys() {
		e := s.present[k]
		if s.deleted[k] {
			buf = append(buf, needle_map.ToBytes(types.NeedleId(k), types.ToOffset(e.off), types.TombstoneFileSize)...)
		} else {
			buf = append(buf, entryBytes(k, e)...)
		}
	}
	return buf
}

func (s *refState) position(k uint64) int {
	for i, x := range s.sortedKeys() {
		if x == k {
			return i
		}
	}
	return -1
}

// posClass: where the deleted key sits in the index.
func (s *refState) posClass(k uint64) string {
	p := s.position(k)
	switch {
	case p < 0:
		return "absent"
	case p == 0:
		return "first"
	}
	return "later"
}

// diffEcx compares the real sorted index bytes with the expected ones and names
// what differs relative to the key just deleted.
func diffEcx(s *refState, got []byte, target uint64) (targetBad, otherBad bool, descr string) {
	want := s.ecxBytes()
	if bytes.Equal(got, want) {
		return false, false, ""
	}
	if len(got) != len(want) {
		return false, true, fmt.Sprintf("index is %d bytes, expected %d", len(got), len(want))
	}
	es := types.NeedleMapEntrySize
	var ds []string
	for i, k := range s.sortedKeys() {
		if !bytes.Equal(got[i*es:(i+1)*es], want[i*es:(i+1)*es]) {
			if k == target {
				targetBad = true
			} else {
				otherBad = true
			}
			ds = append(ds, fmt.Sprintf("entry %d (key %d) is % x, expected % x", i, k, got[i*es:(i+1)*es], want[i*es:(i+1)*es]))
		}
	}
	return targetBad, otherBad, strings.Join(ds, "; ")
}

// findAll checks FindNeedleFromEcx for every universe key.
func findAll(c C, s *refState, ev *erasure_coding.EcVolume, how string) []viol {
	var vs []viol
	for _, k := range c.keys() {
		off, size, err := ev.FindNeedleFromEcx(types.NeedleId(k))
		e, present := s.present[k]
		switch {
		case !present:
			if err != erasure_coding.NotFoundError {
				vs = append(vs, viol{how + ":absent-key-found", fmt.Sprintf("FindNeedleFromEcx(%d) = (%d, %d, %v) for a key not in the index", k, off.ToActualOffset(), size, err)})
			}
		case s.deleted[k]:
			if err != nil || !size.IsDeleted() {
				vs = append(vs, viol{how + ":deleted-key-not-deleted", fmt.Sprintf("FindNeedleFromEcx(%d) = (%d, %d, %v) for a deleted key", k, off.ToActualOffset(), size, err)})
			}
		default:
			if err != nil || off.ToActualOffset() != e.off || int32(size) != e.size {
				vs = append(vs, viol{how + ":live-key-changed", fmt.Sprintf("FindNeedleFromEcx(%d) = (%d, %d, %v), expected (%d, %d)", k, off.ToActualOffset(), size, err, e.off, e.size)})
			}
		}
	}
	return vs
}

// liveSetOfIdx: reference reading of an index file (latest entry per key wins; a
// tombstone size or a zero offset deletes).
func liveSetOfIdx(path string) (map[uint64]ent, error) {
	f, err := os.Open(path)
	if err != nil {
		return nil, err
	}
	defer f.Close()
	live := map[uint64]ent{}
	err = idx.WalkIndexFile(f, func(key types.NeedleId, offset types.Offset, size types.Size) error {
		if offset.IsZero() || size.IsDeleted() {
			delete(live, uint64(key))
		} else {
			live[uint64(key)] = ent{offset.ToActualOffset(), int32(size)}
		}
		return nil
	})
	return live, err
}

func (s *refState) liveSet() map[uint64]ent {
	live := map[uint64]ent{}
	for k, e := range s.present {
		if !s.deleted[k] {
			live[k] = e
		}
	}
	return live
}

func sameLive(a, b map[uint64]ent) bool {
	if len(a) != len(b) {
		return false
	}
	for k, e := range a {
		if b[k] != e {
			return false
		}
	}
	return true
}

func copyFile(src, dst string) {
	b, err := os.ReadFile(src)
	if err != nil {
		mc.Fatal("copy %s: %v", src, err)
	}
	if err := os.WriteFile(dst, b, 0644); err != nil {
		mc.Fatal("copy to %s: %v", dst, err)
	}
}

// oneCase executes a case in dir and returns the violations.
func oneCase(dir string, c C) []viol {
	var vs []viol
	os.RemoveAll(dir)
	os.MkdirAll(dir, 0755)
	base := filepath.Join(dir, "1")
	s := c.newRef()
	writeIdx(base+".idx", c)
	if err := erasure_coding.WriteSortedFileFromIdx(base, ".ecx"); err != nil {
		return []viol{{"ecx-build:error", fmt.Sprintf("WriteSortedFileFromIdx: %v", err)}}
	}
	orig, _ := os.ReadFile(base + ".ecx")
	if !bytes.Equal(orig, s.ecxBytes()) {
		return []viol{{"ecx-build:wrong-content", fmt.Sprintf("sorted index is % x, expected % x", orig, s.ecxBytes())}}
	}
	copyFile(base+".ecx", base+".ecx.orig")

	ev, err := erasure_coding.NewEcVolume(types.HardDriveType, dir, dir, "", 1)
	if err != nil {
		return []viol{{"ecvolume-open:error", fmt.Sprintf("NewEcVolume: %v", err)}}
	}
	closed := false
	defer func() {
		if !closed {
			ev.Close()
		}
	}()
	if v := findAll(c, s, ev, "find-before-delete"); len(v) > 0 {
		return v
	}
	for di, d := range c.Dels {
		pos := s.posClass(d)
		if s.deleted[d] {
			pos += "-again"
		}
		if c.Reopen > 0 && di == c.Reopen {
			ev.Close()
			if ev, err = erasure_coding.NewEcVolume(types.HardDriveType, dir, dir, "", 1); err != nil {
				closed = true
				return append(vs, viol{"ecvolume-reopen:error", fmt.Sprintf("NewEcVolume: %v", err)})
			}
			pos += ":after-remount"
		}
		if err := ev.DeleteNeedleFromEcx(types.NeedleId(d)); err != nil {
			return append(vs, viol{"ecx-delete:pos=" + pos + ":error", fmt.Sprintf("DeleteNeedleFromEcx(%d): %v", d, err)})
		}
		if _, ok := s.present[d]; ok {
			s.deleted[d] = true
		}
		got, _ := os.ReadFile(base + ".ecx")
		tBad, oBad, descr := diffEcx(s, got, d)
		if tBad {
			vs = append(vs, viol{"ecx-delete:pos=" + pos + ":target-entry-not-marked", fmt.Sprintf("after DeleteNeedleFromEcx(%d): %s", d, descr)})
		}
		if oBad {
			vs = append(vs, viol{"ecx-delete:pos=" + pos + ":other-entry-modified", fmt.Sprintf("after DeleteNeedleFromEcx(%d): %s", d, descr)})
		}
		if tBad || oBad {
			return vs // the index is damaged: what follows would only repeat it
		}
		if v := findAll(c, s, ev, "find-after-delete"); len(v) > 0 {
			return append(vs, v...)
		}
		// the journal holds exactly the deleted present ids
		jb, _ := os.ReadFile(base + ".ecj")
		if len(jb)%types.NeedleIdSize != 0 {
			return append(vs, viol{"journal:torn", fmt.Sprintf("journal is %d bytes", len(jb))})
		}
		ids := map[uint64]bool{}
		for i := 0; i+types.NeedleIdSize <= len(jb); i += types.NeedleIdSize {
			ids[uint64(types.BytesToNeedleId(jb[i:i+types.NeedleIdSize]))] = true
		}
		for k := range ids {
			if !s.deleted[k] {
				return append(vs, viol{"journal:pos=" + pos + ":extra-id", fmt.Sprintf("journal holds %d which was not deleted from the index", k)})
			}
		}
		for k := range s.deleted {
			if !ids[k] {
				return append(vs, viol{"journal:pos=" + pos + ":missing-id", fmt.Sprintf("journal lacks deleted key %d", k)})
			}
		}
	}
	// reopen
	ev.Close()
	closed = true
	ev2, err := erasure_coding.NewEcVolume(types.HardDriveType, dir, dir, "", 1)
	if err != nil {
		return append(vs, viol{"ecvolume-reopen:error", fmt.Sprintf("NewEcVolume: %v", err)})
	}
	v := findAll(c, s, ev2, "find-after-reopen")
	ev2.Close()
	if len(v) > 0 {
		return append(vs, v...)
	}
	// idx from ecx + journal
	if err := erasure_coding.WriteIdxFileFromEcIndex(base); err != nil {
		return append(vs, viol{"idx-from-ecx:error", fmt.Sprintf("WriteIdxFileFromEcIndex: %v", err)})
	}
	live, err := liveSetOfIdx(base + ".idx")
	if err != nil || !sameLive(live, s.liveSet()) {
		vs = append(vs, viol{"idx-from-ecx:live-set-differs", fmt.Sprintf("live set of the written .idx is %v (err %v), expected %v", live, err, s.liveSet())})
	} else {
		// and through the repository's own reader of an .idx: sorting it again gives the live entries
		if err := erasure_coding.WriteSortedFileFromIdx(base, ".ecx2"); err != nil {
			vs = append(vs, viol{"idx-from-ecx:resort-error", fmt.Sprintf("WriteSortedFileFromIdx on the rebuilt idx: %v", err)})
		} else {
			b2, _ := os.ReadFile(base + ".ecx2")
			var want []byte
			for _, k := range s.sortedKeys() {
				if !s.deleted[k] {
					want = append(want, entryBytes(k, s.present[k])...)
				}
			}
			if !bytes.Equal(b2, want) {
				vs = append(vs, viol{"idx-from-ecx:resorted-live-set-differs", fmt.Sprintf("sorting the rebuilt idx gives % x, expected % x", b2, want)})
			}
		}
	}
	// rebuild from the ORIGINAL sorted index + the journal (a shard copy that missed the in-place marks)
	dir2 := filepath.Join(dir, "copy")
	os.MkdirAll(dir2, 0755)
	base2 := filepath.Join(dir2, "1")
	copyFile(base+".ecx.orig", base2+".ecx")
	hadJournal := false
	if _, err := os.Stat(base + ".ecj"); err == nil {
		copyFile(base+".ecj", base2+".ecj")
		hadJournal = true
	}
	if err := erasure_coding.RebuildEcxFile(base2); err != nil {
		vs = append(vs, viol{"rebuild-ecx:error", fmt.Sprintf("RebuildEcxFile: %v", err)})
	} else {
		got, _ := os.ReadFile(base2 + ".ecx")
		if !bytes.Equal(got, s.ecxBytes()) {
			where := "first-only"
			for k := range s.deleted {
				if s.position(k) > 0 {
					where = "later"
				}
			}
			vs = append(vs, viol{"rebuild-ecx:pos=" + where + ":differs-from-live-index", fmt.Sprintf("RebuildEcxFile(original index + journal) gives % x, the index after the deletions is % x", got, s.ecxBytes())})
		}
		if _, err := os.Stat(base2 + ".ecj"); err == nil && hadJournal {
			vs = append(vs, viol{"rebuild-ecx:journal-kept", "the journal still exists after RebuildEcxFile"})
		}
	}
	return vs
}

// sortedMapCase: the same index served by SortedFileNeedleMap (read-only volume).
func sortedMapCase(dir string, c C) []viol {
	var vs []viol
	os.RemoveAll(dir)
	os.MkdirAll(dir, 0755)
	base := filepath.Join(dir, "1")
	s := c.newRef()
	writeIdx(base+".idx", c)
	f, err := os.OpenFile(base+".idx", os.O_RDWR, 0644)
	if err != nil {
		mc.Fatal("open idx: %v", err)
	}
	sm, err := storage.NewSortedFileNeedleMap(base, f)
	if err != nil {
		f.Close()
		return []viol{{"sorted-map:open-error", fmt.Sprintf("NewSortedFileNeedleMap: %v", err)}}
	}
	defer sm.Close()
	check := func(how string) []viol {
		var out []viol
		for _, k := range c.keys() {
			nv, ok := sm.Get(types.NeedleId(k))
			e, present := s.present[k]
			switch {
			case !present:
				if ok && !nv.Size.IsDeleted() {
					out = append(out, viol{"sorted-map:" + how + ":absent-key-found", fmt.Sprintf("Get(%d) = (%d,%d)", k, nv.Offset.ToActualOffset(), nv.Size)})
				}
			case s.deleted[k]:
				if ok && !nv.Size.IsDeleted() {
					out = append(out, viol{"sorted-map:" + how + ":deleted-key-not-deleted", fmt.Sprintf("Get(%d) = (%d,%d) for a deleted key", k, nv.Offset.ToActualOffset(), nv.Size)})
				}
			default:
				if !ok || nv.Offset.ToActualOffset() != e.off || int32(nv.Size) != e.size {
					out = append(out, viol{"sorted-map:" + how + ":live-key-changed", fmt.Sprintf("Get(%d) = (%d,%d,%v), expected (%d,%d)", k, nv.Offset.ToActualOffset(), nv.Size, ok, e.off, e.size)})
				}
			}
		}
		return out
	}
	if v := check("get-before-delete"); len(v) > 0 {
		return v
	}
	for _, d := range c.Dels {
		pos := s.posClass(d)
		if s.deleted[d] {
			pos += "-again"
		}
		if err := sm.Delete(types.NeedleId(d), types.ToOffset(8*200)); err != nil {
			live := "live"
			if pos == "absent" || strings.HasSuffix(pos, "-again") {
				live = "not-live"
			}
			return append(vs, viol{"sorted-map:delete-error:key=" + live, fmt.Sprintf("SortedFileNeedleMap.Delete(%d): %v", d, err)})
		}
		if _, ok := s.present[d]; ok {
			s.deleted[d] = true
		}
		if v := check("get-after-delete:pos=" + pos); len(v) > 0 {
			return append(vs, v...)
		}
		// the .idx is this volume's deletion journal: regenerating the sorted index from it must give the same live set
		live, err := liveSetOfIdx(base + ".idx")
		if err != nil || !sameLive(live, s.liveSet()) {
			return append(vs, viol{"sorted-map:idx-after-delete:live-set-differs", fmt.Sprintf("after SortedFileNeedleMap.Delete(%d) the live set of the .idx is %v (err %v), expected %v", d, live, err, s.liveSet())})
		}
	}
	return vs
}

func delClass(c C) string {
	// shape of the deletion sequence: presence/position of each deleted key
	s := c.newRef()
	n := len(s.present)
	var sh []string
	for _, d := range c.Dels {
		p := s.posClass(d)
		if s.deleted[d] {
			p += "-again"
		}
		if _, ok := s.present[d]; ok {
			s.deleted[d] = true
		}
		sh = append(sh, p)
	}
	rm := ""
	if c.Reopen > 0 {
		rm = fmt.Sprintf("|remount-before-%d", c.Reopen)
	}
	return fmt.Sprintf("n=%d|%s%s", n, strings.Join(sh, ","), rm)
}

func cases(r *mc.Run) []C {
	var cs []C
	for mask := 0; mask < 1<<uint(len(universe)); mask++ {
		n := 0
		for m := mask; m != 0; m &= m - 1 {
			n++
		}
		for _, a := range universe {
			cs = append(cs, C{Mask: mask, Dels: []uint64{a}})
		}
		if r.Quick() && n < 5 {
			continue
		}
		for _, a := range universe {
			for _, b := range universe {
				cs = append(cs, C{Mask: mask, Dels: []uint64{a, b}})
				// the same pair with the volume unmounted and mounted again between the two deletions
				cs = append(cs, C{Mask: mask, Dels: []uint64{a, b}, Reopen: 1})
			}
		}
		if n == len(universe) {
			// delete, delete, remount, delete on the full index
			for _, a := range universe {
				for _, b := range universe {
					for _, d := range universe {
						cs = append(cs, C{Mask: mask, Dels: []uint64{a, b, d}, Reopen: 2})
					}
				}
			}
		}
		if !r.Quick() && n == len(universe) {
			for _, a := range universe {
				for _, b := range universe {
					for _, d := range universe {
						cs = append(cs, C{Mask: mask, Dels: []uint64{a, b, d}})
					}
				}
			}
		}
	}
	// one larger index: with 17-byte entries an offset computed with the wrong entry width drifts into the neighbours
	big := C{Big: true}
	for _, k := range big.keys() {
		cs = append(cs, C{Big: true, Dels: []uint64{k}})
	}
	cs = append(cs, C{Big: true, Dels: []uint64{5}}, C{Big: true, Dels: []uint64{200, 10}})
	return cs
}

func runCase(r *mc.Run, dir string, c C) {
	c.Build = build()
	vs := oneCase(dir, c)
	out := "ok"
	for _, v := range vs {
		violate(r, v.class, v.msg, c)
		out = v.class
	}
	r.Case(fmt.Sprintf("%s|ecx|%s|%s", c.Build, delClass(c), out))
	// the sorted-file needle map: single and double deletions only
	if len(c.Dels) <= 2 && c.Reopen == 0 {
		vs = sortedMapCase(dir, c)
		out = "ok"
		for _, v := range vs {
			violate(r, v.class, v.msg, c)
			out = v.class
		}
		r.Case(fmt.Sprintf("%s|sdx|%s|%s", c.Build, delClass(c), out))
	}
}

func run(r *mc.Run) {
	if r.Replay != "" {
		var c C
		if err := r.ReplayCase(&c); err != nil {
			mc.Fatal("replay: %v", err)
		}
		one := func(shard, n int) {
			dir := mc.TempDir("c07")
			defer os.RemoveAll(dir)
			for _, v := range oneCase(dir, c) {
				r.Violate(v.class, v.msg, c, nil)
			}
			if len(c.Dels) <= 2 && c.Reopen == 0 {
				for _, v := range sortedMapCase(dir, c) {
					r.Violate(v.class, v.msg, c, nil)
				}
			}
			r.Case("replay")
		}
		if c.Build == "5byte" {
			r.ParallelExe(os.Getenv("VERIF_BIN_storlib5"), "5byte", 1, one)
		} else {
			one(0, 1)
		}
		return
	}
	cs := cases(r)
	r.Set("indexes", 1<<uint(len(universe)))
	r.Set("cases_per_build", len(cs))
	r.Assume("the live set of a rebuilt .idx is read with a reference reader (latest entry per key, tombstone size or zero offset deletes) and with WriteSortedFileFromIdx; LoadCompactNeedleMap's treatment of size-0 entries is C05's subject")
	r.Assume("the journal is compared as a set of ids (a key deleted twice is journalled twice)")
	body := func(shard, n int) {
		dir := mc.TempDir("c07")
		defer os.RemoveAll(dir)
		for i, c := range cs {
			if i%n != shard {
				continue
			}
			c.Build = build()
			if !r.Begin(c) {
				continue
			}
			runCase(r, dir, c)
		}
	}
	var wg sync.WaitGroup
	wg.Add(2)
	go func() { defer wg.Done(); r.Parallel("4byte", 8, body) }()
	go func() { defer wg.Done(); r.ParallelExe(os.Getenv("VERIF_BIN_storlib5"), "5byte", 8, body) }()
	wg.Wait()
	r.Sample("case", C{Build: "4byte", Mask: 63, Dels: []uint64{255, 1 << 40}})
	r.Sample("case", C{Build: "5byte", Mask: 0b101001, Dels: []uint64{1 << 40}})
	r.Sample("case", C{Build: "4byte", Mask: 0, Dels: []uint64{1}})
	r.Sample("case", C{Build: "5byte", Big: true, Dels: []uint64{150}})
}
