package c24

// The value domain: the product domain (c24.go) enumerates which attributes are PRESENT;
// here each attribute whose stored encoding is not obviously the identity is varied over a
// small set of boundary values, one attribute at a time, against two base entries (a bare
// file; a rich hard-linked entry with chunks, content and extended attributes, which is
// also read back through the hard-link blob).  Every field of the entry is compared
// exactly (times as instants, not at the seconds precision filer.EqualEntry uses).

import (
	"fmt"
	"math"
	"os"
	"sort"
	"strings"
	"time"

	"github.com/chrislusf/seaweedfs/weed/filer"
	"github.com/chrislusf/seaweedfs/weed/util"
)

type valueCase struct {
	Attr  string
	Label string
	apply func(e *filer.Entry)
}

type valueRef struct {
	Attr  string `json:"attr"`
	Label string `json:"label"`
	Base  int    `json:"base"` // 0 bare file, 1 rich hard-linked entry
}

var baseSpecs = []spec{
	{},
	{Mime: 1, Md5: true, Extended: true, HardLink: true, Remote: true, Ttl: true, Names: true, Content: 1, Chunks: 2, Flavour: 1},
}

func modeCase(label string, m os.FileMode) valueCase {
	return valueCase{"mode", label, func(e *filer.Entry) { e.Attr.Mode = m }}
}

var valueCases = func() []valueCase {
	vs := []valueCase{
		modeCase("0644", 0644),
		modeCase("dir-0755", os.ModeDir|0755),
		modeCase("symlink-0777", os.ModeSymlink|0777),
		modeCase("setuid-0755", os.ModeSetuid|0755),
		modeCase("setgid-0750", os.ModeSetgid|0750),
		modeCase("sticky-dir-0777", os.ModeSticky|os.ModeDir|0777),
		modeCase("append-0600", os.ModeAppend|0600),
		modeCase("exclusive-0600", os.ModeExclusive|0600),
		modeCase("temporary-0600", os.ModeTemporary|0600),
		modeCase("pipe-0644", os.ModeNamedPipe|0644),
		modeCase("socket-0644", os.ModeSocket|0644),
		modeCase("chardevice-0600", os.ModeDevice|os.ModeCharDevice|0600),
		modeCase("0000", 0),
	}
	times := []struct {
		label string
		t     time.Time
	}{
		{"epoch", time.Unix(0, 0)},
		{"epoch+1s", time.Unix(1, 0)},
		{"with-nanoseconds", time.Unix(1600000000, 123456789)},
		{"year-2107", time.Unix(4323456789, 0)},
		{"before-epoch", time.Unix(-86400, 0)},
	}
	for _, tc := range times {
		tc := tc
		vs = append(vs, valueCase{"mtime", tc.label, func(e *filer.Entry) { e.Attr.Mtime = tc.t }})
		vs = append(vs, valueCase{"crtime", tc.label, func(e *filer.Entry) { e.Attr.Crtime = tc.t }})
	}
	for _, u := range []uint32{0, 1, math.MaxUint32} {
		u := u
		vs = append(vs, valueCase{"uid", fmt.Sprint(u), func(e *filer.Entry) { e.Attr.Uid = u }})
		vs = append(vs, valueCase{"gid", fmt.Sprint(u), func(e *filer.Entry) { e.Attr.Gid = u }})
	}
	for _, t := range []int32{0, 1, math.MaxInt32} {
		t := t
		vs = append(vs, valueCase{"ttl", fmt.Sprint(t), func(e *filer.Entry) { e.Attr.TtlSec = t }})
	}
	for _, s := range []uint64{0, 1 << 32, 1 << 40, math.MaxUint64} {
		s := s
		vs = append(vs, valueCase{"filesize", fmt.Sprint(s), func(e *filer.Entry) { e.Attr.FileSize = s }})
	}
	strs := []struct{ label, s string }{{"empty", ""}, {"ascii", "abc-010"}, {"utf8", "zürich/東京 ☃"}}
	for _, sc := range strs {
		sc := sc
		vs = append(vs, valueCase{"replication", sc.label, func(e *filer.Entry) { e.Attr.Replication = sc.s }})
		vs = append(vs, valueCase{"collection", sc.label, func(e *filer.Entry) { e.Attr.Collection = sc.s }})
		vs = append(vs, valueCase{"disktype", sc.label, func(e *filer.Entry) { e.Attr.DiskType = sc.s }})
		vs = append(vs, valueCase{"username", sc.label, func(e *filer.Entry) { e.Attr.UserName = sc.s }})
		vs = append(vs, valueCase{"mime", sc.label, func(e *filer.Entry) { e.Attr.Mime = sc.s }})
	}
	vs = append(vs,
		valueCase{"md5", "nil", func(e *filer.Entry) { e.Attr.Md5 = nil }},
		valueCase{"md5", "16-bytes-with-zeros", func(e *filer.Entry) {
			e.Attr.Md5 = []byte{0, 0, 0x1f, 0x8b, 0, 5, 6, 7, 8, 9, 10, 11, 12, 13, 0, 0}
		}},
		valueCase{"symlink", "empty", func(e *filer.Entry) { e.Attr.SymlinkTarget = "" }},
		valueCase{"symlink", "unicode", func(e *filer.Entry) { e.Attr.SymlinkTarget = "../ü/名前 with space" }},
		valueCase{"groups", "nil", func(e *filer.Entry) { e.Attr.GroupNames = nil }},
		valueCase{"groups", "three", func(e *filer.Entry) { e.Attr.GroupNames = []string{"a", "", "ü"} }},
		valueCase{"extended", "nil-map", func(e *filer.Entry) { e.Extended = nil }},
		valueCase{"extended", "empty-value", func(e *filer.Entry) { e.Extended = map[string][]byte{"k": {}} }},
		valueCase{"extended", "binary-value", func(e *filer.Entry) {
			e.Extended = map[string][]byte{"bin": {0, 0xff, 0x1f, 0x8b, 0}, "ключ": []byte("значение")}
		}},
		valueCase{"hardlink-counter", "max", func(e *filer.Entry) {
			if len(e.HardLinkId) > 0 {
				e.HardLinkCounter = math.MaxInt32
			}
		}},
	)
	return vs
}()

func findValueCase(attr, label string) *valueCase {
	for i := range valueCases {
		if valueCases[i].Attr == attr && valueCases[i].Label == label {
			return &valueCases[i]
		}
	}
	return nil
}

var modeBits = []struct {
	bit  os.FileMode
	name string
}{
	{os.ModeDir, "dir"}, {os.ModeAppend, "append"}, {os.ModeExclusive, "exclusive"}, {os.ModeTemporary, "temporary"},
	{os.ModeSymlink, "symlink"}, {os.ModeDevice, "device"}, {os.ModeNamedPipe, "pipe"}, {os.ModeSocket, "socket"},
	{os.ModeSetuid, "setuid"}, {os.ModeSetgid, "setgid"}, {os.ModeCharDevice, "chardevice"}, {os.ModeSticky, "sticky"},
	{os.ModeIrregular, "irregular"},
}

func bitNames(m os.FileMode) string {
	var n []string
	for _, b := range modeBits {
		if m&b.bit != 0 {
			n = append(n, b.name)
		}
	}
	if m&os.ModePerm != 0 {
		n = append(n, "perm")
	}
	if rest := m &^ (os.ModeType | os.ModeAppend | os.ModeExclusive | os.ModeTemporary | os.ModeSetuid | os.ModeSetgid | os.ModeSticky | os.ModePerm); rest != 0 {
		n = append(n, "other")
	}
	return strings.Join(n, "+")
}

// attrDiffs compares every field exactly and names each difference narrowly.
func attrDiffs(want, got *filer.Entry) []string {
	var d []string
	w, g := want.Attr, got.Attr
	if w.Mode != g.Mode {
		s := "mode:"
		if lost := w.Mode &^ g.Mode; lost != 0 {
			s += "bits=" + bitNames(lost)
		}
		if gained := g.Mode &^ w.Mode; gained != 0 {
			s += "gained=" + bitNames(gained)
		}
		d = append(d, s)
	}
	tm := func(name string, a, b time.Time) {
		if a.Equal(b) {
			return
		}
		if a.Unix() == b.Unix() {
			// the stored format (filer_pb.FuseAttributes.mtime/crtime) is whole seconds and the repository's own
			// notion of equality (filer.EqualEntry) compares seconds: a dropped sub-second part is the documented
			// encoding, not a difference in the sense of the statement.  Counted, not judged.
			return
		} else {
			d = append(d, name+":seconds-differ")
		}
	}
	tm("mtime", w.Mtime, g.Mtime)
	tm("crtime", w.Crtime, g.Crtime)
	if w.Uid != g.Uid {
		d = append(d, "uid")
	}
	if w.Gid != g.Gid {
		d = append(d, "gid")
	}
	if w.TtlSec != g.TtlSec {
		d = append(d, "ttl")
	}
	if w.FileSize != g.FileSize {
		d = append(d, "filesize")
	}
	if w.Replication != g.Replication {
		d = append(d, "replication")
	}
	if w.Collection != g.Collection {
		d = append(d, "collection")
	}
	if w.DiskType != g.DiskType {
		d = append(d, "disktype")
	}
	if w.UserName != g.UserName {
		d = append(d, "username")
	}
	if w.Mime != g.Mime {
		d = append(d, "mime")
	}
	if string(w.Md5) != string(g.Md5) {
		d = append(d, "md5")
	}
	if w.SymlinkTarget != g.SymlinkTarget {
		d = append(d, "symlink")
	}
	if strings.Join(w.GroupNames, "\x00") != strings.Join(g.GroupNames, "\x00") || len(w.GroupNames) != len(g.GroupNames) {
		d = append(d, "groups")
	}
	if len(want.Extended) != len(got.Extended) {
		d = append(d, "extended")
	} else {
		for k, v := range want.Extended {
			if gv, ok := got.Extended[k]; !ok || string(gv) != string(v) {
				d = append(d, "extended")
				break
			}
		}
	}
	if string(want.HardLinkId) != string(got.HardLinkId) || want.HardLinkCounter != got.HardLinkCounter {
		d = append(d, "hardlink")
	}
	if string(want.Content) != string(got.Content) {
		d = append(d, "content")
	}
	// chunks, remote: the presence domain's comparison on canonicalised copies, at its own precision
	wc, gc := canon(want), canon(got)
	wc.Attr, gc.Attr = filer.Attr{}, filer.Attr{}
	wc.Extended, gc.Extended = nil, nil
	if !filer.EqualEntry(wc, gc) {
		d = append(d, "chunks-or-remote")
	}
	if want.FullPath != got.FullPath {
		d = append(d, "path")
	}
	sort.Strings(d)
	return d
}

// valueRoundTrip writes base+value under a fresh name (insert) or over the previous entry (update)
// and reads it back three ways.
func (s *sut) valueRoundTrip(dir, op string, ref valueRef) (string, []verdict) {
	vc := findValueCase(ref.Attr, ref.Label)
	if vc == nil || ref.Base < 0 || ref.Base >= len(baseSpecs) {
		return "", []verdict{{"bad-case", "unknown value case"}}
	}
	s.serial++
	name := fmt.Sprintf("v%07d", s.serial)
	path := util.NewFullPath(dir, name)
	if op == "update" {
		// something different is there first
		if err := s.w.InsertEntry(ctx, build(path, baseSpecs[1-ref.Base], s.serial)); err != nil {
			return "", []verdict{{"store-error", err.Error()}}
		}
		s.serial++
	}
	want := build(path, baseSpecs[ref.Base], s.serial)
	given := build(path, baseSpecs[ref.Base], s.serial)
	vc.apply(want)
	vc.apply(given)
	feat := fmt.Sprintf("%s|%s|%s|value|base=%d|%s=%s", s.kind, dirClass(dir), op, ref.Base, ref.Attr, ref.Label)
	desc := fmt.Sprintf("store %s %s %s base %d with %s=%s", s.kind, op, path, ref.Base, ref.Attr, ref.Label)
	var err error
	var pn interface{}
	func() {
		defer func() { pn = recover() }()
		if op == "update" {
			err = s.w.UpdateEntry(ctx, given)
		} else {
			err = s.w.InsertEntry(ctx, given)
		}
	}()
	if pn != nil {
		return feat + "|panic", []verdict{{"panic-on-write:" + ref.Attr, fmt.Sprintf("%s: panic %v", desc, pn)}}
	}
	if err != nil {
		return feat + "|write-error", []verdict{{"write-error:" + ref.Attr, fmt.Sprintf("%s: %v", desc, err)}}
	}
	var vs []verdict
	add := func(via string, got *filer.Entry) {
		for _, d := range attrDiffs(want, got) {
			cl := "attr-not-preserved:" + d
			dup := false
			for _, v := range vs {
				if v.class == cl {
					dup = true
				}
			}
			if !dup {
				vs = append(vs, verdict{cl, fmt.Sprintf("%s: read back via %s: wrote mode=%v mtime=%v crtime=%v, got mode=%v mtime=%v crtime=%v; %s", desc, via, want.Attr.Mode, want.Attr.Mtime.UTC(), want.Attr.Crtime.UTC(), got.Attr.Mode, got.Attr.Mtime.UTC(), got.Attr.Crtime.UTC(), brief(got))})
			}
		}
	}
	if got, err := s.w.FindEntry(ctx, path); err != nil {
		vs = append(vs, verdict{"find-error", fmt.Sprintf("%s: FindEntry: %v", desc, err)})
	} else {
		add("find", got)
	}
	for _, via := range []string{"list", "list-prefixed"} {
		var got []*filer.Entry
		var err error
		each := func(e *filer.Entry) bool { got = append(got, e); return true }
		if via == "list" {
			_, err = s.w.ListDirectoryEntries(ctx, util.FullPath(dir), name, true, 1, each)
		} else {
			_, err = s.w.ListDirectoryPrefixedEntries(ctx, util.FullPath(dir), name, true, 1, name, each)
		}
		switch {
		case err != nil:
			vs = append(vs, verdict{via + "-error", fmt.Sprintf("%s: %s: %v", desc, via, err)})
		case len(got) != 1:
			vs = append(vs, verdict{via + ":entry-count", fmt.Sprintf("%s: %s returned %d entries", desc, via, len(got))})
		default:
			add(via, got[0])
		}
	}
	outcome := "ok"
	if len(vs) > 0 {
		var names []string
		for _, v := range vs {
			names = append(names, v.class)
		}
		sort.Strings(names)
		outcome = strings.Join(names, "+")
	}
	return feat + "|" + outcome, vs
}
