// Package c24: filer metadata stores return what was stored.
//
// Every entry of a product space (attribute presence combinations x chunk count
// around the compression threshold x chunk flavour x inline content shape) is
// written through the real FilerStoreWrapper into leveldb, leveldb2 and leveldb3
// (paths outside and inside /buckets/<b>/), once with InsertEntry under a fresh
// name and once with UpdateEntry over an existing different entry, and read back
// with FindEntry, ListDirectoryEntries and ListDirectoryPrefixedEntries.
// Oracle: the repository's own filer.EqualEntry against an independently built
// copy of what was written (chunk file ids compared in their canonical string form).
package c24

import (
	"context"
	"encoding/binary"
	"fmt"
	"os"
	"runtime/pprof"
	"sort"
	"strings"
	"time"

	"verif/checks/flib"
	"verif/mc"

	"github.com/chrislusf/seaweedfs/weed/filer"
	"github.com/chrislusf/seaweedfs/weed/pb/filer_pb"
	"github.com/chrislusf/seaweedfs/weed/storage/needle"
	"github.com/chrislusf/seaweedfs/weed/util"
)

func Main() {
	mc.Main("C24", "exploration",
		"stores {leveldb,leveldb2,leveldb3} x directories {/r,/buckets/b1,/buckets/b1/d} x entries: mime{unset,text/plain,application/octet-stream} x presence of {md5,symlink,extended,hard link id+counter,remote,ttl,user/group names} x content{none,text,gzip magic} x chunk count{0,1,2,50,51,60} x chunk flavour{plain,source fid,cipher key,compressed,manifest} x op{insert under a fresh name, update over a different entry}; plus a read-modify-update domain (lookup, change chunk FileId / SourceFileId / attributes in place, UpdateEntry; fresh chunk with Fid and a different FileId), plus a value domain: one attribute at a time over boundary values (13 modes, 5 times x mtime/crtime, uid/gid/ttl/filesize extremes, empty/ascii/utf-8 strings, md5, symlink, groups, extended, hard-link counter) x 2 base entries x op; read back by FindEntry, ListDirectoryEntries, ListDirectoryPrefixedEntries; oracle: filer.EqualEntry on file-id-canonicalised copies; distinct = (store, dir class, entry features, outcome)",
		run)
}

// spec is one entry of the product space.
type spec struct {
	Mime     int  `json:"mime"` // 0 unset, 1 text/plain, 2 application/octet-stream
	Md5      bool `json:"md5"`
	Symlink  bool `json:"symlink"`
	Extended bool `json:"extended"`
	HardLink bool `json:"hardlink"`
	Remote   bool `json:"remote"`
	Ttl      bool `json:"ttl"`
	Names    bool `json:"names"`   // user name + group names
	Content  int  `json:"content"` // 0 none, 1 text, 2 starts with the gzip magic 1f 8b
	Chunks   int  `json:"chunks"`
	Flavour  int  `json:"flavour"` // 0 plain, 1 with source fid, 2 cipher key, 3 compressed, 4 manifest
}

var flavourNames = []string{"plain", "source-fid", "cipher", "compressed", "manifest"}
var mimeVals = []string{"", "text/plain", "application/octet-stream"}

type caseT struct {
	Store string    `json:"store"`
	Dir   string    `json:"dir"`
	Op    string    `json:"op"` // insert | update
	Spec  spec      `json:"spec"`
	Prev  *spec     `json:"prev,omitempty"`  // update: the entry that was there before
	Rmw   *rmwRef   `json:"rmw,omitempty"`   // read-modify-update domain (Spec and Op are unused)
	Value *valueRef `json:"value,omitempty"` // value domain: base entry + one attribute value (Spec is unused)
}

func fid(vol uint32, key uint64, cookie uint32) string {
	return needle.NewFileId(needle.VolumeId(vol), key, cookie).String()
}

// build makes a fresh entry for a spec (called twice: once for the store, once as the reference).
func build(path util.FullPath, s spec, serial uint64) *filer.Entry {
	e := &filer.Entry{FullPath: path}
	e.Attr.Mtime = time.Unix(1600000123, 0)
	e.Attr.Crtime = time.Unix(1500000456, 0)
	e.Attr.Mode = 0640
	e.Attr.Uid = 1001
	e.Attr.Gid = 1002
	e.Attr.Mime = mimeVals[s.Mime]
	e.Attr.Replication = "001"
	e.Attr.Collection = "col"
	e.Attr.DiskType = "ssd"
	e.Attr.FileSize = 12345
	if s.Md5 {
		e.Attr.Md5 = []byte{0x1f, 0x8b, 0, 1, 2, 3, 4, 5, 6, 7, 8, 9, 10, 11, 12, 13}
	}
	if s.Symlink {
		e.Attr.SymlinkTarget = "../target/ä"
		e.Attr.Mode |= os.ModeSymlink
	}
	if s.Extended {
		e.Extended = map[string][]byte{"user.a": []byte("1"), "Seaweed-x": {0x1f, 0x8b, 0x00}, "empty": {}}
	}
	if s.HardLink {
		id := make([]byte, 17)
		binary.BigEndian.PutUint64(id[0:8], 0x1122334455667788)
		binary.BigEndian.PutUint64(id[8:16], serial)
		id[16] = 0x01
		e.HardLinkId = id
		e.HardLinkCounter = 2
	}
	if s.Remote {
		e.Remote = &filer_pb.Entry_Remote{LastModifiedAt: 1600000999, Size: 777, ETag: "\"abc-1\""}
	}
	if s.Ttl {
		e.Attr.TtlSec = 86400
	}
	if s.Names {
		e.Attr.UserName = "alice"
		e.Attr.GroupNames = []string{"staff", "ops"}
	}
	switch s.Content {
	case 1:
		e.Content = []byte("hello, inline content\n")
	case 2:
		e.Content = []byte{0x1f, 0x8b, 0x08, 0x00, 0xde, 0xad, 0xbe, 0xef, 0x00}
	}
	for i := 0; i < s.Chunks; i++ {
		c := &filer_pb.FileChunk{
			FileId: fid(uint32(3+i%2), uint64(0x100+i)<<uint(8*(i%5)), uint32(0x01000000+i)),
			Offset: int64(i) * 4096,
			Size:   4096,
			Mtime:  1600000000000000000 + int64(i),
			ETag:   fmt.Sprintf("etag%d==", i),
		}
		switch s.Flavour {
		case 1:
			c.SourceFileId = fid(9, uint64(0x9000+i), 0xfeedf00d)
		case 2:
			c.CipherKey = []byte{0x1f, 0x8b, byte(i), 3, 4, 5, 6, 7, 8, 9, 10, 11, 12, 13, 14, 15, 16, 17, 18, 19, 20, 21, 22, 23, 24, 25, 26, 27, 28, 29, 30, 31}
		case 3:
			c.IsCompressed = true
		case 4:
			c.IsChunkManifest = i%2 == 0
		}
		e.Chunks = append(e.Chunks, c)
	}
	return e
}

// canon returns a copy whose chunks carry their file ids in the canonical string form only.
func canon(e *filer.Entry) *filer.Entry {
	c := *e
	c.Chunks = nil
	for _, ch := range e.Chunks {
		d := &filer_pb.FileChunk{
			FileId: ch.GetFileIdString(), Offset: ch.Offset, Size: ch.Size, Mtime: ch.Mtime, ETag: ch.ETag,
			SourceFileId: ch.SourceFileId, CipherKey: ch.CipherKey, IsCompressed: ch.IsCompressed, IsChunkManifest: ch.IsChunkManifest,
		}
		if d.SourceFileId == "" && ch.SourceFid != nil {
			d.SourceFileId = needle.NewFileId(needle.VolumeId(ch.SourceFid.VolumeId), ch.SourceFid.FileKey, ch.SourceFid.Cookie).String()
		}
		c.Chunks = append(c.Chunks, d)
	}
	return &c
}

// diff names the first group of fields in which got differs from want ("" if equal).
func diff(want, got *filer.Entry) string {
	w, g := canon(want), canon(got)
	if filer.EqualEntry(w, g) && w.FullPath == g.FullPath {
		return ""
	}
	switch {
	case w.FullPath != g.FullPath:
		return "path"
	case w.Attr.Mime != g.Attr.Mime:
		if w.Attr.Mime == "application/octet-stream" && g.Attr.Mime == "" {
			return "mime-octet-stream-dropped"
		}
		return "mime"
	case string(w.Attr.Md5) != string(g.Attr.Md5):
		return "md5"
	case w.Attr.SymlinkTarget != g.Attr.SymlinkTarget:
		return "symlink"
	case w.Attr.Mode != g.Attr.Mode:
		return "mode"
	case w.Attr.TtlSec != g.Attr.TtlSec:
		return "ttl"
	case w.Attr.UserName != g.Attr.UserName || strings.Join(w.Attr.GroupNames, ",") != strings.Join(g.Attr.GroupNames, ","):
		return "names"
	case !w.Attr.Mtime.Equal(g.Attr.Mtime) || !w.Attr.Crtime.Equal(g.Attr.Crtime):
		return "times"
	case string(w.HardLinkId) != string(g.HardLinkId) || w.HardLinkCounter != g.HardLinkCounter:
		return "hardlink"
	case string(w.Content) != string(g.Content):
		return "content"
	case len(w.Chunks) != len(g.Chunks):
		return "chunk-count"
	}
	for i := range w.Chunks {
		a, b := w.Chunks[i], g.Chunks[i]
		switch {
		case a.FileId != b.FileId:
			return "chunk-file-id"
		case a.SourceFileId != b.SourceFileId:
			return "chunk-source-file-id"
		case string(a.CipherKey) != string(b.CipherKey):
			return "chunk-cipher-key"
		case a.IsCompressed != b.IsCompressed || a.IsChunkManifest != b.IsChunkManifest:
			return "chunk-flags"
		case a.Offset != b.Offset || a.Size != b.Size || a.Mtime != b.Mtime || a.ETag != b.ETag:
			return "chunk-extent"
		}
	}
	if len(w.Extended) != len(g.Extended) {
		return "extended"
	}
	for k, v := range w.Extended {
		if gv, ok := g.Extended[k]; !ok || string(gv) != string(v) {
			return "extended"
		}
	}
	return "other(attributes/remote)"
}

func features(s spec) string {
	var on []string
	for _, f := range []struct {
		b bool
		n string
	}{{s.Md5, "md5"}, {s.Symlink, "sym"}, {s.Extended, "ext"}, {s.HardLink, "hl"}, {s.Remote, "rem"}, {s.Ttl, "ttl"}, {s.Names, "names"}} {
		if f.b {
			on = append(on, f.n)
		}
	}
	cc := "0"
	switch {
	case s.Chunks > 50:
		cc = ">50"
	case s.Chunks > 0:
		cc = "1..50"
	}
	fl := "-"
	if s.Chunks > 0 {
		fl = flavourNames[s.Flavour]
	}
	return fmt.Sprintf("mime=%d|attrs=%d|content=%d|chunks=%s|%s", s.Mime, len(on), s.Content, cc, fl)
}

type sut struct {
	kind     string
	dir      string
	store    filer.FilerStore
	w        *filer.FilerStoreWrapper
	serial   uint64
	prev     map[string]*spec  // dir -> spec written by the previous step
	prevName map[string]string // dir -> name it was written under
}

var ctx = context.Background()

func openSut(kind string) *sut {
	s := &sut{kind: kind, dir: mc.TempDir("c24"), prev: map[string]*spec{}, prevName: map[string]string{}}
	st, err := flib.OpenStore(kind, s.dir)
	if err != nil {
		mc.Fatal("open %s: %v", kind, err)
	}
	s.store = st
	s.w = filer.NewFilerStoreWrapper(st)
	return s
}

func (s *sut) close() {
	s.store.Shutdown()
	os.RemoveAll(s.dir)
}

type verdict struct{ class, msg string }

func dirClass(dir string) string {
	switch {
	case !strings.HasPrefix(dir, "/buckets/"):
		return "plain-dir"
	case strings.Count(dir, "/") == 2:
		return "bucket-root"
	}
	return "bucket-subdir"
}

// roundTrip writes the entry (insert under a fresh name / update over "upd") and reads it back three ways.
func (s *sut) roundTrip(dir, op string, sp spec, prevOverride *spec) (class string, vs []verdict, prev *spec) {
	s.serial++
	name := fmt.Sprintf("n%07d", s.serial)
	if op == "update" {
		// overwrite the entry written by the previous step under its name (each key gets two
		// versions only; rewriting one name thousands of times makes LevelDB iterators crawl)
		prev = s.prev[dir]
		if prevOverride != nil {
			prev = prevOverride
		}
		if prev == nil || prevOverride != nil {
			// nothing there yet (first step, or a replay): put the previous entry (or nothing) there first
			s.prevName[dir] = name
			if prev != nil {
				if err := s.w.InsertEntry(ctx, build(util.NewFullPath(dir, name), *prev, s.serial)); err != nil {
					vs = append(vs, verdict{"store-error", fmt.Sprintf("insert of previous entry: %v", err)})
				}
				s.serial++
			}
		}
		name = s.prevName[dir]
	}
	path := util.NewFullPath(dir, name)
	want := build(path, sp, s.serial)
	given := build(path, sp, s.serial)
	feat := fmt.Sprintf("%s|%s|%s|%s", s.kind, dirClass(dir), op, features(sp))
	desc := func() string {
		return fmt.Sprintf("store %s %s %s spec %+v", s.kind, op, path, sp)
	}
	var err error
	var pn interface{}
	func() {
		defer func() { pn = recover() }()
		if op == "update" {
			err = s.w.UpdateEntry(ctx, given)
		} else {
			err = s.w.InsertEntry(ctx, given)
		}
	}()
	cp := sp
	s.prev[dir], s.prevName[dir] = &cp, name
	if pn != nil {
		return feat + "|panic", append(vs, verdict{"panic-on-write", fmt.Sprintf("%s: panic %v", desc(), pn)}), prev
	}
	if err != nil {
		return feat + "|write-error", append(vs, verdict{"write-error", fmt.Sprintf("%s: %v", desc(), err)}), prev
	}
	add := func(via, d string, got *filer.Entry) {
		cl := via + ":" + d
		if d == "mime-octet-stream-dropped" {
			cl = "mime-application-octet-stream-reads-back-empty"
		}
		for _, v := range vs {
			if v.class == cl {
				return
			}
		}
		vs = append(vs, verdict{cl, fmt.Sprintf("%s: read back via %s differs in %s: wrote mime=%q md5=%x chunks=%d content=%q..., got %s", desc(), via, d, want.Attr.Mime, want.Attr.Md5, len(want.Chunks), trunc(want.Content), brief(got))})
	}
	// 1. lookup
	if got, err := s.w.FindEntry(ctx, path); err != nil {
		vs = append(vs, verdict{"find-error", fmt.Sprintf("%s: FindEntry: %v", desc(), err)})
	} else if d := diff(want, got); d != "" {
		add("find", d, got)
	}
	// 2. plain listing, 3. prefixed listing (what Filer.ListDirectoryEntries really calls)
	for _, via := range []string{"list", "list-prefixed"} {
		var got []*filer.Entry
		var err error
		each := func(e *filer.Entry) bool { got = append(got, e); return true }
		if via == "list" {
			_, err = s.w.ListDirectoryEntries(ctx, util.FullPath(dir), name, true, 1, each)
		} else {
			_, err = s.w.ListDirectoryPrefixedEntries(ctx, util.FullPath(dir), name, true, 1, name, each)
		}
		switch {
		case err != nil:
			vs = append(vs, verdict{via + "-error", fmt.Sprintf("%s: %s: %v", desc(), via, err)})
		case len(got) != 1:
			vs = append(vs, verdict{via + ":entry-count", fmt.Sprintf("%s: %s returned %d entries", desc(), via, len(got))})
		default:
			if d := diff(want, got[0]); d != "" {
				add(via, d, got[0])
			}
		}
	}
	outcome := "ok"
	if len(vs) > 0 {
		var names []string
		for _, v := range vs {
			names = append(names, v.class)
		}
		sort.Strings(names)
		outcome = strings.Join(names, "+")
	}
	return feat + "|" + outcome, vs, prev
}

func trunc(b []byte) string {
	if len(b) > 8 {
		b = b[:8]
	}
	return string(b)
}

func brief(e *filer.Entry) string {
	fidrep := "-"
	if len(e.Chunks) > 0 {
		fidrep = fmt.Sprintf("FileId=%q Fid=%v", e.Chunks[0].FileId, e.Chunks[0].Fid)
	}
	return fmt.Sprintf("{path=%s mime=%q md5=%x sym=%q ttl=%d user=%q groups=%v hl=%x/%d content=%q chunks=%d first chunk %s ext=%d remote=%v}", e.FullPath, e.Attr.Mime, e.Attr.Md5, e.Attr.SymlinkTarget, e.Attr.TtlSec, e.Attr.UserName, e.Attr.GroupNames, []byte(e.HardLinkId), e.HardLinkCounter, trunc(e.Content), len(e.Chunks), fidrep, len(e.Extended), e.Remote)
}

func specs(quick bool) []spec {
	counts := []int{0, 1, 2, 50, 51, 60}
	flavours := []int{0, 1, 2, 3, 4}
	if quick {
		counts = []int{0, 1, 51}
		flavours = []int{0, 1, 4}
	}
	var out []spec
	// simplest first: few chunks, few attributes
	for _, n := range counts {
		fl := flavours
		if n == 0 {
			fl = []int{0}
		}
		for _, f := range fl {
			mc.Product([]int{3, 3, 2, 2, 2, 2, 2, 2, 2}, func(ix []int) bool {
				out = append(out, spec{Mime: ix[0], Content: ix[1], Md5: ix[2] == 1, Symlink: ix[3] == 1, Extended: ix[4] == 1,
					HardLink: ix[5] == 1, Remote: ix[6] == 1, Ttl: ix[7] == 1, Names: ix[8] == 1, Chunks: n, Flavour: f})
				return true
			})
		}
	}
	return out
}

type unit struct{ kind, dir string }

type pend struct {
	v verdict
	c caseT
}

func run(r *mc.Run) {
	flib.QuietGlog()
	if r.Replay != "" {
		var c caseT
		if err := r.ReplayCase(&c); err != nil || (c.Op != "insert" && c.Op != "update") || !strings.HasPrefix(c.Dir, "/") {
			mc.Fatal("replay: bad case (%v)", err)
		}
		s := openSut(c.Store)
		defer s.close()
		var vs []verdict
		if c.Rmw != nil {
			_, vs = s.rmwRoundTrip(c.Dir, *c.Rmw)
		} else if c.Value != nil {
			_, vs = s.valueRoundTrip(c.Dir, c.Op, *c.Value)
		} else {
			_, vs, _ = s.roundTrip(c.Dir, c.Op, c.Spec, c.Prev)
		}
		for _, v := range vs {
			r.Violate(v.class, v.msg, c, nil)
		}
		r.Case("replay")
		return
	}
	r.Assume("presence domain: times are whole seconds (filer.EqualEntry compares at that precision); the value domain compares every attribute exactly, times as instants")
	r.Assume("a chunk file id 'comes back in canonical form' if FileChunk.GetFileIdString() returns the string that was written, whether the store hands back the string field or the structured fid")
	var units []unit
	if r.Quick() {
		units = []unit{{"leveldb", "/r"}, {"leveldb2", "/r"}, {"leveldb3", "/buckets/b1"}}
	} else {
		for _, k := range []string{"leveldb", "leveldb2", "leveldb3"} {
			for _, d := range []string{"/r", "/buckets/b1", "/buckets/b1/d"} {
				units = append(units, unit{k, d})
			}
		}
	}
	if pf := os.Getenv("C24_PROF"); pf != "" { // development aid
		if f, err := os.Create(pf); err == nil {
			pprof.StartCPUProfile(f)
			defer pprof.StopCPUProfile()
		}
	}
	sps := specs(r.Quick())
	r.Set("entries", len(sps))
	r.Set("read_modify_update_cases", len(rmwRefs(r.Quick())))
	r.Set("value_cases", len(valueCases)*len(baseSpecs)*2)
	r.Set("store_directory_units", len(units))
	tallies := make([]flib.Tally, len(units))
	pends := make([][]pend, len(units))
	r.Go(len(units), 16, func(i int) {
		u := units[i]
		t := flib.Tally{}
		s := openSut(u.kind)
		defer s.close()
		seen := map[string]bool{}
		for _, sp := range sps {
			for _, op := range []string{"insert", "update"} {
				class, vs, prev := s.roundTrip(u.dir, op, sp, nil)
				t.Add(class)
				for _, v := range vs {
					if !seen[v.class] {
						seen[v.class] = true
						pends[i] = append(pends[i], pend{v, caseT{Store: u.kind, Dir: u.dir, Op: op, Spec: sp, Prev: prev}})
					}
				}
			}
		}
		// read-modify-update histories
		for _, ref := range rmwRefs(r.Quick()) {
			ref := ref
			class, vs := s.rmwRoundTrip(u.dir, ref)
			t.Add(class)
			for _, v := range vs {
				if !seen[v.class] {
					seen[v.class] = true
					pends[i] = append(pends[i], pend{v, caseT{Store: u.kind, Dir: u.dir, Op: "update", Rmw: &ref}})
				}
			}
		}
		// value domain: one attribute value at a time against two base entries
		for base := range baseSpecs {
			for _, vc := range valueCases {
				for _, op := range []string{"insert", "update"} {
					ref := valueRef{vc.Attr, vc.Label, base}
					class, vs := s.valueRoundTrip(u.dir, op, ref)
					t.Add(class)
					for _, v := range vs {
						if !seen[v.class] {
							seen[v.class] = true
							pends[i] = append(pends[i], pend{v, caseT{Store: u.kind, Dir: u.dir, Op: op, Value: &ref}})
						}
					}
				}
			}
		}
		tallies[i] = t
	})
	total := flib.Tally{}
	for _, t := range tallies {
		for k, v := range t {
			total[k] += v
		}
	}
	for _, k := range total.SortedKeys() {
		r.Case(k)
		r.Cases(total[k] - 1)
	}
	shared := map[string]*sut{} // stores for the re-checks (an open costs ~0.4 s here)
	defer func() {
		for _, s := range shared {
			s.close()
		}
	}()
	for _, ps := range pends {
		for _, p := range ps {
			p := p
			r.Violate(p.v.class, p.v.msg, p.c, func() bool {
				s := shared[p.c.Store]
				if s == nil {
					s = openSut(p.c.Store)
					shared[p.c.Store] = s
				}
				var vs []verdict
				if p.c.Rmw != nil {
					_, vs = s.rmwRoundTrip(p.c.Dir, *p.c.Rmw)
				} else if p.c.Value != nil {
					_, vs = s.valueRoundTrip(p.c.Dir, p.c.Op, *p.c.Value)
				} else {
					_, vs, _ = s.roundTrip(p.c.Dir, p.c.Op, p.c.Spec, p.c.Prev)
				}
				for _, v := range vs {
					if v.class == p.v.class {
						return true
					}
				}
				return false
			})
		}
	}
	r.Sample("entry", caseT{"leveldb3", "/buckets/b1", "insert", spec{Mime: 1, Md5: true, HardLink: true, Content: 2, Chunks: 51, Flavour: 1}, nil, nil, nil})
	r.Sample("entry", caseT{"leveldb", "/r", "update", spec{Extended: true, Chunks: 2, Flavour: 4}, &spec{Chunks: 60, Flavour: 2}, nil, nil})
	r.Sample("value", caseT{Store: "leveldb2", Dir: "/r", Op: "insert", Value: &valueRef{"mode", "setuid-0755", 1}})
}
