package c24

// The read-modify-update domain: an entry is inserted, read back through the wrapper (which
// populates BOTH representations of every chunk id: the string and the structured fid), modified
// in place the way filer code modifies entries it has looked up (a chunk's FileId replaced by
// another id, a chunk's SourceFileId replaced, plain attributes changed), written with
// UpdateEntry, and read back three ways.  The "direct" variant writes a fresh chunk that carries
// a Fid and a DIFFERENT FileId string: the string is the field the serializer treats as
// authoritative, so it must come back.  Whatever comes back must be self-consistent: a chunk's
// structured fid, when present, must spell the same id as its string.

import (
	"fmt"
	"sort"
	"strings"

	"github.com/chrislusf/seaweedfs/weed/filer"
	"github.com/chrislusf/seaweedfs/weed/pb/filer_pb"
	"github.com/chrislusf/seaweedfs/weed/storage/needle"
	"github.com/chrislusf/seaweedfs/weed/util"
)

type rmwRef struct {
	Variant string `json:"variant"` // chunk-file-id | chunk-source-file-id | attributes | direct-fid-and-different-file-id
	Chunks  int    `json:"chunks"`
	Flavour int    `json:"flavour"`
}

var rmwVariants = []string{"chunk-file-id", "chunk-source-file-id", "attributes", "direct-fid-and-different-file-id"}

func rmwRefs(quick bool) []rmwRef {
	counts := []int{1, 2, 51}
	flavours := []int{0, 1, 4}
	var out []rmwRef
	for _, v := range rmwVariants {
		for _, n := range counts {
			for _, f := range flavours {
				out = append(out, rmwRef{v, n, f})
			}
		}
	}
	return out
}

func newChunkId(i int) string  { return fid(77, uint64(0xabc00+i), 0x0badf00d) }
func newSourceId(i int) string { return fid(88, uint64(0xdef00+i), 0x0c0ffee0) }

// modify applies the variant's change to an entry (the looked-up object, and the reference copy).
func rmwModify(e *filer.Entry, variant string) {
	switch variant {
	case "chunk-file-id", "direct-fid-and-different-file-id":
		for i, c := range e.Chunks {
			if i == 0 || i == len(e.Chunks)-1 {
				c.FileId = newChunkId(i)
			}
		}
	case "chunk-source-file-id":
		for i, c := range e.Chunks {
			if i == 0 || i == len(e.Chunks)-1 {
				c.SourceFileId = newSourceId(i)
			}
		}
	case "attributes":
		e.Attr.Mime = "text/html"
		e.Attr.FileSize = 999
		e.Attr.Mode = 0600
		e.Attr.Collection = "other"
	}
}

func fidString(f *filer_pb.FileId) string {
	return needle.NewFileId(needle.VolumeId(f.VolumeId), f.FileKey, f.Cookie).String()
}

func (s *sut) rmwRoundTrip(dir string, ref rmwRef) (string, []verdict) {
	ok := false
	for _, v := range rmwVariants {
		ok = ok || v == ref.Variant
	}
	if !ok || ref.Chunks < 1 || ref.Chunks > 100 || ref.Flavour < 0 || ref.Flavour > 4 {
		return "", []verdict{{"bad-case", "unknown read-modify-update case"}}
	}
	s.serial++
	name := fmt.Sprintf("m%07d", s.serial)
	path := util.NewFullPath(dir, name)
	sp := spec{Mime: 1, Chunks: ref.Chunks, Flavour: ref.Flavour}
	feat := fmt.Sprintf("%s|%s|read-modify-update|%s|chunks=%d|%s", s.kind, dirClass(dir), ref.Variant, ref.Chunks, flavourNames[ref.Flavour])
	desc := fmt.Sprintf("store %s %s %s (%d chunks, %s)", s.kind, ref.Variant, path, ref.Chunks, flavourNames[ref.Flavour])
	fail := func(class, msg string) (string, []verdict) {
		return feat + "|" + class, []verdict{{"read-modify-update:" + ref.Variant + ":" + class, desc + ": " + msg}}
	}
	want := build(path, sp, s.serial)
	rmwModify(want, ref.Variant)
	var err error
	var pn interface{}
	if ref.Variant == "direct-fid-and-different-file-id" {
		given := build(path, sp, s.serial)
		for _, c := range given.Chunks {
			if f, e := filer_pb.ToFileIdObject(c.FileId); e == nil {
				c.Fid = f // the structured fid spells the OLD id ...
			}
		}
		rmwModify(given, ref.Variant) // ... and the string a different one
		func() {
			defer func() { pn = recover() }()
			err = s.w.InsertEntry(ctx, given)
		}()
	} else {
		if e := s.w.InsertEntry(ctx, build(path, sp, s.serial)); e != nil {
			return fail("store-error", "insert: "+e.Error())
		}
		looked, e := s.w.FindEntry(ctx, path)
		if e != nil {
			return fail("store-error", "lookup: "+e.Error())
		}
		rmwModify(looked, ref.Variant) // in place, on the object the wrapper handed out
		func() {
			defer func() { pn = recover() }()
			err = s.w.UpdateEntry(ctx, looked)
		}()
	}
	if pn != nil {
		return fail("panic-on-write", fmt.Sprintf("panic %v", pn))
	}
	if err != nil {
		return fail("write-error", err.Error())
	}
	var vs []verdict
	add := func(via, d string, got *filer.Entry) {
		cl := "read-modify-update:" + ref.Variant + ":" + d
		for _, v := range vs {
			if v.class == cl {
				return
			}
		}
		first := "-"
		if len(got.Chunks) > 0 {
			first = fmt.Sprintf("FileId=%q Fid=%v SourceFileId=%q SourceFid=%v", got.Chunks[0].FileId, got.Chunks[0].Fid, got.Chunks[0].SourceFileId, got.Chunks[0].SourceFid)
		}
		wfirst := "-"
		if len(want.Chunks) > 0 {
			wfirst = fmt.Sprintf("FileId=%q SourceFileId=%q", want.Chunks[0].FileId, want.Chunks[0].SourceFileId)
		}
		vs = append(vs, verdict{cl, fmt.Sprintf("%s: read back via %s differs in %s: wrote first chunk %s, got first chunk %s; %s", desc, via, d, wfirst, first, brief(got))})
	}
	check := func(via string, got *filer.Entry) {
		if d := diff(want, got); d != "" {
			add(via, d, got)
		}
		for i, c := range got.Chunks {
			if i >= len(want.Chunks) {
				break
			}
			if c.Fid != nil && fidString(c.Fid) != want.Chunks[i].FileId {
				add(via, "chunk-structured-fid-spells-another-id", got)
			}
			if c.SourceFid != nil && want.Chunks[i].SourceFileId != "" && fidString(c.SourceFid) != want.Chunks[i].SourceFileId {
				add(via, "chunk-structured-source-fid-spells-another-id", got)
			}
		}
	}
	if got, err := s.w.FindEntry(ctx, path); err != nil {
		vs = append(vs, verdict{"find-error", fmt.Sprintf("%s: FindEntry: %v", desc, err)})
	} else {
		check("find", got)
	}
	for _, via := range []string{"list", "list-prefixed"} {
		var got []*filer.Entry
		var err error
		each := func(e *filer.Entry) bool { got = append(got, e); return true }
		if via == "list" {
			_, err = s.w.ListDirectoryEntries(ctx, util.FullPath(dir), name, true, 1, each)
		} else {
			_, err = s.w.ListDirectoryPrefixedEntries(ctx, util.FullPath(dir), name, true, 1, name, each)
		}
		switch {
		case err != nil:
			vs = append(vs, verdict{via + "-error", fmt.Sprintf("%s: %s: %v", desc, via, err)})
		case len(got) != 1:
			vs = append(vs, verdict{via + ":entry-count", fmt.Sprintf("%s: %s returned %d entries", desc, via, len(got))})
		default:
			check(via, got[0])
		}
	}
	outcome := "ok"
	if len(vs) > 0 {
		var names []string
		for _, v := range vs {
			names = append(names, v.class)
		}
		sort.Strings(names)
		outcome = strings.Join(names, "+")
	}
	return feat + "|" + outcome, vs
}
