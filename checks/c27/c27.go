// Package c27: S3 object listings are complete and paginate correctly.
//
// Real gateway over the real filer and a real volume server (E7).  For every
// small bucket tree (every subset of a 7/8-key universe, with and without a
// multipart upload in progress) every ListObjects request of a small grammar
// (prefix x delimiter x max-keys) is paginated to the end with every continuation
// style (V1 NextMarker, V1 last key, V2 continuation token, V2 start-after) and
// compared with the S3 reference listing computed from the keys that are
// readable through GET.
package c27

import (
	"encoding/xml"
	"fmt"
	"sort"
	"strings"

	"verif/checks/s3env"
	"verif/checks/s3sign"
	"verif/mc"
)

func Main() {
	mc.Main("C27", "exploration",
		"complete product: every subset of <=3 (thorough <=4) keys of {a, b, a/a, a/b, ab, a/a/a, c/ [, a.b in thorough]} x multipart upload in progress {no,yes} x prefix (every prefix of a universe key, a non-matching one, '.uploads/' and '.') x delimiter {'', '/'} x max-keys {1,2,3,1000} x continuation style {V1 NextMarker, V1 last key, V2 continuation-token, V2 start-after}; each pagination is run to the end against the reference listing; distinct = (style, delimiter, prefix shape, outcome)",
		run)
}

const host = "gw.verif:8333"

var universeQ = []string{"a", "b", "a/a", "a/b", "ab", "a/a/a", "c/"}
var universeT = []string{"a", "b", "a/a", "a/b", "ab", "a/a/a", "c/", "a.b"}

var prefixes = []string{"", "a", "a/", "a/a", "a/a/", "a/a/a", "a/b", "ab", "b", "c", "c/", "x", ".uploads/", "."}
var styles = []string{"v1-nextmarker", "v1-lastkey", "v2-token", "v2-startafter"}

type Tree struct {
	Keys   []string `json:"keys"`
	Upload bool     `json:"upload"`
}

type Query struct {
	Prefix  string `json:"prefix"`
	Delim   string `json:"delim"`
	MaxKeys int    `json:"maxkeys"`
	Style   string `json:"style"`
}

type Case struct {
	Tree  Tree  `json:"tree"`
	Query Query `json:"query"`
}

type listResult struct {
	IsTruncated           bool   `xml:"IsTruncated"`
	NextMarker            string `xml:"NextMarker"`
	NextContinuationToken string `xml:"NextContinuationToken"`
	Contents              []struct {
		Key string `xml:"Key"`
	} `xml:"Contents"`
	CommonPrefixes []struct {
		Prefix string `xml:"Prefix"`
	} `xml:"CommonPrefixes"`
}

type env struct {
	*s3env.Env
	nbucket int
}

func (e *env) req(method, bucket, key string, q []s3sign.KV, body []byte) s3env.Resp {
	r := &s3sign.Req{Method: method, Host: host, Path: "/" + bucket, Query: q, Body: body}
	if key != "" {
		r.Path += "/" + key
	}
	return e.Do(r)
}

// build creates a fresh bucket holding the tree and returns its name and the
// keys that are readable afterwards (the bucket contents in S3 terms).
func (e *env) build(t Tree) (string, []string) {
	e.nbucket++
	bucket := fmt.Sprintf("t%d", e.nbucket)
	if resp := e.req("PUT", bucket, "", nil, nil); resp.Status != 200 {
		mc.Fatal("PutBucket %s: %d %s", bucket, resp.Status, resp.Body)
	}
	e.AddCollection(bucket) // the fake master never grows volumes: give the bucket's collection one
	for _, k := range t.Keys {
		e.req("PUT", bucket, k, nil, []byte("data:"+k)) // may legitimately fail (file/directory clash)
	}
	if t.Upload {
		resp := e.req("POST", bucket, "mp/up", []s3sign.KV{{K: "uploads"}}, nil)
		var init struct {
			UploadId string `xml:"UploadId"`
		}
		if resp.Status != 200 || xml.Unmarshal(resp.Body, &init) != nil || init.UploadId == "" {
			mc.Fatal("NewMultipartUpload: %d %s", resp.Status, resp.Body)
		}
		if resp := e.req("PUT", bucket, "mp/up", []s3sign.KV{{K: "partNumber", V: "1"}, {K: "uploadId", V: init.UploadId}}, []byte("part-one")); resp.Status != 200 {
			mc.Fatal("UploadPart: %d %s", resp.Status, resp.Body)
		}
	}
	var contents []string
	for _, k := range t.Keys {
		if strings.HasSuffix(k, "/") {
			continue // directory markers are not readable objects here; their appearance in listings is not judged
		}
		resp := e.req("GET", bucket, k, nil, nil)
		if resp.Status == 200 && string(resp.Body) == "data:"+k {
			contents = append(contents, k)
		}
	}
	sort.Strings(contents)
	return bucket, contents
}

// reference: the S3 listing of contents for (prefix, delimiter).
func reference(contents []string, prefix, delim string) (keys, cps map[string]bool) {
	keys, cps = map[string]bool{}, map[string]bool{}
	for _, k := range contents {
		if !strings.HasPrefix(k, prefix) {
			continue
		}
		if delim != "" {
			rest := k[len(prefix):]
			if i := strings.Index(rest, delim); i >= 0 {
				cps[prefix+rest[:i+len(delim)]] = true
				continue
			}
		}
		keys[k] = true
	}
	return
}

func prefixShape(prefix string, contents []string) string {
	switch {
	case prefix == "":
		return "empty"
	case strings.HasPrefix(prefix, "."):
		return "internal"
	}
	match := false
	for _, k := range contents {
		if k == prefix {
			return "full-key"
		}
		if strings.HasPrefix(k, prefix) {
			match = true
		}
	}
	if !match {
		return "no-match"
	}
	if strings.HasSuffix(prefix, "/") {
		if strings.Count(prefix, "/") > 1 {
			return "nested-dir/"
		}
		return "dir/"
	}
	if strings.Contains(prefix, "/") {
		return "nested-partial"
	}
	return "partial"
}

func internal(k string) bool {
	return strings.HasPrefix(k, ".uploads") || strings.Contains(k, "/.uploads")
}

type verdict struct {
	kind, msg string
	page      int // page on which it was first seen (0: judged over the whole pagination)
}

// paginate runs one listing to its end and judges it.
func (e *env) paginate(bucket string, contents []string, t Tree, q Query) (pages int, vs []verdict) {
	wantKeys, wantCPs := reference(contents, q.Prefix, q.Delim)
	dirMarker := map[string]bool{} // directory-marker keys of the tree: optional in results
	for _, k := range t.Keys {
		if strings.HasSuffix(k, "/") {
			dirMarker[k] = true
		}
	}
	seenKeys, seenCPs := map[string]int{}, map[string]int{}
	add := func(kind, format string, a ...interface{}) {
		for _, v := range vs {
			if v.kind == kind {
				return
			}
		}
		vs = append(vs, verdict{kind, fmt.Sprintf(format, a...), pages})
	}
	cont := ""
	limit := 2*(len(wantKeys)+len(wantCPs)) + 6
	for {
		pages++
		if pages > limit {
			add("pagination-does-not-terminate", "still truncated after %d pages (%d items expected in total)", pages-1, len(wantKeys)+len(wantCPs))
			break
		}
		query := []s3sign.KV{}
		if strings.HasPrefix(q.Style, "v2") {
			query = append(query, s3sign.KV{K: "list-type", V: "2"})
		}
		if q.Prefix != "" {
			query = append(query, s3sign.KV{K: "prefix", V: q.Prefix})
		}
		if q.Delim != "" {
			query = append(query, s3sign.KV{K: "delimiter", V: q.Delim})
		}
		query = append(query, s3sign.KV{K: "max-keys", V: fmt.Sprint(q.MaxKeys)})
		if cont != "" {
			switch q.Style {
			case "v1-nextmarker", "v1-lastkey":
				query = append(query, s3sign.KV{K: "marker", V: cont})
			case "v2-token":
				query = append(query, s3sign.KV{K: "continuation-token", V: cont})
			case "v2-startafter":
				query = append(query, s3sign.KV{K: "start-after", V: cont})
			}
		}
		resp := e.req("GET", bucket, "", query, nil)
		if resp.Status != 200 {
			add("listing-fails", "page %d: status %d %.200s", pages, resp.Status, resp.Body)
			break
		}
		var lr listResult
		if err := xml.Unmarshal(resp.Body, &lr); err != nil {
			add("listing-fails", "page %d: unparsable body: %v", pages, err)
			break
		}
		if n := len(lr.Contents) + len(lr.CommonPrefixes); n > q.MaxKeys {
			add("page-exceeds-max-keys", "page %d holds %d items with max-keys=%d", pages, n, q.MaxKeys)
		}
		last := ""
		if n := len(lr.Contents); n > 0 {
			last = lr.Contents[n-1].Key // the last key of the page, in the order the server returned them
		}
		for _, c := range lr.Contents {
			k := c.Key
			switch {
			case internal(k):
				add("lists-upload-internals", "page %d lists %q", pages, k)
			case !strings.HasPrefix(k, q.Prefix):
				add("key-outside-prefix", "page %d lists %q for prefix %q", pages, k, q.Prefix)
			case dirMarker[k]:
			case !wantKeys[k]:
				add("unexpected-key", "page %d lists %q which the reference listing does not contain (contents %v)", pages, k, contents)
			default:
				seenKeys[k]++
			}
		}
		for _, c := range lr.CommonPrefixes {
			p := c.Prefix
			switch {
			case internal(p):
				add("lists-upload-internals", "page %d lists common prefix %q", pages, p)
			case !strings.HasPrefix(p, q.Prefix):
				add("key-outside-prefix", "page %d lists common prefix %q for prefix %q", pages, p, q.Prefix)
			case q.Delim == "":
				add("common-prefix-without-delimiter", "page %d lists common prefix %q although no delimiter was given", pages, p)
			case wantCPs[p]:
				seenCPs[p]++
			case dirMarker[p]:
			default:
				add("unexpected-common-prefix", "page %d lists common prefix %q which the reference listing does not contain (contents %v)", pages, p, contents)
			}
		}
		if !lr.IsTruncated {
			break
		}
		switch q.Style {
		case "v1-nextmarker":
			cont = lr.NextMarker
		case "v2-token":
			cont = lr.NextContinuationToken
		default: // last key / last common prefix of the page
			cont = last
		}
		if cont == "" {
			add("truncated-without-continuation", "page %d is truncated but offers nothing to continue from", pages)
			break
		}
	}
	if len(vs) == 0 || (vs[0].kind != "pagination-does-not-terminate" && vs[0].kind != "listing-fails") {
		for k := range wantKeys {
			switch n := seenKeys[k]; {
			case n == 0:
				add("key-missing", "key %q never listed (contents %v)", k, contents)
			case n > 1:
				add("key-duplicated", "key %q listed %d times", k, n)
			}
		}
		for p := range wantCPs {
			switch n := seenCPs[p]; {
			case n == 0:
				add("common-prefix-missing", "common prefix %q never listed (contents %v)", p, contents)
			case n > 1:
				add("common-prefix-duplicated", "common prefix %q listed %d times", p, n)
			}
		}
	}
	sort.Slice(vs, func(i, j int) bool { return vs[i].kind < vs[j].kind })
	return
}

// class: the continuation style is part of the class only when a continuation
// was involved (the defect showed after the first page).
func class(v verdict, q Query, shape string, totalPages int) string {
	mk := "many"
	if q.MaxKeys < 1000 {
		mk = "small"
	}
	cont := q.Style
	if v.page == 1 || totalPages == 1 {
		cont = "none"
	}
	return fmt.Sprintf("%s:cont=%s:delim=%q:prefix=%s:max-keys=%s", v.kind, cont, q.Delim, shape, mk)
}

func trees(r *mc.Run) []Tree {
	uni := universeQ
	maxK := 3
	if r.Thorough() {
		uni, maxK = universeT, 4
	}
	var out []Tree
	mc.Subsets(len(uni), func(mask int) bool {
		var ks []string
		for i, k := range uni {
			if mask&(1<<uint(i)) != 0 {
				ks = append(ks, k)
			}
		}
		if len(ks) <= maxK {
			out = append(out, Tree{ks, false}, Tree{ks, true})
		}
		return true
	})
	sort.SliceStable(out, func(i, j int) bool { return len(out[i].Keys) < len(out[j].Keys) })
	return out
}

func queries() []Query {
	var out []Query
	for _, p := range prefixes {
		for _, d := range []string{"", "/"} {
			for _, mk := range []int{1, 2, 3, 1000} {
				for _, st := range styles {
					if (st == "v1-lastkey" || st == "v2-startafter") && d != "" { // "last key" is only well defined without a delimiter (S3 then tells clients to use NextMarker / the token)
						continue // with a delimiter S3 returns NextMarker: same as v1-nextmarker
					}
					out = append(out, Query{p, d, mk, st})
				}
			}
		}
	}
	return out
}

func (e *env) runTree(r *mc.Run, t Tree, only *Query, nviol map[string]int) {
	bucket, contents := e.build(t)
	r.Add("trees", 1)
	qs := queries()
	if only != nil {
		qs = []Query{*only}
	}
	for _, q := range qs {
		pages, vs := e.paginate(bucket, contents, t, q)
		shape := prefixShape(q.Prefix, contents)
		outcome := "ok"
		if len(vs) > 0 {
			var ks []string
			for _, v := range vs {
				ks = append(ks, v.kind)
			}
			outcome = strings.Join(ks, "+")
		}
		r.Case(fmt.Sprintf("%s|%q|%s|mk=%d|upload=%v|%s", q.Style, q.Delim, shape, q.MaxKeys, t.Upload, outcome))
		r.Add("pages", int64(pages))
		r.Sample(outcome, map[string]interface{}{"tree": t, "contents": contents, "query": q, "pages": pages})
		for _, v := range vs {
			v := v
			c := class(v, q, shape, pages)
			nviol[c]++
			var recheck func() bool
			if nviol[c] == 1 {
				q := q
				recheck = func() bool {
					_, again := e.paginate(bucket, contents, t, q)
					for _, a := range again {
						if a.kind == v.kind {
							return true
						}
					}
					return false
				}
			}
			r.Violate(c, fmt.Sprintf("tree %v (upload in progress: %v), contents %v, %+v: %s", t.Keys, t.Upload, contents, q, v.msg), Case{t, q}, recheck)
		}
	}
}

func newEnv() *env {
	return &env{Env: s3env.New(s3env.Options{})}
}

func run(r *mc.Run) {
	mc.QuietGlog()
	if r.Replay != "" {
		var c Case
		if err := r.ReplayCase(&c); err != nil {
			mc.Fatal("replay: %v", err)
		}
		e := newEnv()
		defer e.Close()
		e.runTree(r, c.Tree, &c.Query, map[string]int{})
		return
	}
	r.Assume("bucket contents = the keys of the tree that are readable through GET after all PUTs (a key that clashes with a directory of the same name is not stored by the filer and is not part of the contents)")
	r.Assume("directory-marker keys (trailing '/') are not judged: they may or may not appear")
	r.Assume("authentication disabled; default gateway options (allowEmptyFolder=false); one volume per bucket")
	ts := trees(r)
	r.Set("trees_total", len(ts))
	r.Set("queries_per_tree", len(queries()))
	r.Parallel("trees", 16, func(shard, n int) {
		e := newEnv()
		defer e.Close()
		nviol := map[string]int{}
		for i, t := range ts {
			if i%n != shard {
				continue
			}
			if !r.Begin(t) {
				continue
			}
			e.runTree(r, t, nil, nviol)
		}
	})
}
