// Package s3routes finds the routes registered on the real S3 mux router by
// walking it, and for each route the simplest request (of a small request
// grammar) that the router dispatches to it.  It also holds the oracle's table
// S3 operation -> acceptable SeaweedFS actions.  Used by C26 and C29.
package s3routes

import (
	"fmt"
	"sort"
	"strings"

	"github.com/gorilla/mux"

	"verif/checks/s3sign"
	"verif/mc"
)

// ---- operations (oracle table: S3 operation -> acceptable SeaweedFS actions) --------

type OpInfo struct {
	Name    string
	Need    []string
	SrcRead bool
	Service bool
}

// Keyed by the shape of the simplest request that reaches a route:
// method|path kind|query keys|header kind.  Where the SeaweedFS action for an
// operation is debatable the set is the lenient one (any listed action suffices).
var OpTable = map[string]OpInfo{
	"HEAD|object||":                       {"HeadObject", []string{"Read"}, false, false},
	"HEAD|bucket||":                       {"HeadBucket", []string{"Admin", "List", "Read"}, false, false},
	"PUT|object|partNumber,uploadId|copy": {"CopyObjectPart", []string{"Write"}, true, false},
	"PUT|object|partNumber,uploadId|":     {"PutObjectPart", []string{"Write"}, false, false},
	"POST|object|uploadId|":               {"CompleteMultipartUpload", []string{"Write"}, false, false},
	"POST|object|uploads|":                {"NewMultipartUpload", []string{"Write"}, false, false},
	"DELETE|object|uploadId|":             {"AbortMultipartUpload", []string{"Write"}, false, false},
	"GET|object|uploadId|":                {"ListObjectParts", []string{"Read", "List", "Write"}, false, false},
	"GET|bucket|uploads|":                 {"ListMultipartUploads", []string{"Read", "List", "Write"}, false, false},
	"GET|object|tagging|":                 {"GetObjectTagging", []string{"Read", "Tagging"}, false, false},
	"PUT|object|tagging|":                 {"PutObjectTagging", []string{"Tagging", "Write"}, false, false},
	"DELETE|object|tagging|":              {"DeleteObjectTagging", []string{"Tagging", "Write"}, false, false},
	"PUT|object||copy":                    {"CopyObject", []string{"Write"}, true, false},
	"PUT|object||":                        {"PutObject", []string{"Write"}, false, false},
	"PUT|bucket||":                        {"PutBucket", []string{"Admin", "Write"}, false, false},
	"DELETE|object||":                     {"DeleteObject", []string{"Write"}, false, false},
	"DELETE|bucket||":                     {"DeleteBucket", []string{"Admin", "Write"}, false, false},
	"GET|bucket|list-type|":               {"ListObjectsV2", []string{"List"}, false, false},
	"GET|object||":                        {"GetObject", []string{"Read"}, false, false},
	"GET|bucket||":                        {"ListObjectsV1", []string{"List"}, false, false},
	"POST|bucket||form":                   {"PostPolicy", []string{"Write"}, false, false},
	"POST|bucket|delete|":                 {"DeleteMultipleObjects", []string{"Write"}, false, false},
	"GET|service||":                       {"ListBuckets", nil, false, true},
}

// ---- probes: a small request grammar used to find, for every walked route, the
// simplest request the router dispatches to it -----------------------------------------

type Probe struct {
	Method string
	Path   string // service | bucket | object
	Query  []s3sign.KV
	Hdr    string // "" | copy | form
	Host   string // path | vhost | vhostport
}

func (p Probe) Sig() string {
	var ks []string
	for _, q := range p.Query {
		ks = append(ks, q.K)
	}
	sort.Strings(ks)
	return p.Method + "|" + p.Path + "|" + strings.Join(ks, ",") + "|" + p.Hdr
}

var probeQueries = [][]s3sign.KV{
	nil,
	{{K: "uploads"}},
	{{K: "uploadId", V: "u1"}},
	{{K: "tagging"}},
	{{K: "delete"}},
	{{K: "list-type", V: "2"}},
	{{K: "partNumber", V: "1"}, {K: "uploadId", V: "u1"}},
}

func AllProbes(hosts []string) []Probe {
	var out []Probe
	for _, host := range hosts {
		for _, hdr := range []string{"", "copy", "form"} {
			for _, q := range probeQueries {
				for _, path := range []string{"service", "bucket", "object"} {
					if path == "service" && host != "path" {
						continue // a virtual-host request always names a bucket
					}
					for _, m := range []string{"GET", "HEAD", "PUT", "POST", "DELETE"} {
						out = append(out, Probe{m, path, q, hdr, host})
					}
				}
			}
		}
	}
	return out
}

const (
	DomainName = "s3.verif"
	S3Port     = 8333
	PathHost   = "gw.verif:8333"
	Region     = "us-east-1"
)

// baseReq renders a probe for a bucket.
func BaseReq(p Probe, bucket, src string) *s3sign.Req {
	r := &s3sign.Req{Method: p.Method}
	obj := ""
	switch p.Path {
	case "object":
		obj = "/o"
	}
	switch p.Host {
	case "vhost":
		r.Host = bucket + "." + DomainName
		r.Path = "/" + strings.TrimPrefix(obj, "/")
		r.VhostBucket = bucket
	case "vhostport":
		r.Host = fmt.Sprintf("%s.%s:%d", bucket, DomainName, S3Port)
		r.Path = "/" + strings.TrimPrefix(obj, "/")
		r.VhostBucket = bucket
	default:
		r.Host = PathHost
		if p.Path == "service" {
			r.Path = "/"
		} else {
			r.Path = "/" + bucket + obj
		}
	}
	r.Query = append([]s3sign.KV(nil), p.Query...)
	switch p.Hdr {
	case "copy":
		r.Set("X-Amz-Copy-Source", "/"+src+"/src")
	case "form":
		r.Body, r.Header = s3sign.MultipartBody([]s3sign.KV{{K: "key", V: "o"}}, []byte("form-file"), r.Header)
	}
	return r
}

type Route struct {
	Idx   int
	Name  string // operation name + host kind
	Op    OpInfo
	Probe Probe
	Mux   *mux.Route
}

// Discover walks the router and finds the simplest probe dispatched to each
// route that has a handler.  A route no probe reaches, or one reached by a
// request shape the table does not know, is an infrastructure error: the harness
// must be extended.
func Discover(router *mux.Router, domain bool) []Route {
	var routes []Route
	var leaves []*mux.Route
	router.Walk(func(rt *mux.Route, _ *mux.Router, _ []*mux.Route) error {
		if rt.GetHandler() != nil {
			leaves = append(leaves, rt)
		}
		return nil
	})
	hosts := []string{"path"}
	if domain {
		hosts = []string{"path", "vhost", "vhostport"}
	}
	probes := AllProbes(hosts)
	found := map[*mux.Route]Probe{}
	for _, p := range probes {
		req, err := BaseReq(p, "b1", "b1").HTTP()
		if err != nil {
			mc.Fatal("probe %v: %v", p, err)
		}
		var m mux.RouteMatch
		if router.Match(req, &m) && m.Route != nil && m.MatchErr == nil {
			if _, ok := found[m.Route]; !ok {
				found[m.Route] = p
			}
		}
	}
	for i, rt := range leaves {
		p, ok := found[rt]
		if !ok {
			tpl, _ := rt.GetPathTemplate()
			ms, _ := rt.GetMethods()
			qs, _ := rt.GetQueriesTemplates()
			ht, _ := rt.GetHostTemplate()
			mc.Fatal("registered route #%d (%v %s %s ?%v) is reached by no request of the probe grammar: extend checks/s3routes", i, ms, ht, tpl, qs)
		}
		op, ok := OpTable[p.Sig()]
		if !ok {
			mc.Fatal("route #%d is first reached by request shape %q which the oracle table does not know: extend checks/s3routes", i, p.Sig())
		}
		name := op.Name
		if p.Host != "path" {
			name += "@" + p.Host
		}
		routes = append(routes, Route{Idx: i, Name: name, Op: op, Probe: p, Mux: rt})
	}
	return routes
}

// Dispatch returns the route the router sends this request to (nil: none).
func Dispatch(router *mux.Router, routes []Route, r *s3sign.Req) *Route {
	req, err := r.HTTP()
	if err != nil {
		mc.Fatal("cannot parse generated request: %v", err)
	}
	var m mux.RouteMatch
	if !router.Match(req, &m) || m.Route == nil || m.MatchErr != nil {
		return nil
	}
	for i := range routes {
		if routes[i].Mux == m.Route {
			return &routes[i]
		}
	}
	return nil
}

var _ = fmt.Sprint
var _ = sort.Strings
var _ = strings.Join
