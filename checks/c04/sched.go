package c04

// Part (b) of C04 (coordinator's part): writes and deletes that race the
// compaction copy itself.  Runs in the `sched` group binary, where vrewrite has
// put a yield point before every statement of Compact, Compact2,
// copyDataBasedOnIndexFile, copyDataAndGenerateIndexFile, the vacuum scanner's
// VisitNeedle and makeupDiff, and where the volume's locks are scheduling
// points.  A writer thread is interleaved at every one of those points.

import (
	"fmt"
	"os"
	"sort"
	"strconv"
	"strings"

	"verif/mc"
	"verif/shim/vsched"

	"github.com/chrislusf/seaweedfs/weed/storage"
	"github.com/chrislusf/seaweedfs/weed/storage/needle"
	"github.com/chrislusf/seaweedfs/weed/storage/super_block"
	"github.com/chrislusf/seaweedfs/weed/storage/types"
)

type sop struct {
	Kind string `json:"k"` // W, D or R (read by the client thread)
	Key  uint64 `json:"key"`
	Data string `json:"d,omitempty"`
}

type schedCase struct {
	Algo    int   `json:"algo"` // 1 = Compact (scan), 2 = Compact2 (index based)
	Writer  []sop `json:"writer"`
	Choices []int `json:"choices,omitempty"`
}

var schedScratch string

const schedCookie = 0x77

func sNewVolume() *storage.Volume {
	os.RemoveAll(schedScratch)
	os.MkdirAll(schedScratch, 0755)
	v, err := storage.NewVolume(schedScratch, schedScratch, "", 1, storage.NeedleMapInMemory, &super_block.ReplicaPlacement{}, needle.EMPTY_TTL, 0, 0)
	if err != nil {
		panic(fmt.Sprintf("NewVolume: %v", err))
	}
	return v
}

func sDo(v *storage.Volume, o sop) string {
	if o.Kind == "R" {
		n := &needle.Needle{Id: types.NeedleId(o.Key), Cookie: schedCookie}
		if _, err := v.SchedReadV(n, nil); err != nil {
			if err == storage.ErrorNotFound || err == storage.ErrorDeleted {
				return "unreadable"
			}
			return "error(" + err.Error() + ")"
		}
		return "data:" + string(n.Data)
	}
	if o.Kind == "W" {
		n := &needle.Needle{Id: types.NeedleId(o.Key), Cookie: schedCookie, Data: []byte(o.Data)}
		n.Checksum = needle.NewCRC(n.Data)
		_, _, _, err := v.SchedWriteV(n, false)
		if err != nil {
			return "err:" + err.Error()
		}
		return "ok"
	}
	n := &needle.Needle{Id: types.NeedleId(o.Key), Cookie: schedCookie}
	_, err := v.SchedDeleteV(n)
	if err != nil {
		return "err:" + err.Error()
	}
	return "ok"
}

func sReadAll(v *storage.Volume) string {
	var parts []string
	for k := uint64(1); k <= 4; k++ {
		n := &needle.Needle{Id: types.NeedleId(k), Cookie: schedCookie}
		_, err := v.SchedReadV(n, nil)
		if err != nil {
			// the statement speaks about the set of readable ids and their contents:
			// "not found" and "already deleted" are the same observation
			if err == storage.ErrorNotFound || err == storage.ErrorDeleted {
				parts = append(parts, fmt.Sprintf("%d=unreadable", k))
			} else {
				parts = append(parts, fmt.Sprintf("%d=error(%s)", k, err.Error()))
			}
		} else {
			parts = append(parts, fmt.Sprintf("%d=data:%s", k, n.Data))
		}
	}
	return strings.Join(parts, " ")
}

// the volume before the round: k1 live, k2 written then deleted, k3 overwritten once (garbage), k4 absent
func sPrepare(v *storage.Volume) {
	sDo(v, sop{"W", 1, "one"})
	sDo(v, sop{"W", 2, "two"})
	sDo(v, sop{"D", 2, ""})
	sDo(v, sop{"W", 3, "old"})
	sDo(v, sop{"W", 3, "three"})
}

// phased: every sequential execution of the round with the writer's ops split into
// [before Compact | between Compact and CommitCompact | after CommitCompact], on the
// real volume with the real compaction.  Sequential defects of compaction (part (a)
// of this check) are thereby not re-reported here: part (b) reports only outcomes
// that NO phased order produces, i.e. effects of the race itself.
func sPhased(c schedCase) map[string]string {
	out := map[string]string{}
	nw := len(c.Writer)
	for i := 0; i <= nw; i++ {
		for j := i; j <= nw; j++ {
			var sig string
			x, _ := mc.RunOne(nil, nil, 50000, nil, func() {
				v := sNewVolume()
				sPrepare(v)
				var res []string
				for _, o := range c.Writer[:i] {
					res = append(res, sDo(v, o))
				}
				var cerr, merr string
				var err error
				if c.Algo == 1 {
					err = v.Compact(0, 0)
				} else {
					err = v.Compact2(0, 0)
				}
				if err != nil {
					cerr = err.Error()
				}
				for _, o := range c.Writer[i:j] {
					res = append(res, sDo(v, o))
				}
				if cerr == "" {
					if err = v.CommitCompact(); err != nil {
						merr = err.Error()
					}
				}
				for _, o := range c.Writer[j:] {
					res = append(res, sDo(v, o))
				}
				_ = merr
				sig = fmt.Sprintf("%s | ops=%v", sReadAll(v), res)
				v.Destroy()
			})
			if x.Sched.Outcome != "" {
				mc.Fatal("C04 phased run did not complete: %s", x.Sched.Outcome)
			}
			out[sig] = fmt.Sprintf("before=%d between=%d after=%d", i, j-i, nw-j)
		}
	}
	return out
}

type schedObs struct {
	final      string
	compactErr string
	commitErr  string
	results    []string
}

func schedExecute(c schedCase, o *schedObs) {
	v := sNewVolume()
	sPrepare(v)
	done := 0
	vsched.Go(func() { // compaction round, as VolumeServer.VacuumVolumeCompact + VacuumVolumeCommit do
		var err error
		if c.Algo == 1 {
			err = v.Compact(0, 0)
		} else {
			err = v.Compact2(0, 0)
		}
		if err != nil {
			o.compactErr = err.Error()
		} else if err = v.CommitCompact(); err != nil {
			o.commitErr = err.Error()
		}
		done++
	})
	vsched.Go(func() {
		for _, op := range c.Writer {
			o.results = append(o.results, sDo(v, op))
		}
		done++
	})
	vsched.PointWhen("join", func() bool { return done == 2 })
	o.final = sReadAll(v)
	v.Destroy()
}

func schedSig(o *schedObs) string { return fmt.Sprintf("%s | ops=%v", o.final, o.results) }

func schedJudge(c schedCase, phased map[string]string, o *schedObs) (string, string) {
	if _, ok := phased[schedSig(o)]; ok {
		return "", ""
	}
	var ops []string
	for _, w := range c.Writer {
		ops = append(ops, w.Kind)
	}
	var ph []string
	for k := range phased {
		ph = append(ph, k)
	}
	sort.Strings(ph)
	return fmt.Sprintf("racing-compaction:outcome-of-no-phased-order:algo=%d:writer=%s", c.Algo, strings.Join(ops, "")),
		fmt.Sprintf("got %q (compactErr=%q commitErr=%q); phased orders give %q", schedSig(o), o.compactErr, o.commitErr, ph)
}

// Schedules is the body of the "sched" phase (runs inside the sched group binary).
func Schedules(r *mc.Run, shard, n int) {
	schedScratch = mc.TempDir("c04s")
	defer os.RemoveAll(schedScratch)
	al := []sop{{"W", 1, "ONE"}, {"D", 1, ""}, {"W", 2, "TWO"}, {"D", 3, ""}, {"W", 4, "four"}, {"W", 4, ""}}
	// reads by the client racing with the round (added after seed C38c): a live untouched key and
	// a key whose record moves in the compacted file must read the same in every interleaving
	al = append(al, sop{"R", 1, ""}, sop{"R", 3, ""})
	var cases []schedCase
	for algo := 1; algo <= 2; algo++ {
		for _, a := range al {
			cases = append(cases, schedCase{Algo: algo, Writer: []sop{a}})
		}
		if r.Thorough() {
			for _, a := range al {
				for _, b := range al {
					cases = append(cases, schedCase{Algo: algo, Writer: []sop{a, b}})
				}
			}
		} else {
			// quick: the pairs that touch one key twice (delete + rewrite, write + delete)
			cases = append(cases, schedCase{Algo: algo, Writer: []sop{al[1], al[0]}}, schedCase{Algo: algo, Writer: []sop{al[4], al[5]}})
		}
	}
	bound := r.Pick(1, 2)
	r.Set("sched_cases", len(cases))
	r.Set("sched_preemption_bound", bound)
	for i, c := range cases {
		if i%n != shard || !r.Begin(c) {
			continue
		}
		if r.Expired() {
			r.NotExhaustive("wall-clock budget: not all racing-compaction cases explored")
			break
		}
		twin := sPhased(c)
		var o schedObs
		finals := map[string]bool{}
		b := bound
		st := mc.Explore(b, 50000, nil,
			func() { o = schedObs{}; schedExecute(c, &o) },
			func(x *mc.Exec) {
				w := c
				w.Choices = append([]int{}, x.Choices...)
				wit := map[string]interface{}{"kind": "schedule", "case": w}
				if x.Sched.Outcome != "" {
					r.Violate("sched-"+strings.SplitN(x.Sched.Outcome, ":", 2)[0], x.Sched.Outcome, wit, nil)
					return
				}
				finals[o.final] = true
				if cl, msg := schedJudge(c, twin, &o); cl != "" {
					r.Violate(cl, msg, wit, func() bool {
						var o2 schedObs
						mc.RunOne(w.Choices, nil, 50000, nil, func() { o2 = schedObs{}; schedExecute(c, &o2) })
						c2, _ := schedJudge(c, twin, &o2)
						return c2 == cl
					})
				}
			}, r.Expired)
		if !st.Complete {
			r.NotExhaustive("wall-clock budget inside a racing-compaction case")
		}
		r.Cases(st.Executions)
		r.AddStates(st.Executions)
		r.AddTransitions(st.Points + st.Executions)
		r.Add("sched_executions", st.Executions)
		for k, v := range st.ByCost {
			r.Add("sched_executions_with_"+strconv.Itoa(k)+"_preemptions", v)
		}
		var ops []string
		for _, w := range c.Writer {
			ops = append(ops, fmt.Sprintf("%s%d", w.Kind, w.Key))
		}
		sort.Strings(ops)
		r.Distinct(fmt.Sprintf("sched|algo=%d|writer=%v|finals=%d", c.Algo, ops, len(finals)))
		r.Sample("racing-compaction", map[string]interface{}{"algo": c.Algo, "writer": c.Writer, "executions": st.Executions, "max_choice_points": st.MaxLen})
	}
}

// ReplaySchedule re-executes one recorded racing-compaction case.
func ReplaySchedule(r *mc.Run) bool {
	var w struct {
		Kind string    `json:"kind"`
		Case schedCase `json:"case"`
	}
	if err := r.ReplayCase(&w); err != nil || w.Kind != "schedule" {
		return false
	}
	mc.ReexecIn("VERIF_BIN_sched") // schedules only make sense in the overlay build
	schedScratch = mc.TempDir("c04s")
	defer os.RemoveAll(schedScratch)
	twin := sPhased(w.Case)
	var o schedObs
	x, _ := mc.RunOne(w.Case.Choices, nil, 50000, func(s *vsched.Sched) { s.KeepTrace = true }, func() { o = schedObs{}; schedExecute(w.Case, &o) })
	fmt.Println("trace:", strings.Join(x.Sched.Trace, " "))
	fmt.Printf("obs: %+v\nphased: %v\n", o, twin)
	if x.Sched.Outcome != "" {
		r.Violate("sched-"+strings.SplitN(x.Sched.Outcome, ":", 2)[0], x.Sched.Outcome, w, nil)
	} else if cl, msg := schedJudge(w.Case, twin, &o); cl != "" {
		r.Violate(cl, msg, w, nil)
	}
	return true
}

// SchedReplayMain replays one recorded case (debug aid).
func SchedReplayMain() {
	mc.Main("C04", "model_checking", "racing-compaction replay (debug)", func(r *mc.Run) {
		mc.QuietGlog()
		ReplaySchedule(r)
	})
}

// SchedOnlyMain runs only part (b) (debug aid: `bin/sched C04S quick`).
func SchedOnlyMain() {
	mc.Main("C04", "model_checking", "racing-compaction half only (debug)", func(r *mc.Run) {
		mc.QuietGlog()
		r.WorkerProcs = 1
		r.Parallel("sched", 16, func(shard, n int) { Schedules(r, shard, n) })
	})
}
