// Package c04: compaction is invisible to readers — part (a): phased
// sequential histories.  Operations before the compaction pass, operations
// after the pass returned but before CommitCompact (these go through
// makeupDiff), both algorithms, TTL and non-TTL volumes, client-supplied
// LastModified, empty blobs.  Oracle: a twin volume that receives the same
// operations and is never compacted.
package c04

import (
	"fmt"
	"os"
	"runtime"
	"strings"
	"time"

	"verif/checks/volkit"
	"verif/mc"

	"github.com/chrislusf/seaweedfs/weed/storage"
	"github.com/chrislusf/seaweedfs/weed/storage/needle"
)

func Main() {
	mc.Main("C04", "model_checking",
		"phased histories (pre-compaction ops; Compact or Compact2; ops between the end of the copy and CommitCompact; CommitCompact) over {write(key, payload empty|small, LastModified now|now-2h client supplied), delete(key)} on a real Store volume and on a twin volume that is never compacted; volume TTL none|1h; after the commit every key is read on both volumes and all read fields must be equal",
		run)
}

type Op struct {
	Kind    string `json:"op"` // W D
	Key     uint64 `json:"key"`
	Payload int    `json:"payload,omitempty"` // 0 empty, 1 small
	OldLM   bool   `json:"old_last_modified,omitempty"`
}

func (o Op) String() string {
	if o.Kind == "D" {
		return fmt.Sprintf("D(k%d)", o.Key)
	}
	lm := ""
	if o.OldLM {
		lm = ",lm-2h"
	}
	return fmt.Sprintf("W(k%d,p%d%s)", o.Key, o.Payload, lm)
}

type Case struct {
	Ttl    string `json:"volume_ttl"`
	Algo   string `json:"algorithm"` // Compact | Compact2
	Pre    []Op   `json:"pre"`
	During []Op   `json:"during"`
	NKeys  int    `json:"keys"`
}

const cookie = 0x0c040c04

func events(nkeys int, ttlVolume bool) []Op {
	var evs []Op
	lms := []bool{false}
	if ttlVolume {
		lms = []bool{false, true}
	}
	for _, p := range []int{1, 0} {
		for _, lm := range lms {
			for k := 1; k <= nkeys; k++ {
				evs = append(evs, Op{Kind: "W", Key: uint64(k), Payload: p, OldLM: lm})
			}
		}
	}
	for k := 1; k <= nkeys; k++ {
		evs = append(evs, Op{Kind: "D", Key: uint64(k)})
	}
	return evs
}

type runner struct {
	e      *volkit.Env
	r      *mc.Run
	states map[string]struct{}
	// twin results cached by (ttl, op sequence): the twin does not depend on where
	// the history is split or on the algorithm
	twinKey  string
	twinRead map[uint64]volkit.ReadRes
}

func blob(o Op, i int, now uint64) volkit.Blob {
	b := volkit.Blob{Name: fmt.Sprintf("f%d", o.Key), Mime: "x/y", HTTPLike: true}
	if o.Payload == 1 {
		b.Data = []byte(fmt.Sprintf("v%d-of-k%d", i, o.Key))
	}
	b.LastModified = now
	if o.OldLM {
		b.LastModified = now - 7200
	}
	return b
}

func applyOp(e *volkit.Env, vid needle.VolumeId, o Op, i int, now uint64) string {
	if o.Kind == "W" {
		_, err := e.Write(vid, o.Key, cookie, blob(o, i, now))
		return volkit.ErrClass(err)
	}
	out, _ := e.DeleteLikeHandler(vid, o.Key, cookie)
	return out
}

func readAll(e *volkit.Env, vid needle.VolumeId, nkeys int) map[uint64]volkit.ReadRes {
	m := map[uint64]volkit.ReadRes{}
	for k := 1; k <= nkeys; k++ {
		got, _ := e.Read(vid, uint64(k), cookie)
		if got.Err == "notfound" || got.Err == "deleted" {
			got.Err = "gone"
		}
		m[uint64(k)] = got
	}
	return m
}

func shape(e *volkit.Env, vid needle.VolumeId, nkeys int) string {
	v := e.Store.GetVolume(vid)
	var sb strings.Builder
	fmt.Fprintf(&sb, "%d,%d,%d,%d;", v.FileCount(), v.DeletedCount(), v.ContentSize(), v.DeletedSize())
	for k := 1; k <= nkeys; k++ {
		got, _ := e.Read(vid, uint64(k), cookie)
		fmt.Fprintf(&sb, "k%d=%s|%d|%v;", k, got.Err, len(got.Data), got.LastModified != 0 && got.LastModified+3600 < procNow)
	}
	return sb.String()
}

// LastModified "now": one value per process, so that a volume and its (cached)
// twin always receive identical needles.
var procNow = uint64(time.Now().Unix())

type verdict struct {
	class, msg string
}

// lastOpOn finds the last operation on key k and its phase.
func lastOpOn(c Case, k uint64) (Op, string, bool) {
	for i := len(c.During) - 1; i >= 0; i-- {
		if c.During[i].Key == k {
			return c.During[i], "during", true
		}
	}
	for i := len(c.Pre) - 1; i >= 0; i-- {
		if c.Pre[i].Key == k {
			return c.Pre[i], "pre", true
		}
	}
	return Op{}, "", false
}

func opName(o Op) string {
	if o.Kind == "D" {
		return "delete"
	}
	if o.Payload == 0 {
		return "write-empty"
	}
	return "write"
}

func (rn *runner) runCase(c Case, count bool) (vs []verdict) {
	e := rn.e
	a := e.NewVolume(c.Ttl)
	defer e.Drop(a)
	now := procNow
	states := func(tag string) {
		if count {
			rn.states[tag+"|"+shape(e, a, c.NKeys)] = struct{}{}
		}
	}
	trans := int64(0)
	all := append(append([]Op{}, c.Pre...), c.During...)
	for i, o := range c.Pre {
		applyOp(e, a, o, i, now)
		trans++
		states("pre")
	}
	va := e.Store.GetVolume(a)
	var err error
	if c.Algo == "Compact" {
		err = va.Compact(0, 0)
	} else {
		err = va.Compact2(0, 0)
	}
	trans++
	if err != nil {
		return []verdict{{"compaction-pass-fails:" + c.Algo, err.Error()}}
	}
	states("copied")
	for i, o := range c.During {
		applyOp(e, a, o, len(c.Pre)+i, now)
		trans++
		states("during")
	}
	if err := va.CommitCompact(); err != nil {
		return []verdict{{"commit-fails:" + c.Algo, volkit.ErrClass(err)}}
	}
	trans++
	states("committed")
	got := readAll(e, a, c.NKeys)

	// the twin: same operations, never compacted
	tk := c.Ttl + "|" + fmt.Sprint(all)
	if rn.twinKey != tk {
		b := e.NewVolume(c.Ttl)
		for i, o := range all {
			applyOp(e, b, o, i, now)
		}
		rn.twinRead = readAll(e, b, c.NKeys)
		rn.twinKey = tk
		e.Drop(b)
	}
	want := rn.twinRead
	if count {
		rn.r.AddTransitions(trans)
	}
	for k := uint64(1); k <= uint64(c.NKeys); k++ {
		g, w := got[k], want[k]
		if g == w {
			continue
		}
		sym := "content-differs"
		served := w // the version whose fate is at stake: what the twin serves ...
		switch {
		case w.Err == "" && g.Err == "gone":
			sym = "lost"
		case w.Err == "gone" && g.Err == "":
			sym = "resurrected"
			served = g // ... or what came back
		case g.Err != "" && g.Err != "gone":
			sym = "read-error"
		}
		vs = append(vs, verdict{sym + ":" + c.Algo + ":" + versionFeatures(c, all, k, served),
			fmt.Sprintf("key %d after CommitCompact reads %+v, on the never-compacted twin %+v", k, g, w)})
	}
	return vs
}

// versionOf finds the operation that wrote the version of key k a read returned.
func versionOf(all []Op, k uint64, rr volkit.ReadRes) int {
	if rr.Err != "" {
		return -1
	}
	if rr.Data == "" {
		for i := len(all) - 1; i >= 0; i-- {
			if all[i].Key == k && all[i].Kind == "W" && all[i].Payload == 0 {
				return i
			}
		}
		return -1
	}
	var i, kk int
	if _, err := fmt.Sscanf(rr.Data, "v%d-of-k%d", &i, &kk); err != nil || i >= len(all) {
		return -1
	}
	return i
}

// versionFeatures names the input family of a deviation on key k from the
// case's own features: which kind of blob, written in which phase, with which
// LastModified, and whether its record lies behind the record of a higher key.
func versionFeatures(c Case, all []Op, k uint64, rr volkit.ReadRes) string {
	i := versionOf(all, k, rr)
	if i < 0 {
		return "version-unknown"
	}
	o := all[i]
	phase := "pre"
	if i >= len(c.Pre) {
		phase = "during"
	}
	f := "blob=nonempty@" + phase
	if o.Payload == 0 {
		f = "blob=empty@" + phase
	}
	oldLM := o.OldLM && c.Ttl != "" && o.Payload != 0 // an empty blob stores no LastModified
	if oldLM {
		f += ":lastmodified-older-than-volume-ttl"
	}
	if phase == "pre" && o.Payload != 0 && !oldLM {
		// live non-empty versions at the time of the copy, by key
		for kk := k + 1; kk <= uint64(c.NKeys); kk++ {
			for j := len(c.Pre) - 1; j >= 0; j-- {
				if c.Pre[j].Key == kk {
					if c.Pre[j].Kind == "W" && c.Pre[j].Payload != 0 && j < i {
						f += ":written-after-a-higher-key"
					}
					break
				}
			}
			if strings.HasSuffix(f, "higher-key") {
				break
			}
		}
	}
	return f
}

func outcomeClass(c Case, vs []verdict) string {
	kinds := map[string]bool{}
	for _, o := range append(append([]Op{}, c.Pre...), c.During...) {
		kinds[opName(o)] = true
	}
	s := fmt.Sprintf("%s|ttl=%v|pre=%d|during=%d|we=%v|d=%v", c.Algo, c.Ttl != "", len(c.Pre), len(c.During), kinds["write-empty"], kinds["delete"])
	if len(vs) == 0 {
		return s + "|same"
	}
	return s + "|" + vs[0].class
}

type slice struct{ nkeys, pre, during int }

// coveredEarlier: the case belongs to a slice enumerated before (slices overlap).
func coveredEarlier(earlier []slice, c Case) bool {
	maxKey := 0
	for _, o := range append(append([]Op{}, c.Pre...), c.During...) {
		if int(o.Key) > maxKey {
			maxKey = int(o.Key)
		}
	}
	for _, sl := range earlier {
		// a history that only uses keys 1..k is the same history in a smaller key universe:
		// reads of never-touched keys are "gone" on both volumes
		if maxKey <= sl.nkeys && len(c.Pre) <= sl.pre && len(c.During) <= sl.during {
			return true
		}
	}
	return false
}

func enumerate(nkeys, maxPre, maxDuring int, f func(c Case)) {
	for _, ttl := range []string{"", "1h"} {
		evs := events(nkeys, ttl != "")
		seqs := func(maxLen int) [][]Op {
			var out [][]Op
			mc.Sequences(len(evs), 0, maxLen, func(seq []int) bool {
				h := make([]Op, len(seq))
				for i, x := range seq {
					h[i] = evs[x]
				}
				out = append(out, h)
				return true
			})
			return out
		}
		pres, durs := seqs(maxPre), seqs(maxDuring)
		for _, pre := range pres {
			for _, dur := range durs {
				// the twin cache works on consecutive cases with the same op sequence
				for _, algo := range []string{"Compact", "Compact2"} {
					f(Case{Ttl: ttl, Algo: algo, Pre: pre, During: dur, NKeys: nkeys})
				}
			}
		}
	}
}

func run(r *mc.Run) {
	runA(r)
	if r.Replay == "" && r.ChildPhase() == "" {
		// part (b): writes racing the compaction copy, explored in the sched group binary (overlay build)
		r.WorkerProcs = 1
		r.ParallelExe(os.Getenv("VERIF_BIN_sched"), "sched", 16, func(shard, n int) { Schedules(r, shard, n) })
	}
}

func runA(r *mc.Run) {
	volkit.Quiet()
	if r.ChildPhase() == "sched" {
		// worker of part (b) inside the sched group binary
		r.WorkerProcs = 1
		r.ParallelExe(os.Getenv("VERIF_BIN_sched"), "sched", 16, func(shard, n int) { Schedules(r, shard, n) })
		return
	}
	if r.Replay != "" {
		if ReplaySchedule(r) {
			return
		}
		var c Case
		if err := r.ReplayCase(&c); err != nil {
			mc.Fatal("replay: %v", err)
		}
		rn := &runner{e: volkit.NewEnv("c04", storage.NeedleMapInMemory), r: r, states: map[string]struct{}{}}
		defer rn.e.Close()
		r.Case("replay")
		for _, v := range rn.runCase(c, false) {
			r.Violate(v.class, v.msg, c, nil)
		}
		return
	}
	r.Assume("volume TTL 1h and LastModified offsets of 2h keep every clock comparison of the code at least one hour away from its boundary; no oracle looks at the wall clock")
	r.Assume("in-memory needle map; the writer is sequential (the interleaved part (b) of the design is a separate check)")
	var slices []slice
	if r.Quick() {
		slices = []slice{{2, 1, 1}, {1, 2, 1}, {2, 2, 0}, {1, 1, 2}}
	} else {
		slices = []slice{{2, 3, 1}, {2, 2, 2}, {3, 2, 1}}
	}
	r.Set("slices_keys_pre_during", fmt.Sprint(slices))
	const shards = 16
	// the distinct-state count is a union over the shards
	su := volkit.NewStateUnion("C04_STATES_DIR")
	r.Parallel("histories", shards, func(shard, n int) {
		runtime.GOMAXPROCS(2)
		volkit.PaceGC(256)
		rn := &runner{e: volkit.NewEnv("c04", storage.NeedleMapInMemory), r: r, states: map[string]struct{}{}}
		defer rn.e.Close()
		rechecked := map[string]int{}
		idx := 0
		for si, sl := range slices {
			group := -1
			lastKey := ""
			sli := si
			enumerate(sl.nkeys, sl.pre, sl.during, func(c Case) {
				if coveredEarlier(slices[:sli], c) {
					return
				}
				// shard by (pre,during) pair so that both algorithms share the twin
				key := fmt.Sprint(c.Ttl, c.Pre, c.During)
				if key != lastKey {
					group++
					lastKey = key
				}
				if group%n != shard {
					return
				}
				idx++
				if !r.Begin(c) {
					return
				}
				vs := rn.runCase(c, true)
				r.Case(outcomeClass(c, vs))
				for _, v := range vs {
					rechecked[v.class]++
					if rechecked[v.class] > 2 {
						r.Violate(v.class, v.msg, c, nil)
						continue
					}
					cls, cc := v.class, c
					r.Violate(v.class, v.msg, c, func() bool {
						rn.twinKey = ""
						for _, x := range rn.runCase(cc, false) {
							if x.class == cls {
								return true
							}
						}
						return false
					})
				}
			})
		}
		su.Dump(shard, rn.states)
	})
	r.AddStates(su.Count())
	r.Sample("history", Case{Ttl: "1h", Algo: "Compact2", Pre: []Op{{"W", 1, 1, true}}, During: []Op{{"W", 2, 0, false}}, NKeys: 2})
}
