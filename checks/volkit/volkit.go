// Package volkit is the shared harness of the "volume" check group (C01, C03,
// C04, C09): a real storage.Store on a scratch directory, needle builders that
// mimic what the HTTP upload path builds, and a read helper.
package volkit

import (
	"fmt"
	"os"
	"path/filepath"
	"regexp"
	"runtime/debug"
	"strconv"
	"strings"
	"sync"

	"verif/mc"

	"github.com/chrislusf/seaweedfs/weed/glog"
	"github.com/chrislusf/seaweedfs/weed/storage"
	"github.com/chrislusf/seaweedfs/weed/storage/needle"
	"github.com/chrislusf/seaweedfs/weed/storage/types"
	"github.com/chrislusf/seaweedfs/weed/util"
)

var quietOnce sync.Once

// Quiet silences glog below FATAL.
func Quiet() { quietOnce.Do(glog.VolumeGroupQuietV) }

// PaceGC makes the collector run only when the process reaches limitMB: every
// volume instance of the real code allocates multi-megabyte zeroed slices
// (needle-map section, leveldb write buffers); with the default pacing those
// spans are returned to the OS and page-faulted in again for every instance.
// With GOGC off and a memory limit the same resident spans are reused.
func PaceGC(limitMB int64) {
	debug.SetGCPercent(-1)
	debug.SetMemoryLimit(limitMB << 20)
}

// Env is one real Store over one scratch directory.  Volumes are created with
// increasing ids and destroyed by the caller; one Env serves many cases.
type Env struct {
	Dir     string
	Store   *storage.Store
	Kind    storage.NeedleMapKind
	nextVid uint32
	stop    chan struct{}
}

func NewEnv(prefix string, kind storage.NeedleMapKind) *Env {
	Quiet()
	dir := mc.TempDir(prefix)
	return OpenEnv(dir, kind)
}

// OpenEnv starts a Store on an existing directory (loading whatever volumes are in it).
func OpenEnv(dir string, kind storage.NeedleMapKind) *Env {
	Quiet()
	e := &Env{Dir: dir, Kind: kind, nextVid: 1, stop: make(chan struct{})}
	e.Store = storage.NewStore(nil, 0, "127.0.0.1", "127.0.0.1:0", []string{dir}, []int{1 << 20},
		[]util.MinFreeSpace{{}}, "", kind, []types.DiskType{types.HardDriveType})
	e.Store.SetVolumeSizeLimit(30 << 30)
	// the Store announces new/deleted volumes on small buffered channels
	go func() {
		for {
			select {
			case <-e.Store.NewVolumesChan:
			case <-e.Store.DeletedVolumesChan:
			case <-e.Store.NewEcShardsChan:
			case <-e.Store.DeletedEcShardsChan:
			case <-e.stop:
				return
			}
		}
	}()
	return e
}

// Close closes the store and removes the directory.
func (e *Env) Close() {
	e.Store.Close()
	close(e.stop)
	os.RemoveAll(e.Dir)
}

// NewVolume adds a fresh volume with the given TTL string and returns its id.
func (e *Env) NewVolume(ttl string) needle.VolumeId {
	vid := needle.VolumeId(e.nextVid)
	e.nextVid++
	if err := e.Store.AddVolume(vid, "", e.Kind, "000", ttl, 0, 0, types.HardDriveType); err != nil {
		mc.Fatal("AddVolume %d ttl=%q: %v", vid, ttl, err)
	}
	return vid
}

// ReserveVid hands out an unused volume id without creating anything.
func (e *Env) ReserveVid() needle.VolumeId {
	vid := needle.VolumeId(e.nextVid)
	e.nextVid++
	return vid
}

// Drop destroys a volume and its files (also ends its worker goroutine).
func (e *Env) Drop(vid needle.VolumeId) {
	if e.Store.HasVolume(vid) {
		if err := e.Store.DeleteVolume(vid); err != nil {
			mc.Fatal("DeleteVolume %d: %v", vid, err)
		}
	}
	e.RemoveFiles(vid)
}

// RemoveFiles deletes every file of the volume id in the directory.
func (e *Env) RemoveFiles(vid needle.VolumeId) {
	base := filepath.Join(e.Dir, strconv.Itoa(int(vid)))
	for _, ext := range []string{".dat", ".idx", ".vif", ".sdx", ".cpd", ".cpx", ".note"} {
		os.Remove(base + ext)
	}
	os.RemoveAll(base + ".ldb")
}

func (e *Env) Base(vid needle.VolumeId) string {
	return filepath.Join(e.Dir, strconv.Itoa(int(vid)))
}

// Unload closes the volume (Store.UnmountVolume) and ends its worker goroutine.
func (e *Env) Unload(vid needle.VolumeId) {
	v := e.Store.GetVolume(vid)
	if v == nil {
		return
	}
	if err := e.Store.UnmountVolume(vid); err != nil {
		mc.Fatal("UnmountVolume %d: %v", vid, err)
	}
	v.VolumeGroupStopWorkerV()
}

// Load opens the volume from its files through the real loading path
// (Store.MountVolume -> DiskLocation.LoadVolume -> NewVolume -> Volume.load ->
// CheckAndFixVolumeDataIntegrity).
func (e *Env) Load(vid needle.VolumeId) error {
	return e.Store.MountVolume(vid)
}

// Blob is what a client uploads.
type Blob struct {
	Data         []byte `json:"data"`
	Name         string `json:"name,omitempty"`
	Mime         string `json:"mime,omitempty"`
	Pairs        string `json:"pairs,omitempty"`
	LastModified uint64 `json:"last_modified,omitempty"`
	Compressed   bool   `json:"compressed,omitempty"`
	Ttl          string `json:"ttl,omitempty"`
	// HTTPLike: set the flags the HTTP upload path always sets (name, mime and
	// last-modified present even when empty / defaulted).
	HTTPLike bool `json:"http_like,omitempty"`
}

// MakeNeedle builds the needle the way needle.CreateNeedleFromRequest does.
func MakeNeedle(key uint64, cookie uint32, b Blob) *needle.Needle {
	n := new(needle.Needle)
	n.Id = types.NeedleId(key)
	n.Cookie = types.Cookie(cookie)
	n.Data = append([]byte{}, b.Data...)
	if b.Name != "" || b.HTTPLike {
		n.Name = []byte(b.Name)
		n.SetHasName()
	}
	if b.Mime != "" || b.HTTPLike {
		n.Mime = []byte(b.Mime)
		n.SetHasMime()
	}
	if b.Pairs != "" {
		n.Pairs = []byte(b.Pairs)
		n.PairsSize = uint16(len(n.Pairs))
		n.SetHasPairs()
	}
	if b.Compressed {
		n.SetIsCompressed()
	}
	if b.LastModified != 0 {
		n.LastModified = b.LastModified
		n.SetHasLastModifiedDate()
	}
	// the upload parser always hands a TTL object over (EMPTY_TTL for "no ttl")
	t, err := needle.ReadTTL(b.Ttl)
	if err != nil {
		mc.Fatal("ReadTTL(%q): %v", b.Ttl, err)
	}
	n.Ttl = t
	if n.Ttl != needle.EMPTY_TTL {
		n.SetHasTtl()
	}
	n.Checksum = needle.NewCRC(n.Data)
	return n
}

// ReadRes is the outcome of one read.
type ReadRes struct {
	Err          string `json:"err,omitempty"` // "", "notfound", "deleted", "novolume", "error: ..."
	Cookie       uint32 `json:"cookie,omitempty"`
	Data         string `json:"data"`
	Name         string `json:"name,omitempty"`
	Mime         string `json:"mime,omitempty"`
	Pairs        string `json:"pairs,omitempty"`
	LastModified uint64 `json:"last_modified,omitempty"`
	Compressed   bool   `json:"compressed,omitempty"`
	Ttl          string `json:"ttl,omitempty"`
}

var digits = regexp.MustCompile(`[0-9]+`)

// ErrClass maps an error of the storage API to a stable short string.
func ErrClass(err error) string {
	switch {
	case err == nil:
		return ""
	case err == storage.ErrorNotFound:
		return "notfound"
	case err == storage.ErrorDeleted:
		return "deleted"
	}
	s := err.Error()
	if strings.Contains(s, "not found") && strings.HasPrefix(s, "volume") {
		return "novolume"
	}
	// strip scratch paths and numbers
	if i := strings.Index(s, "/dev/shm"); i >= 0 {
		j := strings.IndexAny(s[i:], " :")
		if j < 0 {
			j = len(s) - i
		}
		s = s[:i] + "<path>" + s[i+j:]
	}
	s = digits.ReplaceAllString(s, "N")
	return "error: " + s
}

// Read reads key from the volume presenting the cookie the way the HTTP
// handlers do: the Store fills the needle in (including the stored cookie) and
// the caller compares.  presented is only stored into the request needle.
func (e *Env) Read(vid needle.VolumeId, key uint64, presented uint32) (ReadRes, *needle.Needle) {
	n := &needle.Needle{Id: types.NeedleId(key), Cookie: types.Cookie(presented)}
	_, err := e.Store.ReadVolumeNeedle(vid, n, nil)
	if err != nil {
		return ReadRes{Err: ErrClass(err)}, n
	}
	r := ReadRes{Cookie: uint32(n.Cookie), Data: string(n.Data), Name: string(n.Name), Mime: string(n.Mime),
		Pairs: string(n.Pairs), LastModified: n.LastModified, Compressed: n.IsCompressed()}
	if n.HasTtl() && n.Ttl != nil {
		r.Ttl = n.Ttl.String()
	}
	return r, n
}

// Write is Store.WriteVolumeNeedle.
func (e *Env) Write(vid needle.VolumeId, key uint64, cookie uint32, b Blob) (unchanged bool, err error) {
	return e.Store.WriteVolumeNeedle(vid, MakeNeedle(key, cookie, b), false)
}

// DeleteLikeHandler does what VolumeServer.DeleteHandler does around the Store:
// read, compare the cookie, then Store.DeleteVolumeNeedle with the needle read.
// outcome: "notfound" (read failed), "cookie" (mismatch), "ok", or "error: ...".
// WriteBatched is Write with fsync requested on a store that is stopping: the
// only combination for which Store.WriteVolumeNeedle takes the batched
// (asyncRequest / worker goroutine) write path instead of syncWrite.
func (e *Env) WriteBatched(vid needle.VolumeId, key uint64, cookie uint32, b Blob) (unchanged bool, err error) {
	e.Store.SetStopping()
	return e.Store.WriteVolumeNeedle(vid, MakeNeedle(key, cookie, b), true)
}

func (e *Env) DeleteLikeHandler(vid needle.VolumeId, key uint64, presented uint32) (outcome string, size int64) {
	n := &needle.Needle{Id: types.NeedleId(key), Cookie: types.Cookie(presented)}
	if _, err := e.Store.ReadVolumeNeedle(vid, n, nil); err != nil {
		return "notfound", 0
	}
	if uint32(n.Cookie) != presented {
		return "cookie", 0
	}
	sz, err := e.Store.DeleteVolumeNeedle(vid, n)
	if err != nil {
		return ErrClass(err), 0
	}
	return "ok", int64(sz)
}

func Fmt(format string, a ...interface{}) string { return fmt.Sprintf(format, a...) }

// ShiftPast moves everything a version-3 data file remembers about time d
// seconds into the past: the append timestamp of every record and the stored
// LastModified of every needle that has one.  Together with
// Volume.VolumeGroupSetLastModifiedV this models "d seconds have passed" without
// a clock: all the code under test ever does with these values is to compare
// them with time.Now().  The file is patched in place (the open volume reads it
// with ReadAt, so it sees the new values); CRCs cover the data bytes only.
func ShiftPast(datPath string, d int64) {
	f, err := os.OpenFile(datPath, os.O_RDWR, 0644)
	if err != nil {
		mc.Fatal("ShiftPast: %v", err)
	}
	defer f.Close()
	buf, err := os.ReadFile(datPath)
	if err != nil {
		mc.Fatal("ShiftPast: %v", err)
	}
	be := func(b []byte) uint64 {
		var x uint64
		for _, c := range b {
			x = x<<8 | uint64(c)
		}
		return x
	}
	put := func(pos int, n int, x uint64) {
		b := make([]byte, n)
		for i := n - 1; i >= 0; i-- {
			b[i] = byte(x)
			x >>= 8
		}
		if _, err := f.WriteAt(b, int64(pos)); err != nil {
			mc.Fatal("ShiftPast: %v", err)
		}
	}
	off := 8 // super block without extra
	for off+types.NeedleHeaderSize <= len(buf) {
		size := int(int32(be(buf[off+12 : off+16])))
		if size < 0 {
			mc.Fatal("ShiftPast: negative size at %d", off)
		}
		total := int(needle.GetActualSize(types.Size(size), needle.Version3))
		if off+total > len(buf) {
			mc.Fatal("ShiftPast: record at %d overruns the file", off)
		}
		if size > 0 {
			p := off + types.NeedleHeaderSize
			dataSize := int(be(buf[p : p+4]))
			p += 4 + dataSize
			flags := buf[p]
			p++
			if flags&needle.FlagHasName != 0 {
				p += 1 + int(buf[p])
			}
			if flags&needle.FlagHasMime != 0 {
				p += 1 + int(buf[p])
			}
			if flags&needle.FlagHasLastModifiedDate != 0 {
				lm := be(buf[p : p+needle.LastModifiedBytesLength])
				put(p, needle.LastModifiedBytesLength, uint64(int64(lm)-d))
			}
		}
		ts := off + types.NeedleHeaderSize + size + needle.NeedleChecksumSize
		ns := be(buf[ts : ts+8])
		put(ts, 8, uint64(int64(ns)-d*1000000000))
		off += total
	}
	if off != len(buf) {
		mc.Fatal("ShiftPast: trailing bytes in %s", datPath)
	}
}

// StateUnion counts distinct states over worker subprocesses: every worker
// leaves its set in a scratch directory (named through an environment variable
// the workers inherit), the parent takes the union.
type StateUnion struct {
	dir   string
	owner bool
}

func NewStateUnion(envVar string) *StateUnion {
	u := &StateUnion{dir: os.Getenv(envVar)}
	if u.dir == "" {
		u.dir = mc.TempDir("states")
		os.Setenv(envVar, u.dir)
		u.owner = true
	}
	return u
}

func (u *StateUnion) Dump(shard int, set map[string]struct{}) {
	var sb strings.Builder
	for st := range set {
		sb.WriteString(st)
		sb.WriteByte('\n')
	}
	p := filepath.Join(u.dir, fmt.Sprintf("shard-%d-%d", shard, os.Getpid()))
	if err := os.WriteFile(p, []byte(sb.String()), 0644); err != nil {
		mc.Fatal("states file: %v", err)
	}
}

// Count returns the size of the union and removes the directory (parent only).
func (u *StateUnion) Count() int64 {
	union := map[string]struct{}{}
	files, _ := filepath.Glob(filepath.Join(u.dir, "shard-*"))
	for _, f := range files {
		b, _ := os.ReadFile(f)
		for _, ln := range strings.Split(string(b), "\n") {
			if ln != "" {
				union[ln] = struct{}{}
			}
		}
	}
	if u.owner {
		os.RemoveAll(u.dir)
	}
	return int64(len(union))
}
