package c09

// Two-blob histories: a TTL volume holding two blobs whose ids are in either
// order relative to their append order (1 then 2, 2 then 1), with time passing
// between the two writes, followed by the usual step alphabet.  Oracle per
// blob: readable iff its own age < TTL, whatever compaction / heartbeat
// happened; in particular the volume must not disappear while one of its blobs
// is unexpired.  (After a compaction the index is in id order, so anything that
// dates the volume from "the last index entry" dates it by the largest id.)

import (
	"fmt"

	"verif/checks/volkit"
	"verif/mc"

	"github.com/chrislusf/seaweedfs/weed/storage"
)

type Case2 struct {
	TwoBlobs bool   `json:"two_blobs"`
	VolTTL   string `json:"volume_ttl"`
	First    uint64 `json:"first_key"` // id of the blob written first; the other of {1,2} is written Gap minutes later
	Gap      int    `json:"gap_min"`   // time between the two writes
	Steps    []Step `json:"steps"`     // after the second write
}

type cfg2 struct {
	ttl      string
	gap      int
	advances []int
}

// configurations: the older blob is close to, but not past, its TTL when the second is written
var cfgs2 = []cfg2{
	{"1h", 40, []int{0, 40}},
	{"1d", 1260, []int{0, 80, 1260}},
}

// assertMargins2: every age / duration of the two-blob family is >= marginMin away from the thresholds of its TTL.
func assertMargins2(maxSteps int) {
	for _, c := range cfgs2 {
		m := minutes(c.ttl)
		grace := m / 10
		if grace > storage.MAX_TTL_VOLUME_REMOVAL_DELAY {
			grace = storage.MAX_TTL_VOLUME_REMOVAL_DELAY
		}
		check := func(d int) {
			for _, t := range []int{m, m + grace} {
				if d-t < marginMin && t-d < marginMin {
					mc.Fatal("two-blob probe duration %d min is within %d min of threshold %d (ttl %s)", d, marginMin, t, c.ttl)
				}
			}
		}
		check(c.gap)
		mc.Sequences(len(c.advances), 1, maxSteps, func(seq []int) bool {
			for j := range seq {
				for i := 0; i <= j; i++ { // contiguous sums i..j: ages since a commit / since the second write
					s := 0
					for x := i; x <= j; x++ {
						s += c.advances[seq[x]]
					}
					check(s)
					if i == 0 {
						check(s + c.gap) // age of the first blob
					}
				}
			}
			return true
		})
	}
}

func enumerate2(maxSteps int, f func(c Case2)) {
	for _, cf := range cfgs2 {
		for _, first := range []uint64{1, 2} {
			mc.Sequences(len(cf.advances)*len(actions), 0, maxSteps, func(seq []int) bool {
				c := Case2{TwoBlobs: true, VolTTL: cf.ttl, First: first, Gap: cf.gap}
				for _, x := range seq {
					c.Steps = append(c.Steps, Step{cf.advances[x/len(actions)], actions[x%len(actions)]})
				}
				f(c)
				return true
			})
		}
	}
}

func orderName(first uint64) string {
	if first == 1 {
		return "smaller-id-appended-first"
	}
	return "larger-id-appended-first"
}

func runCase2(e *volkit.Env, c Case2) (trace []string, vs []verdict) {
	vid := e.NewVolume(c.VolTTL)
	defer e.Drop(vid)
	second := uint64(3) - c.First
	write := func(k uint64) {
		b := volkit.Blob{Data: []byte(fmt.Sprintf("ttl-data-%d", k)), Name: "t", Mime: "x/y", HTTPLike: true,
			LastModified: uint64(timeNow())}
		if _, err := e.Write(vid, k, cookie, b); err != nil {
			mc.Fatal("write: %v", err)
		}
	}
	write(c.First)
	shift(e, vid, c.Gap)
	write(second)
	ttl := minutes(c.VolTTL)
	age := map[uint64]int{c.First: c.Gap, second: 0}
	alive := map[uint64]bool{c.First: true, second: true}
	name := map[uint64]string{c.First: "older-blob", second: "newer-blob"}
	for i, st := range c.Steps {
		shift(e, vid, st.Advance)
		age[c.First] += st.Advance
		age[second] += st.Advance
		outcome := "ok"
		switch st.Action {
		case "compact", "compact2":
			if v := e.Store.GetVolume(vid); v != nil {
				var err error
				if st.Action == "compact" {
					err = v.Compact(0, 0)
				} else {
					err = v.Compact2(0, 0)
				}
				if err == nil {
					err = v.CommitCompact()
				}
				if err != nil {
					outcome = "compaction-error"
					vs = append(vs, verdict{"compaction-fails:" + st.Action + ":two-blobs", fmt.Sprintf("step %d: %v", i, volkit.ErrClass(err))})
				}
			} else {
				outcome = "no-volume"
			}
		case "heartbeat":
			had := e.Store.HasVolume(vid)
			e.Store.CollectHeartbeat()
			if had && !e.Store.HasVolume(vid) {
				outcome = "volume-deleted"
			}
		}
		t := fmt.Sprintf("%s@%d/%dm:%s", st.Action, age[c.First], age[second], outcome)
		for _, k := range []uint64{c.First, second} {
			got, _ := e.Read(vid, k, cookie)
			readable := got.Err == "" && got.Data == fmt.Sprintf("ttl-data-%d", k)
			want := age[k] < ttl
			t += fmt.Sprintf(":%s=%v", name[k], readable)
			feat := "two-blobs:" + orderName(c.First) + ":" + name[k]
			switch {
			case want && !readable && alive[k]:
				vs = append(vs, verdict{"unexpired-blob-gone-after-" + st.Action + ":" + feat,
					fmt.Sprintf("step %d (%s; %s is %d min old, TTL %d min): read = %q %q", i, st.Action, name[k], age[k], ttl, got.Err, got.Data)})
			case !want && readable:
				vs = append(vs, verdict{"expired-blob-readable-after-" + st.Action + ":" + feat,
					fmt.Sprintf("step %d (%s; %s is %d min old, TTL %d min): still readable", i, st.Action, name[k], age[k], ttl)})
			}
			if !readable {
				alive[k] = false
			}
		}
		trace = append(trace, t)
	}
	return trace, vs
}
