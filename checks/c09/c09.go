// Package c09: TTL data lives exactly as long as promised.  There is no
// virtual clock: "d minutes have passed" is modelled by moving everything the
// volume remembers about time (append timestamps, stored LastModified, the
// volume's last-modified second) d minutes into the past, with all probe ages
// at least ten minutes away from every threshold the code compares against.
package c09

import (
	"fmt"
	"os"
	"runtime"
	"strings"
	"time"

	"verif/checks/volkit"
	"verif/mc"

	"github.com/chrislusf/seaweedfs/weed/operation"
	"github.com/chrislusf/seaweedfs/weed/storage"
	"github.com/chrislusf/seaweedfs/weed/storage/needle"
)

func Main() {
	mc.Main("C09", "model_checking",
		"volume TTL none|1h|1d (quick: none|1h) x needle TTL inherited|1h|1d x client LastModified write-time|-2h|+2h x all sequences of <= n (quick 2, thorough 3; thorough also: empty volume reloaded 90 min before the write, with <= 2) (advance 0|80|1260 min, action read|Compact+Commit|Compact2+Commit|heartbeat) on a real Store volume; oracle: readable iff age < needle TTL, whatever happened before; filer clause: every second count in [1,400000] plus unit boundaries through SecondsToTTL/ReadTTL and StorageOption.ToAssignRequests",
		run)
}

// ---- volume part ----------------------------------------------------------------------

type Step struct {
	Advance int    `json:"advance_min"`
	Action  string `json:"action"` // read compact compact2 heartbeat
}

type Case struct {
	VolTTL    string `json:"volume_ttl"`
	NeedleTTL string `json:"needle_ttl"`     // "" = none given: the volume's TTL is inherited
	LMOffset  int    `json:"lm_offset_min"`  // client supplied LastModified relative to the write time
	PreAge    int    `json:"volume_age_min"` // the volume was loaded this long before the write
	Steps     []Step `json:"steps"`
}

var (
	ttls     = []string{"", "1h", "1d"}
	lmOffs   = []int{0, -120, 120}
	advances = []int{0, 80, 1260}
	actions  = []string{"read", "compact", "compact2", "heartbeat"}
)

const preAgeMin = 90
const marginMin = 10

func minutes(ttl string) int {
	t, err := needle.ReadTTL(ttl)
	if err != nil {
		mc.Fatal("ttl %q: %v", ttl, err)
	}
	return int(t.Minutes())
}

// assertMargins: every duration the code under test can compare with a
// threshold stays at least marginMin minutes away from every threshold.
func assertMargins(maxSteps int) {
	var th []int
	for _, t := range ttls {
		if m := minutes(t); m > 0 {
			grace := m / 10
			if grace > storage.MAX_TTL_VOLUME_REMOVAL_DELAY {
				grace = storage.MAX_TTL_VOLUME_REMOVAL_DELAY
			}
			th = append(th, m, m+grace)
		}
	}
	check := func(d int) {
		for _, t := range th {
			if d-t < marginMin && t-d < marginMin {
				mc.Fatal("probe duration %d min is within %d min of threshold %d", d, marginMin, t)
			}
		}
	}
	mc.Sequences(len(advances), 1, maxSteps, func(seq []int) bool {
		for j := range seq {
			p := 0
			for i := 0; i <= j; i++ {
				p += advances[seq[i]]
			}
			check(p)
			for _, lm := range lmOffs {
				check(p - lm)
			}
			check(p + preAgeMin)
			for i := 1; i <= j; i++ {
				s := 0
				for x := i; x <= j; x++ {
					s += advances[seq[x]]
				}
				check(s)
			}
		}
		return true
	})
}

func timeNow() int64 { return time.Now().Unix() }

const cookie = 0x0c090c09
const key = 7

type verdict struct{ class, msg string }

// relation names the configuration (for the case classes).
func relation(c Case) string {
	v, n := minutes(c.VolTTL), minutes(c.NeedleTTL)
	switch {
	case v == 0 && n == 0:
		return "no-ttl"
	case v == 0:
		return "needle-ttl-in-volume-without-ttl"
	case c.NeedleTTL == "":
		return "needle-inherits-volume-ttl"
	case n == v:
		return "needle-ttl=volume-ttl"
	case n > v:
		return "needle-ttl>volume-ttl"
	}
	return "needle-ttl<volume-ttl"
}

func lmName(off int) string {
	switch {
	case off < 0:
		return "lastmodified=2h-before-write"
	case off > 0:
		return "lastmodified=2h-after-write"
	}
	return "lastmodified=write-time"
}

// family names the input family of a deviation: what about the configuration
// separates "readable by the read path's rule (append time + needle TTL)" from
// what compaction / volume expiry look at (LastModified / volume TTL).
func family(c Case) string {
	v := minutes(c.VolTTL)
	n := minutes(c.NeedleTTL)
	if c.NeedleTTL == "" {
		n = v
	}
	switch {
	case n == 0:
		return "no-ttl"
	case v == 0:
		return "needle-ttl-in-volume-without-ttl"
	case n > v:
		return "needle-ttl-longer-than-volume-ttl"
	case c.LMOffset < 0:
		return "lastmodified-before-append-time"
	case c.LMOffset > 0:
		return "lastmodified-after-append-time"
	case n < v:
		return "needle-ttl-shorter-than-volume-ttl"
	}
	return "needle-ttl-equals-volume-ttl"
}

func shift(e *volkit.Env, vid needle.VolumeId, min int) {
	if min == 0 {
		return
	}
	v := e.Store.GetVolume(vid)
	if v == nil {
		return
	}
	d := int64(min) * 60
	volkit.ShiftPast(e.Base(vid)+".dat", d)
	if lm := v.VolumeGroupLastModifiedV(); lm != 0 { // 0 = never set (freshly created, nothing written)
		v.VolumeGroupSetLastModifiedV(uint64(int64(lm) - d))
	}
}

func runCase(e *volkit.Env, c Case) (trace []string, vs []verdict) {
	vid := e.NewVolume(c.VolTTL)
	defer e.Drop(vid)
	if c.PreAge > 0 {
		// the (empty) volume was created earlier and the server restarted PreAge minutes
		// ago: loading takes the data file's mtime as the volume's last-modified second
		e.Unload(vid)
		t := time.Now().Add(-time.Duration(c.PreAge) * time.Minute)
		if err := os.Chtimes(e.Base(vid)+".dat", t, t); err != nil {
			mc.Fatal("chtimes: %v", err)
		}
		if err := e.Load(vid); err != nil {
			mc.Fatal("reload of the empty volume: %v", err)
		}
	}
	now := time.Now().Unix()
	b := volkit.Blob{Data: []byte("ttl-data"), Name: "t", Mime: "x/y", HTTPLike: true, Ttl: c.NeedleTTL,
		LastModified: uint64(now + int64(c.LMOffset)*60)}
	if _, err := e.Write(vid, key, cookie, b); err != nil {
		mc.Fatal("write: %v", err)
	}
	eff := minutes(c.NeedleTTL)
	if c.NeedleTTL == "" {
		eff = minutes(c.VolTTL)
	}
	age := 0
	alive := true // has the blob been readable at every probe so far
	for i, st := range c.Steps {
		shift(e, vid, st.Advance)
		age += st.Advance
		outcome := "ok"
		switch st.Action {
		case "read":
		case "compact", "compact2":
			if v := e.Store.GetVolume(vid); v != nil {
				var err error
				if st.Action == "compact" {
					err = v.Compact(0, 0)
				} else {
					err = v.Compact2(0, 0)
				}
				if err == nil {
					err = v.CommitCompact()
				}
				if err != nil {
					outcome = "compaction-error"
					vs = append(vs, verdict{"compaction-fails:" + st.Action, fmt.Sprintf("step %d: %v", i, volkit.ErrClass(err))})
				}
			} else {
				outcome = "no-volume"
			}
		case "heartbeat":
			had := e.Store.HasVolume(vid)
			e.Store.CollectHeartbeat()
			if had && !e.Store.HasVolume(vid) {
				outcome = "volume-deleted"
			}
		}
		got, _ := e.Read(vid, key, cookie)
		readable := got.Err == "" && got.Data == "ttl-data"
		want := eff == 0 || age < eff
		trace = append(trace, fmt.Sprintf("%s@%dm:%s:readable=%v", st.Action, age, outcome, readable))
		feat := family(c)
		switch {
		case want && !readable && alive:
			vs = append(vs, verdict{"unexpired-blob-gone-after-" + st.Action + ":" + feat,
				fmt.Sprintf("step %d (%s at age %d min, needle TTL %d min): read = %q %q", i, st.Action, age, eff, got.Err, got.Data)})
		case !want && readable:
			vs = append(vs, verdict{"expired-blob-readable-after-" + st.Action + ":" + feat,
				fmt.Sprintf("step %d (%s at age %d min, needle TTL %d min): still readable", i, st.Action, age, eff)})
		}
		if !readable {
			alive = false // charge only the step at which it disappeared
		}
	}
	return trace, vs
}

// enumerate: quick = volume TTL none|1h, volume freshly created, <= 2 steps, advances 0|80;
// thorough adds volume TTL 1d, <= 3 steps, and (with <= 2 steps) a volume that
// was loaded 90 minutes before the write.
func enumerate(thorough bool, f func(c Case)) {
	for vi, vt := range ttls {
		if !thorough && vi == 2 {
			continue
		}
		for _, nt := range ttls {
			for _, lm := range lmOffs {
				for _, pa := range []int{0, preAgeMin} {
					maxSteps := 2
					if thorough && pa == 0 {
						maxSteps = 3
					}
					if !thorough && pa != 0 {
						continue
					}
					mc.Sequences(len(advances)*len(actions), 0, maxSteps, func(seq []int) bool {
						c := Case{VolTTL: vt, NeedleTTL: nt, LMOffset: lm, PreAge: pa}
						for _, x := range seq {
							if !thorough && advances[x/len(actions)] > 80 {
								return true // quick tier: advances 0 and 80 min only
							}
							c.Steps = append(c.Steps, Step{advances[x/len(actions)], actions[x%len(actions)]})
						}
						f(c)
						return true
					})
				}
			}
		}
	}
}

// ---- filer part -------------------------------------------------------------------------

func filerClause(r *mc.Run) {
	secs := map[int32]bool{}
	for s := int32(1); s <= 400000; s++ {
		secs[s] = true
	}
	units := []int64{60, 3600, 86400, 7 * 86400, 30 * 86400, 365 * 86400}
	for _, u := range units {
		for _, k := range []int64{1, 2, 255, 256, 257} {
			for _, d := range []int64{-1, 0, 1} {
				if s := k*u + d; s >= 1 && s <= 1<<31-1 {
					secs[int32(s)] = true
				}
			}
		}
	}
	secs[1<<31-1] = true
	// deterministic order
	var list []int32
	for s := int32(1); s <= 400000; s++ {
		list = append(list, s)
	}
	for s := range secs {
		if s > 400000 {
			list = append(list, s)
		}
	}
	sortInt32(list)
	for _, s := range list {
		str := needle.SecondsToTTL(s)
		// what the filer hands to the master for an entry with TtlSec = s
		so := &operation.StorageOption{TtlSeconds: s}
		ar, _ := so.ToAssignRequests(1)
		t, err := needle.ReadTTL(ar.Ttl)
		unit := "none"
		if len(str) > 0 {
			unit = str[len(str)-1:]
		}
		wit := map[string]interface{}{"part": "filer", "seconds": s}
		switch {
		case ar.Ttl != str:
			r.Case("filer|assign-differs")
			r.Violate("filer-assign-ttl-differs-from-seconds-to-ttl", fmt.Sprintf("TtlSeconds=%d: assign request asks %q, SecondsToTTL gives %q", s, ar.Ttl, str), wit, nil)
		case err != nil:
			r.Case("filer|unparsable|" + unit)
			r.Violate("filer-ttl-string-rejected-by-master-parser:unit="+unit, fmt.Sprintf("TtlSeconds=%d -> %q: %v", s, str, err), wit, nil)
		case t.Minutes() == 0:
			// no TTL on the volume: the data never expires, which is at least s
			r.Case("filer|no-volume-ttl|" + unit)
		case int64(t.Minutes())*60 >= int64(s):
			r.Case("filer|covers|" + unit)
		default:
			r.Case("filer|shorter|" + unit)
			r.Violate("filer-volume-ttl-shorter-than-entry-ttl",
				fmt.Sprintf("entry TTL %d s is stored in volumes with TTL %q = %d s: the data expires %d s before the entry", s, str, int64(t.Minutes())*60, int64(s)-int64(t.Minutes())*60), wit, nil)
		}
	}
	r.Set("filer_seconds_checked", len(list))
}

func sortInt32(a []int32) {
	// small helper (insertion into an almost sorted list would do, but keep it simple)
	for i := 1; i < len(a); i++ {
		for j := i; j > 0 && a[j-1] > a[j]; j-- {
			a[j-1], a[j] = a[j], a[j-1]
		}
	}
}

// ---- driver -----------------------------------------------------------------------------

func run(r *mc.Run) {
	volkit.Quiet()
	if r.Replay != "" {
		var probe struct {
			Part    string `json:"part"`
			Seconds int32  `json:"seconds"`
		}
		r.ReplayCase(&probe)
		if probe.Part == "units" {
			unitsClause(r)
			return
		}
		if probe.Part == "filer" {
			filerClause(r) // cheap: the whole clause again
			return
		}
		var c2 Case2
		if r.ReplayCase(&c2); c2.TwoBlobs {
			assertMargins2(len(c2.Steps))
			e := volkit.NewEnv("c09", storage.NeedleMapInMemory)
			defer e.Close()
			r.Case("replay")
			_, vs := runCase2(e, c2)
			for _, v := range vs {
				r.Violate(v.class, v.msg, c2, nil)
			}
			return
		}
		var c Case
		if err := r.ReplayCase(&c); err != nil {
			mc.Fatal("replay: %v", err)
		}
		assertMargins(len(c.Steps))
		e := volkit.NewEnv("c09", storage.NeedleMapInMemory)
		defer e.Close()
		r.Case("replay")
		_, vs := runCase(e, c)
		for _, v := range vs {
			r.Violate(v.class, v.msg, c, nil)
		}
		return
	}
	assertMargins(3)
	assertMargins2(3)
	r.Set("max_steps", r.Pick(2, 3))
	r.Assume(fmt.Sprintf("time is advanced by moving append timestamps, stored LastModified values and the volume's last-modified second into the past; every compared duration is >= %d minutes away from every threshold (checked at start-up), so no verdict depends on the wall clock", marginMin))
	r.Assume("needles are built the way the HTTP upload path builds them (LastModified always present, EMPTY_TTL object when no ttl is given); in-memory needle map")
	r.Assume("filer clause: FilerServer.detectStorageOption passes a non-zero TtlSec through unchanged into operation.StorageOption (read, not executed); the string sent to the master is taken from the real StorageOption.ToAssignRequests and parsed with the master's parser needle.ReadTTL")

	if os.Getenv("VERIF_CHILD_PHASE") == "" { // workers only run the volume histories
		filerClause(r)
		unitsClause(r)
	}

	const shards = 16
	su := volkit.NewStateUnion("C09_STATES_DIR")
	r.Parallel("ttl-histories", shards, func(shard, n int) {
		runtime.GOMAXPROCS(2)
		volkit.PaceGC(256)
		e := volkit.NewEnv("c09", storage.NeedleMapInMemory)
		defer e.Close()
		rechecked := map[string]int{}
		idx := 0
		states := map[string]struct{}{}
		enumerate(r.Thorough(), func(c Case) {
			mine := idx%n == shard
			idx++
			if !mine || !r.Begin(c) {
				return
			}
			trace, vs := runCase(e, c)
			r.AddTransitions(int64(len(c.Steps)) + 1)
			last := "written"
			if len(trace) > 0 {
				last = trace[len(trace)-1]
				last = last[:strings.Index(last, "@")] + last[strings.Index(last, ":"):]
			}
			cls := relation(c) + "|" + lmName(c.LMOffset) + "|" + last
			if len(vs) > 0 {
				cls += "|" + vs[0].class
			}
			r.Case(cls)
			// state after each step: configuration, age, what the step did, whether the blob reads
			cfg := fmt.Sprint(c.VolTTL, "/", c.NeedleTTL, "/", c.LMOffset, "/", c.PreAge, "|")
			for _, t := range trace {
				states[cfg+t] = struct{}{}
			}
			for _, v := range vs {
				rechecked[v.class]++
				if rechecked[v.class] > 2 {
					r.Violate(v.class, v.msg, c, nil)
					continue
				}
				cl, cc := v.class, c
				r.Violate(v.class, v.msg, c, func() bool {
					_, vs2 := runCase(e, cc)
					for _, x := range vs2 {
						if x.class == cl {
							return true
						}
					}
					return false
				})
			}
		})
		enumerate2(r.Pick(2, 3), func(c Case2) {
			mine := idx%n == shard
			idx++
			if !mine || !r.Begin(c) {
				return
			}
			trace, vs := runCase2(e, c)
			r.AddTransitions(int64(len(c.Steps)) + 2)
			r.Add("two_blob_histories", 1)
			last := "written"
			if len(trace) > 0 {
				last = trace[len(trace)-1]
				last = last[:strings.Index(last, "@")] + last[strings.Index(last, ":"):]
			}
			cls := "two-blobs|" + c.VolTTL + "|" + orderName(c.First) + "|" + last
			if len(vs) > 0 {
				cls += "|" + vs[0].class
			}
			r.Case(cls)
			cfg := fmt.Sprint("two/", c.VolTTL, "/", c.First, "|")
			for _, t := range trace {
				states[cfg+t] = struct{}{}
			}
			for _, v := range vs {
				rechecked[v.class]++
				if rechecked[v.class] > 2 {
					r.Violate(v.class, v.msg, c, nil)
					continue
				}
				cl, cc := v.class, c
				r.Violate(v.class, v.msg, c, func() bool {
					_, vs2 := runCase2(e, cc)
					for _, x := range vs2 {
						if x.class == cl {
							return true
						}
					}
					return false
				})
			}
		})
		su.Dump(shard, states)
	})
	r.AddStates(su.Count())
	r.Sample("ttl-history", Case{VolTTL: "1h", NeedleTTL: "1d", LMOffset: 0, Steps: []Step{{80, "compact2"}, {0, "read"}}})
	r.Sample("two-blob-history", Case2{TwoBlobs: true, VolTTL: "1d", First: 2, Gap: 1260, Steps: []Step{{0, "compact2"}, {1260, "heartbeat"}}})
	r.Sample("filer-seconds", map[string]interface{}{"seconds": 90, "ttl": needle.SecondsToTTL(90)})
}
