package c09

// Unit clause (added by the coordinator after an independently seeded defect —
// a byte overflow in TTL.Minutes() for week counts >= 37 — was missed): every
// stored TTL (all 256 counts x all units) must last exactly count x unit, because
// Minutes() is the only conversion every consumer (read path, compaction, volume
// expiry, the filer's volume TTL) uses.  Complete domain, independent table.

import (
	"fmt"

	"verif/mc"

	"github.com/chrislusf/seaweedfs/weed/storage/needle"
)

func unitsClause(r *mc.Run) {
	unitMinutes := map[byte]uint32{needle.Minute: 1, needle.Hour: 60, needle.Day: 24 * 60, needle.Week: 7 * 24 * 60, needle.Month: 30 * 24 * 60, needle.Year: 365 * 24 * 60}
	names := map[byte]string{needle.Minute: "m", needle.Hour: "h", needle.Day: "d", needle.Week: "w", needle.Month: "M", needle.Year: "y"}
	for u := byte(1); u <= 6; u++ {
		for c := 0; c < 256; c++ {
			t := needle.TTL{Count: byte(c), Unit: u}
			want := uint32(c) * unitMinutes[u]
			got := t.Minutes()
			r.Case(fmt.Sprintf("units|unit=%s|ok=%v", names[u], got == want))
			if got != want {
				r.Violate("ttl-minutes-differ-from-count-times-unit:unit="+names[u],
					fmt.Sprintf("TTL %d%s lasts %d minutes, promised %d", c, names[u], got, want),
					map[string]interface{}{"part": "units", "count": c, "unit": names[u]}, nil)
			}
			// and through the string form the servers exchange
			if c > 0 {
				t2, err := needle.ReadTTL(t.String())
				if err != nil || t2.Minutes() != want {
					r.Violate("ttl-string-form-changes-duration:unit="+names[u],
						fmt.Sprintf("TTL %d%s -> %q -> %v minutes (err %v), promised %d", c, names[u], t.String(), t2, err, want),
						map[string]interface{}{"part": "units", "count": c, "unit": names[u]}, nil)
				}
			}
		}
	}
	r.Sample("units", map[string]interface{}{"ttl": "52w", "minutes": 52 * 7 * 24 * 60})
}
