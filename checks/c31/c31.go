// Package c31: the mount's tiered chunk cache is transparent.  Explicit-state
// BFS over the real TieredChunkCache (memory tier + three on-disk tiers with
// tiny volumes, rotation, restart) against "what was stored under that file id".
package c31

import (
	"bytes"
	"fmt"
	"os"
	"path/filepath"
	"runtime"
	"runtime/debug"
	"sort"
	"strconv"
	"strings"
	"time"

	"verif/checks/mountlib"
	"verif/mc"

	"github.com/chrislusf/seaweedfs/weed/storage/types"
	"github.com/chrislusf/seaweedfs/weed/util/chunk_cache"
)

func Main() {
	mc.Main("C31", "model_checking",
		"explicit-state BFS over the real TieredChunkCache(maxEntries=2, unit=16 B, disk=U units; volumes per tier U=24: 24/48/96 B, U=16: 16/32/64 B, U=32: 32/64/128 B): events set(fid,size) over 4 file ids (base, same key other volume, same key other cookie, other key) x sizes around the tier limits {1,16,17,64,65,200} and restart (shutdown + reopen of the same directory with the volume mtime order kept or reversed and the leveldb index made fresh or stale); after every event the whole lookup battery runs: GetChunk(fid,m) for m in {1,16,17,64,65,200} and GetChunkSlice(fid,off,len) for (0,1),(0,16),(0,17),(0,65),(3,5) on all 4 file ids; a non-empty result must be exactly the corresponding bytes of the per-file-id pattern that was stored under THAT id and not longer than anything stored; unmerged to depth d0, merged on (memory tier contents, per tier/volume size and per key entry size + owner, reference) to depth d1; distinct = (event class, lookup outcome class)",
		run)
}

// ---- universe -------------------------------------------------------------------

type fidT struct {
	name   string // short name used in events
	id     string // file id string
	vol    int
	key    uint64
	cookie uint32
	tag    byte
}

var fids = []fidT{
	{"A", "3,01aabbccdd", 3, 1, 0xaabbccdd, 0x00},
	{"V", "4,01aabbccdd", 4, 1, 0xaabbccdd, 0x55}, // differs from A in the volume only
	{"C", "3,01aabbccde", 3, 1, 0xaabbccde, 0xaa}, // differs from A in the cookie only
	{"K", "3,02aabbccdd", 3, 2, 0xaabbccdd, 0xff}, // differs from A in the key only
}

func fidByName(n string) *fidT {
	for i := range fids {
		if fids[i].name == n {
			return &fids[i]
		}
	}
	mc.Fatal("unknown fid %q", n)
	return nil
}

// pattern byte i of the chunk stored under a file id; two ids differ at every position.
func pat(f *fidT, i int) byte { return byte(i*7+13) ^ f.tag }

func patBytes(f *fidT, off, n int) []byte {
	b := make([]byte, n)
	for i := range b {
		b[i] = pat(f, off+i)
	}
	return b
}

func relation(a, b *fidT) string {
	var d []string
	if a.vol != b.vol {
		d = append(d, "volume")
	}
	if a.key != b.key {
		d = append(d, "key")
	}
	if a.cookie != b.cookie {
		d = append(d, "cookie")
	}
	return "differs-in-" + strings.Join(d, "+")
}

var allSizes = []int{1, 16, 17, 64, 65, 200}

type config struct {
	name      string
	diskUnits int64
	sizes     []int
	restarts  []string
}

// ---- the system -------------------------------------------------------------------

type system struct {
	r    *mc.Run
	cl   *mountlib.Classes
	cfg  config
	base string // per-worker scratch dir
	n    int
	dir  string
	c    *chunk_cache.TieredChunkCache

	stored map[string]int // fid name -> largest size stored so far (never reset: "was stored")
	soft   []string       // foreign-chunk violations of the last Apply (one per class)
}

// StaticMenu: the event menu does not depend on the state.
func (s *system) StaticMenu() {}

// SoftViolations: a lookup that returns another file id's bytes is reported,
// but the search continues below it (the reference model stays meaningful).
func (s *system) SoftViolations() []string { return s.soft }

const (
	maxEntries = 2
	unitSize   = 16
)

func (s *system) Reset() {
	s.Close()
	s.n++
	s.dir = filepath.Join(s.base, strconv.Itoa(s.n))
	if err := os.MkdirAll(s.dir, 0755); err != nil {
		mc.Fatal("mkdir: %v", err)
	}
	s.c = chunk_cache.NewTieredChunkCache(maxEntries, s.dir, s.cfg.diskUnits, unitSize)
	s.checkShape()
	s.stored = map[string]int{}
}

func (s *system) checkShape() {
	vols := s.c.DiskVolumesV()
	if len(vols) != 3 || len(vols[0]) != 2 || len(vols[1]) != 3 || len(vols[2]) != 2 {
		mc.Fatal("cache did not come up with 2+3+2 volumes in %s", s.dir)
	}
}

func (s *system) Close() {
	if s.c != nil {
		s.c.StopMemV()
		s.c.Shutdown()
		s.c = nil
		os.RemoveAll(s.dir)
	}
}

func (s *system) Events() []string {
	var evs []string
	for _, sz := range s.cfg.sizes {
		for _, f := range fids {
			evs = append(evs, fmt.Sprintf("set:%s:%d", f.name, sz))
		}
	}
	for _, rs := range s.cfg.restarts {
		evs = append(evs, "restart:"+rs)
	}
	return evs
}

func (s *system) Replay(ev string) { s.do(ev) }

func (s *system) Apply(ev string) (viol string) {
	defer func() {
		if e := recover(); e != nil {
			viol = mountlib.Viol("panic:"+strings.SplitN(ev, ":", 2)[0], "%s panicked: %v", ev, e)
		}
	}()
	s.soft = nil
	ic := s.do(ev)
	return s.battery(ic, ev)
}

// do executes one event and returns its input class.
func (s *system) do(ev string) string {
	p := strings.Split(ev, ":")
	switch p[0] {
	case "set":
		f := fidByName(p[1])
		sz, _ := strconv.Atoi(p[2])
		buf := patBytes(f, 0, sz)
		s.c.SetChunk(f.id, buf)
		for i := range buf { // the caller's buffer is reused afterwards
			buf[i] = 0xEE
		}
		s.c.SyncMemV()
		prev := s.stored[f.name]
		if sz > prev {
			s.stored[f.name] = sz
		}
		l0, l1 := s.c.TierLimitsV()
		tier := "tier2"
		if uint64(sz) <= l0 {
			tier = "mem+tier0"
		} else if uint64(sz) <= l1 {
			tier = "tier1"
		}
		again := "first"
		if prev > 0 {
			again = "again"
		}
		return "set:" + tier + ":" + again
	case "restart":
		s.restart(p[1])
		return "restart:" + p[1]
	}
	mc.Fatal("unknown event %q", ev)
	return ""
}

// restart shuts the cache down, fixes the file times that decide (a) the order
// of the volumes of a tier and (b) whether the leveldb index is rebuilt from
// the .idx file, and opens the same directory again.
func (s *system) restart(mode string) {
	order, fresh, _ := strings.Cut(mode, "-")
	vols := s.c.DiskVolumesV()
	var names [][]string
	for _, tier := range vols {
		var ns []string
		for _, v := range tier {
			ns = append(ns, v.FileNameV())
		}
		names = append(names, ns)
	}
	s.c.StopMemV()
	s.c.Shutdown()
	base := time.Unix(1_600_000_000, 0)
	for _, ns := range names {
		for i, n := range ns {
			rank := len(ns) - i // keep: front (newest) gets the latest time
			if order == "rev" {
				rank = i + 1
			}
			t := base.Add(time.Duration(rank) * time.Hour)
			if err := os.Chtimes(n+".dat", t, t); err != nil {
				mc.Fatal("chtimes: %v", err)
			}
			idxT, logT := base, base.Add(time.Minute) // fresh: leveldb LOG newer than .idx
			if fresh == "stale" {
				idxT, logT = base.Add(time.Minute), base
			}
			if err := os.Chtimes(n+".idx", idxT, idxT); err != nil {
				mc.Fatal("chtimes: %v", err)
			}
			if err := os.Chtimes(filepath.Join(n+".ldb", "LOG"), logT, logT); err != nil {
				mc.Fatal("chtimes: %v", err)
			}
		}
	}
	s.c = chunk_cache.NewTieredChunkCache(maxEntries, s.dir, s.cfg.diskUnits, unitSize)
	s.checkShape()
}

type lookup struct {
	slice    bool
	off, len int
}

var lookups = []lookup{
	{false, 0, 1}, {false, 0, 16}, {false, 0, 17}, {false, 0, 64}, {false, 0, 65}, {false, 0, 200},
	{true, 0, 1}, {true, 0, 16}, {true, 0, 17}, {true, 0, 65}, {true, 3, 5},
}

// battery runs every lookup on every file id and judges the results.
func (s *system) battery(ic, ev string) string {
	for fi := range fids {
		f := &fids[fi]
	lookups:
		for _, q := range lookups {
			var data []byte
			var what string
			if q.slice {
				data = s.c.GetChunkSlice(f.id, uint64(q.off), uint64(q.len))
				what = fmt.Sprintf("GetChunkSlice(%s,%d,%d)", f.name, q.off, q.len)
			} else {
				data = s.c.GetChunk(f.id, uint64(q.len))
				what = fmt.Sprintf("GetChunk(%s,min=%d)", f.name, q.len)
			}
			api := "get"
			if q.slice {
				api = "slice"
			}
			if len(data) == 0 {
				s.cl.Hit(ic + "|" + api + "|nothing")
				continue
			}
			if bytes.Equal(data, patBytes(f, q.off, len(data))) {
				if q.off+len(data) > s.stored[f.name] {
					return mountlib.Viol("longer-than-stored", "after %s %s returned %d bytes but at most %d were ever stored for it", ev, what, len(data), s.stored[f.name])
				}
				if q.slice && len(data) > q.len {
					return mountlib.Viol("slice-longer-than-requested", "after %s %s returned %d bytes", ev, what, len(data))
				}
				exact := "exact"
				if !q.slice && len(data) > q.len {
					exact = "longer-prefix"
				} else if len(data) < q.len {
					exact = "shorter"
				}
				s.cl.Hit(ic + "|" + api + "|own-bytes-" + exact)
				continue
			}
			// not this id's bytes: whose are they?
			for gi := range fids {
				g := &fids[gi]
				if g != f && bytes.Equal(data, patBytes(g, q.off, len(data))) {
					class := "foreign-chunk:" + relation(f, g)
					s.cl.Hit(ic + "|" + api + "|" + class)
					dup := false
					for _, sv := range s.soft {
						if c, _ := mountlib.SplitViol(sv); c == class {
							dup = true
						}
					}
					if !dup {
						s.soft = append(s.soft, mountlib.Viol(class,
							"after %s %s returned %d bytes that were stored for %s (%s), not for %s (%s)", ev, what, len(data), g.name, g.id, f.name, f.id))
					}
					continue lookups
				}
			}
			return mountlib.Viol("garbage-bytes:"+api, "after %s %s returned %d bytes % x that are no file id's stored bytes", ev, what, len(data), data[:minInt(len(data), 24)])
		}
	}
	return ""
}

func minInt(a, b int) int {
	if a < b {
		return a
	}
	return b
}

// owner names the file id whose pattern the bytes follow.
func owner(data []byte) string {
	for gi := range fids {
		if bytes.Equal(data, patBytes(&fids[gi], 0, len(data))) {
			return fids[gi].name
		}
	}
	return "?"
}

func (s *system) Canon() string {
	var b strings.Builder
	for fi := range fids {
		if d := s.c.MemGetV(fids[fi].id); d != nil {
			fmt.Fprintf(&b, "m%s=%d%s ", fids[fi].name, len(d), owner(d))
		}
	}
	for ti, tier := range s.c.DiskVolumesV() {
		fmt.Fprintf(&b, "| t%d ", ti)
		for _, v := range tier {
			fmt.Fprintf(&b, "[%d", v.FileSizeV())
			for _, k := range []uint64{1, 2} {
				d, err := v.GetNeedle(types.NeedleId(k))
				if err == nil {
					fmt.Fprintf(&b, " k%d=%d%s", k, len(d), owner(d))
				}
			}
			b.WriteString("] ")
		}
	}
	b.WriteString("| ref")
	names := make([]string, 0, len(s.stored))
	for n := range s.stored {
		names = append(names, n)
	}
	sort.Strings(names)
	for _, n := range names {
		fmt.Fprintf(&b, " %s<=%d", n, s.stored[n])
	}
	return b.String()
}

// ---- driver -----------------------------------------------------------------------

type plan struct {
	cfg    config
	d0, d1 int
}

var (
	quickSizes    = []int{16, 17, 65}
	quickRestarts = []string{"keep-fresh", "rev-stale"}
	allRestarts   = []string{"keep-fresh", "rev-stale", "keep-stale", "rev-fresh"}
)

// plans: the quick tier is the first plan of the thorough tier with a smaller depth.
// u24: tier0 2x24 B and tier2 2x96 B rotate on every write of the sizes used (the
// third write resets the volume holding the first), tier1 3x48 B packs two
// 17-byte needles (24 B padded) per volume.  u16: every write rotates.  u32: two
// needles per volume in tier0 and tier1.
func plans(r *mc.Run) []plan {
	if r.Quick() {
		return []plan{{config{"u24", 24, quickSizes, quickRestarts}, 1, 3}}
	}
	return []plan{
		{config{"u24", 24, quickSizes, quickRestarts}, 1, 4},
		{config{"u16-all", 16, allSizes, allRestarts}, 1, 3},
		{config{"u32", 32, quickSizes, quickRestarts}, 1, 4},
	}
}

func configByName(name string) config {
	all := map[string]config{
		"u16":     {"u16", 16, allSizes, nil},
		"u24":     {"u24", 24, allSizes, nil},
		"u16-all": {"u16-all", 16, allSizes, nil},
		"u32":     {"u32", 32, allSizes, nil},
	}
	c, ok := all[name]
	if !ok {
		mc.Fatal("unknown config %q", name)
	}
	return c
}

func run(r *mc.Run) {
	defer mountlib.QuietGlog()()
	// every cache instance opens 14 leveldbs with multi-MiB write buffers: keep the
	// collector from running (and returning memory) after every few instances
	ballast := make([]byte, 1<<30)
	defer runtime.KeepAlive(ballast)
	debug.SetGCPercent(200)
	base := mc.TempDir("c31")
	defer os.RemoveAll(base)
	cl := mountlib.NewClasses(r)
	mk := func(cfg config) func(int) mc.System {
		return func(w int) mc.System {
			return &system{r: r, cl: cl, cfg: cfg, base: filepath.Join(base, cfg.name, fmt.Sprint("w", w))}
		}
	}
	if r.Replay != "" {
		var w mountlib.Witness
		if err := r.ReplayCase(&w); err != nil {
			mc.Fatal("replay: %v", err)
		}
		sys := mk(configByName(w.Config))(0)
		vs, at := mountlib.ReplayAll(sys, w.Events)
		r.Cases(1)
		for j, v := range vs {
			class, msg := mountlib.SplitViol(v)
			r.Violate(class, fmt.Sprintf("%s (event %d of %s)", msg, at[j]+1, strings.Join(w.Events, " ")), w, nil)
		}
		return
	}
	// one transition opens 14+ leveldbs (normally ~50 ms); only a transition that
	// truly never returns may become a hang verdict
	mountlib.HangTimeout = 5 * time.Minute
	start := time.Now()
	budget := mountlib.Budget(r, 75*time.Second, 11*time.Minute)
	expired := func() bool { return time.Since(start) > budget || r.Expired() }
	for _, p := range plans(r) {
		res := mountlib.RunPBFSBudget(r, p.cfg.name, mk(p.cfg), 16, p.d0, p.d1, expired)
		r.Set("depth_reached_"+p.cfg.name, res.MaxDepth)
		r.Set("states_"+p.cfg.name, res.States)
		r.Set("alphabet_"+p.cfg.name, len(mk(p.cfg)(-3).Events()))
	}
	r.Set("unmerged_depth", 1)
	r.Set("cases_by_class", cl.Counts())
	r.Assume("the bytes stored under a file id are a function of the id (a prefix of a fixed per-id pattern), as chunks are immutable in SeaweedFS; storing the same id with several sizes stores prefixes of the same pattern")
	r.Assume("lookups do not change what later lookups return (memory tier promotion only reorders an LRU list that is pruned wholesale at maxEntries=2), so the full lookup battery runs as an observation after every event instead of being events")
	r.Assume("restart = Shutdown + NewTieredChunkCache on the same directory; file times that steer volume order and leveldb rebuild are set explicitly to each outcome (both are legal)")
	r.Assume("a lookup that returns another file id's bytes is reported (class foreign-chunk:*) but the search continues below it; every other violation class ends the path")
}
