package c05

import (
	"sort"
	"strings"
	"sync"
	"sync/atomic"
	"time"

	"verif/mc"
)

// viol is one oracle failure observed while applying an event.
type viol struct {
	class string
	msg   string
	prune bool // the real object and the reference model have diverged: do not explore below
}

// system is an explicit-state system over a real needle map plus its reference
// model.  Live objects are never cloned: a successor is built by replaying the
// event path on a fresh instance.
type system interface {
	reset()
	events() []string
	apply(ev string) []viol // execute the event and judge it
	replay(ev string)       // execute the event without judging (prefix of a path already judged)
	canon() string
	close()   // release the instance (between resets)
	destroy() // remove scratch files
}

type searchResult struct {
	states, transitions int64
	depth               int
	complete            bool
}

// witness of a failing transition (also the replay file content).
type witness struct {
	Build string   `json:"build"` // "4byte" | "5byte"
	Sub   string   `json:"sub"`   // sub-search name: kind/initial-state
	Path  []string `json:"path"`
}

// search is a level-synchronous breadth-first search.  Every event sequence up
// to `unmerged` is executed (no state merging); beyond that a successor is kept
// only when its canonical form (real object's observable + internal shape and
// the reference state) is new.  The transitions of one level are executed in
// parallel, the results are merged sequentially in enumeration order so that the
// representative path of every state, all counts and all reported witnesses are
// deterministic.
func search(r *mc.Run, build, sub string, mk func() system, unmerged, maxDepth, workers int) searchResult {
	res := searchResult{complete: true}
	start := time.Now()
	var perTransition float64
	prevN := 0 // the cost estimate is only trusted when the previous level was large enough
	seen := map[string]struct{}{}
	s0 := mk()
	s0.reset()
	evs := s0.events()
	seen[s0.canon()] = struct{}{}
	s0.close()
	s0.destroy()
	res.states = 1
	frontier := [][]string{{}}

	if workers < 1 {
		workers = 1
	}
	sys := make([]system, workers)
	for i := range sys {
		sys[i] = mk()
	}
	defer func() {
		for _, s := range sys {
			s.destroy()
		}
	}()
	type result struct {
		canon string
		viols []viol
	}
	for depth := 0; depth < maxDepth && len(frontier) > 0; depth++ {
		n := len(frontier) * len(evs)
		// budget: a level is only started when, at the measured cost per transition, it fits
		// into the soft budget; the search then stops at a whole-level boundary
		predicted := time.Duration(float64(n) * perTransition)
		if r.Expired() || (!r.Quick() && prevN >= 200 && time.Since(start)+predicted > softBudget(r)) {
			res.complete = false
			r.NotExhaustive(sub + ": time budget: stopped after complete depth " + itoa(depth) + " (next level has " + itoa(n) + " transitions)")
			break
		}
		levelStart := time.Now()
		results := make([]result, n)
		var wg sync.WaitGroup
		var nextIdx int64 = -1
		for wk := 0; wk < workers; wk++ {
			wg.Add(1)
			go func(s system) {
				defer wg.Done()
				for {
					i := int(atomic.AddInt64(&nextIdx, 1))
					if i >= n {
						return
					}
					path, ev := frontier[i/len(evs)], evs[i%len(evs)]
					s.reset()
					for _, e := range path {
						s.replay(e)
					}
					v := s.apply(ev)
					results[i] = result{canon: s.canon(), viols: v}
					s.close()
				}
			}(sys[wk])
		}
		wg.Wait()
		perTransition = float64(time.Since(levelStart)) / float64(n)
		prevN = n
		var next [][]string
		for i := range results {
			path, ev := frontier[i/len(evs)], evs[i%len(evs)]
			np := append(append(make([]string, 0, len(path)+1), path...), ev)
			res.transitions++
			pruned := false
			for _, v := range results[i].viols {
				report(r, build, sub, np, v, mk)
				if v.prune {
					pruned = true
				}
			}
			r.Case(transitionClass(sub, np, results[i].viols))
			if pruned {
				continue
			}
			k := results[i].canon
			_, old := seen[k]
			if !old {
				seen[k] = struct{}{}
				res.states++
			}
			if depth+1 <= unmerged || !old {
				next = append(next, np)
			}
		}
		frontier = next
		res.depth = depth + 1
	}
	return res
}

// softBudget bounds one sub-search (they all run concurrently).
func softBudget(r *mc.Run) time.Duration {
	return 11 * time.Minute // thorough only; quick bounds are small and fixed
}

var (
	repMu    sync.Mutex
	repCount = map[string]int{}
)

// report forwards the first failing transitions of a class (with a recheck that
// re-executes the path on a fresh instance) and only counts the others.
func report(r *mc.Run, build, sub string, path []string, v viol, mk func() system) {
	repMu.Lock()
	repCount[v.class]++
	c := repCount[v.class]
	repMu.Unlock()
	r.Add("failing_transitions", 1)
	if c > 2 {
		return
	}
	w := witness{Build: build, Sub: sub, Path: path}
	r.Violate(v.class, v.msg, w, func() bool {
		s := mk()
		defer s.destroy()
		defer s.close()
		s.reset()
		for _, e := range path[:len(path)-1] {
			s.replay(e)
		}
		for _, x := range s.apply(path[len(path)-1]) {
			if x.class == v.class {
				return true
			}
		}
		return false
	})
}

// transitionClass: (sub-search, multiset of op kinds in the path, outcome).
func transitionClass(sub string, path []string, vs []viol) string {
	ops := make([]string, 0, len(path))
	for _, e := range path {
		f := strings.SplitN(e, ":", 3)
		op := f[0]
		if op == "put" && len(f) == 3 && f[2] == "0" {
			op = "put0"
		}
		ops = append(ops, op)
	}
	last := ops[len(ops)-1]
	sort.Strings(ops)
	out := "ok"
	if len(vs) > 0 {
		out = vs[0].class
	}
	return sub + "|" + strings.Join(ops, ",") + "|last=" + last + "|" + out
}

func itoa(i int) string {
	if i == 0 {
		return "0"
	}
	neg := i < 0
	if neg {
		i = -i
	}
	var b []byte
	for i > 0 {
		b = append([]byte{byte('0' + i%10)}, b...)
		i /= 10
	}
	if neg {
		b = append([]byte{'-'}, b...)
	}
	return string(b)
}
