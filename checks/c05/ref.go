package c05

import (
	"fmt"
	"strconv"
	"strings"

	"github.com/chrislusf/seaweedfs/weed/storage/needle_map"
	"github.com/chrislusf/seaweedfs/weed/storage/types"
)

// refE is the reference model's knowledge about one key.
type refE struct {
	present bool  // was inserted at some time
	deleted bool  // ... and the latest operation on it was a delete of the live entry
	off     int64 // latest offset given to put
	size    int32 // latest size given to put
}

// cat is the abstract state of a key, used in violation classes.
func (e refE) cat() string {
	switch {
	case !e.present:
		return "absent"
	case e.deleted && e.size == 0:
		return "deleted0"
	case e.deleted:
		return "deleted+"
	case e.size == 0:
		return "live0"
	default:
		return "live+"
	}
}

// Two offsets; every put of a key uses the one the key does not have, so that a
// stale offset is always visible.  In the 5-byte build they differ in the fifth
// (high) byte and in the low bytes.
var offA, offB int64 = 8, 16

func init() {
	if types.OffsetSize == 5 {
		offB = (1<<32 + 2) * 8
	}
}

func build() string {
	if types.OffsetSize == 5 {
		return "5byte"
	}
	return "4byte"
}

func nextOff(e refE, key uint64) int64 {
	if !e.present {
		if key%2 == 1 {
			return offA
		}
		return offB
	}
	if e.off == offA {
		return offB
	}
	return offA
}

// lookupOK is the lookup oracle: a live key carries the latest offset and size;
// a deleted key is not found or carries a deleted size; a never-inserted key is
// not found (or carries a deleted size - it must not read as a live entry).
func lookupOK(e refE, nv *needle_map.NeedleValue, ok bool) bool {
	switch {
	case !e.present:
		return !ok || nv == nil || nv.Size.IsDeleted()
	case e.deleted:
		return !ok || nv == nil || nv.Size.IsDeleted()
	default:
		return ok && nv != nil && !nv.Size.IsDeleted() && int32(nv.Size) == e.size && nv.Offset.ToActualOffset() == e.off
	}
}

func gotCat(e refE, nv *needle_map.NeedleValue, ok bool) string {
	if !ok || nv == nil {
		return "absent"
	}
	if nv.Size.IsDeleted() {
		return "deleted"
	}
	c := "live+"
	if nv.Size == 0 {
		c = "live0"
	}
	if e.present && !e.deleted {
		if int32(nv.Size) != e.size {
			return c + "-wrong-size"
		}
		if nv.Offset.ToActualOffset() != e.off {
			return c + "-wrong-offset"
		}
	}
	return c
}

// coarse forms used in violation classes
func coarseRef(e refE) string {
	switch {
	case !e.present:
		return "absent"
	case e.deleted:
		return "deleted"
	}
	return "live"
}

func coarseGot(e refE, nv *needle_map.NeedleValue, ok bool) string {
	g := gotCat(e, nv, ok)
	switch {
	case strings.HasSuffix(g, "-wrong-offset"):
		return "wrong-offset"
	case strings.HasSuffix(g, "-wrong-size"):
		return "wrong-size"
	case strings.HasPrefix(g, "live"):
		return "live"
	}
	return g
}

// opShape abstracts an operation by the code path it takes: put0 (size-0 put),
// put-new (key never inserted), put-over (key present: live or deleted), del
// (live entry of positive size), del0 (live entry of size 0), del-noop (key
// never inserted or already deleted).
func opShape(op string, size int32, before refE) string {
	switch op {
	case "put":
		switch {
		case size == 0:
			return "put0"
		case !before.present:
			return "put-new"
		}
		return "put-over"
	case "del", "sdel":
		pre := ""
		if op == "sdel" {
			pre = "s"
		}
		switch {
		case !before.present || before.deleted:
			return pre + "del-noop"
		case before.size == 0:
			return pre + "del0"
		}
		return pre + "del"
	}
	return op
}

// badLookup is one key whose lookup does not match the reference.
type badLookup struct {
	ref, got string
	msg      string
}

// newBad returns the lookups that are wrong after an operation and were not
// wrong in the same way before it, as violations.
// class: <kind>:lookup-after-<shape>[:other-key]:<ref>-reads-<got>
func newBad(kind, shape string, opKey uint64, before, after map[uint64]badLookup, keys []uint64) []viol {
	var vs []viol
	for _, k := range keys {
		a, bad := after[k]
		if !bad {
			continue
		}
		if b, was := before[k]; was && b.ref == a.ref && b.got == a.got {
			continue
		}
		other := ""
		if k != opKey {
			other = ":other-key"
		}
		// a never-inserted key that reads as something is a wrong answer, not a
		// diverged state: exploration continues below it
		vs = append(vs, viol{class: fmt.Sprintf("%s:lookup-after-%s%s:%s-reads-%s", kind, shape, other, a.ref, a.got), msg: a.msg, prune: a.ref != "absent"})
	}
	return vs
}

// firstFailing returns the smallest n in [0,max] for which fails(n), or -1.
func firstFailing(max int, fails func(n int) bool) int {
	for n := 0; n <= max; n++ {
		if fails(n) {
			return n
		}
	}
	return -1
}

func gotStr(nv *needle_map.NeedleValue, ok bool) string {
	if !ok || nv == nil {
		return "not found"
	}
	return fmt.Sprintf("(offset %d, size %d)", nv.Offset.ToActualOffset(), nv.Size)
}

func (e refE) String() string {
	if !e.present {
		return "never inserted"
	}
	s := fmt.Sprintf("(offset %d, size %d)", e.off, e.size)
	if e.deleted {
		return "deleted, was " + s
	}
	return s
}

// event syntax: put:<key>:<size> | del:<key> | reopen | reopen-regen
func parseEvent(ev string) (op string, key uint64, size int32) {
	f := strings.Split(ev, ":")
	op = f[0]
	if len(f) > 1 {
		key, _ = strconv.ParseUint(f[1], 10, 64)
	}
	if len(f) > 2 {
		s, _ := strconv.ParseInt(f[2], 10, 32)
		size = int32(s)
	}
	return
}

var putSizes = []int32{5, 0, 7}

func keyEvents(keys []uint64) []string {
	var evs []string
	for _, k := range keys {
		for _, s := range putSizes {
			evs = append(evs, fmt.Sprintf("put:%d:%d", k, s))
		}
		evs = append(evs, fmt.Sprintf("del:%d", k))
	}
	return evs
}
