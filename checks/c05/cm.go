package c05

import (
	"fmt"
	"strings"
	"sync"

	"verif/mc"

	"github.com/chrislusf/seaweedfs/weed/storage/needle_map"
	"github.com/chrislusf/seaweedfs/weed/storage/types"
)

// ---- initial states built with the real constants ------------------------------

const batch = needle_map.StorlibBatchV

func preOff(k uint64) int64 {
	o := int64(8 * (k + 1))
	if types.OffsetSize == 5 && k%3 == 0 {
		o += 1 << 35
	}
	return o
}
func preSize(k uint64) int32 { return int32(k%5) + 1 }

// prefill is a non-initial starting state: a deterministic insertion sequence.
type prefill struct {
	name string
	keys func(f func(k uint64)) // in insertion order
	has  func(k uint64) bool
	uniQ []uint64 // keys operated on (quick)
	uniT []uint64 // keys operated on (thorough), superset
}

func prefills() map[string]*prefill {
	b := uint64(batch)
	return map[string]*prefill{
		// keys far apart open new sections (a section spans 2^32 ids); 1,3,2 exercises the in-place sorted insert
		"empty": {name: "empty", keys: func(func(uint64)) {}, has: func(uint64) bool { return false },
			uniQ: []uint64{1, 2, 1<<32 + 2},
			uniT: []uint64{1, 2, 1<<32 + 2, 3}},
		// one section holding exactly `batch` ascending (even) keys: the next new key inside goes to the overflow list, a key past the end opens a section
		"batch": {name: "batch", keys: func(f func(uint64)) {
			for i := uint64(1); i <= b; i++ {
				f(2 * i)
			}
		}, has: func(k uint64) bool { return k%2 == 0 && k >= 2 && k <= 2*b },
			uniQ: []uint64{3, 2*b + 1},
			uniT: []uint64{3, 2*b + 1, 2 * b, 2*b - 1}},
		// one key short of full
		"batch-1": {name: "batch-1", keys: func(f func(uint64)) {
			for i := uint64(1); i < b; i++ {
				f(2 * i)
			}
		}, has: func(k uint64) bool { return k%2 == 0 && k >= 2 && k <= 2*(b-1) },
			uniQ: []uint64{2 * b, 2*b + 2},
			uniT: []uint64{2 * b, 2*b + 2, 3, 2*b - 1}},
		// a section whose start is large (first key 5000) with 300 more ascending even keys: an odd key that sorts
		// more than 128 slots behind the newest entry must go to the overflow list, one within 128 slots is
		// sorted in place; with a large start the stored (section-relative) keys differ a lot from the absolute ones
		"high": {name: "high", keys: func(f func(uint64)) {
			for k := uint64(5000); k <= 5600; k += 2 {
				f(k)
			}
		}, has: func(k uint64) bool { return k%2 == 0 && k >= 5000 && k <= 5600 },
			uniQ: []uint64{5301, 5001, 5599},
			uniT: []uint64{5301, 5001, 5599, 5601, 5000}},
		// key 1, then 300 descending even keys: the first ~128 are sorted into the values array by the look-back path, the others overflow
		"desc": {name: "desc", keys: func(f func(uint64)) {
			f(1)
			for k := uint64(600); k >= 2; k -= 2 {
				f(k)
			}
		}, has: func(k uint64) bool { return k == 1 || (k%2 == 0 && k >= 2 && k <= 600) },
			uniQ: []uint64{2, 301, 599},
			uniT: []uint64{2, 301, 599, 600, 300}},
	}
}

// ---- CompactMap driven directly --------------------------------------------------

type cmSys struct {
	pre      *prefill
	uni      []uint64
	cm       *needle_map.CompactMap
	over     map[uint64]refE // reference state of the keys touched by events
	nPre     int
	fullScan bool
}

func newCmSys(pre *prefill, uni []uint64) *cmSys { return &cmSys{pre: pre, uni: uni, fullScan: true} }

func (s *cmSys) refOf(k uint64) refE {
	if e, ok := s.over[k]; ok {
		return e
	}
	if s.pre.has(k) {
		return refE{present: true, off: preOff(k), size: preSize(k)}
	}
	return refE{}
}

// templates: the prefilled map of each initial state is built once per process by
// inserting its keys through the real Set, and deep-copied for every execution.
var (
	tmplMu sync.Mutex
	tmpl   = map[string]*needle_map.CompactMap{}
	tmplN  = map[string]int{}
)

func (s *cmSys) reset() {
	s.over = map[uint64]refE{}
	tmplMu.Lock()
	t, ok := tmpl[s.pre.name]
	if !ok {
		t = needle_map.NewCompactMap()
		n := 0
		s.pre.keys(func(k uint64) {
			t.Set(types.NeedleId(k), types.ToOffset(preOff(k)), types.Size(preSize(k)))
			n++
		})
		tmpl[s.pre.name], tmplN[s.pre.name] = t, n
		// self-check of the copy: same layout and same lookups as the original
		c := t.StorlibCloneV()
		if c.StorlibShapeV(nil) != t.StorlibShapeV(nil) {
			mc.Fatal("clone of the prefilled map differs in shape")
		}
		s.pre.keys(func(k uint64) {
			a, aok := t.Get(types.NeedleId(k))
			b, bok := c.Get(types.NeedleId(k))
			if aok != bok || (aok && *a != *b) {
				mc.Fatal("clone of the prefilled map differs at key %d", k)
			}
		})
	}
	s.nPre = tmplN[s.pre.name]
	tmplMu.Unlock()
	if s.nPre == 0 {
		s.cm = needle_map.NewCompactMap()
	} else {
		s.cm = t.StorlibCloneV()
	}
}

func (s *cmSys) replay(ev string) { s.step(ev) }

func (s *cmSys) events() []string { return keyEvents(s.uni) }
func (s *cmSys) close()           { s.cm = nil }
func (s *cmSys) destroy()         {}

func (s *cmSys) loc(k uint64) string {
	sh := s.cm.StorlibShapeV([]types.NeedleId{types.NeedleId(k)})
	switch {
	case strings.Contains(sh, fmt.Sprintf(" %d:vo", k)):
		return "values+overflow"
	case strings.Contains(sh, fmt.Sprintf(" %d:o", k)):
		return "overflow"
	case strings.Contains(sh, fmt.Sprintf(" %d:v", k)):
		return "values"
	}
	return "nowhere"
}

func (s *cmSys) apply(ev string) []viol {
	op, k, size := parseEvent(ev)
	shape := opShape(op, size, s.refOf(k))
	before := s.badLookups()
	vs := s.step(ev)
	vs = append(vs, newBad("compactmap", shape, k, before, s.badLookups(), s.uni)...)
	vs = append(vs, s.fullScanCheck(shape)...)
	return vs
}

func (s *cmSys) step(ev string) []viol {
	var vs []viol
	op, k, size := parseEvent(ev)
	e := s.refOf(k)
	switch op {
	case "put":
		off := nextOff(e, k)
		s.cm.Set(types.NeedleId(k), types.ToOffset(off), types.Size(size))
		s.over[k] = refE{present: true, off: off, size: size}
	case "del":
		locBefore := s.loc(k)
		ret := s.cm.Delete(types.NeedleId(k))
		want := int32(0)
		if e.present && !e.deleted && e.size > 0 {
			want = e.size
		}
		if int32(ret) != want {
			got := "wrong-size"
			if ret < 0 {
				got = "negative"
			} else if ret == 0 {
				got = "zero"
			}
			vs = append(vs, viol{class: fmt.Sprintf("compactmap:delete-return-after-%s:%s", opShape(op, size, e), got),
				msg: fmt.Sprintf("CompactMap.Delete(%d) returned %d, the removed size is %d (key was %s, stored in %s)", k, ret, want, e, locBefore)})
		}
		if e.present && !e.deleted {
			e.deleted = true
			s.over[k] = e
		}
	}
	return vs
}

// badLookups looks up every key of the universe.
func (s *cmSys) badLookups() map[uint64]badLookup {
	bad := map[uint64]badLookup{}
	for _, k := range s.uni {
		e := s.refOf(k)
		nv, ok := s.cm.Get(types.NeedleId(k))
		if !lookupOK(e, nv, ok) {
			bad[k] = badLookup{ref: coarseRef(e), got: coarseGot(e, nv, ok),
				msg: fmt.Sprintf("CompactMap.Get(%d) = %s, reference: %s (key stored in %s)", k, gotStr(nv, ok), e, s.loc(k))}
		}
	}
	return bad
}

// fullScanCheck looks up every prefilled key no event touched.
func (s *cmSys) fullScanCheck(shape string) []viol {
	var vs []viol
	if s.fullScan && s.nPre > 0 {
		bad := 0
		s.pre.keys(func(k uint64) {
			if _, touched := s.over[k]; touched || bad > 0 {
				return
			}
			e := refE{present: true, off: preOff(k), size: preSize(k)}
			nv, ok := s.cm.Get(types.NeedleId(k))
			if !lookupOK(e, nv, ok) {
				bad++
				vs = append(vs, viol{class: fmt.Sprintf("compactmap:lookup-after-%s:untouched-key:live-reads-%s", shape, coarseGot(e, nv, ok)),
					msg: fmt.Sprintf("CompactMap.Get(%d) = %s for a key no event touched, reference: %s", k, gotStr(nv, ok), e), prune: true})
			}
		})
	}
	return vs
}

func (s *cmSys) canon() string {
	ids := make([]types.NeedleId, len(s.uni))
	for i, k := range s.uni {
		ids[i] = types.NeedleId(k)
	}
	var sb strings.Builder
	sb.WriteString(s.cm.StorlibShapeV(ids))
	for _, k := range s.uni {
		nv, ok := s.cm.Get(types.NeedleId(k))
		if ok {
			fmt.Fprintf(&sb, "|%d=%d/%d", k, nv.Offset.ToActualOffset(), nv.Size)
		} else {
			fmt.Fprintf(&sb, "|%d=-", k)
		}
		e := s.refOf(k)
		fmt.Fprintf(&sb, "~%s/%d/%d", e.cat(), e.off, e.size)
	}
	return sb.String()
}
