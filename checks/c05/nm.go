package c05

import (
	"fmt"
	"os"
	"path/filepath"
	"sort"
	"strings"
	"time"

	"github.com/syndtr/goleveldb/leveldb/opt"

	"verif/mc"

	"github.com/chrislusf/seaweedfs/weed/storage"
	"github.com/chrislusf/seaweedfs/weed/storage/needle_map"
	"github.com/chrislusf/seaweedfs/weed/storage/types"
)

// counters are the four totals the statement names.
type counters struct {
	FileCount, DeletedCount  int
	ContentSize, DeletedSize uint64
	MaxFileKey               uint64 // observed, not judged
}

func countersOf(nm storage.NeedleMapper) counters {
	return counters{nm.FileCount(), nm.DeletedCount(), nm.ContentSize(), nm.DeletedSize(), uint64(nm.MaxFileKey())}
}

func (c counters) judged() [4]int64 {
	return [4]int64{int64(c.FileCount), int64(c.DeletedCount), int64(c.ContentSize), int64(c.DeletedSize)}
}

var counterNames = [4]string{"FileCount", "DeletedCount", "ContentSize", "DeletedSize"}

func (c counters) String() string {
	return fmt.Sprintf("FileCount=%d DeletedCount=%d ContentSize=%d DeletedSize=%d", c.FileCount, c.DeletedCount, c.ContentSize, c.DeletedSize)
}

// nmSys drives one storage.NeedleMapper implementation over a scratch .idx.
type nmSys struct {
	kind string // memory | leveldb
	pre  *prefill
	uni  []uint64
	dir  string
	nm   storage.NeedleMapper
	over map[uint64]refE
	hist []string
}

func newNmSys(kind string, pre *prefill, uni []uint64) *nmSys {
	return &nmSys{kind: kind, pre: pre, uni: uni, dir: mc.TempDir("c05")}
}

func (s *nmSys) refOf(k uint64) refE {
	if e, ok := s.over[k]; ok {
		return e
	}
	if s.pre.has(k) {
		return refE{present: true, off: preOff(k), size: preSize(k)}
	}
	return refE{}
}

func (s *nmSys) idxPath() string { return filepath.Join(s.dir, "1.idx") }
func (s *nmSys) ldbPath() string { return filepath.Join(s.dir, "1.ldb") }

var ldbOpts = &opt.Options{
	BlockCacheCapacity:            2 * 1024 * 1024,
	WriteBuffer:                   1 * 1024 * 1024,
	CompactionTableSizeMultiplier: 10,
}

func (s *nmSys) open(regen bool) error {
	f, err := os.OpenFile(s.idxPath(), os.O_RDWR|os.O_CREATE, 0644)
	if err != nil {
		mc.Fatal("open idx: %v", err)
	}
	switch s.kind {
	case "memory":
		nm, err := storage.LoadCompactNeedleMap(f)
		s.nm = nm
		return err
	case "leveldb":
		if regen {
			os.RemoveAll(s.ldbPath())
		} else {
			// make the decision of isLevelDbFresh deterministic: the index file is older than the db
			old := time.Now().Add(-time.Hour)
			os.Chtimes(s.idxPath(), old, old)
		}
		nm, err := storage.NewLevelDbNeedleMap(s.ldbPath(), f, ldbOpts)
		if err != nil {
			return err
		}
		s.nm = nm
		return nil
	}
	mc.Fatal("unknown kind %s", s.kind)
	return nil
}

func (s *nmSys) reset() {
	s.close()
	os.Remove(s.idxPath())
	os.RemoveAll(s.ldbPath())
	s.over = map[uint64]refE{}
	s.hist = s.hist[:0]
	// the prefilled index file is written directly, then loaded by the real loader
	var buf []byte
	s.pre.keys(func(k uint64) {
		buf = append(buf, needle_map.ToBytes(types.NeedleId(k), types.ToOffset(preOff(k)), types.Size(preSize(k)))...)
	})
	if len(buf) > 0 {
		if err := os.WriteFile(s.idxPath(), buf, 0644); err != nil {
			mc.Fatal("prefill idx: %v", err)
		}
	}
	if err := s.open(true); err != nil {
		mc.Fatal("open %s map: %v", s.kind, err)
	}
}

func (s *nmSys) close() {
	if s.nm != nil {
		s.nm.Close()
		s.nm = nil
	}
}

func (s *nmSys) destroy() {
	s.close()
	os.RemoveAll(s.dir)
}

func (s *nmSys) events() []string {
	evs := keyEvents(s.uni)
	evs = append(evs, "reopen")
	if s.kind == "leveldb" {
		evs = append(evs, "reopen-regen")
	}
	return evs
}

func (s *nmSys) loc(k uint64) string {
	if m, ok := s.nm.(*storage.NeedleMap); ok {
		if cm := m.StorlibCompactMapV(); cm != nil {
			sh := cm.StorlibShapeV([]types.NeedleId{types.NeedleId(k)})
			switch {
			case strings.Contains(sh, fmt.Sprintf(" %d:vo", k)):
				return "values+overflow"
			case strings.Contains(sh, fmt.Sprintf(" %d:o", k)):
				return "overflow"
			case strings.Contains(sh, fmt.Sprintf(" %d:v", k)):
				return "values"
			}
			return "nowhere"
		}
	}
	return "db"
}

func (s *nmSys) replay(ev string) { s.exec(ev, false) }

func (s *nmSys) apply(ev string) []viol { return s.exec(ev, true) }

// exec runs one event; judge=false only executes it.
func (s *nmSys) exec(ev string, judge bool) []viol {
	var vs []viol
	op, k, size := parseEvent(ev)
	e := s.refOf(k)
	s.hist = append(s.hist, ev)
	if s.nm == nil {
		return nil
	}
	var before map[uint64]badLookup
	if judge {
		before = s.badLookups()
	}
	shape := opShape(op, size, e)
	switch op {
	case "put":
		off := nextOff(e, k)
		if err := s.nm.Put(types.NeedleId(k), types.ToOffset(off), types.Size(size)); err != nil && judge {
			vs = append(vs, viol{class: s.kind + ":put-error", msg: fmt.Sprintf("Put(%d): %v", k, err), prune: true})
		}
		s.over[k] = refE{present: true, off: off, size: size}
	case "del":
		// the offset argument is where the tombstone record would sit in the data file
		if err := s.nm.Delete(types.NeedleId(k), types.ToOffset(offA+8*int64(len(s.hist)+4))); err != nil && judge {
			vs = append(vs, viol{class: s.kind + ":delete-error", msg: fmt.Sprintf("Delete(%d): %v", k, err), prune: true})
		}
		if e.present && !e.deleted {
			e.deleted = true
			s.over[k] = e
		}
	case "reopen", "reopen-regen":
		online := countersOf(s.nm)
		s.close()
		if err := s.open(op == "reopen-regen"); err != nil {
			s.nm = nil
			return []viol{{class: s.kind + ":" + reloadName(op) + "-error", msg: fmt.Sprintf("reload: %v", err), prune: true}}
		}
		if !judge {
			return nil
		}
		// "reproduces the same lookups": a lookup that was already wrong in the same way while running is not a reload failure
		badL := s.badLookups()
		for k, b := range badL {
			if was, ok := before[k]; ok && was.ref == b.ref && was.got == b.got {
				delete(badL, k)
			}
		}
		for k, b := range s.badPrefilled() {
			badL[k] = b
		}
		reloaded := countersOf(s.nm)
		badC := reloaded.judged() != online.judged()
		if len(badL) > 0 {
			shape, culprit := s.culprit(op, false)
			var msgs []string
			for _, k := range sortedKeys(badL) {
				msgs = append(msgs, badL[k].msg)
			}
			vs = append(vs, viol{class: fmt.Sprintf("%s:%s-lookup:after-%s", s.kind, reloadName(op), shape), prune: true,
				msg: fmt.Sprintf("after %s: %s (shortest failing prefix ends with %s)", op, strings.Join(msgs, "; "), culprit)})
		}
		if badC {
			shape, culprit := s.culprit(op, true)
			vs = append(vs, viol{class: fmt.Sprintf("%s:reload-counters:after-%s", s.kind, shape), prune: true,
				msg: fmt.Sprintf("after %s: %s; maintained while running: %s (shortest failing prefix ends with %s)", op, reloaded, online, culprit)})
		}
		return vs
	}
	if judge {
		// the memory kind's Get/Put/Delete delegate to CompactMap: its online lookup failures carry the compactmap name
		kind := s.kind
		if kind == "memory" {
			kind = "compactmap"
		}
		vs = append(vs, newBad(kind, shape, k, before, s.badLookups(), s.uni)...)
	}
	return vs
}

func reloadName(op string) string {
	if op == "reopen-regen" {
		return "reload-regen"
	}
	return "reload"
}

func sortedKeys(m map[uint64]badLookup) []uint64 {
	var ks []uint64
	for k := range m {
		ks = append(ks, k)
	}
	sort.Slice(ks, func(i, j int) bool { return ks[i] < ks[j] })
	return ks
}

func (s *nmSys) badLookups() map[uint64]badLookup {
	bad := map[uint64]badLookup{}
	if s.nm == nil {
		return bad
	}
	for _, k := range s.uni {
		e := s.refOf(k)
		nv, ok := s.nm.Get(types.NeedleId(k))
		if !lookupOK(e, nv, ok) {
			bad[k] = badLookup{ref: coarseRef(e), got: coarseGot(e, nv, ok),
				msg: fmt.Sprintf("Get(%d) = %s, reference: %s (key stored in %s)", k, gotStr(nv, ok), e, s.loc(k))}
		}
	}
	return bad
}

// badPrefilled: after a reload every prefilled key no event touched must come back.
func (s *nmSys) badPrefilled() map[uint64]badLookup {
	bad := map[uint64]badLookup{}
	s.pre.keys(func(k uint64) {
		if _, touched := s.over[k]; touched || len(bad) > 0 {
			return
		}
		e := refE{present: true, off: preOff(k), size: preSize(k)}
		nv, ok := s.nm.Get(types.NeedleId(k))
		if !lookupOK(e, nv, ok) {
			bad[k] = badLookup{ref: "live", got: coarseGot(e, nv, ok),
				msg: fmt.Sprintf("Get(%d) = %s for a key no event touched, reference: %s", k, gotStr(nv, ok), e)}
		}
	})
	return bad
}

// culprit finds the shortest prefix of the history after which the same kind of
// reload already fails in the same observable (lookups, or counter totals), and
// returns the shape of that prefix's last operation: the class of a reload
// violation is named after it.
func (s *nmSys) culprit(reopenOp string, byCounters bool) (shape, descr string) {
	hist := append([]string{}, s.hist[:len(s.hist)-1]...) // without the reopen itself
	h := &nmSys{kind: s.kind, pre: s.pre, uni: s.uni, dir: mc.TempDir("c05c")}
	defer h.destroy()
	var lastBefore refE
	n := firstFailing(len(hist), func(n int) bool {
		h.reset()
		for i, e := range hist[:n] {
			if i == n-1 {
				_, k, _ := parseEvent(e)
				lastBefore = h.refOf(k)
			}
			h.replay(e)
		}
		if h.nm == nil {
			return true
		}
		online := countersOf(h.nm)
		was := h.badLookups()
		h.close()
		if err := h.open(reopenOp == "reopen-regen"); err != nil {
			h.nm = nil
			return true
		}
		if byCounters {
			return countersOf(h.nm).judged() != online.judged()
		}
		for k, b := range h.badLookups() {
			if w, ok := was[k]; !ok || w.ref != b.ref || w.got != b.got {
				return true
			}
		}
		return len(h.badPrefilled()) > 0
	})
	switch {
	case n < 0:
		return "no-failing-prefix", "?"
	case n == 0:
		return "initial-state", "(nothing: the initial state already fails)"
	}
	op, _, size := parseEvent(hist[n-1])
	return opShape(op, size, lastBefore), fmt.Sprintf("#%d %s, whose key was %s", n, hist[n-1], lastBefore)
}

func (s *nmSys) canon() string {
	var sb strings.Builder
	if s.nm == nil {
		return "closed"
	}
	if m, ok := s.nm.(*storage.NeedleMap); ok {
		if cm := m.StorlibCompactMapV(); cm != nil {
			ids := make([]types.NeedleId, len(s.uni))
			for i, k := range s.uni {
				ids[i] = types.NeedleId(k)
			}
			sb.WriteString(cm.StorlibShapeV(ids))
		}
	}
	for _, k := range s.uni {
		nv, ok := s.nm.Get(types.NeedleId(k))
		if ok && nv != nil {
			fmt.Fprintf(&sb, "|%d=%d/%d", k, nv.Offset.ToActualOffset(), nv.Size)
		} else {
			fmt.Fprintf(&sb, "|%d=-", k)
		}
		e := s.refOf(k)
		fmt.Fprintf(&sb, "~%s/%d/%d", e.cat(), e.off, e.size)
	}
	return sb.String()
}
