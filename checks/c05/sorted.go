package c05

import (
	"fmt"
	"os"
	"path/filepath"
	"strings"
	"time"

	"verif/mc"

	"github.com/chrislusf/seaweedfs/weed/storage"
	"github.com/chrislusf/seaweedfs/weed/storage/types"
)

// sortedSys: a history is written through the memory-kind needle map (the
// volume while it was writable), "seal" reloads the index as the sorted-file
// needle map (the read-only volume), then sdel:<k> / sreopen / sreopen-regen
// operate on the sorted map.
type sortedSys struct {
	uni    []uint64
	dir    string
	mem    *storage.NeedleMap
	sm     *storage.SortedFileNeedleMap
	over   map[uint64]refE
	hist   []string
	online counters
}

func newSortedSys(uni []uint64) *sortedSys { return &sortedSys{uni: uni, dir: mc.TempDir("c05s")} }

func (s *sortedSys) base() string { return filepath.Join(s.dir, "1") }

func (s *sortedSys) reset() {
	s.close()
	os.Remove(s.base() + ".idx")
	os.Remove(s.base() + ".sdx")
	s.over = map[uint64]refE{}
	s.hist = s.hist[:0]
	f, err := os.OpenFile(s.base()+".idx", os.O_RDWR|os.O_CREATE, 0644)
	if err != nil {
		mc.Fatal("idx: %v", err)
	}
	s.mem = storage.NewCompactNeedleMap(f)
}

func (s *sortedSys) close() {
	if s.mem != nil {
		s.mem.Close()
		s.mem = nil
	}
	if s.sm != nil {
		s.sm.Close()
		s.sm = nil
	}
}
func (s *sortedSys) destroy()         { s.close(); os.RemoveAll(s.dir) }
func (s *sortedSys) events() []string { return nil }
func (s *sortedSys) canon() string    { return "" }

func (s *sortedSys) openSorted(regen bool) error {
	if regen {
		os.Remove(s.base() + ".sdx")
	} else {
		old := time.Now().Add(-time.Hour)
		os.Chtimes(s.base()+".idx", old, old)
	}
	f, err := os.OpenFile(s.base()+".idx", os.O_RDWR, 0644)
	if err != nil {
		mc.Fatal("idx: %v", err)
	}
	sm, err := storage.NewSortedFileNeedleMap(s.base(), f)
	if err != nil {
		f.Close()
		return err
	}
	s.sm = sm
	return nil
}

func (s *sortedSys) replay(ev string) { s.exec(ev, false) }

func (s *sortedSys) apply(ev string) []viol { return s.exec(ev, true) }

func (s *sortedSys) exec(ev string, judge bool) []viol {
	var vs []viol
	op, k, size := parseEvent(ev)
	e := s.over[k]
	s.hist = append(s.hist, ev)
	switch op {
	case "put":
		if s.mem == nil {
			return nil
		}
		off := nextOff(e, k)
		if err := s.mem.Put(types.NeedleId(k), types.ToOffset(off), types.Size(size)); err != nil {
			mc.Fatal("memory Put: %v", err)
		}
		s.over[k] = refE{present: true, off: off, size: size}
	case "del":
		if s.mem == nil {
			return nil
		}
		if err := s.mem.Delete(types.NeedleId(k), types.ToOffset(offA+8*int64(len(s.hist)+4))); err != nil {
			mc.Fatal("memory Delete: %v", err)
		}
		if e.present && !e.deleted {
			e.deleted = true
			s.over[k] = e
		}
	case "seal", "sreopen", "sreopen-regen":
		name := "load"
		if op == "seal" {
			if s.mem == nil {
				return nil
			}
			s.online = countersOf(s.mem)
			s.mem.Close()
			s.mem = nil
		} else {
			if s.sm == nil {
				return nil
			}
			name = "reload"
			if op == "sreopen-regen" {
				name = "reload-regen"
			}
			s.online = countersOf(s.sm)
			s.sm.Close()
			s.sm = nil
		}
		if err := s.openSorted(op != "sreopen"); err != nil {
			return []viol{{class: "sorted:" + name + "-error", msg: fmt.Sprintf("NewSortedFileNeedleMap: %v", err), prune: true}}
		}
		if !judge {
			return nil
		}
		if badL := s.badLookups(); len(badL) > 0 {
			shape, culprit := s.culprit(false)
			var msgs []string
			for _, k := range sortedKeys(badL) {
				msgs = append(msgs, badL[k].msg)
			}
			vs = append(vs, viol{class: fmt.Sprintf("sorted:%s-lookup:after-%s", name, shape), prune: true,
				msg: fmt.Sprintf("after %s: %s (shortest failing prefix ends with %s)", op, strings.Join(msgs, "; "), culprit)})
		}
		if reloaded := countersOf(s.sm); reloaded.judged() != s.online.judged() {
			shape, culprit := s.culprit(true)
			vs = append(vs, viol{class: fmt.Sprintf("sorted:%s-counters:after-%s", name, shape), prune: true,
				msg: fmt.Sprintf("sorted-file map after %s: %s; maintained while running: %s (shortest failing prefix ends with %s)", op, reloaded, s.online, culprit)})
		}
	case "sdel":
		if s.sm == nil {
			return nil
		}
		var before map[uint64]badLookup
		if judge {
			before = s.badLookups()
		}
		err := s.sm.Delete(types.NeedleId(k), types.ToOffset(offA+8*int64(len(s.hist)+4)))
		shape := opShape(op, size, e)
		if err != nil {
			// the lookups after a failed delete are not judged: the failure is the finding
			return []viol{{class: "sorted:delete-error", msg: fmt.Sprintf("SortedFileNeedleMap.Delete(%d) (%s; key was %s): %v", k, shape, e, err), prune: true}}
		}
		if e.present && !e.deleted {
			e.deleted = true
			s.over[k] = e
		}
		if judge {
			vs = append(vs, newBad("sorted", shape, k, before, s.badLookups(), s.uni)...)
		}
	}
	return vs
}

func (s *sortedSys) badLookups() map[uint64]badLookup {
	bad := map[uint64]badLookup{}
	if s.sm == nil {
		return bad
	}
	for _, k := range s.uni {
		e := s.over[k]
		nv, ok := s.sm.Get(types.NeedleId(k))
		if !lookupOK(e, nv, ok) {
			bad[k] = badLookup{ref: coarseRef(e), got: coarseGot(e, nv, ok), msg: fmt.Sprintf("Get(%d) = %s, reference: %s", k, gotStr(nv, ok), e)}
		}
	}
	return bad
}

// culprit: the shortest prefix of the history after which loading the index as
// a sorted-file map (the same way the failing step did) already fails in the
// same observable; returns the shape of that prefix's last operation.
func (s *sortedSys) culprit(byCounters bool) (shape, descr string) {
	hist := append([]string{}, s.hist[:len(s.hist)-1]...)
	last := s.hist[len(s.hist)-1]
	h := &sortedSys{uni: s.uni, dir: mc.TempDir("c05sc")}
	defer h.destroy()
	var lastBefore refE
	// a reopen of the sorted map is compared with the totals the sorted map itself held since it
	// was loaded: only prefixes that contain the seal are the same comparison
	minN := 0
	if last != "seal" {
		for i, e := range hist {
			if e == "seal" {
				minN = i + 1
			}
		}
	}
	n := firstFailing(len(hist), func(n int) bool {
		if n < minN {
			return false
		}
		h.reset()
		sealed := false
		for i, e := range hist[:n] {
			if i == n-1 {
				_, k, _ := parseEvent(e)
				lastBefore = h.over[k]
			}
			h.replay(e)
			if e == "seal" {
				sealed = true
			}
		}
		var online counters
		if !sealed {
			online = countersOf(h.mem)
			h.mem.Close()
			h.mem = nil
			if h.openSorted(true) != nil {
				return true
			}
		} else {
			if h.sm == nil {
				return true
			}
			online = countersOf(h.sm)
			h.sm.Close()
			h.sm = nil
			if h.openSorted(last != "sreopen") != nil {
				return true
			}
		}
		if byCounters {
			return countersOf(h.sm).judged() != online.judged()
		}
		return len(h.badLookups()) > 0
	})
	switch {
	case n < 0:
		return "no-failing-prefix", "?"
	case n == 0:
		return "initial-state", "(nothing: the initial state already fails)"
	}
	op, _, size := parseEvent(hist[n-1])
	return opShape(op, size, lastBefore), fmt.Sprintf("#%d %s, whose key was %s", n, hist[n-1], lastBefore)
}

// runPath executes a complete path; only the last step is judged (the shorter
// paths are cases of their own).  ok=false: an earlier step already diverged.
func runPath(s system, path []string) (vs []viol, ok bool) {
	s.reset()
	defer s.close()
	for i, e := range path {
		v := s.apply(e)
		if i == len(path)-1 {
			return v, true
		}
		for _, x := range v {
			if x.prune {
				return nil, false
			}
		}
	}
	return nil, true
}

func anyPrune(vs []viol) bool {
	for _, v := range vs {
		if v.prune {
			return true
		}
	}
	return false
}

// runPathQuietPrefix executes the prefix without judging and judges the last step.
func runPathQuietPrefix(s system, path []string) ([]viol, bool) {
	s.reset()
	defer s.close()
	for _, e := range path[:len(path)-1] {
		s.replay(e)
	}
	return s.apply(path[len(path)-1]), true
}

// sortedEnum: every history up to depth d over the key events, sealed; then
// every single deletion (and, thorough, every ordered pair) and both reopen kinds.
func sortedEnum(r *mc.Run, sub string, uni []uint64, depth int, pairs bool, workers int) {
	evs := keyEvents(uni)
	var hists [][]string
	mc.Sequences(len(evs), 0, depth, func(seq []int) bool {
		h := make([]string, len(seq))
		for i, x := range seq {
			h[i] = evs[x]
		}
		hists = append(hists, h)
		return true
	})
	type res struct {
		path []string
		vs   []viol
	}
	out := make([][]res, len(hists))
	mk := func() system { return newSortedSys(uni) }
	sys := make(chan system, workers)
	for i := 0; i < workers; i++ {
		sys <- mk()
	}
	r.Go(len(hists), workers, func(i int) {
		s := <-sys
		defer func() { sys <- s }()
		var paths [][]string
		dead := map[string]bool{} // prefixes of this history's paths that diverged
		base := append(append([]string{}, hists[i]...), "seal")
		paths = append(paths, base)
		for _, k := range uni {
			d1 := append(append([]string{}, base...), fmt.Sprintf("sdel:%d", k))
			paths = append(paths, d1)
			for _, ro := range []string{"sreopen", "sreopen-regen"} {
				paths = append(paths, append(append([]string{}, d1...), ro))
			}
			if pairs {
				for _, k2 := range uni {
					d2 := append(append([]string{}, d1...), fmt.Sprintf("sdel:%d", k2))
					paths = append(paths, d2)
					paths = append(paths, append(append([]string{}, d2...), "sreopen-regen"))
				}
			}
		}
		for pi, p := range paths {
			skip := false
			for l := len(base) + 1; l < len(p); l++ {
				if dead[strings.Join(p[:l], ",")] {
					skip = true
				}
			}
			if skip {
				continue
			}
			vs, ok := runPathQuietPrefix(s, p)
			if !ok {
				continue
			}
			out[i] = append(out[i], res{p, vs})
			if pi == 0 && anyPrune(vs) {
				break // the sealed state already diverges: nothing below it is judged
			}
			if anyPrune(vs) {
				dead[strings.Join(p, ",")] = true
			}
		}
	})
	close(sys)
	for s := range sys {
		s.destroy()
	}
	for i := range out {
		for _, x := range out[i] {
			r.AddTransitions(1)
			for _, v := range x.vs {
				report(r, build(), sub, x.path, v, mk)
			}
			r.Case(transitionClass(sub, x.path, x.vs))
		}
	}
}
