// Package c05: needle maps (CompactMap, memory / leveldb / sorted-file
// NeedleMapper) against a reference map, by explicit-state search over the real
// objects, from the empty map and from non-initial states built with the real
// section constants, in the 4-byte and the 5-byte offset builds.
package c05

import (
	"fmt"
	"os"
	"runtime"
	"runtime/pprof"
	"strings"
	"sync"
	"time"

	"verif/mc"
)

func Main() {
	mc.Main("C05", "model_checking",
		"explicit-state breadth-first search over real needle maps (replay from the initial state on a fresh instance for every transition): events put(key,size in {5,0,7}) / delete(key) / reopen over 3-7 keys (adjacent, out of order, 2^32 apart), every sequence executed up to the unmerged depth, then merged on a canonical form made of the real map's lookups + internal section/overflow layout + reference state; initial states: empty, a section filled with exactly `batch`=100000 keys, batch-1 keys, 1+300 descending keys (look-back insert + overflow), first key 5000 + 300 ascending keys (large section start); after every event all keys are looked up and compared with a reference map; delete return values and reload (lookups + FileCount/DeletedCount/ContentSize/DeletedSize) are compared; both offset widths; distinct = (sub-search, multiset of op kinds, last op, outcome)",
		run)
}

type subSearch struct {
	name     string // kind/initial-state
	kind     string // cm | memory | leveldb | sorted
	pre      string
	uni      []uint64
	unmerged int
	depth    int
	workers  int
	pairs    bool
}

func subs(r *mc.Run) []subSearch {
	p := prefills()
	q := r.Quick()
	pick := func(a, b []uint64) []uint64 {
		if q {
			return a
		}
		return b
	}
	d := r.Pick
	far := uint64(1<<32 + 2)
	all := []subSearch{
		{name: "compactmap/empty", kind: "cm", pre: "empty", uni: pick(p["empty"].uniQ, p["empty"].uniT), unmerged: 2, depth: d(4, 5), workers: 6},
		{name: "memory/empty", kind: "memory", pre: "empty", uni: pick(p["empty"].uniQ, p["empty"].uniT), unmerged: 2, depth: d(4, 5), workers: 6},
		{name: "leveldb/empty", kind: "leveldb", pre: "empty", uni: pick([]uint64{1, far}, []uint64{1, far, 2}), unmerged: d(2, 2), depth: d(3, 4), workers: 4},
		{name: "compactmap/batch", kind: "cm", pre: "batch", uni: pick(p["batch"].uniQ, p["batch"].uniT), unmerged: 2, depth: 3, workers: 4},
		{name: "compactmap/batch-1", kind: "cm", pre: "batch-1", uni: pick(p["batch-1"].uniQ, p["batch-1"].uniT), unmerged: 2, depth: 3, workers: 4},
		{name: "compactmap/desc", kind: "cm", pre: "desc", uni: pick(p["desc"].uniQ, p["desc"].uniT), unmerged: 2, depth: d(3, 4), workers: 4},
		{name: "memory/desc", kind: "memory", pre: "desc", uni: pick([]uint64{2, 301}, []uint64{2, 301, 599}), unmerged: 2, depth: d(4, 5), workers: 4},
		{name: "compactmap/high", kind: "cm", pre: "high", uni: pick(p["high"].uniQ, p["high"].uniT), unmerged: 2, depth: d(3, 4), workers: 4},
		{name: "memory/high", kind: "memory", pre: "high", uni: pick(p["high"].uniQ, p["high"].uniT[:4]), unmerged: 2, depth: d(3, 4), workers: 4},
		{name: "sorted/empty", kind: "sorted", pre: "empty", uni: pick([]uint64{1, far}, []uint64{2, 1, far}), depth: d(2, 3), workers: 4, pairs: !q},
	}
	if !q {
		all = append(all, subSearch{name: "memory/batch", kind: "memory", pre: "batch", uni: []uint64{3, 2*batch + 1}, unmerged: 2, depth: 4, workers: 4})
	}
	return all
}

func (s subSearch) mk() func() system {
	pre := prefills()[s.pre]
	switch s.kind {
	case "cm":
		return func() system { return newCmSys(pre, s.uni) }
	case "memory", "leveldb":
		return func() system { return newNmSys(s.kind, pre, s.uni) }
	case "sorted":
		return func() system { return newSortedSys(s.uni) }
	}
	mc.Fatal("unknown kind %s", s.kind)
	return nil
}

func runSub(r *mc.Run, s subSearch) {
	if pf := os.Getenv("VERIF_C05_PROF"); pf != "" { // debugging aid
		f, _ := os.Create(pf)
		pprof.StartCPUProfile(f)
		defer pprof.StopCPUProfile()
	}
	t0 := time.Now()
	defer func() { r.Set(fmt.Sprintf("%s/%s wall_s", build(), s.name), int(time.Since(t0).Seconds())) }()
	if s.kind == "sorted" {
		sortedEnum(r, s.name, s.uni, s.depth, s.pairs, s.workers)
		r.Set(fmt.Sprintf("%s/%s", build(), s.name), fmt.Sprintf("every history to depth %d, sealed, every deletion (pairs=%v), both reopen kinds", s.depth, s.pairs))
		return
	}
	res := search(r, build(), s.name, s.mk(), s.unmerged, s.depth, s.workers)
	r.AddStates(res.states)
	r.AddTransitions(res.transitions)
	r.Set(fmt.Sprintf("%s/%s", build(), s.name), fmt.Sprintf("keys=%v unmerged_depth=%d depth_reached=%d of %d states=%d transitions=%d complete=%v",
		s.uni, s.unmerged, res.depth, s.depth, res.states, res.transitions, res.complete))
}

func run(r *mc.Run) {
	ss := subs(r)
	if only := os.Getenv("VERIF_C05_ONLY"); only != "" { // debugging aid: restrict to one sub-search
		var keep []subSearch
		for _, s := range ss {
			if s.name == only {
				keep = append(keep, s)
			}
		}
		ss = keep
	}
	if r.Replay != "" {
		replay(r, ss)
		return
	}
	r.Assume("counters are not part of the canonical state: beyond the unmerged depth the reload totals are compared on the representative (first found, shortest) path of every state; up to the unmerged depth on every path")
	r.Assume("`batch` (100000) and the 128-entry look-back are the real constants; the section-full / overflow boundaries are crossed from the prefilled initial states, not by constant scaling")
	r.Assume("MaxFileKey is observed but not judged (the statement names file/deletion counters and byte totals)")
	r.Assume("a deleted key may read as not found or as found with a deleted size; a never-inserted key must read as not found")
	exe5 := os.Getenv("VERIF_BIN_storlib5")
	body := func(shard, n int) {
		if os.Getenv("VERIF_CHILD_PHASE") != "" {
			runtime.GOMAXPROCS(ss[shard].workers)
		}
		if !r.Begin(map[string]interface{}{"build": build(), "sub": ss[shard].name}) {
			return
		}
		runSub(r, ss[shard])
	}
	var wg sync.WaitGroup
	wg.Add(2)
	go func() { defer wg.Done(); r.Parallel("4byte", len(ss), body) }()
	go func() { defer wg.Done(); r.ParallelExe(exe5, "5byte", len(ss), body) }()
	wg.Wait()
	r.Sample("history", witness{Build: "4byte", Sub: "memory/empty", Path: []string{"put:3:5", "put:1:7", "put:2:0", "del:3", "reopen"}})
	r.Sample("history", witness{Build: "5byte", Sub: "compactmap/desc", Path: []string{"put:301:5", "put:301:7", "del:301", "del:301"}})
	r.Sample("history", witness{Build: "4byte", Sub: "sorted/empty", Path: []string{"put:1:5", "put:2:7", "seal", "sdel:1", "sreopen"}})
}

func replay(r *mc.Run, ss []subSearch) {
	var w witness
	if err := r.ReplayCase(&w); err != nil {
		mc.Fatal("replay: %v", err)
	}
	one := func(shard, n int) {
		if w.Build != build() {
			mc.Fatal("replay of a %s case in the %s build", w.Build, build())
		}
		var sub *subSearch
		for i := range ss {
			if ss[i].name == w.Sub {
				sub = &ss[i]
			}
		}
		if sub == nil {
			mc.Fatal("unknown sub-search %q", w.Sub)
		}
		if len(w.Path) == 0 { // crash journal form: the whole sub-search
			runSub(r, *sub)
			return
		}
		// the universe of the recorded tier may be larger than this tier's: take every key of the path
		uni := append([]uint64{}, sub.uni...)
		for _, e := range w.Path {
			_, k, _ := parseEvent(e)
			found := strings.HasPrefix(e, "reopen") || e == "seal" || strings.HasPrefix(e, "sreopen")
			for _, u := range uni {
				if u == k {
					found = true
				}
			}
			if !found {
				uni = append(uni, k)
			}
		}
		sub.uni = uni
		mk := sub.mk()
		s := mk()
		defer s.destroy()
		vs, ok := runPath(s, w.Path)
		if !ok {
			mc.Fatal("replay: an earlier step of the path already diverges")
		}
		for _, v := range vs {
			r.Violate(v.class, v.msg, w, nil)
		}
		r.Case(transitionClass(sub.name, w.Path, vs))
	}
	if w.Build == "5byte" {
		// runs in (a worker of) the 5-byte twin binary
		r.ParallelExe(os.Getenv("VERIF_BIN_storlib5"), "5byte", 1, one)
		return
	}
	one(0, 1)
}
