package c35

// The concurrent-schedules half of C35 (coordinator's part).  It must run in the
// `sched` group binary (vid_map.go rewritten: RWMutex and the cursor atomics are
// scheduling points, and LookupVolumeServerUrl/GetLocations get statement-level
// yield points so that an update can land between two iterations of the
// reader's loop over the slice it obtained under the read lock).

import (
	"fmt"
	"sort"
	"strconv"
	"strings"

	"verif/mc"
	"verif/shim/vsched"

	"github.com/chrislusf/seaweedfs/weed/wdclient"
)

type schedScenario struct {
	Initial []int    `json:"initial"` // urls present for vid 1 at the start (indices)
	Writer  []string `json:"writer"`  // "add:i" / "del:i" on vid 1
	Readers int      `json:"readers"`
	Choices []int    `json:"choices,omitempty"`
}

type lookupObs struct {
	reader int
	callV  int // writer version at call
	retV   int // writer version at return
	urls   []string
	err    string
}

func schedExecute(sc schedScenario, out *[]lookupObs, versions *[][]string) {
	vm := wdclient.NewVidMapV("dc1")
	loc := func(i int) wdclient.Location {
		dc := "dc1"
		if i%2 == 1 {
			dc = "dc2"
		}
		return wdclient.Location{Url: urls[i], PublicUrl: urls[i], DataCenter: dc}
	}
	cur := map[int]bool{}
	var order []int
	for _, i := range sc.Initial {
		vm.AddLocationV(1, loc(i))
		cur[i] = true
		order = append(order, i)
	}
	snapshot := func() []string {
		var s []string
		for _, i := range order {
			if cur[i] {
				s = append(s, urls[i])
			}
		}
		sort.Strings(s)
		return s
	}
	*versions = append(*versions, snapshot())
	version := 0
	done := 0
	vsched.Go(func() {
		for _, w := range sc.Writer {
			parts := strings.Split(w, ":")
			i, _ := strconv.Atoi(parts[1])
			if parts[0] == "add" {
				vm.AddLocationV(1, loc(i))
				if !cur[i] {
					cur[i] = true
					order = append(order, i)
				}
			} else {
				vm.DeleteLocationV(1, loc(i))
				if cur[i] {
					cur[i] = false
					var no []int
					for _, x := range order {
						if x != i {
							no = append(no, x)
						}
					}
					order = no
				}
			}
			version++
			*versions = append(*versions, snapshot())
		}
		done++
	})
	for rd := 0; rd < sc.Readers; rd++ {
		rd := rd
		vsched.Go(func() {
			for k := 0; k < 2; k++ {
				o := lookupObs{reader: rd, callV: version}
				u, err := vm.LookupVolumeServerUrl("1")
				o.retV = version
				o.urls = append([]string{}, u...)
				if err != nil {
					o.err = "not-found"
				}
				*out = append(*out, o)
			}
			done++
		})
	}
	vsched.PointWhen("join", func() bool { return done == 1+sc.Readers })
}

// judgeLookup: the result must be duplicate free and equal (as a set) to the
// location set at some version between call and return; same-DC (dc1 = even
// indices) urls first.
func judgeLookup(o lookupObs, versions [][]string) (string, string) {
	seen := map[string]bool{}
	for _, u := range o.urls {
		if seen[u] {
			return "concurrent-lookup:duplicated-entry", fmt.Sprintf("reader %d got %v", o.reader, o.urls)
		}
		seen[u] = true
	}
	got := append([]string{}, o.urls...)
	sort.Strings(got)
	ok := false
	for v := o.callV; v <= o.retV && v < len(versions); v++ {
		want := versions[v]
		if o.err != "" {
			// not-found is legal only when the volume had no entry... the map keeps an empty slice after deletes,
			// in which case an empty result without error is returned; both count as "no locations"
			if len(want) == 0 {
				ok = true
			}
			continue
		}
		if fmt.Sprint(got) == fmt.Sprint(want) {
			ok = true
		}
	}
	if !ok {
		return "concurrent-lookup:not-a-state-between-call-and-return", fmt.Sprintf("reader %d got %v err=%q; states between call and return: %v", o.reader, o.urls, o.err, versions[o.callV:minInt(o.retV+1, len(versions))])
	}
	// same-DC first
	firstOther := -1
	for i, u := range o.urls {
		same := u == urls[0] || u == urls[2]
		if !same && firstOther < 0 {
			firstOther = i
		}
		if same && firstOther >= 0 {
			return "concurrent-lookup:same-dc-not-first", fmt.Sprintf("reader %d got %v", o.reader, o.urls)
		}
	}
	return "", ""
}

func minInt(a, b int) int {
	if a < b {
		return a
	}
	return b
}

// Schedules explores the scenarios; it is the body of the "sched" phase and runs
// inside the sched group binary.
func Schedules(r *mc.Run, shard, n int) {
	bound := r.Pick(2, 3)
	var all []schedScenario
	writers := [][]string{{"del:0"}, {"del:1"}, {"add:2"}, {"del:0", "add:0"}, {"del:1", "add:2"}, {"add:2", "del:0"}, {"del:0", "del:1"}, {"del:1", "del:0", "add:1"}, {"add:2", "del:1", "del:2"}}
	for _, init := range [][]int{{0, 1}, {0, 1, 2}, {1}} {
		for _, w := range writers {
			for readers := 1; readers <= 2; readers++ {
				if r.Quick() && (readers == 2 && len(w) > 2) {
					continue
				}
				all = append(all, schedScenario{Initial: init, Writer: w, Readers: readers})
			}
		}
	}
	r.Set("sched_preemption_bound", bound)
	r.Set("sched_scenarios", len(all))
	for i, sc := range all {
		if i%n != shard || !r.Begin(sc) {
			continue
		}
		if r.Expired() {
			r.NotExhaustive("wall-clock budget: not all schedule scenarios explored")
			break
		}
		b := bound
		if sc.Readers == 2 {
			b--
		}
		var obs []lookupObs
		var versions [][]string
		results := map[string]bool{}
		st := mc.Explore(b, 5000, nil,
			func() { obs = nil; versions = nil; schedExecute(sc, &obs, &versions) },
			func(x *mc.Exec) {
				w := sc
				w.Choices = append([]int{}, x.Choices...)
				if x.Sched.Outcome != "" {
					r.Violate("sched-"+strings.SplitN(x.Sched.Outcome, ":", 2)[0], x.Sched.Outcome, w, nil)
					return
				}
				for _, o := range obs {
					results[fmt.Sprint(o.urls, o.err)] = true
					if cl, msg := judgeLookup(o, versions); cl != "" {
						r.Violate(cl, msg, map[string]interface{}{"kind": "schedule", "scenario": w}, nil)
						break
					}
				}
			}, r.Expired)
		if !st.Complete {
			r.NotExhaustive("wall-clock budget inside a schedule scenario")
		}
		r.Cases(st.Executions)
		r.AddStates(st.Executions)
		r.AddTransitions(st.Points + st.Executions)
		r.Add("sched_executions", st.Executions)
		r.Distinct(fmt.Sprintf("sched|init=%v|writer=%v|readers=%d|results=%d", sc.Initial, sc.Writer, sc.Readers, len(results)))
		r.Sample("schedule", map[string]interface{}{"initial": sc.Initial, "writer": sc.Writer, "readers": sc.Readers, "executions": st.Executions, "distinct_lookup_results": len(results)})
	}
}

// ReplaySchedule re-executes one recorded schedule case.
func ReplaySchedule(r *mc.Run) bool {
	var w struct {
		Kind     string        `json:"kind"`
		Scenario schedScenario `json:"scenario"`
	}
	if err := r.ReplayCase(&w); err != nil || w.Kind != "schedule" {
		return false
	}
	mc.ReexecIn("VERIF_BIN_sched") // schedules only make sense in the overlay build
	var obs []lookupObs
	var versions [][]string
	x, _ := mc.RunOne(w.Scenario.Choices, nil, 5000, nil, func() { obs = nil; versions = nil; schedExecute(w.Scenario, &obs, &versions) })
	if x.Sched.Outcome != "" {
		r.Violate("sched-"+strings.SplitN(x.Sched.Outcome, ":", 2)[0], x.Sched.Outcome, w, nil)
		return true
	}
	for _, o := range obs {
		if cl, msg := judgeLookup(o, versions); cl != "" {
			r.Violate(cl, msg, w, nil)
			break
		}
	}
	return true
}

// SchedOnlyMain runs only the schedules half (debug aid: `bin/sched C35S quick`).
func SchedOnlyMain() {
	mc.Main("C35", "model_checking", "schedules half only (debug)", func(r *mc.Run) {
		mc.QuietGlog()
		r.WorkerProcs = 1
		r.Parallel("sched", 16, func(shard, n int) { Schedules(r, shard, n) })
	})
}
